import SgModel.Driver.Util
import SgModel.Model.SnapJson
/-!
Driver for the snapshot model (C12, C13).  One request per line, one reply per line.

  rt <st>                                   -> ok <st'> <stats>     import ∅ (export st), repaired model
  rtlegacy <st>                             -> ok|err <st'> <stats> same, model of the pinned tree
  export <st>                               -> ok <lines>           what the exporter writes (as JSON values)
  spec-rt <src-st> <dst-st>                 -> ok | viol <where>    C12 specification on observations
  imp <keys> <hdr> <st> <lines>             -> ok|err <st'> <stats> import_tenant_with_dedup, repaired model
  implegacy <keys> <hdr> <st> <lines>       -> ok|err <st'> <stats> model of the pinned tree (no journal)
  spec-imp <keys> <hdr> <st> <lines> <ok|err> <post-st>  -> ok | viol <where>   C13 specification
  codec <pv>                                -> ok <j> <pv'>         enc, then dec (enc v)
  snapok <pv>                               -> ok 1|0

Text forms (no spaces inside a token):
  pv    := z | b0 | b1 | i<int> | f<hex> | s<hex> | t<int> | a(<pv>,…) | m(<hex>:<pv>,…)
         | v(<hex>,…) | d(<int>,<int>,<int>,<int>)
  j     := z | b0 | b1 | i<int> | f<hex> | s<hex> | a(<j>,…) | o(<hex>:<j>,…)
  strs  := - | x<hex>(,x<hex>)*
  st    := <nodes>|<edges>|<lidx>|<hier>|<nextNode>.<nextEdge>
  nodes := - | node(+node)*     node := <id>;<strs>;m(…);m(…);<hist>      hist := - | m(…)(/m(…))*
  edges := - | edge(+edge)*     edge := <id>;<src>;<tgt>;x<hex>;m(…)
  lidx  := - | ent(+ent)*       ent  := x<hex>;<id>(,<id>)*
  hier  := - | h(+h)*           h    := x<hex>;<strs>;0|1;<ostr>;<ostr>;<strs>     ostr := - | x<hex>
  lines := - | l(+l)*           l    := <j> | !          (! = unreadable line / reader error)
  stats := <nodes>.<edges>.<merged>.<hier>
Output stores are canonical: ids renamed to ranks, labels / keys / index entries sorted.
-/
open SgModel SgModel.Driver SgModel.SnapJson

/-! ### parsing -/

def hexNat? (cs : List Char) : Option Nat :=
  cs.foldlM (fun acc c => (hexVal? c).map (fun d => acc * 16 + d)) 0

def hexStr? : List Char → Option Str
  | [] => some []
  | [_] => none
  | a :: b :: r => do
      let x ← hexVal? a
      let y ← hexVal? b
      let t ← hexStr? r
      pure ((x * 16 + y) :: t)

def isHexC (c : Char) : Bool := (hexVal? c).isSome

def intOfChars? (cs : List Char) : Option Int := parseInt? (String.ofList cs)

/-- split off the longest prefix satisfying `p` -/
def spanC (p : Char → Bool) : List Char → List Char × List Char
  | [] => ([], [])
  | c :: r => if p c then let (a, b) := spanC p r; (c :: a, b) else ([], c :: r)

def isIntC (c : Char) : Bool := c == '-' || c.isDigit

mutual
partial def pPV (cs : List Char) : Option (PV × List Char) :=
  match cs with
  | 'z' :: r => some (.null, r)
  | 'b' :: '0' :: r => some (.bool false, r)
  | 'b' :: '1' :: r => some (.bool true, r)
  | 'i' :: r => let (d, r') := spanC isIntC r; (intOfChars? d).map (fun i => (.int i, r'))
  | 't' :: r => let (d, r') := spanC isIntC r; (intOfChars? d).map (fun i => (.dt i, r'))
  | 'f' :: r => let (d, r') := spanC isHexC r; (hexNat? d).map (fun n => (.flt n, r'))
  | 's' :: r => let (d, r') := spanC isHexC r; (hexStr? d).map (fun s => (.str s, r'))
  | 'a' :: '(' :: r => do let (l, r') ← pPVs r; pure (.arr l, r')
  | 'm' :: '(' :: r => do let (l, r') ← pKVs r; pure (.map l, r')
  | 'v' :: '(' :: r => do let (l, r') ← pHexes r; pure (.vec l, r')
  | 'd' :: '(' :: r =>
      let (body, r') := spanC (· != ')') r
      match (String.ofList body).splitOn ",", r' with
      | [a, b, c, d], ')' :: r'' => do
          pure (.dur (← parseInt? a) (← parseInt? b) (← parseInt? c) (← parseInt? d), r'')
      | _, _ => none
  | _ => none
partial def pPVs (cs : List Char) : Option (List PV × List Char) :=
  match cs with
  | ')' :: r => some ([], r)
  | _ => do
      let (v, r) ← pPV cs
      match r with
      | ',' :: r' => do let (l, r'') ← pPVs r'; pure (v :: l, r'')
      | ')' :: r' => pure ([v], r')
      | _ => none
partial def pKVs (cs : List Char) : Option (List (Str × PV) × List Char) :=
  match cs with
  | ')' :: r => some ([], r)
  | _ =>
      let (k, r) := spanC isHexC cs
      match r with
      | ':' :: r1 => do
          let key ← hexStr? k
          let (v, r2) ← pPV r1
          match r2 with
          | ',' :: r3 => do let (l, r4) ← pKVs r3; pure ((key, v) :: l, r4)
          | ')' :: r3 => pure ([(key, v)], r3)
          | _ => none
      | _ => none
partial def pHexes (cs : List Char) : Option (List Nat × List Char) :=
  match cs with
  | ')' :: r => some ([], r)
  | _ =>
      let (d, r) := spanC isHexC cs
      match hexNat? d, r with
      | some n, ',' :: r' => do let (l, r'') ← pHexes r'; pure (n :: l, r'')
      | some n, ')' :: r' => some ([n], r')
      | _, _ => none
end

mutual
partial def pJ (cs : List Char) : Option (J × List Char) :=
  match cs with
  | 'z' :: r => some (.null, r)
  | 'b' :: '0' :: r => some (.bool false, r)
  | 'b' :: '1' :: r => some (.bool true, r)
  | 'i' :: r => let (d, r') := spanC isIntC r; (intOfChars? d).map (fun i => (.int i, r'))
  | 'f' :: r => let (d, r') := spanC isHexC r; (hexNat? d).map (fun n => (.flt n, r'))
  | 's' :: r => let (d, r') := spanC isHexC r; (hexStr? d).map (fun s => (.str s, r'))
  | 'a' :: '(' :: r => do let (l, r') ← pJs r; pure (.arr l, r')
  | 'o' :: '(' :: r => do let (l, r') ← pJKVs r; pure (.obj l, r')
  | _ => none
partial def pJs (cs : List Char) : Option (List J × List Char) :=
  match cs with
  | ')' :: r => some ([], r)
  | _ => do
      let (v, r) ← pJ cs
      match r with
      | ',' :: r' => do let (l, r'') ← pJs r'; pure (v :: l, r'')
      | ')' :: r' => pure ([v], r')
      | _ => none
partial def pJKVs (cs : List Char) : Option (List (Str × J) × List Char) :=
  match cs with
  | ')' :: r => some ([], r)
  | _ =>
      let (k, r) := spanC isHexC cs
      match r with
      | ':' :: r1 => do
          let key ← hexStr? k
          let (v, r2) ← pJ r1
          match r2 with
          | ',' :: r3 => do let (l, r4) ← pJKVs r3; pure ((key, v) :: l, r4)
          | ')' :: r3 => pure ([(key, v)], r3)
          | _ => none
      | _ => none
end

def parsePV? (s : String) : Option PV :=
  match pPV s.toList with
  | some (v, []) => some v
  | _ => none

def parseProps? (s : String) : Option (List (Str × PV)) :=
  match parsePV? s with
  | some (.map l) => some l
  | _ => none

def parseJ? (s : String) : Option J :=
  match pJ s.toList with
  | some (v, []) => some v
  | _ => none

def parseX? (s : String) : Option Str :=
  match s.toList with
  | 'x' :: r => hexStr? r
  | _ => none

def parseStrs? (s : String) : Option (List Str) :=
  if s == "-" then some [] else (s.splitOn ",").mapM parseX?

def parseOStr? (s : String) : Option (Option Str) :=
  if s == "-" then some none else (parseX? s).map some

def listOf? {α : Type} (sep : String) (p : String → Option α) (s : String) : Option (List α) :=
  if s == "-" then some [] else (s.splitOn sep).mapM p

def parseNode? (s : String) : Option NodeS :=
  match s.splitOn ";" with
  | [id, ls, row, col, hist] => do
      pure { id := ← id.toNat?, labels := ← parseStrs? ls, row := ← parseProps? row,
             col := ← parseProps? col, hist := ← listOf? "/" parseProps? hist }
  | _ => none

def parseEdge? (s : String) : Option EdgeS :=
  match s.splitOn ";" with
  | [id, a, b, ty, ps] => do
      pure { id := ← id.toNat?, src := ← a.toNat?, tgt := ← b.toNat?, ty := ← parseX? ty,
             props := ← parseProps? ps }
  | _ => none

def parseLidx? (s : String) : Option (Str × List Nat) :=
  match s.splitOn ";" with
  | [l, ids] => do pure (← parseX? l, ← (ids.splitOn ",").mapM (·.toNat?))
  | _ => none

def parseHier? (s : String) : Option HierS :=
  match s.splitOn ";" with
  | [n, ts, r, ml, mp, ops] => do
      let rev ← (if r == "1" then some true else if r == "0" then some false else none)
      pure { name := ← parseX? n, types := ← parseStrs? ts, reverse := rev, mlabel := ← parseOStr? ml,
             mprop := ← parseOStr? mp, ops := ← parseStrs? ops }
  | _ => none

def parseSt? (s : String) : Option St :=
  match s.splitOn "|" with
  | [ns, es, lx, hs, nx] =>
      match nx.splitOn "." with
      | [a, b] => do
          pure { nodes := ← listOf? "+" parseNode? ns, edges := ← listOf? "+" parseEdge? es,
                 lidx := ← listOf? "+" parseLidx? lx, hier := ← listOf? "+" parseHier? hs,
                 nextNode := ← a.toNat?, nextEdge := ← b.toNat? }
      | _ => none
  | _ => none

/-- a line: a JSON value (then routed and decoded by the model) or `!` -/
def parseLine? (s : String) : Option Line :=
  if s == "!" then some .bad else (parseJ? s).map parseLine

def parseLines? (s : String) : Option (List Line) := listOf? "+" parseLine? s

/-! ### printing (canonical) -/

def hexOfStr (s : Str) : String := String.join (s.map (fun n => hexOfByte (UInt8.ofNat n)))

def hexOfNat (n : Nat) : String := String.ofList (Nat.toDigits 16 n)

def strLt : Str → Str → Bool
  | [], [] => false
  | [], _ :: _ => true
  | _ :: _, [] => false
  | a :: r, b :: t => if a < b then true else if b < a then false else strLt r t

def insertBy {α : Type} (lt : α → α → Bool) (x : α) : List α → List α
  | [] => [x]
  | y :: r => if lt x y then x :: y :: r else y :: insertBy lt x r

def sortBy {α : Type} (lt : α → α → Bool) (l : List α) : List α := l.foldl (fun acc x => insertBy lt x acc) []

def commaOrEmpty (xs : List String) : String := joinWith "," xs

mutual
partial def showPV : PV → String
  | .null => "z"
  | .bool b => if b then "b1" else "b0"
  | .int i => s!"i{i}"
  | .flt b => "f" ++ hexOfNat b
  | .str s => "s" ++ hexOfStr s
  | .dt i => s!"t{i}"
  | .arr l => "a(" ++ commaOrEmpty (l.map showPV) ++ ")"
  | .map kvs => showProps kvs
  | .vec l => "v(" ++ commaOrEmpty (l.map hexOfNat) ++ ")"
  | .dur a b c d => s!"d({a},{b},{c},{d})"
partial def showProps (kvs : List (Str × PV)) : String :=
  "m(" ++ commaOrEmpty ((sortBy (fun a b => strLt a.1 b.1) kvs).map
    (fun kv => hexOfStr kv.1 ++ ":" ++ showPV kv.2)) ++ ")"
end

mutual
partial def showJ : J → String
  | .null => "z"
  | .bool b => if b then "b1" else "b0"
  | .int i => s!"i{i}"
  | .flt b => "f" ++ hexOfNat b
  | .str s => "s" ++ hexOfStr s
  | .arr l => "a(" ++ commaOrEmpty (l.map showJ) ++ ")"
  | .obj kvs => "o(" ++ commaOrEmpty ((sortBy (fun a b => strLt a.1 b.1) kvs).map
      (fun kv => hexOfStr kv.1 ++ ":" ++ showJ kv.2)) ++ ")"
end

def dashOr (sep : String) (xs : List String) : String := if xs.isEmpty then "-" else joinWith sep xs

def showStrs (l : List Str) : String := dashOr "," (l.map (fun s => "x" ++ hexOfStr s))
def showSortedStrs (l : List Str) : String := showStrs (sortBy strLt l)
def showOStr : Option Str → String
  | none => "-"
  | some s => "x" ++ hexOfStr s

/-- ids → ranks; labels, keys, index entries sorted; hierarchy declarations sorted by name -/
def showSt (st : St) : String :=
  let ids := nodeIds st
  let rk := fun id => rank ids id
  let eids := st.edges.map (·.id)
  let nodes := st.nodes.map (fun n =>
    s!"{rk n.id};{showSortedStrs n.labels};{showProps n.row};{showProps n.col};-")
  let edges := st.edges.map (fun e =>
    s!"{rank eids e.id};{rk e.src};{rk e.tgt};x{hexOfStr e.ty};{showProps e.props}")
  let lidx := (sortBy (fun a b => strLt a.1 b.1) (st.lidx.filter (fun e => !e.2.isEmpty))).map (fun e =>
    "x" ++ hexOfStr e.1 ++ ";" ++ joinWith "," ((sortBy (fun a b => decide (a < b)) (e.2.map rk)).map toString))
  let hier := (sortBy (fun a b => strLt a.name b.name) st.hier).map (fun h =>
    s!"x{hexOfStr h.name};{showStrs h.types};{if h.reverse then 1 else 0};{showOStr h.mlabel};{showOStr h.mprop};{showStrs h.ops}")
  dashOr "+" nodes ++ "|" ++ dashOr "+" edges ++ "|" ++ dashOr "+" lidx ++ "|" ++ dashOr "+" hier
    ++ s!"|{st.nodes.length}.{st.edges.length}"

def showStats : Option Stats → String
  | some s => s!"{s.nodes}.{s.edges}.{s.merged}.{s.hier}"
  | none => "-"

def showResult (r : St × Option Stats) : String :=
  (if r.2.isSome then "ok " else "err ") ++ showSt r.1 ++ " " ++ showStats r.2

/-! ### where a specification fails -/

def firstBadNode : List LNode → List LNode → Nat → Option Nat
  | [], [], _ => none
  | a :: as, b :: bs, k => if nodeEqv a b then firstBadNode as bs (k + 1) else some k
  | _, _, k => some k

def whereLg (a b : LG) : Option String :=
  match firstBadNode a.nodes b.nodes 0 with
  | some k => some s!"node:{k}"
  | none =>
    if !matchAll edgeEqv a.edges b.edges then some "edges"
    else if !matchAll hierEqv a.hier b.hier then some "hier"
    else none

def specRtWhere (src dst : St) : String :=
  match whereLg (logical src) (logical dst) with
  | some w => "viol " ++ w
  | none => if lidxOk dst then (if specRoundTrip src dst then "ok" else "viol spec") else "viol lidx"

def specImpWhere (ks hdr : List Str) (pre : St) (lines : List Line) (ok : Bool) (post : St) : String :=
  if specImport ks hdr pre lines ok post then "ok"
  else if ok then
    match mergeSpec ks hdr pre lines with
    | none => "viol ok-but-spec-fails"
    | some want =>
      match whereLg (logical want) (logical post) with
      | some w => "viol ok:" ++ w
      | none => "viol ok:lidx"
  else
    match whereLg (logical pre) (logical post) with
    | some w => "viol err:" ++ w
    | none => "viol err:lidx"

def handle (_ : Unit) (line : String) : Unit × String :=
  match tokens line with
  | ["noop"] => ((), "ok")
  | ["rt", st] => match parseSt? st with
      | some g => ((), showResult (importLines false true [] [] {} (exportLines false g)))
      | none => ((), "bad-op")
  | ["rtlegacy", st] => match parseSt? st with
      | some g => ((), showResult (importJ true false [] [] {} (exportJ true g)))
      | none => ((), "bad-op")
  | ["export", st] => match parseSt? st with
      | some g => ((), "ok " ++ dashOr "+" ((exportJ false g).map showJ))
      | none => ((), "bad-op")
  | ["spec-rt", a, b] => match parseSt? a, parseSt? b with
      | some x, some y => ((), specRtWhere x y)
      | _, _ => ((), "bad-op")
  | ["imp", ks, hdr, st, ls] => match parseStrs? ks, parseStrs? hdr, parseSt? st, parseLines? ls with
      | some k, some h, some g, some l =>
          -- also report how many records had taken the merge path when the fold stopped
          let s0 : Imp := { st := g, dedup := if k.isEmpty then [] else prepopulate k h g }
          let merged := (foldLines false true k s0 l).1.nMerged
          ((), showResult (importLines false true k h g l) ++ s!" merged={merged}")
      | _, _, _, _ => ((), "bad-op")
  | ["implegacy", ks, hdr, st, ls] => match parseStrs? ks, parseStrs? hdr, parseSt? st, parseLines? ls with
      | some k, some h, some g, some l => ((), showResult (importLines true false k h g l))
      | _, _, _, _ => ((), "bad-op")
  | ["spec-imp", ks, hdr, st, ls, okS, post] =>
      match parseStrs? ks, parseStrs? hdr, parseSt? st, parseLines? ls, parseSt? post with
      | some k, some h, some g, some l, some p =>
          if okS == "ok" then ((), specImpWhere k h g l true p)
          else if okS == "err" then ((), specImpWhere k h g l false p)
          else ((), "bad-op")
      | _, _, _, _, _ => ((), "bad-op")
  | ["codec", v] => match parsePV? v with
      | some x => ((), "ok " ++ showJ (enc false x) ++ " " ++ showPV (dec false (enc false x)))
      | none => ((), "bad-op")
  | ["snapok", v] => match parsePV? v with
      | some x => ((), if snapOk x then "ok 1" else "ok 0")
      | none => ((), "bad-op")
  | _ => ((), "bad-op")

def main : IO Unit := runDriver () handle
