import SgModel.Driver.Util
import SgModel.Model.TenantKV
/-!
Driver for the TenantKV model (C17).  Requests (one whole case per line):

  run    <ops>            -> ok <obs>;<obs>;…      (repaired model; one observation per op)
  legacy <ops>            -> ok <obs>;…            (model of the pinned tree)
  spec   <ops> <obs>;…    -> ok | viol <k>         (S on *given* observations)
  create <names>          -> ok <0|1>,<0|1>,…      (TenantManager::create_tenant on a fresh manager, in order)

  ops := op(;op)*   op := pn:<t>:<id>:<tag> | dn:<t>:<id> | pe:<t>:<id>:<tag> | de:<t>:<id>
  <t> := lowercase hex of the tenant name's UTF-8 bytes, `-` for the empty name
  obs := <ok>|<scansN>|<scansE>|<getsN>|<getsE>|<tenants>
     scans   := sc(,sc)*    sc := E | ~ | <id>.<tag>(+<id>.<tag>)*      per probed tenant
     gets    := g(,g)*      g := E | _ | <id>.<tag>                      per probed (tenant,id)
     tenants := ~ | <t>(,<t>)*   sorted bytewise
Probes: tenants = all tenants of the case in order of first appearance, ids = all ids likewise.
-/
open SgModel SgModel.Driver SgModel.TenantKV

def parseName? (s : String) : Option Bytes := (bytesOfHex? s).map (·.map (·.toNat))
def showName (b : Bytes) : String := hexOrDash (b.map (fun n => UInt8.ofNat n))

def parseOp? (s : String) : Option Op :=
  match s.splitOn ":" with
  | ["pn", t, i, g] => do pure (.putNode (← parseName? t) (← i.toNat?) (← g.toNat?))
  | ["dn", t, i] => do pure (.delNode (← parseName? t) (← i.toNat?))
  | ["pe", t, i, g] => do pure (.putEdge (← parseName? t) (← i.toNat?) (← g.toNat?))
  | ["de", t, i] => do pure (.delEdge (← parseName? t) (← i.toNat?))
  | _ => none

def parseOps? (s : String) : Option (List Op) := (s.splitOn ";").mapM parseOp?

def dedupKeepB (l : List Bytes) : List Bytes :=
  (l.foldl (fun (acc : List Bytes) x => if acc.contains x then acc else x :: acc) []).reverse
def dedupKeepN (l : List Nat) : List Nat :=
  (l.foldl (fun (acc : List Nat) x => if acc.contains x then acc else x :: acc) []).reverse

def opId : Op → Nat
  | .putNode _ i _ => i | .delNode _ i => i | .putEdge _ i _ => i | .delEdge _ i => i

def probesOf (ops : List Op) : Probes :=
  { tenants := dedupKeepB (ops.map Op.tenant), ids := dedupKeepN (ops.map opId) }

def insertB (x : Bytes) : List Bytes → List Bytes
  | [] => [x]
  | y :: ys => if bytesLt y x then y :: insertB x ys else x :: y :: ys
def sortB (l : List Bytes) : List Bytes := l.foldr insertB []

def showVal (v : Val) : String := s!"{v.id}.{v.tag}"
def showScan : Option (List Val) → String
  | none => "E"
  | some [] => "~"
  | some vs => joinWith "+" (vs.map showVal)
def showGet : Option (Option Val) → String
  | none => "E"
  | some none => "_"
  | some (some v) => showVal v

def showObs (o : Obs) : String :=
  (if o.ok then "1" else "0") ++ "|" ++ joinWith "," (o.scansN.map showScan) ++ "|"
  ++ joinWith "," (o.scansE.map showScan) ++ "|" ++ joinWith "," (o.getsN.map showGet) ++ "|"
  ++ joinWith "," (o.getsE.map showGet) ++ "|"
  ++ (if o.tenants.isEmpty then "~" else joinWith "," ((sortB o.tenants).map showName))

def parseVal? (s : String) : Option Val :=
  match s.splitOn "." with
  | [i, g] => do pure ⟨← i.toNat?, ← g.toNat?⟩
  | _ => none
def parseScan? (s : String) : Option (Option (List Val)) :=
  if s == "E" then some none else if s == "~" then some (some [])
  else ((s.splitOn "+").mapM parseVal?).map some
def parseGet? (s : String) : Option (Option (Option Val)) :=
  if s == "E" then some none else if s == "_" then some (some none)
  else (parseVal? s).map (fun v => some (some v))

def parseObs? (s : String) : Option Obs :=
  match s.splitOn "|" with
  | [ok, sn, se, gn, ge, ts] => do
      let okb ← (if ok == "1" then some true else if ok == "0" then some false else none)
      let scansN ← (sn.splitOn ",").mapM parseScan?
      let scansE ← (se.splitOn ",").mapM parseScan?
      let getsN ← (gn.splitOn ",").mapM parseGet?
      let getsE ← (ge.splitOn ",").mapM parseGet?
      let tenants ← (if ts == "~" then some [] else (ts.splitOn ",").mapM parseName?)
      pure { ok := okb, scansN, scansE, getsN, getsE, tenants }
  | _ => none

def trace (legacy : Bool) (ops : List Op) : List Obs :=
  let p := probesOf ops
  (ops.foldl (fun (acc : State × List Obs) op =>
      let r := if legacy then stepWith (fun _ => true) acc.1 op else stepWith accepts acc.1 op
      (r.1, (if legacy then obsLegacy r.1 p r.2 else obs r.1 p r.2) :: acc.2)) (({} : State), [])).2.reverse

def firstViolation (ops : List Op) (os : List Obs) : Option Nat :=
  let p := probesOf ops
  let rec go (k : Nat) (m : Ref) : List Op → List Obs → Option Nat
    | op :: ops, o :: os =>
        let m' := m.step op o.ok
        if specObs m' p o then go (k + 1) m' ops os else some k
    | _, _ => none
  go 0 [] ops os

def createAll (names : List Bytes) : List Bool :=
  (names.foldl (fun (acc : List Bytes × List Bool) t =>
      let r := createTenant accepts acc.1 t
      (if r then t :: acc.1 else acc.1, r :: acc.2)) ([defaultTenant], [])).2.reverse

def handle (_ : Unit) (line : String) : Unit × String :=
  match tokens line with
  | ["run", ops] => match parseOps? ops with
      | some l => ((), "ok " ++ joinWith ";" ((trace false l).map showObs))
      | none => ((), "bad-op")
  | ["legacy", ops] => match parseOps? ops with
      | some l => ((), "ok " ++ joinWith ";" ((trace true l).map showObs))
      | none => ((), "bad-op")
  | ["spec", ops, os] => match parseOps? ops, (os.splitOn ";").mapM parseObs? with
      | some l, some o =>
          if l.length != o.length then ((), "bad-op")
          else match firstViolation l o with
            | none => ((), "ok")
            | some k => ((), s!"viol {k}")
      | _, _ => ((), "bad-op")
  | ["create", names] => match (names.splitOn ",").mapM parseName? with
      | some l => ((), "ok " ++ joinWith "," ((createAll l).map (fun b => if b then "1" else "0")))
      | none => ((), "bad-op")
  | _ => ((), "bad-op")

def main : IO Unit := runDriver () handle
