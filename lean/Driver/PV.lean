import SgModel.Driver.Util
import SgModel.Model.PV
/-!
Driver for the PropertyValue model (C10).  One request per line:

  run    <vals>                       -> ok <cmpM> <eqM> <cyM> <hash>;<hash>;…   (repaired code)
  legacy <vals>                       -> same, model of the pinned tree
  spec   <vals> <cmpM> <eqM> <cyM> <hashEqM>
                                      -> ok | viol <sig>:<i>.<j>.<k> …  (first witness per signature)
  sort   <vals>                       -> ok <i>,<i>,…     (indices in ascending model order, stable)
  range  <lo>;<hi>;<vals>             -> ok <i>,…         (indices (into vals) with lo ≤ v ≤ hi) or `-`
  cast   <int>,<int>,…                -> ok <16 hex>,…    (F64.cast: the model of `i64 as f64`)

  vals  := val(;val)*
  val   := n | b0 | b1 | i<int> | f<16 hex> | s<hex bytes> | t<int> | d<int>_<int>_<int>_<int>
         | v[<8 hex>(.<8 hex>)*] | a[val(,val)*] | a[] | m{<hexkey>:val(,<hexkey>:val)*} | m{}
  matrices are row-major n×n strings over l/e/g (orderings) or 0/1 (booleans)
  hash  := word(,word)*   word := i32:<int> | i64:<int> | u64:<nat> | u32:<nat> | u8:<nat> | usz:<nat> | b:<hex>
-/
open SgModel SgModel.Driver SgModel.PV

instance : Inhabited PV := ⟨.null⟩

def isHex (c : Char) : Bool := (hexVal? c).isSome

def takeHex (cs : List Char) : List Char × List Char := (cs.takeWhile isHex, cs.dropWhile isHex)

def hexNat (cs : List Char) : Nat := cs.foldl (fun a c => a * 16 + (hexVal? c).getD 0) 0

def hexBytes? (cs : List Char) : Option (List Nat) := (bytesOfHexChars cs).map (·.map (·.toNat))

def isIntCh (c : Char) : Bool := c == '-' || c.isDigit

def takeInt? (cs : List Char) : Option (Int × List Char) :=
  let d := cs.takeWhile isIntCh
  (parseInt? (String.ofList d)).map (fun i => (i, cs.dropWhile isIntCh))

/-- map keys must be strictly ascending (the canonical form of a hash map) -/
def keysAscending : List (List Nat) → Bool
  | a :: b :: rest => cmpLex cmpNat a b == .lt && keysAscending (b :: rest)
  | _ => true

def mkArr : List PV → PVs
  | [] => .nil
  | x :: xs => .cons x (mkArr xs)
def mkMap : List (List Nat × PV) → PVm
  | [] => .nil
  | (k, v) :: m => .cons k v (mkMap m)

mutual
partial def parseVal (cs : List Char) : Option (PV × List Char) :=
  match cs with
  | 'n' :: r => some (.null, r)
  | 'b' :: '0' :: r => some (.bool false, r)
  | 'b' :: '1' :: r => some (.bool true, r)
  | 'i' :: r => (takeInt? r).map (fun (i, r) => (.int i, r))
  | 't' :: r => (takeInt? r).map (fun (i, r) => (.dt i, r))
  | 'f' :: r =>
    let (h, r) := takeHex r
    if h.length == 16 then some (.flt (hexNat h), r) else none
  | 's' :: r =>
    let (h, r) := takeHex r
    (hexBytes? h).map (fun b => (.str b, r))
  | 'd' :: r => do
    let (a, r) ← takeInt? r
    let r ← (match r with | '_' :: r => some r | _ => none)
    let (b, r) ← takeInt? r
    let r ← (match r with | '_' :: r => some r | _ => none)
    let (c, r) ← takeInt? r
    let r ← (match r with | '_' :: r => some r | _ => none)
    let (d, r) ← takeInt? r
    pure (.dur a b c d, r)
  | 'v' :: '[' :: ']' :: r => some (.vec [], r)
  | 'v' :: '[' :: r => parseLanes r []
  | 'a' :: '[' :: ']' :: r => some (.arr .nil, r)
  | 'a' :: '[' :: r => parseElems r []
  | 'm' :: '{' :: '}' :: r => some (.map .nil, r)
  | 'm' :: '{' :: r => parseEntries r []
  | _ => none
partial def parseLanes (cs : List Char) (acc : List Nat) : Option (PV × List Char) :=
  let (h, r) := takeHex cs
  if h.length != 8 then none else
  match r with
  | '.' :: r => parseLanes r (hexNat h :: acc)
  | ']' :: r => some (.vec (hexNat h :: acc).reverse, r)
  | _ => none
partial def parseElems (cs : List Char) (acc : List PV) : Option (PV × List Char) :=
  match parseVal cs with
  | some (v, ',' :: r) => parseElems r (v :: acc)
  | some (v, ']' :: r) => some (.arr (mkArr (v :: acc).reverse), r)
  | _ => none
partial def parseEntries (cs : List Char) (acc : List (List Nat × PV)) : Option (PV × List Char) :=
  let (h, r) := takeHex cs
  match hexBytes? h, r with
  | some k, ':' :: r =>
    match parseVal r with
    | some (v, ',' :: r) => parseEntries r ((k, v) :: acc)
    | some (v, '}' :: r) =>
      let es := ((k, v) :: acc).reverse
      if keysAscending (es.map (·.1)) then some (.map (mkMap es), r) else none
    | _ => none
  | _, _ => none
end

def parseOne? (s : String) : Option PV :=
  match parseVal s.toList with
  | some (v, []) => some v
  | _ => none

def parseVals? (s : String) : Option (List PV) := (s.splitOn ";").mapM parseOne?

def ordCh : Ordering → Char
  | .lt => 'l'
  | .eq => 'e'
  | .gt => 'g'
def chOrd? : Char → Option Ordering
  | 'l' => some .lt
  | 'e' => some .eq
  | 'g' => some .gt
  | _ => none
def chBool? : Char → Option Bool
  | '0' => some false
  | '1' => some true
  | _ => none

def matrix {α : Type} (f : PV → PV → α) (ch : α → Char) (vs : Array PV) : String :=
  String.ofList (vs.toList.flatMap (fun a => vs.toList.map (fun b => ch (f a b))))

def hexOfNats (bs : List Nat) : String := hexOfBytes (bs.map UInt8.ofNat)

def showHW : HW → String
  | .i32 v => s!"i32:{v}"
  | .i64 v => s!"i64:{v}"
  | .u64 v => s!"u64:{v}"
  | .u32 v => s!"u32:{v}"
  | .u8 v => s!"u8:{v}"
  | .usize v => s!"usz:{v}"
  | .bytes b => "b:" ++ hexOfNats b

def runWith (c cy : PV → PV → Ordering) (l : List PV) : String :=
  let vs := l.toArray
  "ok " ++ matrix c ordCh vs ++ " " ++ matrix beq (fun b => if b then '1' else '0') vs ++ " "
    ++ matrix cy ordCh vs ++ " " ++ joinWith ";" (l.map (fun v => joinWith "," ((hashKey v).map showHW)))

/-! the specification evaluated on *given* observations -/

mutual
def hasNegNaN : PV → Bool
  | .flt b => F64.isNaN b && F64.isNeg b
  | .arr xs => hasNegNaNArr xs
  | .map m => hasNegNaNMap m
  | _ => false
def hasNegNaNArr : PVs → Bool
  | .nil => false
  | .cons x xs => hasNegNaN x || hasNegNaNArr xs
def hasNegNaNMap : PVm → Bool
  | .nil => false
  | .cons _ v m => hasNegNaN v || hasNegNaNMap m
end

structure ObsM where
  n : Nat
  cmp : Array Ordering
  eq : Array Bool
  cy : Array Ordering
  heq : Array Bool

def ObsM.c (o : ObsM) (i j : Nat) : Ordering := o.cmp.getD (i * o.n + j) .eq
def ObsM.e (o : ObsM) (i j : Nat) : Bool := o.eq.getD (i * o.n + j) false
def ObsM.y (o : ObsM) (i j : Nat) : Ordering := o.cy.getD (i * o.n + j) .eq
def ObsM.h (o : ObsM) (i j : Nat) : Bool := o.heq.getD (i * o.n + j) false

/-- record the first witness of each signature -/
def note (acc : List (String × String)) (sig : String) (w : String) : List (String × String) :=
  if acc.any (·.1 == sig) then acc else acc ++ [(sig, w)]

def specAll (vs : Array PV) (o : ObsM) : List (String × String) := Id.run do
  let n := o.n
  let mut acc : List (String × String) := []
  for i in [0:n] do
    let a := vs[i]!
    if !lawRefl (o.c i i) then acc := note acc "ord-refl" s!"{i}.{i}.{i}"
    if !lawRefl (o.y i i) then acc := note acc "cypher-refl" s!"{i}.{i}.{i}"
    for j in [0:n] do
      let b := vs[j]!
      if !lawSwap (o.c i j) (o.c j i) then acc := note acc "ord-antisym" s!"{i}.{j}.{j}"
      if !lawSwap (o.y i j) (o.y j i) then acc := note acc "cypher-antisym" s!"{i}.{j}.{j}"
      if !lawEqOrd (o.c i j) (o.e i j) then
        let sig :=
          if o.c i j == .eq && !o.e i j && same a b && !noNaN a then "eq-ord-nan"
          else if o.e i j && o.c i j != .eq && noNaN a && same (normZero a) (normZero b) && !same a b
            then "eq-ord-signed-zero"
          else "eq-ord"
        acc := note acc sig s!"{i}.{j}.{j}"
      if !lawOrdIdent (o.c i j) (same a b) then acc := note acc "ord-equal-not-identical" s!"{i}.{j}.{j}"
      if !lawOrdHash (o.c i j) (o.h i j) then acc := note acc "ord-equal-hash-differs" s!"{i}.{j}.{j}"
      if !lawEqHash (o.e i j) (o.h i j) then
        let sig :=
          if same (normZero a) (normZero b) && !same a b then "eq-hash-signed-zero" else "eq-hash"
        acc := note acc sig s!"{i}.{j}.{j}"
      for k in [0:n] do
        if !lawTrans (o.c i j) (o.c j k) (o.c i k) then
          let sig := if hasNegNaN a || hasNegNaN b || hasNegNaN vs[k]! then "ord-trans-neg-nan" else "ord-trans"
          acc := note acc sig s!"{i}.{j}.{k}"
        if !lawTrans (o.y i j) (o.y j k) (o.y i k) then
          let sig := if hasNegNaN a || hasNegNaN b || hasNegNaN vs[k]! then "cypher-trans-neg-nan" else "cypher-trans"
          acc := note acc sig s!"{i}.{j}.{k}"
  return acc

def parseObs? (n : Nat) (c e y h : String) : Option ObsM := do
  let cm ← c.toList.mapM chOrd?
  let em ← e.toList.mapM chBool?
  let ym ← y.toList.mapM chOrd?
  let hm ← h.toList.mapM chBool?
  if cm.length == n * n && em.length == n * n && ym.length == n * n && hm.length == n * n then
    pure { n, cmp := cm.toArray, eq := em.toArray, cy := ym.toArray, heq := hm.toArray }
  else none

/-- stable insertion sort of indices by the model order -/
def insertIdx (vs : Array PV) (i : Nat) : List Nat → List Nat
  | [] => [i]
  | j :: rest => if cmp vs[i]! vs[j]! == .lt then i :: j :: rest else j :: insertIdx vs i rest

def sortIdx (vs : Array PV) : List Nat :=
  (List.range vs.size).foldl (fun acc i => insertIdx vs i acc) []

def showIdx (l : List Nat) : String := if l.isEmpty then "-" else joinWith "," (l.map toString)

def handle (_ : Unit) (line : String) : Unit × String :=
  match tokens line with
  | ["run", vs] => match parseVals? vs with
      | some l => ((), runWith cmp cypherOrder l)
      | none => ((), "bad-op")
  | ["legacy", vs] => match parseVals? vs with
      | some l => ((), runWith cmpLegacy cypherOrderLegacy l)
      | none => ((), "bad-op")
  | ["spec", vs, c, e, y, h] => match parseVals? vs with
      | some l => match parseObs? l.length c e y h with
        | some o =>
          match specAll l.toArray o with
          | [] => ((), "ok")
          | v => ((), "viol " ++ joinWith " " (v.map (fun (s, w) => s ++ ":" ++ w)))
        | none => ((), "bad-op")
      | none => ((), "bad-op")
  | ["sort", vs] => match parseVals? vs with
      | some l => ((), "ok " ++ showIdx (sortIdx l.toArray))
      | none => ((), "bad-op")
  | ["range", vs] => match parseVals? vs with
      | some (lo :: hi :: l) =>
        let idx := (List.range l.length).filter (fun i =>
          let v := l.toArray[i]!
          cmp lo v != .gt && cmp v hi != .gt)
        ((), "ok " ++ showIdx idx)
      | _ => ((), "bad-op")
  | ["cast", is] => match (is.splitOn ",").mapM parseInt? with
      | some l => ((), "ok " ++ joinWith "," (l.map (fun i =>
          let b := F64.cast i
          hexOfNats ((List.range 8).reverse.map (fun k => b / 256 ^ k % 256)))))
      | none => ((), "bad-op")
  | _ => ((), "bad-op")

def main : IO Unit := runDriver () handle
