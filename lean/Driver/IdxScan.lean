import SgModel.Driver.Util
import SgModel.Model.IdxScan
/-!
Driver for the C02 model (`SgModel.IdxScan`).  One request line per case:

  run    <ops> <queries>          -> ok <bag>;<bag>;…     model (`planRows`, code after the fixes)
  legacy <ops> <queries>          -> ok <bag>;…           model of the pinned tree
  spec   <ops> <queries> <obs>    -> ok | viol <k>        S on the implementation's rows of query k
  cmp    <op> <val> <val>         -> ok t|f               `cmpCy`
  scan   <ops> <label> <key> <op> <val> -> ok <ids>       raw `indexScan` of that index (sorted), `noindex` if none

  ops     := - | op(;op)*
  op      := c:<id>:<labels> | s:<id>:<key>:<val> | r:<id>:<key> | d:<id> | al:<id>:<l> | rl:<id>:<l>
           | ci:<l>:<k> | di:<l>:<k> | ce:<id>:<src>:<dst>:<ty> | de:<id>
  labels  := - | n(.n)*
  val     := n | bt | bf | i<int> | f<halves> | z (-0.0) | N (NaN) | s<hex> | l | l<int>(.<int>)*
  queries := query(;query)*
  query   := <label>|<preds>|<ret>|<hop>
  preds   := - | pred(&pred)*      pred := <key>,<eq|lt|le|gt|ge>,<val> | <key>,in,<val>(+<val>)*
  ret     := p<key> | c            hop := - | <ty>,<o|i>,<tlabel>
  bag     := - | row(/row)*        row := <val>(,<val>)*
-/
open SgModel SgModel.Driver SgModel.IdxScan

def parseInts? (s : String) : Option (List Int) :=
  if s.isEmpty then some [] else (s.splitOn ".").mapM parseInt?

def parseVal? (s : String) : Option Val :=
  if s == "n" then some .null
  else if s == "bt" then some (.bool true)
  else if s == "bf" then some (.bool false)
  else if s == "z" then some .nzero
  else if s == "N" then some .nan
  else if s.startsWith "i" then (parseInt? (s.drop 1).toString).map .int
  else if s.startsWith "f" then (parseInt? (s.drop 1).toString).map .flt
  else if s.startsWith "s" then
    (bytesOfHexChars (s.drop 1).toString.toList).map (fun bs => .str (bs.map (fun b => Int.ofNat b.toNat)))
  else if s.startsWith "l" then (parseInts? (s.drop 1).toString).map .lst
  else none

def showInts (l : List Int) : String := joinWith "." (l.map toString)

def showVal : Val → String
  | .null => "n"
  | .bool true => "bt"
  | .bool false => "bf"
  | .int i => s!"i{i}"
  | .flt h => s!"f{h}"
  | .nzero => "z"
  | .nan => "N"
  | .str s => "s" ++ hexOfBytes (s.map (fun c => UInt8.ofNat c.toNat))
  | .lst l => "l" ++ showInts l

def parseLabels? (s : String) : Option (List Nat) :=
  if s == "-" then some [] else (s.splitOn ".").mapM (·.toNat?)

def parseOp? (s : String) : Option Op :=
  match s.splitOn ":" with
  | ["c", id, ls] => do pure (.create (← id.toNat?) (← parseLabels? ls))
  | ["s", id, k, v] => do pure (.setProp (← id.toNat?) (← k.toNat?) (← parseVal? v))
  | ["r", id, k] => do pure (.removeProp (← id.toNat?) (← k.toNat?))
  | ["d", id] => do pure (.delete (← id.toNat?))
  | ["al", id, l] => do pure (.addLabel (← id.toNat?) (← l.toNat?))
  | ["rl", id, l] => do pure (.removeLabel (← id.toNat?) (← l.toNat?))
  | ["ci", l, k] => do pure (.createIndex (← l.toNat?) (← k.toNat?))
  | ["di", l, k] => do pure (.dropIndex (← l.toNat?) (← k.toNat?))
  | ["ce", id, a, b, t] => do pure (.createEdge (← id.toNat?) (← a.toNat?) (← b.toNat?) (← t.toNat?))
  | ["de", id] => do pure (.deleteEdge (← id.toNat?))
  | _ => none

def parseOps? (s : String) : Option (List Op) :=
  if s == "-" then some [] else (s.splitOn ";").mapM parseOp?

def parseCmpOp? : String → Option CmpOp
  | "eq" => some .eq | "lt" => some .lt | "le" => some .le | "gt" => some .gt | "ge" => some .ge
  | _ => none

def parsePred? (s : String) : Option Pred :=
  match s.splitOn "," with
  | [k, "in", vs] => do pure (.inl (← k.toNat?) (← (vs.splitOn "+").mapM parseVal?))
  | [k, op, v] => do pure (.cmp (← k.toNat?) (← parseCmpOp? op) (← parseVal? v))
  | _ => none

def parseQuery? (s : String) : Option Query :=
  match s.splitOn "|" with
  | [l, ps, r, h] => do
    let label ← l.toNat?
    let preds ← if ps == "-" then some [] else (ps.splitOn "&").mapM parsePred?
    let ret ← if r == "c" then some Ret.count
              else if r.startsWith "p" then ((r.drop 1).toString.toNat?).map Ret.prop else none
    let hop ← if h == "-" then some none else
      match h.splitOn "," with
      | [ty, d, tl] => do
        let out ← if d == "o" then some true else if d == "i" then some false else none
        pure (some (← ty.toNat?, out, ← tl.toNat?))
      | _ => none
    pure { label, preds, ret, hop }
  | _ => none

def parseQueries? (s : String) : Option (List Query) := (s.splitOn ";").mapM parseQuery?

def showBag (rs : List (List Val)) : String :=
  if rs.isEmpty then "-" else joinWith "/" ((sortRows rs).map (fun r => joinWith "," (r.map showVal)))

def parseBag? (s : String) : Option (List (List Val)) :=
  if s == "-" then some [] else (s.splitOn "/").mapM (fun r => (r.splitOn ",").mapM parseVal?)

def firstViol (s : St) : Nat → List Query → List (List (List Val)) → Option Nat
  | k, q :: qs, o :: os => if specObs s q o then firstViol s (k + 1) qs os else some k
  | _, _, _ => none

def sortNats (l : List Nat) : List Nat :=
  l.foldr (fun x acc => (acc.filter (· < x)) ++ [x] ++ (acc.filter (fun y => !(y < x)))) []

def handle (_ : Unit) (line : String) : Unit × String :=
  match tokens line with
  | ["run", ops, qs] => match parseOps? ops, parseQueries? qs with
    | some l, some q => let s := run l
      ((), "ok " ++ joinWith ";" (q.map (fun x => showBag (planRows s x))))
    | _, _ => ((), "bad-op")
  | ["legacy", ops, qs] => match parseOps? ops, parseQueries? qs with
    | some l, some q => let s := runLegacy l
      ((), "ok " ++ joinWith ";" (q.map (fun x => showBag (planRowsLegacy s x))))
    | _, _ => ((), "bad-op")
  | ["spec", ops, qs, obs] => match parseOps? ops, parseQueries? qs, (obs.splitOn ";").mapM parseBag? with
    | some l, some q, some o =>
      if q.length != o.length then ((), "bad-op")
      else match firstViol (run l) 0 q o with
        | none => ((), "ok")
        | some k => ((), s!"viol {k}")
    | _, _, _ => ((), "bad-op")
  | ["cmp", op, a, b] => match parseCmpOp? op, parseVal? a, parseVal? b with
    | some o, some x, some y => ((), if cmpCy o x y then "ok t" else "ok f")
    | _, _, _ => ((), "bad-op")
  | ["scan", ops, l, k, op, v] =>
    match parseOps? ops, l.toNat?, k.toNat?, parseCmpOp? op, parseVal? v with
    | some os, some l, some k, some o, some v =>
      let s := run os
      match s.ixs.find? (fun ix => ix.label == l && ix.key == k) with
      | some ix => ((), "ok " ++ showList ((sortNats (indexScan ix.tree o v)).map toString))
      | none => ((), "noindex")
    | _, _, _, _, _ => ((), "bad-op")
  | _ => ((), "bad-op")

def main : IO Unit := runDriver () handle
