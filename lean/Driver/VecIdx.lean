import SgModel.Driver.Util
import SgModel.Model.VecIdx
/-!
Driver for the vector-index model (C29).  Requests (one per line):

  run    <ops>                 -> ok <ans>;<ans>;…    one answer per search op (model, repaired)
  legacy <ops>                 -> ok <ids>;<ids>;…    (model of the pinned tree, exact path)
  spec   <ops> <obs>;<obs>;…   -> ok <n-ranked> <n-liveonly> | viol <j> <part>
                                  S evaluated on the *given* observations, one per search op

  ops := op(;op)*
  op  := x:<dim>.<c|l|i> | n:<0|1>:<vec|_> | s:<h>:<vec|_> | r:<h> | a:<h> | u:<h> | d:<h>
       | q:<k>:<vec>:<raw|_>
  vec := int(,int)*            raw := id(,id)*   (the ids HNSW returned; used above 128 entries)
  ans := <class>|<ids>|<nodes>|<size>     ids := - | id(,id)*
  obs := <ids>|<nodes>                    nodes := - | node(+node)*   node := <id>:<0|1>:<vec|_>
  class: 2 unique answer, 1 exact ties only, 0 a near-tie (ranking not comparable in f32)
-/
open SgModel SgModel.Driver SgModel.VecIdx

def parseVec? (s : String) : Option Vec := (s.splitOn ",").mapM parseInt?
def parseOVec? (s : String) : Option (Option Vec) := if s == "_" then some none else (parseVec? s).map some
def parseNats? (s : String) : Option (List Nat) := if s == "_" || s == "-" then some [] else (s.splitOn ",").mapM (·.toNat?)

inductive Cmd where
  | op (o : Op)
  | query (k : Nat) (q : Vec) (raw : List Nat)

def parseCmd? (s : String) : Option Cmd :=
  match s.splitOn ":" with
  | ["x", a] => match a.splitOn "." with
      | [d, "c"] => do pure (.op (.mkIndex (← d.toNat?) .cosine))
      | [d, "l"] => do pure (.op (.mkIndex (← d.toNat?) .l2))
      | [d, "i"] => do pure (.op (.mkIndex (← d.toNat?) .ip))
      | _ => none
  | ["n", l, v] => do
      let inL ← (if l == "1" then some true else if l == "0" then some false else none)
      pure (.op (.create inL (← parseOVec? v)))
  | ["s", h, v] => do pure (.op (.setVec (← h.toNat?) (← parseOVec? v)))
  | ["r", h] => do pure (.op (.removeVec (← h.toNat?)))
  | ["a", h] => do pure (.op (.addLabel (← h.toNat?)))
  | ["u", h] => do pure (.op (.removeLabel (← h.toNat?)))
  | ["d", h] => do pure (.op (.delete (← h.toNat?)))
  | ["q", k, v, raw] => do pure (.query (← k.toNat?) (← parseVec? v) (← parseNats? raw))
  | _ => none

def parseCmds? (s : String) : Option (List Cmd) := (s.splitOn ";").mapM parseCmd?

def showVec (v : Vec) : String := joinWith "," (v.map toString)
def showIds (l : List Nat) : String := if l.isEmpty then "-" else joinWith "," (l.map toString)
def showONode (x : ONode) : String :=
  s!"{x.id}:{if x.inL then 1 else 0}:{match x.vec with | some v => showVec v | none => "_"}"
def showNodes (l : List ONode) : String := if l.isEmpty then "-" else joinWith "+" (l.map showONode)

def parseONode? (s : String) : Option ONode :=
  match s.splitOn ":" with
  | [i, l, v] => do
      let inL ← (if l == "1" then some true else if l == "0" then some false else none)
      pure { id := ← i.toNat?, inL, vec := ← parseOVec? v }
  | _ => none

def parseObs? (s : String) : Option (List Nat × List ONode) :=
  match s.splitOn "|" with
  | [ids, ns] => do
      let r ← parseNats? ids
      let nodes ← (if ns == "-" then some [] else (ns.splitOn "+").mapM parseONode?)
      pure (r, nodes)
  | _ => none

def runModel (cmds : List Cmd) : List String :=
  (cmds.foldl (fun (acc : State × List String) c =>
    match c with
    | .op o => (step acc.1 o, acc.2)
    | .query k q raw =>
      let s := acc.1
      let nodes := obsNodes s
      let (cls, size) := match s.idx with
        | some ix => (queryClass nodes ix.dim ix.metric q, ix.entries.length)
        | none => (2, 0)
      let ids := (search s q k raw).map (·.node)
      (s, s!"{cls}|{showIds ids}|{showNodes nodes}|{size}" :: acc.2)) (({} : State), [])).2.reverse

def runLegacyModel (cmds : List Cmd) : List String :=
  (cmds.foldl (fun (acc : State × List String) c =>
    match c with
    | .op o => (stepLegacy acc.1 o, acc.2)
    | .query k q _ => (acc.1, showIds ((searchLegacy acc.1 q k).map (·.node)) :: acc.2))
    (({} : State), [])).2.reverse

/-- S on the given observations: the declared index is the one of the latest CREATE VECTOR
INDEX statement in the history -/
def specAll (cmds : List Cmd) (obs : List (List Nat × List ONode)) : Except String (Nat × Nat) :=
  let rec go (j ranked liveonly : Nat) (decl : Option (Nat × Metric)) :
      List Cmd → List (List Nat × List ONode) → Except String (Nat × Nat)
    | [], _ => .ok (ranked, liveonly)
    | .op (.mkIndex d m) :: rest, os => go j ranked liveonly (some (d, m)) rest os
    | .op _ :: rest, os => go j ranked liveonly decl rest os
    | .query k q _ :: rest, (r, nodes) :: os =>
      match decl with
      | none => if r.isEmpty then go (j+1) ranked liveonly decl rest os else .error s!"viol {j} no-index"
      | some (d, m) =>
        if q.length ≠ d then .error s!"viol {j} bad-query"
        else if !specLive nodes d r then .error s!"viol {j} live"
        else if queryClass nodes d m q = 0 then go (j+1) ranked (liveonly+1) decl rest os
        else if specSearch nodes d m q k r then go (j+1) (ranked+1) liveonly decl rest os
        else .error s!"viol {j} rank"
    | .query .. :: _, [] => .error "bad-op"
  go 0 0 0 none cmds obs

def handle (_ : Unit) (line : String) : Unit × String :=
  match tokens line with
  | ["run", ops] => match parseCmds? ops with
      | some l => ((), "ok " ++ joinWith ";" (runModel l))
      | none => ((), "bad-op")
  | ["legacy", ops] => match parseCmds? ops with
      | some l => ((), "ok " ++ joinWith ";" (runLegacyModel l))
      | none => ((), "bad-op")
  | ["spec", ops, os] => match parseCmds? ops, (os.splitOn ";").mapM parseObs? with
      | some l, some o => match specAll l o with
          | .ok (a, b) => ((), s!"ok {a} {b}")
          | .error e => ((), e)
      | _, _ => ((), "bad-op")
  | _ => ((), "bad-op")

def main : IO Unit := runDriver () handle
