import SgModel.Driver.Util
import SgModel.Model.Column
/-!
Driver for the Column model (C30), instantiated with the concrete policy of the code
(`rustPolicy`).  Requests (one per line, one whole case per line):

  run  <ops>              -> ok <obs>;<obs>;…     one observation per op
  spec <ops> <obs>;…      -> ok | viol <k>        S (reference map) on *given* observations

  ops := op(;op)*   op := s<row>.<key>.<val> | r<row>.<key> | c<row> | O
                          | q<row>.<key>.<val>            quiet set: executed, no observation
                          | F<start>.<count>.<key>.<kind>.<off>   quiet sets of a run of rows (see fillVal?)
                          | P<row>                        probe: observation of <row>, nothing executed
  (observations are numbered over the non-quiet items only)
  val := i<int> | f<bits> | s<tag> | b0 | b1 | n | o<tag>
  obs := <gets>|<keys>|<lens>|<dense>
     gets  := val(,val)*                 get_property for the probed cells
     keys  := ks(,ks)*   ks := <key>(.<key>)* | -     get_property_keys per probed row
     lens  := (<n>|_)(,…)*               Column::len per key of the case (not part of S)
     dense := string of 0/1/_ per key     Column::is_dense (never compared)

Probes (computed identically by the harness): keys = all keys of the case in order of first
appearance; after an op on row r: cells = {r-1, r, r+1} × keys, rows = [r]; after `O`: rows =
all rows of the case in order of first appearance, cells = rows × keys.
-/
open SgModel SgModel.Driver SgModel.Column

inductive Item where
  | op (o : Op)
  | sweep
  | quiet (o : Op)       -- executed, not observed
  | probe (row : Nat)    -- observed like an op on `row`, nothing executed

def parseVal? (s : String) : Option PV :=
  match s.toList with
  | 'i' :: rest => (parseInt? (String.ofList rest)).map PV.int
  | 'f' :: rest => (String.ofList rest).toNat?.map PV.flt
  | 's' :: rest => (String.ofList rest).toNat?.map PV.str
  | ['b', '0'] => some (.bool false)
  | ['b', '1'] => some (.bool true)
  | ['n'] => some .null
  | 'o' :: rest => (String.ofList rest).toNat?.map PV.other
  | _ => none

def showVal : PV → String
  | .int i => s!"i{i}"
  | .flt b => s!"f{b}"
  | .str t => s!"s{t}"
  | .bool b => if b then "b1" else "b0"
  | .null => "n"
  | .other t => s!"o{t}"

/-- value `x` of a fill: kind 0 = int (x-3), 2 = str (x mod 50), 3 = bool (x even), 4 = int (3x-7) -/
def fillVal? (kind x : Nat) : Option PV :=
  if kind == 0 then some (.int (Int.ofNat x - 3))
  else if kind == 2 then some (.str (x % 50))
  else if kind == 3 then some (.bool (x % 2 == 0))
  else if kind == 4 then some (.int (3 * Int.ofNat x - 7))
  else none

/-- `F<start>.<count>.<key>.<kind>.<off>` = quiet sets of rows start..start+count-1, value index off+j -/
def parseFill? (s : String) : Option (List Item) :=
  match s.splitOn "." with
  | [a, n, k, kd, off] => do
      let a ← a.toNat?; let n ← n.toNat?; let k ← k.toNat?; let kd ← kd.toNat?; let off ← off.toNat?
      (List.range n).mapM (fun j => (fillVal? kd (off + j)).map (fun v => Item.quiet (.set (a + j) k v)))
  | _ => none

def parseItem? (s : String) : Option Item :=
  match s.toList with
  | ['O'] => some .sweep
  | 'P' :: rest => (String.ofList rest).toNat?.map .probe
  | 'q' :: rest =>
      match (String.ofList rest).splitOn "." with
      | [r, k, v] => do pure (.quiet (.set (← r.toNat?) (← k.toNat?) (← parseVal? v)))
      | _ => none
  | 's' :: rest =>
      match (String.ofList rest).splitOn "." with
      | [r, k, v] => do pure (.op (.set (← r.toNat?) (← k.toNat?) (← parseVal? v)))
      | _ => none
  | 'r' :: rest =>
      match (String.ofList rest).splitOn "." with
      | [r, k] => do pure (.op (.remove (← r.toNat?) (← k.toNat?)))
      | _ => none
  | 'c' :: rest => (String.ofList rest).toNat?.map (fun r => .op (.clearRow r))
  | _ => none

def parseItems? (s : String) : Option (List Item) :=
  ((s.splitOn ";").mapM (fun (t : String) =>
    match t.toList with
    | 'F' :: rest => parseFill? (String.ofList rest)
    | _ => (parseItem? t).map (fun i => [i]))).map List.flatten

def dedupKeep (l : List Nat) : List Nat :=
  (l.foldl (fun (acc : List Nat) x => if acc.contains x then acc else x :: acc) []).reverse

def opKey : Op → Option Nat
  | .set _ k _ => some k | .remove _ k => some k | .clearRow _ => none
def opRow : Op → Nat
  | .set r _ _ => r | .remove r _ => r | .clearRow r => r

def caseKeys (items : List Item) : List Nat :=
  dedupKeep (items.filterMap (fun it => match it with
    | .op o => opKey o | .quiet o => opKey o | .sweep => none | .probe _ => none))
/-- rows for the full sweeps (only computed when the case has one) -/
def caseRows (items : List Item) : List Nat :=
  if items.any (fun it => match it with | .sweep => true | _ => false) then
    dedupKeep (items.filterMap (fun it => match it with
      | .op o => some (opRow o) | .quiet o => some (opRow o) | .sweep => none | .probe _ => none))
  else []

def rowProbes (keys : List Nat) (r : Nat) : Probes :=
  let rs := (if r = 0 then [] else [r - 1]) ++ [r, r + 1]
  { cells := rs.flatMap (fun r => keys.map (fun k => (r, k))), rows := [r], allKeys := keys }

def probesFor (keys rows : List Nat) : Item → Probes
  | .sweep => { cells := rows.flatMap (fun r => keys.map (fun k => (r, k))), rows := rows, allKeys := keys }
  | .op o => rowProbes keys (opRow o)
  | .quiet o => rowProbes keys (opRow o)
  | .probe r => rowProbes keys r

def isQuiet : Item → Bool
  | .quiet _ => true
  | _ => false

def showKeys (ks : List Nat) : String :=
  if ks.isEmpty then "-" else joinWith "." (ks.map toString)

def showObs (s : Store) (keys : List Nat) (o : Obs) : String :=
  joinWith "," (o.gets.map showVal) ++ "|" ++ joinWith "," (o.keys.map showKeys) ++ "|"
  ++ joinWith "," (keys.map (fun k => match findCol s k with | some c => toString c.len | none => "_"))
  ++ "|" ++ String.ofList (keys.map (fun k => match findCol s k with
        | some c => if c.isDense then '1' else '0' | none => '_'))

def runCase (items : List Item) : List String :=
  let keys := caseKeys items
  let rows := caseRows items
  (items.foldl (fun (acc : Store × List String) it =>
      let s' := match it with
        | .op o => Store.step rustPolicy acc.1 o
        | .quiet o => Store.step rustPolicy acc.1 o
        | .sweep => acc.1
        | .probe _ => acc.1
      if isQuiet it then (s', acc.2)
      else (s', showObs s' keys (Store.obs s' (probesFor keys rows it)) :: acc.2)) ([], [])).2.reverse

def parseObs? (s : String) : Option Obs :=
  match s.splitOn "|" with
  | [g, k, _, _] => do
      let gets ← (if g.isEmpty then some [] else (g.splitOn ",").mapM parseVal?)
      let keys ← (if k.isEmpty then [] else k.splitOn ",").mapM (fun ks =>
        if ks == "-" then some [] else (ks.splitOn ".").mapM (·.toNat?))
      pure { gets, keys }
  | _ => none

def firstViolation (items : List Item) (os : List Obs) : Option Nat :=
  let keys := caseKeys items
  let rows := caseRows items
  let rec go (k : Nat) (m : RefMap) : List Item → List Obs → Option Nat
    | .quiet op :: its, os => go k (RefMap.step m op) its os
    | it :: its, o :: os =>
        let m' := match it with | .op op => RefMap.step m op | _ => m
        if specObs m' (probesFor keys rows it) o then go (k + 1) m' its os else some k
    | _, _ => none
  go 0 [] items os

def handle (_ : Unit) (line : String) : Unit × String :=
  match tokens line with
  | ["run", ops] => match parseItems? ops with
      | some l => ((), "ok " ++ joinWith ";" (runCase l))
      | none => ((), "bad-op")
  | ["spec", ops, os] => match parseItems? ops, (os.splitOn ";").mapM parseObs? with
      | some l, some o =>
          if (l.filter (fun it => !isQuiet it)).length != o.length then ((), "bad-op")
          else match firstViolation l o with
            | none => ((), "ok")
            | some k => ((), s!"viol {k}")
      | _, _ => ((), "bad-op")
  | _ => ((), "bad-op")

def main : IO Unit := runDriver () handle
