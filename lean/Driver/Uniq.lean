import SgModel.Driver.Util
import SgModel.Model.Uniq
/-!
Driver for the unique-constraint model (C11).  Requests (one per line):

  run    <pop> <ops>          -> ok <obs0>;<obs1>;…   (model, repaired step; initial obs, then one per op)
  legacy <pop> <ops>          -> ok <v><v>…           (verdict flags of the pinned-tree model)
  spec   <ops> <obs0>;<obs1>;…  -> ok | viol <k> <e>  (S evaluated on *given* observations only:
                                                       obs_k -op_k-> obs_{k+1} for every k; e = the
                                                       verdict S demands at the first violating step)

  pop  := - | seed(;seed)*        seed := <labels>:<props>:<0|1 stub>
  ops  := op(;op)*
  op   := c:<l>.<key> | n:<labels>:<props> | s:<h>.<key>.<val> | r:<h>.<key> | d:<h>
        | a:<h>.<l> | u:<h>.<l> | z:<tag>   (z = DROP INDEX / CREATE INDEX on a pair: no effect on constraints)
  labels := _ | digits (one digit per label)       props := _ | <key>=<val>(+<key>=<val>)*
  val  := i<int> | f<int> | s<nat> | n (null)
  obs  := <ok 0|1>|<nodes>|<cons>|<next>
  nodes := - | node(,node)*       node := <id>:<labels>:<props>   (canonical order)
  cons := - | <l>.<key>(+<l>.<key>)*
-/
open SgModel SgModel.Driver SgModel.Uniq

def parseVal? (s : String) : Option (Option Val) :=
  if s == "n" then some none
  else
    let body := (s.drop 1).toString
    if s.startsWith "i" then (parseInt? body).map (fun i => some (.int i))
    else if s.startsWith "f" then (parseInt? body).map (fun i => some (.flt i))
    else if s.startsWith "s" then body.toNat?.map (fun n => some (.str n))
    else none

def parseLabels? (s : String) : Option (List Nat) :=
  if s == "_" then some []
  else s.toList.mapM (fun c => if c.isDigit then some (c.toNat - 48) else none)

def parseProps? (s : String) : Option (List (Nat × Option Val)) :=
  if s == "_" then some []
  else (s.splitOn "+").mapM (fun kv => match kv.splitOn "=" with
    | [k, v] => do pure (← k.toNat?, ← parseVal? v)
    | _ => none)

def parseSeed? (s : String) : Option Seed :=
  match s.splitOn ":" with
  | [ls, ps, st] => do
      let labels ← parseLabels? ls
      let props ← parseProps? ps
      let stub ← (if st == "1" then some true else if st == "0" then some false else none)
      pure { labels, props, stub }
  | _ => none

def parsePop? (s : String) : Option (List Seed) :=
  if s == "-" then some [] else (s.splitOn ";").mapM parseSeed?

def parseOp? (s : String) : Option Op :=
  match s.splitOn ":" with
  | ["c", a] => match a.splitOn "." with
      | [l, k] => do pure (.mkCons (← l.toNat?) (← k.toNat?))
      | _ => none
  | ["n", ls, ps] => do pure (.create (← parseLabels? ls) (← parseProps? ps))
  | ["s", a] => match a.splitOn "." with
      | [h, k, v] => do pure (.set (← h.toNat?) (← k.toNat?) (← parseVal? v))
      | _ => none
  | ["r", a] => match a.splitOn "." with
      | [h, k] => do pure (.remove (← h.toNat?) (← k.toNat?))
      | _ => none
  | ["d", h] => do pure (.delete (← h.toNat?))
  | ["a", a] => match a.splitOn "." with
      | [h, l] => do pure (.addLabel (← h.toNat?) (← l.toNat?))
      | _ => none
  | ["u", a] => match a.splitOn "." with
      | [h, l] => do pure (.removeLabel (← h.toNat?) (← l.toNat?))
      | _ => none
  | ["z", t] => do pure (.noop (← t.toNat?))
  | _ => none

def parseOps? (s : String) : Option (List Op) := (s.splitOn ";").mapM parseOp?

def showVal : Val → String
  | .int i => s!"i{i}"
  | .flt i => s!"f{i}"
  | .str n => s!"s{n}"

def showLabels (l : List Nat) : String :=
  if l.isEmpty then "_" else String.join (l.map toString)

def showProps (p : Props) : String :=
  if p.isEmpty then "_" else joinWith "+" (p.map (fun kv => s!"{kv.1}={showVal kv.2}"))

def showNode (x : SNode) : String := s!"{x.id}:{showLabels x.labels}:{showProps x.props}"

def showObs (o : Obs) (ok : Bool) : String :=
  let c := canonObs o
  (if ok then "1" else "0") ++ "|"
    ++ (if c.nodes.isEmpty then "-" else joinWith "," (c.nodes.map showNode)) ++ "|"
    ++ (if c.cons.isEmpty then "-" else joinWith "+" (c.cons.map (fun lk => s!"{lk.1}.{lk.2}"))) ++ "|"
    ++ toString c.next

def parseNode? (s : String) : Option SNode :=
  match s.splitOn ":" with
  | [i, ls, ps] => do
      let id ← i.toNat?
      let labels ← parseLabels? ls
      let props ← parseProps? ps
      -- an observed node never lists a null
      let props ← props.mapM (fun kv => kv.2.map (fun v => (kv.1, v)))
      pure { id, labels, props }
  | _ => none

def parseObs? (s : String) : Option (Obs × Bool) :=
  match s.splitOn "|" with
  | [k, ns, cs, nx] => do
      let ok ← (if k == "1" then some true else if k == "0" then some false else none)
      let nodes ← (if ns == "-" then some [] else (ns.splitOn ",").mapM parseNode?)
      let cons ← (if cs == "-" then some [] else (cs.splitOn "+").mapM (fun lk => match lk.splitOn "." with
        | [l, k] => do pure (← l.toNat?, ← k.toNat?)
        | _ => none))
      let next ← nx.toNat?
      pure ({ nodes, cons, next }, ok)
  | _ => none

def trace (stepf : State → Op → State × Bool) (s : State) (ops : List Op) : List (Obs × Bool) :=
  (ops.foldl (fun (acc : State × List (Obs × Bool)) op =>
      let r := stepf acc.1 op
      (r.1, (obs r.1, r.2) :: acc.2)) (s, [])).2.reverse

/-- index of the first step whose (pre, op, post, verdict) violates S, if any -/
def firstViolation (pre0 : Obs) (ops : List Op) (os : List (Obs × Bool)) : Option (Nat × Bool) :=
  let rec go (k : Nat) (pre : Obs) : List Op → List (Obs × Bool) → Option (Nat × Bool)
    | op :: ops, (post, ok) :: os =>
        if specStepC pre op post ok then go (k+1) post ops os else some (k, (sStep pre op).2)
    | _, _ => none
  go 0 pre0 ops os

def keysDistinct : List (Nat × Option Val) → Bool
  | [] => true
  | kv :: rest => rest.all (fun x => x.1 != kv.1) && keysDistinct rest

def opsWf (ops : List Op) : Bool :=
  ops.all (fun op => match op with
    | .create _ props => keysDistinct props
    | _ => true)

def handle (_ : Unit) (line : String) : Unit × String :=
  match tokens line with
  | ["run", pop, ops] => match parsePop? pop, parseOps? ops with
      | some p, some l =>
          if !opsWf l then ((), "bad-op")
          else ((), "ok " ++ joinWith ";"
            (((obs (init p), true) :: trace step (init p) l).map (fun r => showObs r.1 r.2)))
      | _, _ => ((), "bad-op")
  | ["legacy", pop, ops] => match parsePop? pop, parseOps? ops with
      | some p, some l =>
          ((), "ok " ++ String.join ((verdicts stepLegacy (init p) l).map (fun b => if b then "1" else "0")))
      | _, _ => ((), "bad-op")
  | ["spec", ops, os] => match parseOps? ops, (os.splitOn ";").mapM parseObs? with
      | some l, some (o0 :: o) =>
          if l.length != o.length || !opsWf l then ((), "bad-op")
          else match firstViolation o0.1 l o with
            | none => ((), "ok")
            | some (k, e) => ((), s!"viol {k} {if e then 1 else 0}")
      | _, _ => ((), "bad-op")
  | _ => ((), "bad-op")

def main : IO Unit := runDriver () handle
