import SgModel.Driver.Util
import SgModel.Driver.FloatBits
import SgModel.Model.Algo
/-!
Driver for the C26 model (`SgModel.Algo`).  One request line per case:

  run    <g> <s> <t>          -> ok wcc=<P> scc=<P> bfs=<c|none> dij=<c|none> flow=<v|nocert>
                                    mst=<w> tri=<k> lcc=<num/den,…|->
  legacy <g> <s> <t>          -> ok mst=<w> flow=<v|hang>          (model of the pinned tree)
  spec   <g> <s> <t> <obs>…   -> ok | viol <field>,… | nocert
         obs fields (any subset): wcc=<P> scc=<P> bfs=<path> dij=<path> flow=<v> mst=<w>:<T>
                                   tri=<k> lcc=<hex16,…|->
  proj   <store> <label|_> <type|_> <0|1>   -> ok <g>     (build_view on the store)

  g     := <n>:<u>.<v>.<w>,… | <n>:-         edges in listing order
  P     := class|class|…  (class := a,b,c) | -
  path  := none | <cost>:<n0>-<n1>-…
  T     := <a>-<b>-<w>,… | -
  store := <id>/<l>+<l>…|-,…;<src>.<dst>.<type>.<w|_>,…|-
-/
open SgModel SgModel.Driver SgModel.Algo

def parseEdge? (s : String) : Option Edge :=
  match s.splitOn "." with
  | [u, v, w] => do pure (← u.toNat?, ← v.toNat?, ← w.toNat?)
  | _ => none

def parseGraph? (s : String) : Option (Nat × List Edge) :=
  match s.splitOn ":" with
  | [n, es] => do
      let n ← n.toNat?
      let l ← (if es == "-" then some [] else (es.splitOn ",").mapM parseEdge?)
      if l.all (fun e => e.1 < n && e.2.1 < n) then pure (n, l) else none
  | _ => none

def showGraph (n : Nat) (es : List Edge) : String :=
  s!"{n}:" ++ (if es.isEmpty then "-" else joinWith "," (es.map (fun e => s!"{e.1}.{e.2.1}.{e.2.2}")))

def showClass (c : List Nat) : String := joinWith "," (c.map toString)
def showPartition (p : List (List Nat)) : String :=
  if p.isEmpty then "-" else joinWith "|" (p.map showClass)

def parsePartition? (s : String) : Option (List (List Nat)) :=
  if s == "-" then some [] else (s.splitOn "|").mapM (fun c => (c.splitOn ",").mapM (·.toNat?))

def insertSorted (x : Nat) : List Nat → List Nat
  | [] => [x]
  | y :: ys => if x ≤ y then x :: y :: ys else y :: insertSorted x ys
def sortNat (l : List Nat) : List Nat := l.foldl (fun acc x => insertSorted x acc) []

/-- classes sorted internally and by their least element: the "set of sets" -/
def canonPartition (p : List (List Nat)) : List (List Nat) :=
  let cs := p.map sortNat
  let keys := sortNat (cs.map (fun c => c.headD 0))
  keys.filterMap (fun k => cs.find? (fun c => c.headD 0 == k))

def parsePath? (s : String) : Option PathObs :=
  if s == "none" then some none else
  match s.splitOn ":" with
  | [c, p] => do pure (some (← c.toNat?, ← (p.splitOn "-").mapM (·.toNat?)))
  | _ => none

def parseTree? (s : String) : Option (Nat × List Edge) :=
  match s.splitOn ":" with
  | [w, t] => do
      let w ← w.toNat?
      let l ← (if t == "-" then some [] else (t.splitOn ",").mapM (fun e =>
        match e.splitOn "-" with
        | [a, b, x] => do pure (← a.toNat?, ← b.toNat?, ← x.toNat?)
        | _ => none))
      pure (w, l)
  | _ => none

def showOptNat (o : Option Nat) (dflt : String) : String :=
  match o with | some v => toString v | none => dflt

def runCase (n : Nat) (es : List Edge) (s t : Nat) : String :=
  let vw := ofEdges n es
  let dW := bellmanFord es n s
  let dU := bellmanFord (unitW es) n s
  let lcc := (List.range n).map (fun u => let r := lccImpl vw u; s!"{r.1}/{r.2}")
  "ok wcc=" ++ showPartition (wccRef vw)
    ++ " scc=" ++ showPartition (sccRef vw)
    ++ " bfs=" ++ showOptNat (dget dU t) "none"
    ++ " dij=" ++ showOptNat (dget dW t) "none"
    ++ " flow=" ++ showOptNat (maxFlowRef n es s t) "nocert"
    ++ " mst=" ++ toString (prim vw).1
    ++ " tri=" ++ toString (trianglesImpl vw)
    ++ " lcc=" ++ (if lcc.isEmpty then "-" else joinWith "," lcc)

def legacyCase (n : Nat) (es : List Edge) (s t : Nat) : String :=
  let vw := ofEdges n es
  "ok mst=" ++ toString (primLegacy vw).1
    ++ " flow=" ++ showOptNat (ekLegacy n es s t ((es.map (·.2.2)).sum + 2)) "hang"

/-- evaluate the specification on one observed field; `none` = unparsable -/
def specField (n : Nat) (es : List Edge) (s t : Nat) (f : String) : Option (String × Bool × Bool) :=
  let vw := ofEdges n es
  match f.splitOn "=" with
  | ["wcc", p] => do
      let p ← parsePartition? p
      pure ("wcc", canonPartition p == canonPartition (wccRef vw), false)
  | ["scc", p] => do
      let p ← parsePartition? p
      pure ("scc", canonPartition p == canonPartition (sccRef vw), false)
  | ["bfs", p] => do
      let o ← parsePath? p
      pure ("bfs", spCheck (unitW es) (bellmanFord (unitW es) n s) s t o, false)
  | ["dij", p] => do
      let o ← parsePath? p
      pure ("dij", spCheck es (bellmanFord es n s) s t o, false)
  | ["flow", v] => do
      let v ← v.toNat?
      match maxFlowRef n es s t with
      | some r => pure ("flow", v == r, false)
      | none => pure ("flow", true, true)
  | ["mst", x] => do
      let (w, tr) ← parseTree? x
      -- spanning-tree + cycle-property certificate (`C26_mst_minimal`: proved to imply minimum
      -- weight), plus agreement with the model's Prim
      pure ("mst", mstCheck vw w tr && mstMinCheck (edgesOf vw) w tr && w == (prim vw).1, false)
  | ["tri", k] => do
      let k ← k.toNat?
      -- the definition is cubic in n; above 64 nodes it is evaluated through the enumeration
      -- proved equal to it on every well-formed view (`C26_triangles_impl_eq_def`)
      pure ("tri", k == (if n ≤ 64 then trianglesDef vw else trianglesImpl vw), false)
  | ["lcc", l] => do
      let hs := if l == "-" then [] else l.splitOn ","
      let xs ← hs.mapM ratOfHex?
      if xs.length ≠ n then pure ("lcc", false, false) else
      -- same remark as for `tri`: above 64 nodes through `lccImpl` (`C26_lcc_impl_eq_def`)
      let ok := (List.range n).all (fun u =>
        let nd : Nat × Nat :=
          if n ≤ 64 then
            (let d := degDef vw u; if d < 2 then (0, 1) else (lccDefNum vw u, d * (d - 1) / 2))
          else lccImpl vw u
        closeRel (xs.getD u 0) ((nd.1 : Rat) / (nd.2 : Rat)))
      pure ("lcc", ok, false)
  | _ => none

def specCase (n : Nat) (es : List Edge) (s t : Nat) (fields : List String) : String :=
  match fields.mapM (specField n es s t) with
  | none => "bad-op"
  | some rs =>
    if rs.any (fun r => r.2.2) then "nocert"
    else
      let bad := rs.filter (fun r => !r.2.1)
      if bad.isEmpty then "ok" else "viol " ++ joinWith "," (bad.map (·.1))

/-! projection -/

def parseOptNat? (s : String) : Option (Option Nat) :=
  if s == "_" then some none else s.toNat?.map some

def parseStore? (s : String) : Option Store :=
  match s.splitOn ";" with
  | [ns, es] => do
      let nodes ← (if ns == "-" then some [] else (ns.splitOn ",").mapM (fun x =>
        match x.splitOn "/" with
        | [id, ls] => do
            let id ← id.toNat?
            let ls ← (if ls == "-" then some [] else (ls.splitOn "+").mapM (·.toNat?))
            pure (id, ls)
        | _ => none))
      let edges ← (if es == "-" then some [] else (es.splitOn ",").mapM (fun x =>
        match x.splitOn "." with
        | [a, b, ty, w] => do pure (← a.toNat?, ← b.toNat?, ← ty.toNat?, ← parseOptNat? w)
        | _ => none))
      pure { nodes, edges }
  | _ => none

def handle (_ : Unit) (line : String) : Unit × String :=
  match tokens line with
  | ["run", g, s, t] => match parseGraph? g, s.toNat?, t.toNat? with
      | some (n, es), some s, some t => if s < n ∧ t < n then ((), runCase n es s t) else ((), "bad-op")
      | _, _, _ => ((), "bad-op")
  | ["legacy", g, s, t] => match parseGraph? g, s.toNat?, t.toNat? with
      | some (n, es), some s, some t => if s < n ∧ t < n then ((), legacyCase n es s t) else ((), "bad-op")
      | _, _, _ => ((), "bad-op")
  | "spec" :: g :: s :: t :: fields => match parseGraph? g, s.toNat?, t.toNat? with
      | some (n, es), some s, some t =>
          if (s < n ∧ t < n) ∨ n = 0 then ((), specCase n es s t fields) else ((), "bad-op")
      | _, _, _ => ((), "bad-op")
  | ["proj", st, l, ty, w] => match parseStore? st, parseOptNat? l, parseOptNat? ty with
      | some st, some l, some ty =>
          if w == "0" ∨ w == "1" then
            let vw := buildView st l ty (w == "1")
            ((), "ok " ++ showGraph vw.n (edgesOf vw))
          else ((), "bad-op")
      | _, _, _ => ((), "bad-op")
  | _ => ((), "bad-op")

def main : IO Unit := runDriver () handle
