import SgModel.Driver.Util
import SgModel.Model.Nlq
/-!
Driver for the natural-language front-end model (C24).  Requests (one per line):

  extract <hex response>            -> ok <hex statement>          (`extract_cypher`)
  legacy  <hex statement>           -> 1 | 0                       (`is_safe_query`, pinned tree)
  safe    <summary>                 -> 1 | 0                       (repaired, on the parsed statement)
  t2c     <hex response> <summary>  -> accept <hex statement> | reject
            (summary = what the real parser says about `extract response`)
  t2cl    <hex response>            -> accept <hex statement> | reject     (pinned tree)
  spec    <accepted 0|1> <mutated 0|1>  -> ok | viol

  summary := none | level(/level)*        level := - | item(,item)*
  item    := r | w:<create|merge|set|remove|delete|foreach>
           | d:<ci|di|cc|cvi|chi|dhi|rhi> | c:<hex procedure name>
-/
open SgModel SgModel.Driver SgModel.Nlq

def strOfHex? (h : String) : Option String := do
  let bs ← bytesOfHex? h
  String.fromUTF8? (ByteArray.mk bs.toArray)

def hexOfChars (cs : List Char) : String :=
  hexOrDash (String.ofList cs).toUTF8.toList

def parseItem? (s : String) : Option Item :=
  match s.splitOn ":" with
  | ["r"] => some .read
  | ["w", "create"] => some (.write .create)
  | ["w", "merge"] => some (.write .merge)
  | ["w", "set"] => some (.write .set)
  | ["w", "remove"] => some (.write .remove)
  | ["w", "delete"] => some (.write .delete)
  | ["w", "foreach"] => some (.write .foreach)
  | ["d", "ci"] => some (.ddl .createIndex)
  | ["d", "di"] => some (.ddl .dropIndex)
  | ["d", "cc"] => some (.ddl .createConstraint)
  | ["d", "cvi"] => some (.ddl .createVectorIndex)
  | ["d", "chi"] => some (.ddl .createHierarchyIndex)
  | ["d", "dhi"] => some (.ddl .dropHierarchyIndex)
  | ["d", "rhi"] => some (.ddl .rebuildHierarchyIndex)
  | ["c", h] => (strOfHex? h).map (fun p => .call p.toList)
  | _ => none

def parseLevel? (s : String) : Option Stmt :=
  if s == "-" then some (.level []) else ((s.splitOn ",").mapM parseItem?).map .level

def buildStmt : List Stmt → Stmt
  | [] => .level []
  | [l] => l
  | l :: rest => .seq l (buildStmt rest)

/-- `some none` = the parser rejected the text -/
def parseSummary? (s : String) : Option (Option Stmt) :=
  if s == "none" then some none
  else ((s.splitOn "/").mapM parseLevel?).map (fun ls => some (buildStmt ls))

def handle (_ : Unit) (line : String) : Unit × String :=
  match tokens line with
  | ["extract", h] => match strOfHex? h with
      | some r => ((), "ok " ++ hexOfChars (extract r.toList))
      | none => ((), "bad-op")
  | ["legacy", h] => match strOfHex? h with
      | some q => ((), if isSafeLegacy q.toList then "1" else "0")
      | none => ((), "bad-op")
  | ["safe", sm] => match parseSummary? sm with
      | some st => ((), if isSafe (fun _ => st) [] then "1" else "0")
      | none => ((), "bad-op")
  | ["t2c", h, sm] => match strOfHex? h, parseSummary? sm with
      | some r, some st =>
        (match textToCypher (fun _ => st) r.toList with
         | some q => ((), "accept " ++ hexOfChars q)
         | none => ((), "reject"))
      | _, _ => ((), "bad-op")
  | ["t2cl", h] => match strOfHex? h with
      | some r =>
        (match textToCypherLegacy r.toList with
         | some q => ((), "accept " ++ hexOfChars q)
         | none => ((), "reject"))
      | none => ((), "bad-op")
  | ["spec", a, m] =>
      if (a == "0" || a == "1") && (m == "0" || m == "1") then
        ((), if specObs (a == "1") (m == "1") then "ok" else "viol")
      else ((), "bad-op")
  | _ => ((), "bad-op")

def main : IO Unit := runDriver () handle
