import SgModel.Driver.Util
import SgModel.Model.Moo
/-!
Driver for the Moo model (C34).  Every number is a decimal integer: the harness maps each f64
to its order-preserving integer key, so all comparisons are exact.

  ints  := <int>(,<int>)* | -
  ind   := <objs ints>|<viol int>
  inds  := <ind>(;<ind>)* | -
  dom <f1 ints> <v1> <f2 ints> <v2>            -> ok true|false          (constrainedDominates)
  sort <inds>                                  -> ok <rank>(,<rank>)* | - (rank per individual)
  archstep <cap> <prev inds> <cand ind> <next inds>  -> ok | viol        (archStepSpec)
  seed <s> <iteration> <index>                 -> ok <u64>               (childSeed)
  clamp <lo> <hi> <x>                          -> ok <int>
  so <lo ints> <hi ints> <best ints> <bestfit> <refit> <hist ints>   -> ok | viol <class>
  mo <lo ints> <hi ints> <front>               -> ok | viol <class>
     front := <member>(;<member>)* | -    member := <vars>|<objs>|<viol>|<re-objs>|<re-viol>
-/
open SgModel SgModel.Driver SgModel.Moo

def parseInts? (s : String) : Option (List Int) :=
  if s == "-" then some [] else (s.splitOn ",").mapM parseInt?

def parseInd? (s : String) : Option Ind :=
  match s.splitOn "|" with
  | [o, v] => do pure ⟨← parseInts? o, ← parseInt? v⟩
  | _ => none

def parseInds? (s : String) : Option (List Ind) :=
  if s == "-" then some [] else (s.splitOn ";").mapM parseInd?

def parseMember? (s : String) : Option FrontInd :=
  match s.splitOn "|" with
  | [x, o, v, _, _] => do pure ⟨← parseInts? x, ⟨← parseInts? o, ← parseInt? v⟩⟩
  | _ => none

def parseFront? (s : String) : Option (List FrontInd) :=
  if s == "-" then some [] else (s.splitOn ";").mapM parseMember?

def showBool (b : Bool) : String := if b then "true" else "false"

def showVerdict : Verdict → String
  | .ok => "ok"
  | .viol c => "viol " ++ c

def handle (_ : Unit) (line : String) : Unit × String :=
  match tokens line with
  | ["dom", f1, v1, f2, v2] =>
    (match parseInts? f1, parseInt? v1, parseInts? f2, parseInt? v2 with
      | some a, some x, some b, some y =>
        if a.length != b.length then ((), "bad-op")
        else ((), "ok " ++ showBool (constrainedDominates a x b y))
      | _, _, _, _ => ((), "bad-op"))
  | ["sort", p] =>
    (match parseInds? p with
      | some pop =>
        let rs := ranks pop
        if rs.any (·.isNone) then ((), "err unranked")
        else if rs.isEmpty then ((), "ok -")
        else ((), "ok " ++ joinWith "," (rs.map (fun r => toString (r.getD 0))))
      | none => ((), "bad-op"))
  | ["archstep", cap, prev, cand, next] =>
    (match cap.toNat?, parseInds? prev, parseInd? cand, parseInds? next with
      | some c, some p, some x, some n => ((), if archStepSpec c p x n then "ok" else "viol")
      | _, _, _, _ => ((), "bad-op"))
  | ["seed", s, i, j] =>
    (match s.toNat?, i.toNat?, j.toNat? with
      | some s, some i, some j => ((), "ok " ++ toString (childSeed s i j))
      | _, _, _ => ((), "bad-op"))
  | ["clamp", lo, hi, x] =>
    (match parseInt? lo, parseInt? hi, parseInt? x with
      | some l, some h, some x =>
        (match clampChecked l h x with
          | some r => ((), "ok " ++ toString r)
          | none => ((), "err panic"))
      | _, _, _ => ((), "bad-op"))
  | ["so", lo, hi, best, bf, rf, hist] =>
    (match parseInts? lo, parseInts? hi, parseInts? best, parseInt? bf, parseInt? rf, parseInts? hist with
      | some lo, some hi, some b, some bf, some rf, some h => ((), showVerdict (specSO lo hi b bf rf h))
      | _, _, _, _, _, _ => ((), "bad-op"))
  | ["mo", lo, hi, front] =>
    (match parseInts? lo, parseInts? hi, parseFront? front with
      | some lo, some hi, some f => ((), showVerdict (specMO lo hi f))
      | _, _, _ => ((), "bad-op"))
  | _ => ((), "bad-op")

def main : IO Unit := runDriver () handle
