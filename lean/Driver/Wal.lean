import SgModel.Driver.Util
import SgModel.Model.Wal
/-!
Driver for the WAL model (C15).  One request per line, no spaces inside a field.

  hist  <mode> <ENTS> <OPS>                          -> ok <OPOBS> <FILES>
  hspec <ENTS> <OPS> <OPOBS> <OBS>                   -> ok | viol core | viol durable
  var   <mode> <ENTS> <top> <FILES> <HINTS> <VARS>   -> ok <OBS>#<OBS>#…       (one per variant)
  vspec <ENTS> <FILERECS> <VAR>=<OBS>#…              -> ok | viol <index>:<kind>(,…)*   (every violating variant)

  mode     := fixed | legacy
  ENTS     := hex(,hex)* | -            entry table; entries are referred to by index
  OPS      := op(;op)* | -              op := a<idx> | f | c<idx> | r | k<bytes> | s0 | s1
  OPOBS    := o(;o)* | -                o := <ret or ->/<current_sequence>
  FILES    := <name>:<hex or ->(,…)* | -
  HINTS    := <hex>:<n or x>(,…)* | -   decoder answers for damaged bodies (bytes after the seq)
  VARS     := v(;v)*                    v := n | t.<file>.<k> | f.<file>.<offset>.<mask>
  OBS      := <cur>|run|run…            run := <items or ->/<end>/<last>,  items := item(.item)*
                                        item := <idx> | x<hex>,  end := ok | io | ser | c<seq>
  FILERECS := file(,file)* | _          file := <seq>.<idx>(+<seq>.<idx>)* | -
-/
open SgModel SgModel.Driver SgModel.Wal

def parseMode? : String → Option Mode
  | "fixed" => some Mode.fixed
  | "legacy" => some Mode.legacy
  | _ => none

def dashList (s : String) (sep : String) : List String :=
  if s == "-" then [] else s.splitOn sep

def parseEnts? (s : String) : Option (List Bytes) := (dashList s ",").mapM bytesOfHex?

def natAfter? (s : String) : Option Nat := (s.drop 1).toString.toNat?

def parseOp? (ents : List Bytes) (s : String) : Option Op :=
  if s == "f" then some .flush
  else if s == "r" then some .reopen
  else if s == "s0" then some (.setSync false)
  else if s == "s1" then some (.setSync true)
  else if s.startsWith "a" then do let i ← natAfter? s; let e ← ents[i]?; pure (.append e)
  else if s.startsWith "c" then do let i ← natAfter? s; let e ← ents[i]?; pure (.checkpoint e)
  else if s.startsWith "k" then do let k ← natAfter? s; pure (.crash k)
  else none

def parseOps? (ents : List Bytes) (s : String) : Option (List Op) :=
  (dashList s ";").mapM (parseOp? ents)

def showOpObs (o : OpObs) : String :=
  (match o.1 with | some r => toString r | none => "-") ++ "/" ++ toString o.2

def parseOpObs? (s : String) : Option OpObs :=
  match s.splitOn "/" with
  | [r, c] => do
      let ret ← (if r == "-" then some none else r.toNat?.map some)
      pure (ret, ← c.toNat?)
  | _ => none

def showFiles (fs : List File) : String :=
  if fs.isEmpty then "-" else joinWith "," (fs.map (fun f => s!"{f.name}:{hexOrDash f.data}"))

def parseFile? (s : String) : Option File :=
  match s.splitOn ":" with
  | [n, h] => do pure ⟨← n.toNat?, ← bytesOfHex? h⟩
  | _ => none

def parseFiles? (s : String) : Option (List File) := (dashList s ",").mapM parseFile?

def showEnd : End → String
  | .ok => "ok" | .io => "io" | .ser => "ser" | .corrupt q => s!"c{q}"

def parseEnd? (s : String) : Option End :=
  if s == "ok" then some .ok else if s == "io" then some .io else if s == "ser" then some .ser
  else if s.startsWith "c" then (natAfter? s).map End.corrupt else none

def showItem (ents : List Bytes) (e : Bytes) : String :=
  match ents.findIdx? (· == e) with
  | some i => toString i
  | none => "x" ++ hexOrDash e

def parseItem? (ents : List Bytes) (s : String) : Option Bytes :=
  if s.startsWith "x" then bytesOfHex? (s.drop 1).toString
  else do let i ← s.toNat?; ents[i]?

def showRun (ents : List Bytes) (r : List Bytes × End × Nat) : String :=
  (if r.1.isEmpty then "-" else joinWith "." (r.1.map (showItem ents)))
    ++ "/" ++ showEnd r.2.1 ++ "/" ++ toString r.2.2

def parseRun? (ents : List Bytes) (s : String) : Option (List Bytes × End × Nat) :=
  match s.splitOn "/" with
  | [d, e, l] => do
      let ds ← (dashList d ".").mapM (parseItem? ents)
      pure (ds, ← parseEnd? e, ← l.toNat?)
  | _ => none

def showObs (ents : List Bytes) (o : ReplayObs) : String :=
  joinWith "|" (toString o.cur :: o.runs.map (showRun ents))

def parseObs? (ents : List Bytes) (s : String) : Option ReplayObs :=
  match s.splitOn "|" with
  | c :: rs => do pure { cur := ← c.toNat?, runs := ← rs.mapM (parseRun? ents) }
  | [] => none

def parseHint? (s : String) : Option (Bytes × Option Nat) :=
  match s.splitOn ":" with
  | [k, v] => do
      let key ← bytesOfHex? k
      if v == "x" then pure (key, none) else pure (key, some (← v.toNat?))
  | _ => none

def parseHints? (s : String) : Option (List (Bytes × Option Nat)) := (dashList s ",").mapM parseHint?

/-- the decoder the harness observed: its answers for damaged bodies, and the contract
(`decOf`) for bodies that start with an intact entry -/
def decWith (ents : List Bytes) (hints : List (Bytes × Option Nat)) : Dec := fun b =>
  match hints.find? (fun h => h.1 == b) with
  | some h => h.2
  | none => decOf ents b

inductive Var where
  | none | trunc (i k : Nat) | flip (i p : Nat) (mask : UInt8)

def parseVar? (s : String) : Option Var :=
  match s.splitOn "." with
  | ["n"] => some .none
  | ["t", i, k] => do pure (.trunc (← i.toNat?) (← k.toNat?))
  | ["f", i, p, m] => do
      let mv ← m.toNat?
      if mv == 0 || mv > 255 then none else pure (.flip (← i.toNat?) (← p.toNat?) (UInt8.ofNat mv))
  | _ => none

def applyVar (fs : List File) : Var → List File
  | .none => fs
  | .trunc i k => fs.modify i (fun f => { f with data := f.data.take k })
  | .flip i p m => fs.modify i (fun f => { f with data := flipByte f.data p m })

def parseRec? (ents : List Bytes) (s : String) : Option Rec :=
  match s.splitOn "." with
  | [q, i] => do pure ⟨← q.toNat?, ← ents[← i.toNat?]?⟩
  | _ => none

def parseFileRecs? (ents : List Bytes) (s : String) : Option (List (List Rec)) :=
  if s == "_" then some [] else
  (s.splitOn ",").mapM (fun f => (dashList f "+").mapM (parseRec? ents))

def vspecOne (fileRecs : List (List Rec)) (v : Var) (o : ReplayObs) : Option String :=
  match v with
  | .none => if specIntact fileRecs.flatten o then none else some "intact"
  | .trunc i k => if specTrunc fileRecs i k o then none else some "trunc"
  | .flip i p _ => if specFlip fileRecs i p o then none else some "flip"

def allViol (fileRecs : List (List Rec)) : Nat → List (Var × ReplayObs) → List String
  | _, [] => []
  | k, (v, o) :: rest =>
    match vspecOne fileRecs v o with
    | some w => s!"{k}:{w}" :: allViol fileRecs (k + 1) rest
    | none => allViol fileRecs (k + 1) rest

def handle (_ : Unit) (line : String) : Unit × String :=
  match tokens line with
  | ["hist", m, es, ops] =>
    match parseMode? m, parseEnts? es with
    | some mode, some ents =>
      match parseOps? ents ops with
      | some l =>
        let dec := decOf (opEntries l)
        let obs := traceObs mode dec {} l
        let s := run mode dec l
        ((), "ok " ++ (if obs.isEmpty then "-" else joinWith ";" (obs.map showOpObs)) ++ " " ++ showFiles (dir s))
      | none => ((), "bad-op")
    | _, _ => ((), "bad-op")
  | ["hspec", es, ops, oo, fo] =>
    match parseEnts? es with
    | some ents =>
      match parseOps? ents ops, (dashList oo ";").mapM parseOpObs?, parseObs? ents fo with
      | some l, some obs, some final =>
        if !specHistCore l obs final then ((), "viol core")
        else if !specDurable l final then ((), "viol durable")
        else ((), "ok")
      | _, _, _ => ((), "bad-op")
    | none => ((), "bad-op")
  | ["var", m, es, top, fs, hs, vs] =>
    match parseMode? m, parseEnts? es, top.toNat?, parseFiles? fs, parseHints? hs,
        (vs.splitOn ";").mapM parseVar? with
    | some mode, some ents, some t, some files, some hints, some vars =>
      let dec := decWith ents hints
      ((), "ok " ++ joinWith "#" (vars.map (fun v => showObs ents (observe mode dec (applyVar files v) t))))
    | _, _, _, _, _, _ => ((), "bad-op")
  | ["vspec", es, frs, vos] =>
    match parseEnts? es with
    | some ents =>
      match parseFileRecs? ents frs, (vos.splitOn "#").mapM (fun s =>
          match s.splitOn "=" with
          | [v, o] => do pure (← parseVar? v, ← parseObs? ents o)
          | _ => none) with
      | some fileRecs, some l =>
        match allViol fileRecs 0 l with
        | [] => ((), "ok")
        | vs => ((), "viol " ++ joinWith "," vs)
      | _, _ => ((), "bad-op")
    | none => ((), "bad-op")
  | _ => ((), "bad-op")

def main : IO Unit := runDriver () handle
