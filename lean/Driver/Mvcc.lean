import SgModel.Driver.Util
import SgModel.Model.Mvcc
/-!
Driver for the MVCC store model (C07, C08).  Requests (one per line):

  run    <ops>           -> ok <obs>;<obs>;…      (model of the repaired tree, one obs per op)
  legacy <ops>           -> ok <obs>;…            (model of the pinned tree)
  spec   <ops> <obs>;…   -> ok | viol <k>.<clause>.<n|e>.<id>(,…)*   (S on the *given* observations;
                                                   every violated clause of every step)

  ops := op(;op)*
  op  := cn:<label> | sp:<n>.<k>.<v> | rp:<n>.<k> | al:<n>.<l> | rl:<n>.<l> | dn:<n>
       | ce:<src>.<tgt>.<props> | se:<e>.<k>.<v> | de:<e>
       | b:rc | b:si | wn:<t>.<n> | we:<t>.<e> | c:<t> | a:<t> | u | g:auto | g:<w>
  props := - | <k>=<v>(+<k>=<v>)*

  obs := <out>|<cur>|<wm>|<count>|<all>|<nodeReads>|<edgeReads>|<ends>|<txnNode>|<txnEdge>|<active>
  out := I<id> | OK | NO | NF | BS | BT | T<txn out>
  all := - | <id>.<version>(,…)*
  nodeReads := <r>,<r>,…/<r>,…/…      one group per probed id, one read per version 0..cur
  node read r := _ | <version>:<labels>:<props>     labels := - | l(+l)*
  edge read r := _ | <version>:<props>
  ends := <src>.<tgt>,…        active := 0|1,…
-/
open SgModel SgModel.Driver SgModel.Mvcc

def parseNats? (s : String) (sep : String) : Option (List Nat) := (s.splitOn sep).mapM (·.toNat?)

def parseProps? (s : String) : Option Props :=
  if s == "-" then some [] else
  (s.splitOn "+").mapM (fun kv => match kv.splitOn "=" with
    | [k, v] => do pure (← k.toNat?, ← parseInt? v)
    | _ => none)

def showProps (p : Props) : String :=
  if p.isEmpty then "-" else joinWith "+" (p.map (fun kv => s!"{kv.1}={kv.2}"))

def showLabels (l : List Nat) : String :=
  if l.isEmpty then "-" else joinWith "+" (l.map toString)

def parseLabels? (s : String) : Option (List Nat) :=
  if s == "-" then some [] else parseNats? s "+"

def parseOp? (s : String) : Option Op :=
  match s.splitOn ":" with
  | ["cn", l] => l.toNat?.map .createNode
  | ["sp", r] => match r.splitOn "." with
      | [n, k, v] => do pure (.setProp (← n.toNat?) (← k.toNat?) (← parseInt? v))
      | _ => none
  | ["rp", r] => match r.splitOn "." with
      | [n, k] => do pure (.removeProp (← n.toNat?) (← k.toNat?))
      | _ => none
  | ["al", r] => match r.splitOn "." with
      | [n, l] => do pure (.addLabel (← n.toNat?) (← l.toNat?))
      | _ => none
  | ["rl", r] => match r.splitOn "." with
      | [n, l] => do pure (.removeLabel (← n.toNat?) (← l.toNat?))
      | _ => none
  | ["dn", n] => n.toNat?.map .deleteNode
  | ["ce", r] => match r.splitOn "." with
      | [a, b, p] => do pure (.createEdge (← a.toNat?) (← b.toNat?) (← parseProps? p))
      | _ => none
  | ["se", r] => match r.splitOn "." with
      | [e, k, v] => do pure (.setEdgeProp (← e.toNat?) (← k.toNat?) (← parseInt? v))
      | _ => none
  | ["de", e] => e.toNat?.map .deleteEdge
  | ["b", "rc"] => some (.txn (.begin .rc))
  | ["b", "si"] => some (.txn (.begin .si))
  | ["c", t] => t.toNat?.map (fun t => .txn (.commit t))
  | ["a", t] => t.toNat?.map (fun t => .txn (.abort t))
  | ["wn", r] => match r.splitOn "." with
      | [t, n] => do pure (.txn (.writeNode (← t.toNat?) (← n.toNat?)))
      | _ => none
  | ["we", r] => match r.splitOn "." with
      | [t, e] => do pure (.txn (.writeEdge (← t.toNat?) (← e.toNat?)))
      | _ => none
  | ["u"] => some (.txn .bump)
  | ["g", "auto"] => some (.txn (.gc none))
  | ["g", w] => w.toNat?.map (fun w => .txn (.gc (some w)))
  | _ => none

def parseOps? (s : String) : Option (List Op) := (s.splitOn ";").mapM parseOp?

def showTxnOut : Txn.Out → String
  | .began id => s!"B{id}"
  | .unit => "U"
  | .committed v => s!"C{v}"
  | .conflict => "X"
  | .notFound => "NF"
  | .notActive => "NA"
  | .aborted => "AB"

def parseTxnOut? (s : String) : Option Txn.Out :=
  if s == "U" then some .unit
  else if s == "X" then some .conflict
  else if s == "NF" then some .notFound
  else if s == "NA" then some .notActive
  else if s == "AB" then some .aborted
  else if s.startsWith "B" then (s.drop 1).toString.toNat?.map .began
  else if s.startsWith "C" then (s.drop 1).toString.toNat?.map .committed
  else none

def showOut : Out → String
  | .id i => s!"I{i}"
  | .ok => "OK"
  | .no => "NO"
  | .notFound => "NF"
  | .badSource => "BS"
  | .badTarget => "BT"
  | .txn o => "T" ++ showTxnOut o

def parseOut? (s : String) : Option Out :=
  if s == "OK" then some .ok
  else if s == "NO" then some .no
  else if s == "NF" then some .notFound
  else if s == "BS" then some .badSource
  else if s == "BT" then some .badTarget
  else if s.startsWith "I" then (s.drop 1).toString.toNat?.map .id
  else if s.startsWith "T" then (parseTxnOut? (s.drop 1).toString).map .txn
  else none

def showNodeRead : Option NodeV → String
  | none => "_"
  | some x => s!"{x.version}:{showLabels x.labels}:{showProps x.props}"

def parseNodeRead? (s : String) : Option (Option NodeV) :=
  if s == "_" then some none else
  match s.splitOn ":" with
  | [v, l, p] => do pure (some ⟨← v.toNat?, ← parseLabels? l, ← parseProps? p⟩)
  | _ => none

def showEdgeRead : Option (Nat × Props) → String
  | none => "_"
  | some x => s!"{x.1}:{showProps x.2}"

def parseEdgeRead? (s : String) : Option (Option (Nat × Props)) :=
  if s == "_" then some none else
  match s.splitOn ":" with
  | [v, p] => do pure (some (← v.toNat?, ← parseProps? p))
  | _ => none

def showPairs (l : List (Nat × Nat)) : String :=
  if l.isEmpty then "-" else joinWith "," (l.map (fun p => s!"{p.1}.{p.2}"))

def parsePairs? (s : String) : Option (List (Nat × Nat)) :=
  if s == "-" then some [] else
  (s.splitOn ",").mapM (fun p => match p.splitOn "." with
    | [a, b] => do pure (← a.toNat?, ← b.toNat?)
    | _ => none)

def showObs (o : Obs) : String :=
  joinWith "|" [
    showOut o.out, toString o.cur, toString o.wm, toString o.count, showPairs o.all,
    joinWith "/" (o.nodeReads.map (fun g => joinWith "," (g.map showNodeRead))),
    joinWith "/" (o.edgeReads.map (fun g => joinWith "," (g.map showEdgeRead))),
    showPairs o.edgeEnds,
    joinWith "," (o.txnNode.map showNodeRead),
    joinWith "," (o.txnEdge.map showEdgeRead),
    joinWith "," (o.active.map (fun b => if b then "1" else "0"))]

def parseObs? (s : String) : Option Obs :=
  match s.splitOn "|" with
  | [o, c, wm, n, all, nr, er, ends, tn, te, act] => do
      let out ← parseOut? o
      let cur ← c.toNat?
      let wm ← wm.toNat?
      let count ← n.toNat?
      let all ← parsePairs? all
      let nodeReads ← (nr.splitOn "/").mapM (fun g => (g.splitOn ",").mapM parseNodeRead?)
      let edgeReads ← (er.splitOn "/").mapM (fun g => (g.splitOn ",").mapM parseEdgeRead?)
      let edgeEnds ← parsePairs? ends
      let txnNode ← (tn.splitOn ",").mapM parseNodeRead?
      let txnEdge ← (te.splitOn ",").mapM parseEdgeRead?
      let active ← (act.splitOn ",").mapM (fun b => if b == "1" then some true else if b == "0" then some false else none)
      pure { out, cur, wm, count, all, nodeReads, edgeReads, edgeEnds, txnNode, txnEdge, active }
  | _ => none

def showViol (k : Nat) (v : Viol) : String :=
  s!"{k}.{v.clause}.{if v.isEdge then "e" else "n"}.{v.id}"

/-- every violated clause of every step (the first step is checked against the dump of the
empty store) -/
def allViolations (ops : List Op) (os : List Obs) : List String :=
  let rec go (k : Nat) (pre : Obs) : List Op → List Obs → List String
    | op :: ops, post :: os => (specStep pre op post).map (showViol k) ++ go (k + 1) post ops os
    | _, _ => []
  go 0 (obsG false {} .ok) ops os

def handle (_ : Unit) (line : String) : Unit × String :=
  match tokens line with
  | ["run", ops] => match parseOps? ops with
      | some l => ((), "ok " ++ joinWith ";" ((run l).map showObs))
      | none => ((), "bad-op")
  | ["legacy", ops] => match parseOps? ops with
      | some l => ((), "ok " ++ joinWith ";" ((runLegacy l).map showObs))
      | none => ((), "bad-op")
  | ["spec", ops, os] => match parseOps? ops, (os.splitOn ";").mapM parseObs? with
      | some l, some o =>
          if l.length != o.length then ((), "bad-op")
          else match allViolations l o with
            | [] => ((), "ok")
            | vs => ((), "viol " ++ joinWith "," vs)
      | _, _ => ((), "bad-op")
  | _ => ((), "bad-op")

def main : IO Unit := runDriver () handle
