import SgModel.Driver.Util
import SgModel.Model.Txn
/-!
Driver for the transaction model (C09).  Requests (one per line):

  run  <ops>            -> ok <obs>;<obs>;…          (code-shaped machine I, one obs per op)
  spec <ops> <obs>;…    -> ok | viol <k> <field>     (abstract FCW machine S evaluated
                                                      against the *given* observations)

  ops := op(;op)*
  op  := b:rc | b:si | wn:<t>.<n> | we:<t>.<e> | c:<t> | a:<t> | u | g:auto | g:<w>
  obs := <out>|<cur>|<r1>,<r2>,<r3>,<r4>
  out := B<id> | U | C<v> | X | NF | NA | AB        r := <version> | _
-/
open SgModel SgModel.Driver SgModel.Txn

def parsePair? (s : String) : Option (Nat × Nat) :=
  match s.splitOn "." with
  | [a, b] => do pure (← a.toNat?, ← b.toNat?)
  | _ => none

def parseOp? (s : String) : Option Op :=
  match s.splitOn ":" with
  | ["b", "rc"] => some (.begin .rc)
  | ["b", "si"] => some (.begin .si)
  | ["wn", p] => (parsePair? p).map (fun (t, n) => .writeNode t n)
  | ["we", p] => (parsePair? p).map (fun (t, e) => .writeEdge t e)
  | ["c", t] => t.toNat?.map .commit
  | ["a", t] => t.toNat?.map .abort
  | ["u"] => some .bump
  | ["g", "auto"] => some (.gc none)
  | ["g", w] => w.toNat?.map (fun w => .gc (some w))
  | _ => none

def parseOps? (s : String) : Option (List Op) := (s.splitOn ";").mapM parseOp?

def showOut : Out → String
  | .began id => s!"B{id}"
  | .unit => "U"
  | .committed v => s!"C{v}"
  | .conflict => "X"
  | .notFound => "NF"
  | .notActive => "NA"
  | .aborted => "AB"

def parseOut? (s : String) : Option Out :=
  if s == "U" then some .unit
  else if s == "X" then some .conflict
  else if s == "NF" then some .notFound
  else if s == "NA" then some .notActive
  else if s == "AB" then some .aborted
  else if s.startsWith "B" then (s.drop 1).toString.toNat?.map .began
  else if s.startsWith "C" then (s.drop 1).toString.toNat?.map .committed
  else none

def showObs (o : Obs) : String :=
  showOut o.out ++ "|" ++ toString o.cur ++ "|"
    ++ joinWith "," (o.reads.map (fun r => match r with | some v => toString v | none => "_"))

def parseObs? (s : String) : Option Obs :=
  match s.splitOn "|" with
  | [o, c, r] => do
      let out ← parseOut? o
      let cur ← c.toNat?
      let reads ← (r.splitOn ",").mapM (fun x => if x == "_" then some none else x.toNat?.map some)
      if reads.length != probeTxns then none else
      pure { out, cur, reads }
  | _ => none

/-- first step whose observation differs from the abstract machine's, and in which field -/
def firstDiff (k : Nat) : List Obs → List Obs → Option (Nat × String)
  | a :: as, b :: bs =>
      if a = b then firstDiff (k + 1) as bs
      else some (k, if a.out != b.out then "out" else if a.cur != b.cur then "cur" else "reads")
  | [], [] => none
  | _, _ => some (k, "length")

def handle (_ : Unit) (line : String) : Unit × String :=
  match tokens line with
  | ["run", ops] => match parseOps? ops with
      | some l => ((), "ok " ++ joinWith ";" ((run l).2.map showObs))
      | none => ((), "bad-op")
  | ["spec", ops, os] => match parseOps? ops, (os.splitOn ";").mapM parseObs? with
      | some l, some o =>
          if l.length != o.length then ((), "bad-op")
          else if spec l o then ((), "ok")
          else match firstDiff 0 (arun l).2 o with
            | some (k, f) => ((), s!"viol {k} {f}")
            | none => ((), "viol ? ?")
      | _, _ => ((), "bad-op")
  | _ => ((), "bad-op")

def main : IO Unit := runDriver () handle
