import SgModel.Driver.Util
import SgModel.Model.RaftLog
/-!
Driver for the RaftLog model.  Requests (one per line):

  run    <ops>            -> ok <obs>;<obs>;…      (model, repaired step; one obs per op)
  legacy <ops>            -> ok <obs>;…            (model of the pinned tree)
  spec   <ops> <obs>;…    -> ok | viol <k>         (S evaluated on *given* observations)

  ops  := op(;op)*      op := a:<i>.<t>.<d>(+<i>.<t>.<d>)* | t:<i> | s:<i>.<t>
  obs  := <dump>|<li>.<lt>|<snap>|<gets>|<range>
  dump, range := e(,e)* or -      e := <i>.<t>.<d>
  snap := <i>.<t> or -            gets := g(,g)*  g := e or _
-/
open SgModel SgModel.Driver SgModel.RaftLog

def parseEntry? (s : String) : Option Entry :=
  match s.splitOn "." with
  | [i, t, d] => do pure ⟨← i.toNat?, ← t.toNat?, ← d.toNat?⟩
  | _ => none

def parseOp? (s : String) : Option Op :=
  match s.splitOn ":" with
  | ["a", es] => do
      let l ← (es.splitOn "+").mapM parseEntry?
      pure (.append l)
  | ["t", i] => do pure (.truncate (← i.toNat?))
  | ["s", it] => match it.splitOn "." with
      | [i, t] => do pure (.snapshot (← i.toNat?) (← t.toNat?))
      | _ => none
  | _ => none

def parseOps? (s : String) : Option (List Op) := (s.splitOn ";").mapM parseOp?

def showEntry (e : Entry) : String := s!"{e.index}.{e.term}.{e.data}"
def showEntries (l : List Entry) : String :=
  if l.isEmpty then "-" else joinWith "," (l.map showEntry)
def showPair (p : Nat × Nat) : String := s!"{p.1}.{p.2}"
def showObs (o : Obs) : String :=
  showEntries o.dump ++ "|" ++ showPair o.last ++ "|"
    ++ (match o.snap with | some p => showPair p | none => "-") ++ "|"
    ++ joinWith "," (o.gets.map (fun g => match g with | some e => showEntry e | none => "_"))
    ++ "|" ++ showEntries o.range

def parseEntries? (s : String) : Option (List Entry) :=
  if s == "-" then some [] else (s.splitOn ",").mapM parseEntry?
def parsePair? (s : String) : Option (Nat × Nat) :=
  match s.splitOn "." with
  | [i, t] => do pure (← i.toNat?, ← t.toNat?)
  | _ => none
def parseObs? (s : String) : Option Obs :=
  match s.splitOn "|" with
  | [d, l, sn, g, r] => do
      let dump ← parseEntries? d
      let last ← parsePair? l
      let snap ← (if sn == "-" then some none else (parsePair? sn).map some)
      let gets ← (g.splitOn ",").mapM (fun x => if x == "_" then some none else (parseEntry? x).map some)
      let range ← parseEntries? r
      pure { dump, last, snap, gets, range }
  | _ => none

def trace (stepf : State → Op → State) (ops : List Op) : List Obs :=
  (ops.foldl (fun (acc : State × List Obs) op =>
      let s' := stepf acc.1 op
      (s', obs s' :: acc.2)) (({} : State), [])).2.reverse

/-- index of the first step whose (pre, op, post) triple violates S, if any -/
def firstViolation (ops : List Op) (os : List Obs) : Option Nat :=
  let rec go (k : Nat) (pre : Obs) : List Op → List Obs → Option Nat
    | op :: ops, post :: os => if specStep pre op post then go (k+1) post ops os else some k
    | _, _ => none
  go 0 (obs {}) ops os

def handle (_ : Unit) (line : String) : Unit × String :=
  match tokens line with
  | ["run", ops] => match parseOps? ops with
      | some l => ((), "ok " ++ joinWith ";" ((trace step l).map showObs))
      | none => ((), "bad-op")
  | ["legacy", ops] => match parseOps? ops with
      | some l => ((), "ok " ++ joinWith ";" ((trace stepLegacy l).map showObs))
      | none => ((), "bad-op")
  | ["spec", ops, os] => match parseOps? ops, (os.splitOn ";").mapM parseObs? with
      | some l, some o =>
          if l.length != o.length then ((), "bad-op")
          else match firstViolation l o with
            | none => ((), "ok")
            | some k => ((), s!"viol {k}")
      | _, _ => ((), "bad-op")
  | _ => ((), "bad-op")

def main : IO Unit := runDriver () handle
