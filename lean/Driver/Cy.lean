import SgModel.Driver.Util
import SgModel.Model.CyQuery
/-!
Driver for the Cypher reference semantics `Cy`.  One request per line, s-expressions:

  check <de> <graph> <query> <table>  -> <verdict> ;; <model> ;; <stats>
        verdict := ok | viol <why> | skip <err>          (S evaluated on the given table)
        model   := (t (cols…) (row v…)…) | err <kind>    (the model's own result)
  run <de> <graph> <query>            -> <model> ;; <stats>
        stats   := m=<matches of the first MATCH before WHERE> w=<true,false,null,err>|-
  const <graph> <clauses-query> <expr> -> ok <n-true> <n-false> <n-null> <n-err>
        (how a predicate evaluates over the rows the clauses produce; `q`'s projection is ignored)

  de     := 0 (the specification) | 1 (engine's variable-length BFS) | 2 (engine's ORDER BY
            tie-break) | 3 (both) — 1..3 only classify a violation found under 0
  graph  := (g ((n (label…) ((key v)…))…) ((r src tgt type ((key v)…))…))   ids = positions
  v      := N | T | F | I<int> | D<num>_<k> | S<hex> | (L v…) | n<id> | r<id>
  expr   := (lit v) | (var x) | (prop e k) | (not e) | (and a b) | (or a b) | (xor a b)
          | (cmp eq|ne|lt|le|gt|ge a b) | (isnull e) | (notnull e) | (in a b)
          | (str starts|ends|contains a b) | (ar add|sub|mul|div|mod a b) | (neg e)
          | (fn size|abs|tostring|head|last|id e) | (coalesce a b)
  np     := (np var|_ (label…) ((key v)…))
  rp     := (rp var|_ (type…) out|in|both ((key v)…) _|(lo hi|_))
  path   := (path np rp np …)
  clause := (match T|F (path…) _|expr) | (unwind expr x) | (with proj)
  proj   := (proj T|F (item…) ((k expr T|F)…) _|skip _|limit _|expr)
  item   := (e expr alias) | (agg countstar|count|sum|avg|min|max|collect T|F expr alias)
  query  := (q (clause…) proj)
  table  := (t (col…) (row v…)…)
-/
open SgModel SgModel.Driver SgModel.Cy

inductive Sx where
  | a (s : String)
  | l (xs : List Sx)
deriving Inhabited

/-- tokenise: parens are tokens, everything else splits on spaces -/
def sxTokens (s : String) : List String := Id.run do
  let mut out : Array String := #[]
  let mut cur : String := ""
  for c in s.toList do
    if c == '(' || c == ')' then
      if !cur.isEmpty then out := out.push cur; cur := ""
      out := out.push (String.singleton c)
    else if c == ' ' || c == '\n' || c == '\r' || c == '\t' then
      if !cur.isEmpty then out := out.push cur; cur := ""
    else cur := cur.push c
  if !cur.isEmpty then out := out.push cur
  return out.toList

/-- parse a sequence of s-expressions up to a closing paren / end -/
partial def sxParseSeq (ts : List String) (acc : Array Sx) : Option (List Sx × List String) :=
  match ts with
  | [] => some (acc.toList, [])
  | ")" :: rest => some (acc.toList, ")" :: rest)
  | "(" :: rest =>
    match sxParseSeq rest #[] with
    | some (xs, ")" :: rest') => sxParseSeq rest' (acc.push (.l xs))
    | _ => none
  | t :: rest => sxParseSeq rest (acc.push (.a t))

def sxParseAll (s : String) : Option (List Sx) :=
  match sxParseSeq (sxTokens s) #[] with
  | some (xs, []) => some xs
  | _ => none

def nameOf (s : String) : Name := s.toUTF8.foldl (fun acc b => acc * 256 + b.toNat) 0

partial def nameStr (n : Name) : String :=
  let rec go (n : Nat) (acc : List Char) : List Char :=
    if n == 0 then acc else go (n / 256) (Char.ofNat (n % 256) :: acc)
  String.ofList (go n [])

def optName (s : String) : Option Name := if s == "_" then none else some (nameOf s)

def parseAtom? (s : String) : Option Atom :=
  if s == "N" then some .null
  else if s == "T" then some (.bool true)
  else if s == "F" then some (.bool false)
  else if s.startsWith "I" then (parseInt? (s.drop 1).toString).map .int
  else if s.startsWith "D" then
    match (s.drop 1).toString.splitOn "_" with
    | [n, k] => do
        let n ← parseInt? n
        let k ← k.toNat?
        let (n', k') := dyNorm n k
        pure (.flt n' k')
    | _ => none
  else if s.startsWith "S" then do
    let bs ← bytesOfHex? (if s.length == 1 then "-" else (s.drop 1).toString)
    pure (.str (bs.map (fun b => Char.ofNat b.toNat)))
  else if s.startsWith "n" then (s.drop 1).toString.toNat?.map .node
  else if s.startsWith "r" then (s.drop 1).toString.toNat?.map .rel
  else none

def parseVal? : Sx → Option Val
  | .a s => (parseAtom? s).map .atom
  | .l (.a "L" :: xs) => do
      let as ← xs.mapM (fun x => match x with | .a s => parseAtom? s | _ => none)
      pure (.list as)
  | _ => none

def parseProps? : Sx → Option (List (Name × Val))
  | .l kvs => kvs.mapM fun kv => match kv with
      | .l [.a k, v] => do pure (nameOf k, ← parseVal? v)
      | _ => none
  | _ => none

def parseNames? : Sx → Option (List Name)
  | .l xs => xs.mapM fun x => match x with | .a s => some (nameOf s) | _ => none
  | _ => none

def parseGraph? : Sx → Option Graph
  | .l [.a "g", .l ns, .l rs] => do
      let nodes ← ns.mapM fun n => match n with
        | .l [.a "n", ls, ps] => do pure (← parseNames? ls, ← parseProps? ps)
        | _ => none
      let rels ← rs.mapM fun r => match r with
        | .l [.a "r", .a s, .a t, .a ty, ps] => do
            pure (← s.toNat?, ← t.toNat?, nameOf ty, ← parseProps? ps)
        | _ => none
      let nodes := nodes.zipIdx.map fun ((ls, ps), i) => (⟨i, ls, ps⟩ : Node)
      let rels := rels.zipIdx.map fun ((s, t, ty, ps), i) => (⟨i, s, t, ty, ps⟩ : Rel)
      pure ⟨nodes, rels⟩
  | _ => none

def parseCmpOp? : String → Option CmpOp
  | "eq" => some .eq | "ne" => some .ne | "lt" => some .lt
  | "le" => some .le | "gt" => some .gt | "ge" => some .ge | _ => none
def parseStrOp? : String → Option StrOp
  | "starts" => some .starts | "ends" => some .ends | "contains" => some .contains | _ => none
def parseArithOp? : String → Option ArithOp
  | "add" => some .add | "sub" => some .sub | "mul" => some .mul
  | "div" => some .div | "mod" => some .mod | _ => none
def parseFn1? : String → Option Fn1
  | "size" => some .size | "abs" => some .abs | "tostring" => some .toString
  | "head" => some .head | "last" => some .last | "id" => some .id | _ => none

partial def parseExpr? : Sx → Option Expr
  | .l [.a "lit", v] => (parseVal? v).map .lit
  | .l [.a "var", .a x] => some (.var (nameOf x))
  | .l [.a "prop", e, .a k] => do pure (.prop (← parseExpr? e) (nameOf k))
  | .l [.a "not", e] => (parseExpr? e).map .not
  | .l [.a "and", a, b] => do pure (.and (← parseExpr? a) (← parseExpr? b))
  | .l [.a "or", a, b] => do pure (.or (← parseExpr? a) (← parseExpr? b))
  | .l [.a "xor", a, b] => do pure (.xor (← parseExpr? a) (← parseExpr? b))
  | .l [.a "cmp", .a op, a, b] => do pure (.cmp (← parseCmpOp? op) (← parseExpr? a) (← parseExpr? b))
  | .l [.a "isnull", e] => (parseExpr? e).map .isNull
  | .l [.a "notnull", e] => (parseExpr? e).map .isNotNull
  | .l [.a "in", a, b] => do pure (.inList (← parseExpr? a) (← parseExpr? b))
  | .l [.a "str", .a op, a, b] => do pure (.strOp (← parseStrOp? op) (← parseExpr? a) (← parseExpr? b))
  | .l [.a "ar", .a op, a, b] => do pure (.arith (← parseArithOp? op) (← parseExpr? a) (← parseExpr? b))
  | .l [.a "neg", e] => (parseExpr? e).map .neg
  | .l [.a "fn", .a f, e] => do pure (.fn1 (← parseFn1? f) (← parseExpr? e))
  | .l [.a "coalesce", a, b] => do pure (.coalesce (← parseExpr? a) (← parseExpr? b))
  | _ => none

def parseBool? : Sx → Option Bool
  | .a "T" => some true
  | .a "F" => some false
  | _ => none

def parseOptNat? : Sx → Option (Option Nat)
  | .a "_" => some none
  | .a s => s.toNat?.map some
  | _ => none

def parseOptExpr? : Sx → Option (Option Expr)
  | .a "_" => some none
  | e => (parseExpr? e).map some

def parseNodePat? : Sx → Option NodePat
  | .l [.a "np", .a v, ls, ps] => do pure ⟨optName v, ← parseNames? ls, ← parseProps? ps⟩
  | _ => none

def parseDir? : String → Option Dir
  | "out" => some .out | "in" => some .inn | "both" => some .both | _ => none

def parseRelPat? : Sx → Option RelPat
  | .l [.a "rp", .a v, ts, .a d, ps, rg] => do
      let range ← (match rg with
        | .a "_" => some none
        | .l [.a lo, hi] => do pure (some (← lo.toNat?, ← parseOptNat? hi))
        | _ => none)
      pure ⟨optName v, ← parseNames? ts, ← parseDir? d, ← parseProps? ps, range⟩
  | _ => none

partial def parseSteps? : List Sx → Option (List (RelPat × NodePat))
  | [] => some []
  | r :: n :: rest => do
      let r ← parseRelPat? r
      let n ← parseNodePat? n
      pure ((r, n) :: (← parseSteps? rest))
  | _ => none

def parsePath? : Sx → Option PathPat
  | .l (.a "path" :: n0 :: rest) => do pure ⟨← parseNodePat? n0, ← parseSteps? rest⟩
  | _ => none

def parseAggKind? : String → Option AggKind
  | "countstar" => some .countStar | "count" => some .count | "sum" => some .sum
  | "avg" => some .avg | "min" => some .min | "max" => some .max
  | "collect" => some .collect | _ => none

def parseItem? : Sx → Option Item
  | .l [.a "e", e, .a al] => do pure (.expr (← parseExpr? e) (nameOf al))
  | .l [.a "agg", .a k, d, e, .a al] => do
      pure (.agg (← parseAggKind? k) (← parseBool? d) (← parseExpr? e) (nameOf al))
  | _ => none

def parseProj? : Sx → Option Proj
  | .l [.a "proj", d, .l items, .l order, sk, lim, w] => do
      let items ← items.mapM parseItem?
      let order ← order.mapM fun o => match o with
        | .l [.a "k", e, d] => do pure (⟨← parseExpr? e, ← parseBool? d⟩ : OrderKey)
        | _ => none
      pure ⟨← parseBool? d, items, order, ← parseOptNat? sk, ← parseOptNat? lim, ← parseOptExpr? w⟩
  | _ => none

def parseClause? : Sx → Option Clause
  | .l [.a "match", o, .l paths, w] => do
      pure (.match_ (← parseBool? o) (← paths.mapM parsePath?) (← parseOptExpr? w))
  | .l [.a "unwind", e, .a x] => do pure (.unwind (← parseExpr? e) (nameOf x))
  | .l [.a "with", p] => (parseProj? p).map .with_
  | _ => none

def parseQuery? : Sx → Option Query
  | .l [.a "q", .l cs, p] => do pure ⟨← cs.mapM parseClause?, ← parseProj? p⟩
  | _ => none

def parseTable? : Sx → Option Table
  | .l (.a "t" :: cols :: rows) => do
      let cols ← parseNames? cols
      let rows ← rows.mapM fun r => match r with
        | .l (.a "row" :: vs) => vs.mapM parseVal?
        | _ => none
      pure ⟨cols, rows⟩
  | _ => none

def showInt (i : Int) : String := if i < 0 then "-" ++ toString i.natAbs else toString i.natAbs

def showAtom : Atom → String
  | .null => "N"
  | .bool true => "T"
  | .bool false => "F"
  | .int i => "I" ++ showInt i
  | .flt n k => "D" ++ showInt n ++ "_" ++ toString k
  | .str s => "S" ++ hexOfBytes (s.map (fun c => UInt8.ofNat c.toNat))
  | .node i => "n" ++ toString i
  | .rel i => "r" ++ toString i

def showVal : Val → String
  | .atom a => showAtom a
  | .list l => "(L" ++ String.join (l.map (fun a => " " ++ showAtom a)) ++ ")"

def showTable (t : Table) : String :=
  "(t (" ++ joinWith " " (t.cols.map nameStr) ++ ")"
    ++ String.join (t.rows.map fun r => " (row" ++ String.join (r.map (fun v => " " ++ showVal v)) ++ ")")
    ++ ")"

def showErr : Err → String
  | .type => "type" | .arith => "arith" | .unbound => "unbound" | .unspecified => "unspecified"

def showModel (r : Except Err Table) : String :=
  match r with
  | .ok t => showTable t
  | .error e => "err " ++ showErr e

def showVerdict : Verdict → String
  | .ok => "ok"
  | .viol w => "viol " ++ w
  | .skip e => "skip " ++ showErr e

/-- mode: bit 0 = the engine's variable-length BFS, bit 1 = the engine's ORDER BY tie-break -/
def parseMode? : Sx → Option (Bool × Bool)
  | .a "0" => some (false, false)
  | .a "1" => some (true, false)
  | .a "2" => some (false, true)
  | .a "3" => some (true, true)
  | _ => none

def parseDe? (x : Sx) : Option Bool := (parseMode? x).map (·.1)

/-- 0 = true, 1 = false, 2 = null, 3 = error / not a boolean -/
def predClass (g : Graph) (r : Row) (e : Expr) : Nat :=
  match evalExpr g r e with
  | Except.ok (Val.atom (Atom.bool true)) => 0
  | Except.ok (Val.atom (Atom.bool false)) => 1
  | Except.ok (Val.atom Atom.null) => 2
  | _ => 3

/-- how the predicate evaluates on the rows produced by the query's clauses -/
def constStats (g : Graph) (q : Query) (e : Expr) : String :=
  match evalClauses g false q.clauses [[]] with
  | .error _ => "ok 0 0 0 1"
  | .ok rows =>
    let cs := rows.map fun r => predClass g r e
    s!"ok {cs.count 0} {cs.count 1} {cs.count 2} {cs.count 3}"

/-- coverage statistics of a case: matches of the first MATCH before its WHERE, and how
that WHERE evaluates over them (true/false/null/error) -/
def queryStats (g : Graph) (de : Bool) (q : Query) : String :=
  match q.clauses.find? (fun c => match c with | .match_ _ _ _ => true | _ => false) with
  | some (.match_ _ pats w) =>
    let rows := matchClause g de pats []
    let ws := match w with
      | none => "-"
      | some e =>
        let cs := rows.map fun r => predClass g r e
        let nt := cs.count 0
        let nf := cs.count 1
        let nn := cs.count 2
        s!"{nt},{nf},{nn},{cs.length - nt - nf - nn}"
    s!"m={rows.length} w={ws}"
  | _ => "m=0 w=-"

def handle (_ : Unit) (line : String) : Unit × String :=
  match sxParseAll line with
  | some [.a "check", de, g, q, t] =>
    match parseMode? de, parseGraph? g, parseQuery? q, parseTable? t with
    | some (de, tie), some g, some q, some t =>
      ((), showVerdict (specQueryWith tie g de q t) ++ " ;; " ++ showModel (evalQuery g de q)
        ++ " ;; " ++ queryStats g de q)
    | _, _, _, _ => ((), "bad-op")
  | some [.a "run", de, g, q] =>
    match parseDe? de, parseGraph? g, parseQuery? q with
    | some de, some g, some q => ((), showModel (evalQuery g de q) ++ " ;; " ++ queryStats g de q)
    | _, _, _ => ((), "bad-op")
  | some [.a "const", g, q, e] =>
    match parseGraph? g, parseQuery? q, parseExpr? e with
    | some g, some q, some e => ((), constStats g q e)
    | _, _, _ => ((), "bad-op")
  | _ => ((), "bad-op")

def main : IO Unit := runDriver () handle
