import SgModel.Driver.Util
import SgModel.Model.Rdf
/-!
Driver for the Rdf model (C36).  All text crosses the protocol as lowercase hex of its UTF-8
encoding (the empty string is the empty hex string).

  term   := I<hex> | B<hex> | S<hex> | L<hex>.<hex> | T<hex>.<hex>
            (L value.tag and T value.datatype are *constructor calls*: the model applies
             `mkLang` / `mkTyped`, as `Literal::new_language_tagged_literal` /
             `Literal::new_typed_literal` do)
  triple := <term>,<term>,<term>          (subject I|B, predicate I, object any)
  case   := <triple>(;<triple>)* | -

  pred <nt|ttl|xml> <case>                 -> ok <hex of the model's output text> <outcome>
  spec <nt|ttl|xml> <case> <outcome>       -> ok | viol <class>
  parse <nt|ttl> <hex of text>             -> ok <outcome>     (model parser on arbitrary text)
  lex iri <hex> | lex lang <hex>           -> ok true|false    (iriOK / langOK of the lower-cased tag)
  lex bnode <hex>                          -> ok <oxBnodeValid> <bnodeOK> <isNcName>
  outcome := serr | perr | back:<case>
-/
open SgModel SgModel.Driver SgModel.Rdf

def byteArrayOfList (l : List UInt8) : ByteArray := ⟨l.toArray⟩

def strOfHex? (h : String) : Option Str :=
  match bytesOfHexChars h.toList with
  | none => none
  | some bs => (String.fromUTF8? (byteArrayOfList bs)).map String.toList

def hexOfStr (s : Str) : String := hexOfBytes (String.ofList s).toUTF8.toList

def split2 (s : String) : Option (String × String) :=
  match s.splitOn "." with
  | [a, b] => some (a, b)
  | _ => none

def parseLitTerm? (k : Char) (body : String) : Option Lit :=
  if k == 'S' then (strOfHex? body).map Lit.simple
  else if k == 'L' then do
    let (a, b) ← split2 body
    pure (mkLang (← strOfHex? a) (← strOfHex? b))
  else if k == 'T' then do
    let (a, b) ← split2 body
    pure (mkTyped (← strOfHex? a) (← strOfHex? b))
  else none

def parseSubjTerm? (s : String) : Option Subj :=
  match s.toList with
  | 'I' :: r => (strOfHex? (String.ofList r)).map Subj.iri
  | 'B' :: r => (strOfHex? (String.ofList r)).map Subj.bnode
  | _ => none

def parseObjTerm? (s : String) : Option Obj :=
  match s.toList with
  | 'I' :: r => (strOfHex? (String.ofList r)).map Obj.iri
  | 'B' :: r => (strOfHex? (String.ofList r)).map Obj.bnode
  | k :: r => (parseLitTerm? k (String.ofList r)).map Obj.lit
  | _ => none

def parseTriple? (s : String) : Option Triple :=
  match s.splitOn "," with
  | [a, b, c] => do
      let sb ← parseSubjTerm? a
      let p ← (match b.toList with | 'I' :: r => strOfHex? (String.ofList r) | _ => none)
      let o ← parseObjTerm? c
      pure ⟨sb, p, o⟩
  | _ => none

def parseCase? (s : String) : Option (List Triple) :=
  if s == "-" then some [] else (s.splitOn ";").mapM parseTriple?

def showLit : Lit → String
  | .simple v => "S" ++ hexOfStr v
  | .lang v l => "L" ++ hexOfStr v ++ "." ++ hexOfStr l
  | .typed v dt => "T" ++ hexOfStr v ++ "." ++ hexOfStr dt

def showSubj : Subj → String
  | .iri i => "I" ++ hexOfStr i
  | .bnode b => "B" ++ hexOfStr b

def showObj : Obj → String
  | .iri i => "I" ++ hexOfStr i
  | .bnode b => "B" ++ hexOfStr b
  | .lit l => showLit l

def showTriple (t : Triple) : String :=
  showSubj t.s ++ ",I" ++ hexOfStr t.p ++ "," ++ showObj t.o

def showCase (ts : List Triple) : String :=
  if ts.isEmpty then "-" else joinWith ";" (ts.map showTriple)

def showOutcome : Outcome → String
  | .serErr => "serr"
  | .parseErr => "perr"
  | .back ts => "back:" ++ showCase ts

def parseOutcome? (s : String) : Option Outcome :=
  if s == "serr" then some .serErr
  else if s == "perr" then some .parseErr
  else if s.startsWith "back:" then (parseCase? (s.drop 5).toString).map Outcome.back
  else none

def parseFmt? (s : String) : Option Fmt :=
  if s == "nt" then some .nt else if s == "ttl" then some .ttl else if s == "xml" then some .xml
  else none

def renderFmt (f : Fmt) (ts : List Triple) : Str :=
  match f with
  | .nt => renderDoc ts
  | .ttl => ttlRender ts
  | .xml => xmlRender ts

def showBool (b : Bool) : String := if b then "true" else "false"

def handle (_ : Unit) (line : String) : Unit × String :=
  match tokens line with
  | ["pred", f, c] =>
    (match parseFmt? f, parseCase? c with
      | some f, some ts =>
        let bytes := hexOfStr (renderFmt f ts)
        ((), "ok " ++ (if bytes.isEmpty then "-" else bytes) ++ " " ++ showOutcome (predict f ts))
      | _, _ => ((), "bad-op"))
  | ["spec", f, c, o] =>
    (match parseFmt? f, parseCase? c, parseOutcome? o with
      | some f, some ts, some out =>
        (match spec f ts out with
          | .ok => ((), "ok")
          | .viol cls => ((), "viol " ++ cls))
      | _, _, _ => ((), "bad-op"))
  | ["parse", f, h] =>
    (match parseFmt? f, strOfHex? (if h == "-" then "" else h) with
      | some .nt, some txt =>
        ((), "ok " ++ showOutcome (match parseDoc txt with | some b => .back b | none => .parseErr))
      | some .ttl, some txt =>
        ((), "ok " ++ showOutcome (match ttlParse txt with | some b => .back b | none => .parseErr))
      | _, _ => ((), "bad-op"))
  | ["lex", "iri", h] =>
    (match strOfHex? (if h == "-" then "" else h) with
      | some s => ((), "ok " ++ showBool (iriOK s))
      | none => ((), "bad-op"))
  | ["lex", "lang", h] =>
    (match strOfHex? (if h == "-" then "" else h) with
      | some s => ((), "ok " ++ showBool (langOK (s.map Char.toLower)))
      | none => ((), "bad-op"))
  | ["lex", "bnode", h] =>
    (match strOfHex? (if h == "-" then "" else h) with
      | some s => ((), "ok " ++ showBool (oxBnodeValid s) ++ " " ++ showBool (bnodeOK s) ++ " "
                        ++ showBool (isNcName s))
      | none => ((), "bad-op"))
  | _ => ((), "bad-op")

def main : IO Unit := runDriver () handle
