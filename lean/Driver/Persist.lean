import SgModel.Driver.Util
import SgModel.Model.Persist
import SgModel.Driver.PersistSyntax
/-!
Driver for the Persist model (C16, C32).  One request line per case:

  crash        <cfg> <ops> <k>      -> ok <results>|<inflight>|<points>|<dump>   | err recover
  crashlegacy  <cfg> <ops> <k>      -> same, model of the pinned tree
  speccrash    <ops> <results>|<inflight>|<dump>   -> ok | viol       (S of C16 on observations)
  replicas       <cfgs> <reqs> <t>  -> ok <resps>|<dump>                         | err recover
  replicaslegacy <cfgs> <reqs> <t>  -> same, model of the pinned tree
  specreplicas <reqs> <t> <resps>|<dump>(#<resps>|<dump>)*  -> ok | viol   (S of C32)

  cfg   := <registered 0|1>.<enabled 0|1>.<maxNodes|->.<maxEdges|->
  cfgs  := <tenant>=<cfg>(,<tenant>=<cfg>)*        (tenants not listed are not registered)
  ops   := op(;op)* | -
  op    := cn:<id>:<labels>:<props> | ce:<id>:<src>:<tgt>:<ty>:<props> | dn:<id> | de:<id>
         | un:<id>:<props> | ue:<id>:<props>
  reqs  := <tenant>@op(;<tenant>@op)* | -
  labels := n(+n)* | -        props := k=v(+k=v)* | -
  results := r(,r)* | -   r := ok | notfound | denied | quota | fuel
  resps := p(,p)* | -     p := ok | n<id> | e<id> | err
  points := name(,name)* | -
  dump  := <nodes>/<edges>   nodes := <id>:<labels>:<props>(,…)* | -
                             edges := <id>:<src>:<tgt>:<ty>:<props>(,…)* | -
-/
open SgModel SgModel.Driver SgModel.Persist SgModel.Driver.PersistSyntax

def doCrash (I : Impl) (cfg : Cfg) (ops : List Op) (k : Nat) : String :=
  let o := crashRun I cfg ops k {}
  match I.recover cfg (crash o.state) with
  | .ok (_, kv) =>
      "ok " ++ showList' (o.acked.map showRes) ++ "|" ++ (if o.inflight.isSome then "1" else "0")
        ++ "|" ++ showList' (o.points.map pointName) ++ "|" ++ showKV kv
  | .error _ => "err recover"

def parseCrashObs? (s : String) : Option CrashObs :=
  match s.splitOn "|" with
  | [r, i, d] => do pure ⟨← parseResults? r, ← parseBit? i, ← parseKV? d⟩
  | _ => none

def doReplicas (M : SM) (cfgs : Nat → Cfg) (reqs : List Req) (t : Nat) : String :=
  match replicaObs M cfgs reqs t with
  | some o => "ok " ++ showList' (o.resps.map showResp) ++ "|" ++ showKV o.recovered
  | none => "err recover"

def parseReplicaObs? (s : String) : Option ReplicaObs :=
  match s.splitOn "|" with
  | [r, d] => do pure ⟨← parseResps? r, ← parseKV? d⟩
  | _ => none

def handle (_ : Unit) (line : String) : Unit × String :=
  match tokens line with
  | ["crash", c, ops, k] => match parseCfg? c, parseOps? ops, k.toNat? with
      | some c, some l, some k => ((), doCrash fixed c l k)
      | _, _, _ => ((), "bad-op")
  | ["crashlegacy", c, ops, k] => match parseCfg? c, parseOps? ops, k.toNat? with
      | some c, some l, some k => ((), doCrash legacy c l k)
      | _, _, _ => ((), "bad-op")
  | ["speccrash", ops, obs] => match parseOps? ops, parseCrashObs? obs with
      | some l, some o => ((), if specCrash l o then "ok" else "viol")
      | _, _ => ((), "bad-op")
  | ["replicas", cs, reqs, t] => match parseCfgs? cs, parseReqs? reqs, t.toNat? with
      | some cs, some l, some t => ((), doReplicas smFixed (cfgsFn cs) l t)
      | _, _, _ => ((), "bad-op")
  | ["replicaslegacy", cs, reqs, t] => match parseCfgs? cs, parseReqs? reqs, t.toNat? with
      | some cs, some l, some t => ((), doReplicas smLegacy (cfgsFn cs) l t)
      | _, _, _ => ((), "bad-op")
  | ["specreplicas", reqs, t, obs] =>
      match parseReqs? reqs, t.toNat?, (obs.splitOn "#").mapM parseReplicaObs? with
      | some l, some t, some os => ((), if specReplicas l t os then "ok" else "viol")
      | _, _, _ => ((), "bad-op")
  | _ => ((), "bad-op")

def main : IO Unit := runDriver () handle
