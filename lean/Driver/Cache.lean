import SgModel.Driver.Util
import SgModel.Model.Lex
import SgModel.Model.Cache
/-!
Driver for the parsed-query cache model (C03).  Requests (one per line):

  run  <cap> <norm|legacy> <q>(,<q>)*   -> ok <r>(,<r>)*
        q := <hex utf8 of the query string>:<0|1>      1 = the real parser accepts the string
        r := h<j>/<len> | m/<len>       hit answering with the parse of the string of op j
                                        (first op with that exact text) / miss; cache length
  spec <cap> <o>(,<o>)*                 -> ok | viol <k>
        o := <cached>.<fresh>.<hits>.<misses>.<len>    (digests are decimal naturals)
  lex  <hex>                            -> ok <legacyKey> <normalize> <tokens> <codeTokens>
        (hex; words joined by a 00 byte; `-` = empty)
-/
open SgModel SgModel.Driver SgModel.Lex SgModel.Cache

def strOfHex? (h : String) : Option String := do
  let bs ← bytesOfHex? h
  String.fromUTF8? (ByteArray.mk bs.toArray)

def hexOfChars (cs : List Char) : String :=
  hexOrDash (String.ofList cs).toUTF8.toList

def hexOfWords (ws : List (List Char)) : String :=
  hexOrDash (String.ofList (List.intercalate [Char.ofNat 0] ws)).toUTF8.toList

def parseQ? (s : String) : Option (List Char × Bool) :=
  match s.splitOn ":" with
  | [h, "0"] => (strOfHex? h).map (fun x => (x.toList, false))
  | [h, "1"] => (strOfHex? h).map (fun x => (x.toList, true))
  | _ => none

def firstIndex (qs : List (List Char × Bool)) (s : List Char) : Nat :=
  (qs.findIdx? (fun q => q.1 == s)).getD 0

def runModel (cap : Nat) (key : List Char → List Char) (qs : List (List Char × Bool)) : String :=
  let parse : List Char → Except Unit (List Char) := fun s =>
    match qs.find? (fun q => q.1 == s) with
    | some (_, true) => .ok s
    | _ => .error ()
  let steps := trace cap key parse [] (qs.map (·.1))
  joinWith "," (steps.map (fun st =>
    match st.hit, st.result with
    | true, .ok v => s!"h{firstIndex qs v}/{st.cache.length}"
    | true, .error _ => s!"h?/{st.cache.length}"
    | false, _ => s!"m/{st.cache.length}"))

def parseObs? (s : String) : Option Obs :=
  match s.splitOn "." with
  | [a, b, c, d, e] => do
      pure { cached := ← a.toNat?, fresh := ← b.toNat?, hits := ← c.toNat?, misses := ← d.toNat?,
             len := ← e.toNat? }
  | _ => none

def handle (_ : Unit) (line : String) : Unit × String :=
  match SgModel.Driver.tokens line with
  | ["run", cap, k, qs] =>
    match cap.toNat?, (qs.splitOn ",").mapM parseQ? with
    | some cap, some l =>
      if k == "norm" then ((), "ok " ++ runModel cap normalize l)
      else if k == "legacy" then ((), "ok " ++ runModel cap legacyKey l)
      else ((), "bad-op")
    | _, _ => ((), "bad-op")
  | ["spec", cap, os] =>
    match cap.toNat?, (os.splitOn ",").mapM parseObs? with
    | some cap, some l =>
      (match specTrace cap 0 l with
       | none => ((), "ok")
       | some k => ((), s!"viol {k}"))
    | _, _ => ((), "bad-op")
  | ["lex", h] =>
    match strOfHex? h with
    | some s =>
      let cs := s.toList
      ((), s!"ok {hexOfChars (legacyKey cs)} {hexOfChars (normalize cs)} {hexOfWords (Lex.tokens cs)} {hexOfWords (codeTokens cs)}")
    | none => ((), "bad-op")
  | _ => ((), "bad-op")

def main : IO Unit := runDriver () handle
