import SgModel.Driver.Util
import SgModel.Model.Quorum
/-!
Driver for the Quorum model (C33).  Requests (one per line):

  run    <cfg> <rf> <ops>   -> ok <obs>;<obs>;…  | err     (repaired model; first obs is after
                                                            ClusterManager::new, then one per op;
                                                            `err` = new rejected the config)
  legacy <cfg> <rf> <ops>   -> same, model of the pinned tree
  spec   <ops> <obs>;…      -> ok | viol <k> <health|membership>   (S on *given* observations:
                                specObs after `new`, specStep for every later pair)

  cfg := c(,c)* | -     c := a<id><v|l>  (ClusterConfig::add_node)  |  p<id><v|l> (raw push)
  ops := op(;op)* | _   op := A<id><v|l> | B<id><v|l> | R<id> | +<id> | -<id> | L<id><L|F|C|N>
                              | U<id><v|l>(.<id><v|l>)* | U-
  obs := <nodes>|<active>|<roles>|<healthy>.<total_nodes>.<active_nodes>.<total_voters>.<active_voters>.<has_leader>|<ok>
  nodes := <id><v|l>(,…)* | -    active := <id>(,<id>)* | -    roles := 7 chars of _ L F C N
-/
open SgModel SgModel.Driver SgModel.Quorum

def parseFlag? (c : Char) : Option Bool :=
  if c == 'v' then some true else if c == 'l' then some false else none

def parseRole? (c : Char) : Option Role :=
  if c == 'L' then some .leader else if c == 'F' then some .follower
  else if c == 'C' then some .candidate else if c == 'N' then some .learner else none

def showRole : Option Role → Char
  | none => '_' | some .leader => 'L' | some .follower => 'F'
  | some .candidate => 'C' | some .learner => 'N'

/-- `<id><flag>` -/
def parseNode? (s : String) : Option NodeCfg :=
  match s.toList.reverse with
  | f :: rest => do
      let v ← parseFlag? f
      let id ← (String.ofList rest.reverse).toNat?
      pure ⟨id, v⟩
  | [] => none

def parseCfgItem? (s : String) : Option (Bool × NodeCfg) :=
  match s.toList with
  | 'a' :: rest => (parseNode? (String.ofList rest)).map (fun n => (true, n))
  | 'p' :: rest => (parseNode? (String.ofList rest)).map (fun n => (false, n))
  | _ => none

def parseCfg? (s : String) : Option (List (Bool × NodeCfg)) :=
  if s == "-" then some [] else (s.splitOn ",").mapM parseCfgItem?

def parseOp? (s : String) : Option Op :=
  match s.toList with
  | 'A' :: rest => (parseNode? (String.ofList rest)).map (fun n => .add n.id n.voter)
  -- `B` = add_node announcing a different address; addresses are not part of the model
  | 'B' :: rest => (parseNode? (String.ofList rest)).map (fun n => .add n.id n.voter)
  | 'R' :: rest => (String.ofList rest).toNat?.map .remove
  | '+' :: rest => (String.ofList rest).toNat?.map .markActive
  | '-' :: rest => (String.ofList rest).toNat?.map .markInactive
  | 'L' :: rest =>
      match rest.reverse with
      | r :: idr => do
          let role ← parseRole? r
          let id ← (String.ofList idr.reverse).toNat?
          pure (.role id role)
      | [] => none
  | 'U' :: rest =>
      let body := String.ofList rest
      if body == "-" then some (.updateConfig [])
      else (body.splitOn ".").mapM parseNode? |>.map .updateConfig
  | _ => none

def parseOps? (s : String) : Option (List Op) :=
  if s == "_" then some [] else (s.splitOn ";").mapM parseOp?

def showNode (n : NodeCfg) : String := s!"{n.id}{if n.voter then "v" else "l"}"
def b01 (b : Bool) : String := if b then "1" else "0"

def showObs (o : Obs) : String :=
  (if o.nodes.isEmpty then "-" else joinWith "," (o.nodes.map showNode)) ++ "|"
  ++ (if o.active.isEmpty then "-" else joinWith "," (o.active.map toString)) ++ "|"
  ++ String.ofList (o.roles.map showRole) ++ "|"
  ++ s!"{b01 o.health.healthy}.{o.health.totalNodes}.{o.health.activeNodes}.{o.health.totalVoters}.{o.health.activeVoters}.{b01 o.health.hasLeader}"
  ++ "|" ++ b01 o.ok

def parseBool01? (s : String) : Option Bool :=
  if s == "1" then some true else if s == "0" then some false else none

def parseObs? (s : String) : Option Obs :=
  match s.splitOn "|" with
  | [ns, ac, rs, h, ok] => do
      let nodes ← if ns == "-" then some [] else (ns.splitOn ",").mapM parseNode?
      let active ← if ac == "-" then some [] else (ac.splitOn ",").mapM (·.toNat?)
      let roles ← rs.toList.mapM (fun c => if c == '_' then some none else (parseRole? c).map some)
      let health ← match h.splitOn "." with
        | [a, b, c, d, e, f] => do
            pure { healthy := ← parseBool01? a, totalNodes := ← b.toNat?, activeNodes := ← c.toNat?,
                   totalVoters := ← d.toNat?, activeVoters := ← e.toNat?, hasLeader := ← parseBool01? f : Health }
        | _ => none
      let okb ← parseBool01? ok
      if roles.length != probeMax + 1 then none
      else pure { nodes, active, roles, health, ok := okb }
  | _ => none

def buildCfg (add : List NodeCfg → Nat → Bool → List NodeCfg) (items : List (Bool × NodeCfg)) :
    List NodeCfg :=
  items.foldl (fun ns it => if it.1 then add ns it.2.id it.2.voter else ns ++ [it.2]) []

def trace (add : List NodeCfg → Nat → Bool → List NodeCfg) (h : State → Health)
    (items : List (Bool × NodeCfg)) (rf : Nat) (ops : List Op) : Option (List Obs) :=
  match mk (buildCfg add items) rf with
  | none => none
  | some s0 =>
    some ((ops.foldl (fun (acc : State × List Obs) op =>
        let r := stepWith add acc.1 op
        (r.1, obsWith h r.1 r.2 :: acc.2)) (s0, [obsWith h s0 true])).2.reverse)

/-- first observation that violates S: index 0 is the one after `new` (checked with `specObs`),
index k ≥ 1 the one after op k-1 (checked with `specStep` against its predecessor); the
string says which clause failed -/
def firstViolation (ops : List Op) (os : List Obs) : Option (Nat × String) :=
  match os with
  | [] => none
  | o0 :: rest =>
    if !specObs o0 then some (0, "health") else
    let rec go (k : Nat) (pre : Obs) : List Op → List Obs → Option (Nat × String)
      | op :: ops, o :: os =>
          if specStep pre op o then go (k + 1) o ops os
          else some (k, if specObs o then "membership" else "health")
      | _, _ => none
    go 1 o0 ops rest

def runWith (add : List NodeCfg → Nat → Bool → List NodeCfg) (h : State → Health)
    (cfg rf ops : String) : String :=
  match parseCfg? cfg, rf.toNat?, parseOps? ops with
  | some c, some r, some o =>
      match trace add h c r o with
      | some os => "ok " ++ joinWith ";" (os.map showObs)
      | none => "err"
  | _, _, _ => "bad-op"

def handle (_ : Unit) (line : String) : Unit × String :=
  match tokens line with
  | ["run", cfg, rf, ops] => ((), runWith cfgAdd health cfg rf ops)
  | ["legacy", cfg, rf, ops] => ((), runWith cfgAddLegacy healthLegacy cfg rf ops)
  | ["spec", ops, os] => match parseOps? ops, (os.splitOn ";").mapM parseObs? with
      | some l, some o =>
          if o.length != l.length + 1 then ((), "bad-op")
          else match firstViolation l o with
            | none => ((), "ok")
            | some (k, w) => ((), s!"viol {k} {w}")
      | _, _ => ((), "bad-op")
  | _ => ((), "bad-op")

def main : IO Unit := runDriver () handle
