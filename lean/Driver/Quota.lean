import SgModel.Driver.Util
import SgModel.Model.Quota
import SgModel.Driver.PersistSyntax
/-!
Driver for the Quota model (C18).  One request line per case:

  quota        <cfg> <progs> <sched>  -> ok <obs>|<trace>  | err recover
  quotalegacy  <cfg> <progs> <sched>  -> same, model of the pinned tree
  quotascanfirst <cfg> <progs> <sched> -> same, the wrong variant whose `recover` scans before locking
  specquota    <cfg> <progs> <obs>  -> ok | viol:<part>

  obs     := <results>|<nodes>|<edges>|<u0>|<probe>|<nodesP>|<uP>|<u1>|<u2>
             (at quiescence; then the probe creation of node 99; then recover twice)
  cfg, op : as in Driver/Persist.lean
  progs   := prog(/prog)*      prog := call(;call)* | -      call := op | rc   (rc = recover)
  sched   := t(,t)* | -        (thread indices; after the schedule the threads are drained,
                                lowest enabled thread first)
  results := r(,r)*(/…)* with - for a thread without calls
  nodes, edges := id(,id)* | -        u := <usageN>.<usageE>
  trace   := e(,e)* | -   e := <t>.<point> (the step reached that hook point) | <t>.ret:<result>
                               (the call returned) | <t>.x (not enabled / finished: skipped)
-/
open SgModel SgModel.Driver SgModel.Persist SgModel.Quota SgModel.Driver.PersistSyntax

def parseCall? (s : String) : Option Call :=
  if s == "rc" then some .recover else (parseOp? s).map .op

def parseCalls? (s : String) : Option (List Call) :=
  if s == "-" then some [] else (s.splitOn ";").mapM parseCall?

def parseProgs? (s : String) : Option (List (List Call)) := (s.splitOn "/").mapM parseCalls?

def parseSched? (s : String) : Option (List Nat) :=
  if s == "-" then some [] else (s.splitOn ",").mapM (·.toNat?)

def showIds (l : List Nat) : String := showList' (l.map toString)
def parseIds? (s : String) : Option (List Nat) :=
  if s == "-" then some [] else (s.splitOn ",").mapM (·.toNat?)

def showResults (rs : List (List Res)) : String :=
  joinWith "/" (rs.map (fun r => showList' (r.map showRes)))
def parseResultsT? (s : String) : Option (List (List Res)) := (s.splitOn "/").mapM parseResults?

def showPair (p : Nat × Nat) : String := s!"{p.1}.{p.2}"
def parsePair? (s : String) : Option (Nat × Nat) :=
  match s.splitOn "." with
  | [a, b] => do pure (← a.toNat?, ← b.toNat?)
  | _ => none

/-- what one schedule entry did, in the words of the harness' trace -/
def traceEntry (I : Impl) (sys : Sys) (t : Nat) (sys' : Sys) : String :=
  if !(enabled I sys t) then s!"{t}.x"
  else
    match sys.threads[t]?, sys'.threads[t]? with
    | some th, some th' =>
      if th'.done.length > th.done.length then
        match th'.done.getLast? with
        | some (_, r) => s!"{t}.ret:{showRes r}"
        | none => s!"{t}.?"
      else
        match th.prog with
        | op :: _ => s!"{t}.{pointName (th.pc.getD (callStart I op))}"
        | [] => s!"{t}.?"
    | _, _ => s!"{t}.?"

def runTraced (I : Impl) (cfg : Cfg) (sys : Sys) (sched : List Nat) : Sys × List String :=
  sched.foldl (fun (acc : Sys × List String) t =>
    let sys' := stepThread I cfg acc.1 t
    (sys', traceEntry I acc.1 t sys' :: acc.2)) (sys, [])

def drainTraced (I : Impl) (cfg : Cfg) : Nat → Sys → List String → Sys × List String
  | 0, sys, tr => (sys, tr)
  | fuel + 1, sys, tr =>
    match (List.range sys.threads.length).find? (enabled I sys) with
    | some t =>
      let sys' := stepThread I cfg sys t
      drainTraced I cfg fuel sys' (traceEntry I sys t sys' :: tr)
    | none => (sys, tr)

def doQuota (I : Impl) (cfg : Cfg) (progs : List (List Call)) (sched : List Nat) : String :=
  let (s1, tr1) := runTraced I cfg (init progs) sched
  let (s2, tr2) := drainTraced I cfg (drainFuel s1) s1 tr1
  match obsOf I cfg s2 with
  | some o =>
    "ok " ++ showResults o.results ++ "|" ++ showIds o.nodes ++ "|" ++ showIds o.edges ++ "|"
      ++ showPair o.usage0 ++ "|" ++ showRes o.probe ++ "|" ++ showIds o.nodesP ++ "|"
      ++ showPair o.usageP ++ "|" ++ showPair o.usage1 ++ "|" ++ showPair o.usage2 ++ "|"
      ++ showList' tr2.reverse
  | none => "err recover"

def parseObs? (s : String) : Option Obs :=
  match s.splitOn "|" with
  | [r, n, e, u0, pr, np, up, u1, u2] => do
      pure ⟨← parseResultsT? r, ← parseIds? n, ← parseIds? e, ← parsePair? u0, ← parseRes? pr,
            ← parseIds? np, ← parsePair? up, ← parsePair? u1, ← parsePair? u2⟩
  | _ => none

def handle (_ : Unit) (line : String) : Unit × String :=
  match tokens line with
  | ["quota", c, ps, sc] => match parseCfg? c, parseProgs? ps, parseSched? sc with
      | some c, some p, some s => ((), doQuota fixed c p s)
      | _, _, _ => ((), "bad-op")
  | ["quotalegacy", c, ps, sc] => match parseCfg? c, parseProgs? ps, parseSched? sc with
      | some c, some p, some s => ((), doQuota legacy c p s)
      | _, _, _ => ((), "bad-op")
  | ["quotascanfirst", c, ps, sc] => match parseCfg? c, parseProgs? ps, parseSched? sc with
      | some c, some p, some s => ((), doQuota scanFirst c p s)
      | _, _, _ => ((), "bad-op")
  | ["specquota", c, ps, obs] => match parseCfg? c, parseProgs? ps, parseObs? obs with
      | some c, some p, some o =>
          ((), if !(specQuota c p o) then "viol:quota-or-usage"
               else if !(specRefused p o) then "viol:refused-left-something"
               else "ok")
      | _, _, _ => ((), "bad-op")
  | _ => ((), "bad-op")

def main : IO Unit := runDriver () handle
