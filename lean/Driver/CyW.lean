import SgModel.Driver.Util
import SgModel.Model.CyW
/-!
Driver for the Cypher write-fragment model (C04, C05, C35).  One request per line:

  run     <params> <graph> <stmt>            -> ok <rows> <graph> | err <kind>      (S = `exec`)
  legacy  <params> <graph> <stmt>            -> the same with the pinned tree's DELETE
  spec    <params> <graph> <stmt> <obs> <ren> -> ok | viol       (`specStmt` on observations)
  stream  <params> <graph> <stmt>            -> ok <graph> | err <kind> <graph> | bad-op
                                                (row streaming, no undo: `execStream`)
  streamlegacy <params> <graph> <stmt>       -> the same with the pinned tree's CREATE leak
  atomic  <params> <graph> <stmt>            -> ok <graph> | err <kind> <graph>   (`execAtomic`)
  param   <params> <graph> <stmt>            -> engine's parameter path (`substVisited`, then no params)
  inline  <params> <graph> <stmt>            -> every parameter inlined (`Stmt.inline`)
  specp   <obsP> <obsI>                      -> ok | viol   (error admissible, different answer not)
  speca   <graph> <obs>                      -> ok | viol   (`specAtomic`: a failed statement changed nothing)

Syntax (no spaces inside a token):
  value  N T F I<int> D<16 hex> S<hex utf8>|S- L[v,…] M{k<n>:v,…}
  expr   #<value> | v<n> | v<n>.k<m> | $<n> | [e,…] | {k<n>:e,…} | <op>(e,…)
         op ∈ add sub mul div mod eq ne lt le gt ge and or xor in coalesce not neg isnull notnull ite idx
         comp(v<n>,l,f,m)
  props  {k<n>:e,…}          labels [n,…]          np (v<n>|_,labels,props)
  clause U(e,v<n>) | MN(v<n>,labels,props) | MR(v<a>,labels,v<r>,<ty>,v<b>,labels) | W(e)
       | WI([v<n>,…],{v<n>:e,…}) | C(path,…) | MG(np,[set,…],[set,…]) | MP(np,<ty>,np) | S(set,…) | RM(rem,…)
       | D(0|1,v<n>,…)
  path   np | np>ty props>np | np<ty props<np       e.g. (v0,[0],{})>3{k0:#I1}>(_,[],{})
  set    p(v<n>,k<m>,e) | a(v<n>,e) | m(v<n>,e) | l(v<n>,<label>)     rem p(v,k) | l(v,label)
  stmt   clause;clause;…[|R(e,…)]      (`-` for no clauses)
  params P{<n>:v,…}  graph as dumped by the harness  rows v,v/v,v | - | _
  obs    ok@<rows>@<graph> | err@<kind>@<graph>     ren a>b,c>d | -
-/
open SgModel SgModel.Driver SgModel.CyW

abbrev P := StateT (List Char) Option

def peek : P (Option Char) := fun s => some (s.head?, s)
def next : P Char := fun s => match s with | c :: r => some (c, r) | [] => none
def expect (c : Char) : P Unit := fun s => match s with
  | d :: r => if c = d then some ((), r) else none
  | [] => none
def tryChar (c : Char) : P Bool := fun s => match s with
  | d :: r => if c = d then some (true, r) else some (false, s)
  | [] => some (false, s)
def failP {α : Type} : P α := fun _ => none

def takeWhileP (p : Char → Bool) : P (List Char) := fun s => some (s.takeWhile p, s.dropWhile p)

def natP : P Nat := do
  let ds ← takeWhileP Char.isDigit
  if ds.isEmpty then failP else
  match (String.ofList ds).toNat? with
  | some n => pure n
  | none => failP

def intP : P Int := do
  let neg ← tryChar '-'
  let n ← natP
  pure (if neg then - (Int.ofNat n) else Int.ofNat n)

def hexNat (cs : List Char) : Option Nat :=
  cs.foldlM (fun acc c => (hexVal? c).map (fun d => acc * 16 + d)) 0

partial def sepBy {α : Type} (item : P α) (close : Char) : P (List α) := do
  if ← tryChar close then pure [] else
  let rec go (acc : List α) : P (List α) := do
    let x ← item
    if ← tryChar ',' then go (x :: acc)
    else do expect close; pure (x :: acc).reverse
  go []

partial def valueP : P V := do
  match ← next with
  | 'n' => do pure (.node (← natP))
  | 'N' => pure .null
  | 'T' => pure (.bool true)
  | 'F' => pure (.bool false)
  | 'I' => do pure (.int (← intP))
  | 'D' => do
    let hs ← takeWhileP (fun c => (hexVal? c).isSome)
    if hs.length ≠ 16 then failP else
    match hexNat hs with | some n => pure (.flt n) | none => failP
  | 'S' => do
    if ← tryChar '-' then pure (.str []) else
    let hs ← takeWhileP (fun c => (hexVal? c).isSome)
    match bytesOfHexChars hs with
    | some bs => match String.fromUTF8? (ByteArray.mk bs.toArray) with
      | some s => pure (.str s.toList)
      | none => failP
    | none => failP
  | 'L' => do
    expect '['
    let vs ← sepBy valueP ']'
    pure (V.ofList vs)
  | 'M' => do
    expect '{'
    let kvs ← sepBy (do expect 'k'; let k ← natP; expect ':'; let v ← valueP; pure (k, v)) '}'
    pure (kvs.foldr (fun kv acc => minsert acc kv.1 kv.2) .mnil)
  | _ => failP

def varP : P Nat := do expect 'v'; natP

def binOps : List (String × BinOp) :=
  [("add", .add), ("sub", .sub), ("mul", .mul), ("div", .div), ("mod", .mod), ("eq", .eq), ("ne", .ne),
   ("lt", .lt), ("le", .le), ("gt", .gt), ("ge", .ge), ("and", .and), ("or", .or),
   ("xor", .xor), ("in", .inList), ("coalesce", .coalesce)]
def unOps : List (String × UnOp) :=
  [("not", .not), ("neg", .neg), ("isnull", .isNull), ("notnull", .isNotNull)]

partial def exprP : P E := do
  match ← peek with
  | some '#' => do expect '#'; pure (.lit (← valueP))
  | some '$' => do expect '$'; pure (.param (← natP))
  | some '[' => do
    expect '['
    let es ← sepBy exprP ']'
    pure (es.foldr (fun e acc => .lcons e acc) .lnil)
  | some '{' => do
    expect '{'
    let kes ← sepBy (do expect 'k'; let k ← natP; expect ':'; let e ← exprP; pure (k, e)) '}'
    pure (kes.foldr (fun ke acc => .mcons ke.1 ke.2 acc) .mnil)
  | some 'v' => do
    let x ← varP
    if ← tryChar '.' then do expect 'k'; pure (.prop x (← natP)) else pure (.var x)
  | some _ => do
    let name ← takeWhileP Char.isAlpha
    let nm := String.ofList name
    expect '('
    if nm == "comp" then do
      let x ← varP; expect ','
      let l ← exprP; expect ','
      let f ← exprP; expect ','
      let m ← exprP; expect ')'
      pure (.comp x l f m)
    else
      let args ← sepBy exprP ')'
      match binOps.lookup nm, unOps.lookup nm, args with
      | some op, _, [a, b] => pure (.bin op a b)
      | _, some op, [a] => pure (.un op a)
      | _, _, [a, b, c] => if nm == "ite" then pure (.ite a b c) else failP
      | _, _, [a, b] => if nm == "idx" then pure (.idx a b) else failP
      | _, _, _ => failP
  | none => failP

def labelsP : P (List Nat) := do expect '['; sepBy natP ']'
def propsP : P (List (Nat × E)) := do
  expect '{'
  sepBy (do expect 'k'; let k ← natP; expect ':'; let e ← exprP; pure (k, e)) '}'

def npP : P NPat := do
  expect '('
  let var ← (do if ← tryChar '_' then pure none else pure (some (← varP)))
  expect ','
  let ls ← labelsP
  expect ','
  let ps ← propsP
  expect ')'
  pure ⟨var, ls, ps⟩

def pathP : P CPath := do
  let a ← npP
  match ← peek with
  | some '>' => do
    expect '>'; let ty ← natP; let ps ← propsP; expect '>'; let b ← npP
    pure ⟨a, some (ty, ps, true, b)⟩
  | some '<' => do
    expect '<'; let ty ← natP; let ps ← propsP; expect '<'; let b ← npP
    pure ⟨a, some (ty, ps, false, b)⟩
  | _ => pure ⟨a, none⟩

def setItemP : P SetItem := do
  let c ← next
  expect '('
  let x ← varP
  expect ','
  let r ← (match c with
    | 'p' => do expect 'k'; let k ← natP; expect ','; let e ← exprP; pure (SetItem.prop x k e)
    | 'a' => do pure (SetItem.all x (← exprP))
    | 'm' => do pure (SetItem.madd x (← exprP))
    | 'l' => do pure (SetItem.label x (← natP))
    | _ => failP)
  expect ')'
  pure r

def remItemP : P RemItem := do
  let c ← next
  expect '('
  let x ← varP
  expect ','
  let r ← (match c with
    | 'p' => do expect 'k'; pure (RemItem.prop x (← natP))
    | 'l' => do pure (RemItem.label x (← natP))
    | _ => failP)
  expect ')'
  pure r

def clauseP : P Clause := do
  let name ← takeWhileP Char.isUpper
  expect '('
  match String.ofList name with
  | "U" => do let e ← exprP; expect ','; let x ← varP; expect ')'; pure (.unwind e x)
  | "MN" => do
    let x ← varP; expect ','; let ls ← labelsP; expect ','; let ps ← propsP; expect ')'
    pure (.matchN x ls ps)
  | "MR" => do
    let a ← varP; expect ','; let la ← labelsP; expect ','; let r ← varP; expect ','
    let ty ← natP; expect ','; let b ← varP; expect ','; let lb ← labelsP; expect ')'
    pure (.matchR a la r ty b lb)
  | "W" => do let e ← exprP; expect ')'; pure (.filter e)
  | "WI" => do
    expect '['
    let keep ← sepBy varP ']'
    expect ','; expect '{'
    let items ← sepBy (do let x ← varP; expect ':'; let e ← exprP; pure (x, e)) '}'
    expect ')'
    pure (.withC keep items)
  | "C" => do pure (.create (← sepBy pathP ')'))
  | "MG" => do
    let p ← npP; expect ','; expect '['
    let oc ← sepBy setItemP ']'
    expect ','; expect '['
    let om ← sepBy setItemP ']'
    expect ')'
    pure (.merge p oc om)
  | "MP" => do
    let a ← npP; expect ','; let ty ← natP; expect ','; let b ← npP; expect ')'
    pure (.mergeRel a ty b)
  | "S" => do pure (.set (← sepBy setItemP ')'))
  | "RM" => do pure (.remove (← sepBy remItemP ')'))
  | "D" => do
    let d ← next
    expect ','
    let xs ← sepBy varP ')'
    pure (.delete (d == '1') xs)
  | _ => failP

partial def stmtP : P Stmt := do
  let cs ← (do
    if ← tryChar '-' then pure [] else
    let rec go (acc : List Clause) : P (List Clause) := do
      let c ← clauseP
      if ← tryChar ';' then go (c :: acc) else pure (c :: acc).reverse
    go [])
  if ← tryChar '|' then do
    expect 'R'; expect '('
    let es ← sepBy exprP ')'
    pure ⟨cs, some es⟩
  else pure ⟨cs, none⟩

def runP {α : Type} (p : P α) (s : String) : Option α :=
  match p s.toList with
  | some (a, []) => some a
  | _ => none

def paramsP : P Props := do
  if ← tryChar '-' then pure [] else
  expect 'P'; expect '{'
  sepBy (do let k ← natP; expect ':'; let v ← valueP; pure (k, v)) '}'

def nodePropsP : P Props := do
  if ← tryChar '-' then pure [] else
  let rec go (fuel : Nat) (acc : Props) : P Props := do
    let k ← natP; expect '='; let v ← valueP
    match fuel with
    | 0 => failP
    | f + 1 => if ← tryChar ',' then go f ((k, v) :: acc) else pure ((k, v) :: acc).reverse
  go 10000 []

def dotLabelsP : P (List Nat) := do
  if ← tryChar '-' then pure [] else
  let rec go (fuel : Nat) (acc : List Nat) : P (List Nat) := do
    let l ← natP
    match fuel with
    | 0 => failP
    | f + 1 => if ← tryChar '.' then go f (l :: acc) else pure (l :: acc).reverse
  go 10000 []

def nodeP : P Node := do
  let id ← natP; expect ':'; let ls ← dotLabelsP; expect ':'; let ps ← nodePropsP
  pure ⟨id, ls, ps⟩

def relP : P Rel := do
  let id ← natP; expect ':'; let s ← natP; expect ':'; let t ← natP; expect ':'
  let ty ← natP; expect ':'; let ps ← nodePropsP
  pure ⟨id, s, t, ty, ps⟩

def parseGraph (s : String) : Option G :=
  match s.splitOn "|" with
  | [ns, rs] => do
    let nodes ← if ns == "-" then some [] else (ns.splitOn ";").mapM (runP nodeP)
    let rels ← if rs == "-" then some [] else (rs.splitOn ";").mapM (runP relP)
    pure ⟨nodes, rels⟩
  | _ => none

/-! printing -/

def hexOfString (cs : List Char) : String :=
  if cs.isEmpty then "-" else hexOfBytes (String.ofList cs).toUTF8.toList

def hex16 (n : Nat) : String :=
  String.ofList ((List.range 16).reverse.map (fun i => hexDigit ((n / 16 ^ i) % 16)))

partial def showV : V → String
  | .null => "N"
  | .bool true => "T"
  | .bool false => "F"
  | .int i => s!"I{i}"
  | .flt b => "D" ++ hex16 b
  | .str s => "S" ++ hexOfString s
  | .node i => s!"n{i}"
  | v@(.nil) | v@(.cons ..) => "L[" ++ joinWith "," (v.toList.map showV) ++ "]"
  | v@(.mnil) | v@(.mcons ..) =>
    "M{" ++ joinWith "," (v.toProps.map (fun kv => s!"k{kv.1}:" ++ showV kv.2)) ++ "}"

def showProps (ps : Props) : String :=
  if ps.isEmpty then "-" else joinWith "," (ps.map (fun kv => s!"{kv.1}=" ++ showV kv.2))

def showNode (n : Node) : String :=
  s!"{n.id}:" ++ (if n.labels.isEmpty then "-" else joinWith "." (n.labels.map toString)) ++ ":"
    ++ showProps n.props

def showRel (r : Rel) : String := s!"{r.id}:{r.src}:{r.tgt}:{r.ty}:" ++ showProps r.props

def showGraph (g : G) : String :=
  (if g.nodes.isEmpty then "-" else joinWith ";" (g.nodes.map showNode)) ++ "|"
    ++ (if g.rels.isEmpty then "-" else joinWith ";" (g.rels.map showRel))

def showRows (rows : List (List V)) : String :=
  if rows.isEmpty then "-" else
  joinWith "/" (rows.map (fun r => if r.isEmpty then "_" else joinWith "," (r.map showV)))

def showErr : Err → String
  | .type => "type" | .div0 => "div0" | .constraint => "constraint" | .param => "param"
  | .unbound => "unbound" | .unsup => "unsup"

def parseErr : String → Option Err
  | "type" => some .type | "div0" => some .div0 | "constraint" => some .constraint
  | "param" => some .param | "unbound" => some .unbound | "unsup" => some .unsup
  | "other" => some .unsup | "parse" => some .unsup
  | _ => none

def showResult : R (G × List (List V)) → String
  | .ok (g, rows) => "ok " ++ showRows rows ++ " " ++ showGraph g
  | .error e => "err " ++ showErr e

def showPartial : G × Option Err → String
  | (g, none) => "ok " ++ showGraph g
  | (g, some e) => "err " ++ showErr e ++ " " ++ showGraph g

def parseRows (s : String) : Option (List (List V)) :=
  if s == "-" then some [] else
  (s.splitOn "/").mapM (fun r => if r == "_" then some [] else (r.splitOn ",").mapM (runP valueP))

/-- rows contain commas inside lists/maps, so split at top level only -/
def splitTop (sep : Char) (cs : List Char) : List (List Char) :=
  let rec go (depth : Nat) (cur : List Char) (acc : List (List Char)) : List Char → List (List Char)
    | [] => (cur.reverse :: acc).reverse
    | c :: r =>
      if c = '[' || c = '{' then go (depth + 1) (c :: cur) acc r
      else if c = ']' || c = '}' then go (depth - 1) (c :: cur) acc r
      else if c = sep && depth = 0 then go depth [] (cur.reverse :: acc) r
      else go depth (c :: cur) acc r
  go 0 [] [] cs

def parseRows' (s : String) : Option (List (List V)) :=
  if s == "-" then some [] else
  (s.splitOn "/").mapM (fun r =>
    if r == "_" then some [] else (splitTop ',' r.toList).mapM (fun t => runP valueP (String.ofList t)))

def parseObs (s : String) : Option Obs :=
  match s.splitOn "@" with
  | ["ok", rows, g] => do
    let g ← parseGraph g
    let rs ← parseRows' rows
    pure (.ok g rs)
  | ["err", k, g] => do
    let g ← parseGraph g
    let e ← parseErr k
    pure (.err e g)
  | _ => none

def parseRen (s : String) : Option (List (Nat × Nat)) :=
  if s == "-" then some [] else
  (s.splitOn ",").mapM (fun p => match p.splitOn ">" with
    | [a, b] => do pure (← a.toNat?, ← b.toNat?)
    | _ => none)

/-- the positions `substitute_params` visits: WHERE, WITH items, RETURN, and the values of
`SET x.k = e` items (a clause holding a whole-entity item is not visited) -/
def visited : Clause → Bool
  | .filter _ => true
  | .withC .. => true
  | .set items => items.all (fun i => match i with | .all .. | .madd .. => false | _ => true)
  | _ => false

/-- the engine refuses up front when a visited position mentions an unsupplied parameter -/
def clauseExprs : Clause → List E
  | .filter e => [e]
  | .withC _ items => items.map (·.2)
  | .set items => items.filterMap (fun i => match i with | .prop _ _ e => some e | _ => none)
  | _ => []

def paramPath (ps : Props) (g : G) (q : Stmt) : R (G × List (List V)) :=
  let es := (q.clauses.filter visited).flatMap clauseExprs ++ (q.ret.getD [])
  if es.any (missingParam ps) then .error .param
  else exec [] g (q.substVisited visited ps)

/-- single-source shape for the streaming model: reading clauses, then exactly one write
clause, no RETURN -/
def splitStream (q : Stmt) : Option (List Clause × Clause) :=
  match q.ret, q.clauses.reverse with
  | none, c :: revSrc =>
    if c.isWrite && revSrc.all (fun x => !x.isWrite) then some (revSrc.reverse, c) else none
  | _, _ => none

def handle (_ : Unit) (line : String) : Unit × String :=
  let reply : String :=
    match tokens line with
    | [cmd, ps, g, q] =>
      match runP paramsP ps, parseGraph g, runP stmtP q with
      | some ps, some g, some q =>
        match cmd with
        | "run" => showResult (exec ps g q)
        | "legacy" => showResult (execLegacy ps g q)
        | "atomic" => showPartial (execAtomic ps g q)
        | "stream" => match splitStream q with
          | some (src, c) => showPartial (execStream ps g src c)
          | none => "bad-op"
        | "streamlegacy" => match splitStream q with
          | some (src, .create [⟨p, none⟩]) => showPartial (execStreamLegacyCreate ps g src p)
          | some (src, c) => showPartial (execStream ps g src c)
          | none => "bad-op"
        | "param" => showResult (paramPath ps g q)
        | "inline" => showResult (exec [] g (q.inline ps))
        | _ => "bad-op"
      | _, _, _ => "bad-op"
    | ["spec", ps, g, q, obs, ren] =>
      match runP paramsP ps, parseGraph g, runP stmtP q, parseObs obs, parseRen ren with
      | some ps, some g, some q, some obs, some ren =>
        if specStmt ps g q obs ren then "ok" else "viol"
      | _, _, _, _, _ => "bad-op"
    | ["speca", g, obs] =>
      match parseGraph g, parseObs obs with
      | some g, some obs => if specAtomic g obs then "ok" else "viol"
      | _, _ => "bad-op"
    | ["specp", a, b] =>
      match parseObs a, parseObs b with
      | some a, some b => if specParam a b then "ok" else "viol"
      | _, _ => "bad-op"
    | _ => "bad-op"
  ((), reply)

def main : IO Unit := runDriver () handle
