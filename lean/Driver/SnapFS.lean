import SgModel.Driver.Util
import SgModel.Model.SnapFS
/-!
Driver for the snapshot-persistence model (C14).  One request per line, one reply per line.

  steps <lg>                      -> ok <name>,<name>,…         hook point reached after each micro-step (`-` = none)
  view  <lg> <hist> <b> <k>       -> ok <dirview> <restored> <npending>   process crash after k micro-steps
  power <lg> <hist> <b> <k> <p>   -> ok <dirview> <restored>              power loss, p pending directory ops on disk
  clean <lg> <hist>               -> ok <dirview> <restored>              restart after the whole history
  chain <lg> <hist> <b> <k> <b2> <k2> -> ok <dirview> <restored>          crash after k steps of the persist of b, restart,
                                                                          then crash after k2 steps of the persist of b2
  http  <b>:<1|0>(,…) | -         -> ok <dirview> <restored>              a history of POST /api/snapshot/import requests
                                                                          (payload, import succeeded?), then a restart
  spec  <hist> <b> <restored>     -> ok | viol                            specCrash on an observed restart

  lg := 0 (repaired code) | 1 (pinned tree)      hist := - | <b>(,<b>)*
  dirview  := <final>;<tmp>;<marker>     each: - (absent) | e (empty) | p<b> (partial) | f<b> (whole payload b)
  restored := nothing | ok:<b> | corrupt
-/
open SgModel SgModel.Driver SgModel.SnapFS

def parseHist? (s : String) : Option (List Nat) :=
  if s == "-" then some [] else (s.splitOn ",").mapM (·.toNat?)

def parseLg? (s : String) : Option Bool :=
  if s == "0" then some false else if s == "1" then some true else none

def showContent : Option Content → String
  | none => "-"
  | some .empty => "e"
  | some (.part b) => s!"p{b}"
  | some (.full b) => s!"f{b}"

def showView (d : Dir) (c : Nat → Option Content) : String :=
  let f := fun (n : Name) => showContent ((d.get n).bind c)
  f .final ++ ";" ++ f .tmp ++ ";" ++ f .marker

def showRestored : Restored → String
  | .nothing => "nothing"
  | .ok b => s!"ok:{b}"
  | .corrupt => "corrupt"

def parseRestored? (s : String) : Option Restored :=
  if s == "nothing" then some .nothing
  else if s == "corrupt" then some .corrupt
  else match s.splitOn ":" with
    | ["ok", b] => b.toNat?.map Restored.ok
    | _ => none

def pointName : Step → String
  | .removeMarker => "snap.remove_marker"
  | .createTmp => "snap.create_tmp"
  | .writePart _ => "-"
  | .writeFull _ => "snap.write_tmp"
  | .fsyncTmp => "snap.fsync_tmp"
  | .renameTmpFinal => "snap.rename"
  | .createMarker => "snap.create_marker"
  | .fsyncMarker => "snap.fsync_marker"
  | .fsyncDir => "snap.fsync_dir"

def processView (fs : FS) : String :=
  showView fs.dir (fun i => (lookupIno i fs.inodes).map (·.cur))

def powerView (p : Nat) (fs : FS) : String :=
  showView ((fs.pending.take p).foldl applyDirOp fs.ddir) (fun i => (lookupIno i fs.inodes).map (·.dur))

def handle (_ : Unit) (line : String) : Unit × String :=
  match tokens line with
  | ["steps", lg] => match parseLg? lg with
      | some l => ((), "ok " ++ joinWith "," ((persistSteps l 0).map pointName))
      | none => ((), "bad-op")
  | ["view", lg, h, b, k] => match parseLg? lg, parseHist? h, b.toNat?, k.toNat? with
      | some l, some hist, some b, some k =>
          let fs := run ((persistSteps l b).take k) (persistAll l hist)
          ((), s!"ok {processView fs} {showRestored (restoreProcess fs)} {fs.pending.length}")
      | _, _, _, _ => ((), "bad-op")
  | ["power", lg, h, b, k, p] => match parseLg? lg, parseHist? h, b.toNat?, k.toNat?, p.toNat? with
      | some l, some hist, some b, some k, some p =>
          let fs := run ((persistSteps l b).take k) (persistAll l hist)
          ((), s!"ok {powerView p fs} {showRestored (restorePower p fs)}")
      | _, _, _, _, _ => ((), "bad-op")
  | ["chain", lg, h, b, k, b2, k2] =>
      match parseLg? lg, parseHist? h, b.toNat?, k.toNat?, b2.toNat?, k2.toNat? with
      | some l, some hist, some b, some k, some b2, some k2 =>
          let fs := run ((persistSteps l b2).take k2) (run ((persistSteps l b).take k) (persistAll l hist))
          ((), s!"ok {processView fs} {showRestored (restoreProcess fs)}")
      | _, _, _, _, _, _ => ((), "bad-op")
  | ["http", rs] =>
      let parse := fun (t : String) => match t.splitOn ":" with
        | [b, ok] => b.toNat?.map (fun n => (n, ok == "1"))
        | _ => none
      match (if rs == "-" then some [] else (rs.splitOn ",").mapM parse) with
      | some reqs =>
          let fs := handleAll reqs
          ((), s!"ok {processView fs} {showRestored (restoreProcess fs)}")
      | none => ((), "bad-op")
  | ["clean", lg, h] => match parseLg? lg, parseHist? h with
      | some l, some hist =>
          let fs := persistAll l hist
          ((), s!"ok {processView fs} {showRestored (restoreProcess fs)}")
      | _, _ => ((), "bad-op")
  | ["spec", h, b, r] => match parseHist? h, b.toNat?, parseRestored? r with
      | some hist, some b, some r => ((), if specCrash hist b r then "ok" else "viol")
      | _, _, _ => ((), "bad-op")
  | _ => ((), "bad-op")

def main : IO Unit := runDriver () handle
