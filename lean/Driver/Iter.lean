import SgModel.Driver.Util
import SgModel.Driver.FloatBits
import SgModel.Model.Iter
/-!
Driver for the C27 model (`SgModel.Iter`).  One request line per case:

  pr   <g> <d> <iters> <tol> <0|1> <s0,s1,…>[|<s0,s1,…>]   -> ok <maxerr in 1e-18 units> | viol <what> | borderline
        d, tol, s_i are IEEE-754 binary64 bit patterns (16 hex digits), converted to exact
        rationals here; the reply compares the implementation's scores with the exact iteration
        (|Δ| ≤ 1e-9 per node) and evaluates the specification (non-negative, Σ = 1 resp. ≤ 1).
        `borderline`: the exact L1 change is within 1e-12 of the tolerance at some round, so the
        float early-exit decision is not determined by the model.
  cdlp     <g> <id0,id1,…> <maxIter>                       -> ok <l0,l1,…> <iterations>
  cdlpspec <g> <id0,…> <maxIter> <l0,l1,…> <iterations>    -> ok | viol <what>

  g := <n>:<u>.<v>.<w>,… | <n>:-     (weights ignored)
-/
open SgModel SgModel.Driver SgModel.Algo SgModel.Iter

def parseEdge? (s : String) : Option Edge :=
  match s.splitOn "." with
  | [u, v, w] => do pure (← u.toNat?, ← v.toNat?, ← w.toNat?)
  | _ => none

def parseGraph? (s : String) : Option (Nat × List Edge) :=
  match s.splitOn ":" with
  | [n, es] => do
      let n ← n.toNat?
      let l ← (if es == "-" then some [] else (es.splitOn ",").mapM parseEdge?)
      if l.all (fun e => e.1 < n && e.2.1 < n) then pure (n, l) else none
  | _ => none

def parseNats? (s : String) : Option (List Nat) :=
  if s == "-" then some [] else (s.splitOn ",").mapM (·.toNat?)

def eps9 : Rat := 1 / (1000000000 : Rat)
/-- window around the tolerance inside which the float early-exit decision is not determined by
the exact L1 change (float summation error of the L1 norm is far below this for n ≤ a few thousand) -/
def epsNear : Rat := 1 / (1000000000000 : Rat)

/-- exact iteration, reporting whether some round's L1 change is within 1e-9 of the tolerance -/
def prLoopB (vw : View) (cfg : PrConfig) : Nat → List Rat → Bool → List Rat × Bool
  | 0, s, b => (s, b)
  | k + 1, s, b =>
    let s' := prStep vw cfg s
    let df := l1diff vw.n s' s
    let near := decide (ratAbs (df - cfg.tol) ≤ epsNear) && decide (0 < cfg.tol)
    if df < cfg.tol then (s', b || near) else prLoopB vw cfg k s' (b || near)

def prOne (n : Nat) (cfg : PrConfig) (exact impl : List Rat) : String :=
  if impl.length ≠ n then "viol length" else
  if !(specPr cfg eps9 impl) then "viol spec" else
  let errs := (List.zip impl exact).map (fun p => ratAbs (p.1 - p.2))
  let mx := errs.foldl (fun m e => if m < e then e else m) 0
  if eps9 < mx then "viol value" else
  s!"ok {(mx * (1000000000000000000 : Rat)).floor}"

/-- the exact iteration is evaluated once and compared with every given score vector -/
def prCase (n : Nat) (es : List Edge) (cfg : PrConfig) (impls : List (List Rat)) : String :=
  let vw := ofEdges n es
  let (exact, near) := prLoopB vw cfg cfg.iterations (prInit vw) false
  if near then "borderline" else
  let rs := impls.map (prOne n cfg exact)
  match rs.find? (fun r => !r.startsWith "ok") with
  | some bad => bad
  | none => rs.headD "bad-op"

def handle (_ : Unit) (line : String) : Unit × String :=
  match tokens line with
  | ["pr", g, d, it, tol, dg, sc] =>
      match parseGraph? g, ratOfHex? d, it.toNat?, ratOfHex? tol,
          (sc.splitOn "|").mapM (fun v => if v == "-" then some [] else (v.splitOn ",").mapM ratOfHex?) with
      | some (n, es), some d, some it, some tol, some impl =>
          if dg == "0" ∨ dg == "1" then
            ((), prCase n es { d := d, iterations := it, tol := tol, dangling := dg == "1" } impl)
          else ((), "bad-op")
      | _, _, _, _, _ => ((), "bad-op")
  | ["cdlp", g, ids, mi] =>
      match parseGraph? g, parseNats? ids, mi.toNat? with
      | some (n, es), some ids, some mi =>
          if ids.length ≠ n then ((), "bad-op") else
          let r := cdlp (ofEdges n es) ids mi
          ((), "ok " ++ (if r.1.isEmpty then "-" else joinWith "," (r.1.map toString)) ++ s!" {r.2}")
      | _, _, _ => ((), "bad-op")
  | ["cdlpspec", g, ids, mi, ls, it] =>
      match parseGraph? g, parseNats? ids, mi.toNat?, parseNats? ls, it.toNat? with
      | some (n, es), some ids, some mi, some ls, some it =>
          if ids.length ≠ n then ((), "bad-op") else
          let vw := ofEdges n es
          let r := cdlp vw ids mi
          if ls ≠ r.1 then ((), "viol labels")
          else if it ≠ r.2 then ((), "viol iterations")
          -- stopped early: the result must be a fixpoint of the LDBC round
          else if it < mi ∧ n ≠ 0 ∧ !(specCdlpRound vw ls ls) then ((), "viol not-a-fixpoint")
          else ((), "ok")
      | _, _, _, _, _ => ((), "bad-op")
  | _ => ((), "bad-op")

def main : IO Unit := runDriver () handle
