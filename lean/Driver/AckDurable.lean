import SgModel.Driver.Util
import SgModel.Model.AckDurable
/-!
Driver for the durability model (C19).  Requests (one per line):

  run <history>  -> ok <memN> <memE> <recN> <recE> <blameN> <blameE>
  spec <pairs>   -> ok | viol <index of the first differing entity>

  history := req(;req)*
  req     := GD | Q<front><kind>/<muts>/<retN>/<retE>
  front   := r | h            kind := c | m | s | r | l | d   (create merge set remove label delete)
  muts    := mut(,mut)* | -   mut := n<id>=<code> | n<id>x | e<id>=<src>.<tgt>.<code> | e<id>x
  retN, retE := <id>(.<id>)* | -
  memN, recN := <id>=<code>(,…)* | -       memE, recE := <id>=<src>.<tgt>.<code>(,…)* | -   (sorted by id)
  blameN, blameE := <id>=<cause>(,…)* | -
  pairs   := <a>=<b>(,<a>=<b>)* | -        a, b opaque tokens, `_` = absent
-/
open SgModel SgModel.Driver SgModel.AckDurable

def parseIds? (s : String) : Option (List Nat) :=
  if s == "-" then some [] else (s.splitOn ".").mapM (·.toNat?)

def parseMut? (s : String) : Option Mut :=
  let body := (s.drop 1).toString
  if s.startsWith "n" then
    if body.endsWith "x" then (body.dropEnd 1).toString.toNat?.map .delNode
    else match body.splitOn "=" with
      | [i, c] => do pure (.putNode (← i.toNat?) (← c.toNat?))
      | _ => none
  else if s.startsWith "e" then
    if body.endsWith "x" then (body.dropEnd 1).toString.toNat?.map .delEdge
    else match body.splitOn "=" with
      | [i, r] => match r.splitOn "." with
        | [a, b, c] => do pure (.putEdge (← i.toNat?) ⟨← a.toNat?, ← b.toNat?, ← c.toNat?⟩)
        | _ => none
      | _ => none
  else none

def parseMuts? (s : String) : Option (List Mut) :=
  if s == "-" then some [] else (s.splitOn ",").mapM parseMut?

def parseReq? (s : String) : Option Req :=
  if s == "GD" then some .graphDelete
  else match s.splitOn "/" with
    | [hd, m, rn, re] =>
      match hd.toList with
      | ['Q', f, k] => do
          let front ← (match f with | 'r' => some Front.resp | 'h' => some Front.http | _ => none)
          let kind ← (match k with
            | 'c' => some Kind.create | 'm' => some Kind.merge | 's' => some Kind.set
            | 'r' => some Kind.remove | 'l' => some Kind.label | 'd' => some Kind.delete | _ => none)
          pure (.query { front, kind, muts := ← parseMuts? m, retN := ← parseIds? rn, retE := ← parseIds? re })
      | _ => none
    | _ => none

def parseHist? (s : String) : Option (List Req) :=
  if s == "-" then some [] else (s.splitOn ";").mapM parseReq?

def frontName : Front → String | .resp => "resp" | .http => "http"
def kindName : Kind → String
  | .create => "create" | .merge => "merge" | .set => "set" | .remove => "remove"
  | .label => "label" | .delete => "delete"

def causeName : Cause → String
  | .notReturned .resp .create => "resp:create-no-return"
  | .notReturned f k => frontName f ++ ":" ++ kindName k
  | .deleted f => frontName f ++ ":delete"
  | .graphDelete => "resp:graph.delete"
  | .endpointNotDurable => "resp:endpoint-not-durable"

def mutIds (rs : List Req) : List Nat × List Nat :=
  rs.foldl (fun acc r => match r with
    | .graphDelete => acc
    | .query s =>
      s.muts.foldl (fun a m => match m with
        | .putNode i _ | .delNode i => (i :: a.1, a.2)
        | .putEdge i _ | .delEdge i => (a.1, i :: a.2)) (s.retN ++ acc.1, s.retE ++ acc.2)) ([], [])

def insertSorted (x : Nat) : List Nat → List Nat
  | [] => [x]
  | y :: r => if x < y then x :: y :: r else if x == y then y :: r else y :: insertSorted x r

def sortDedup (l : List Nat) : List Nat := l.foldl (fun acc x => insertSorted x acc) []

def listOrDash (l : List String) : String := if l.isEmpty then "-" else joinWith "," l

def showEdge (e : EdgeD) : String := s!"{e.src}.{e.tgt}.{e.d}"

def handle (_ : Unit) (line : String) : Unit × String :=
  match tokens line with
  | ["run", h] => match parseHist? h with
      | none => ((), "bad-op")
      | some rs =>
        let st := run rs
        let (ns, es) := mutIds rs
        let ns := sortDedup ns
        let es := sortDedup es
        let memN := ns.filterMap (fun i => (st.mem.nodes.get i).map (fun d => s!"{i}={d}"))
        let memE := es.filterMap (fun i => (st.mem.edges.get i).map (fun e => s!"{i}={showEdge e}"))
        let recN := ns.filterMap (fun i => (recNode st i).map (fun d => s!"{i}={d}"))
        let recE := es.filterMap (fun i => (recEdge st i).map (fun e => s!"{i}={showEdge e}"))
        let bN := ns.filterMap (fun i => (finalBlameN st i).map (fun c => s!"{i}={causeName c}"))
        let bE := es.filterMap (fun i => (finalBlameE st i).map (fun c => s!"{i}={causeName c}"))
        ((), s!"ok {listOrDash memN} {listOrDash memE} {listOrDash recN} {listOrDash recE} {listOrDash bN} {listOrDash bE}")
  | ["spec", ps] =>
      let pairs : Option (List (Option String × Option String)) :=
        if ps == "-" then some [] else (ps.splitOn ",").mapM (fun p => match p.splitOn "=" with
          | [a, b] => some (if a == "_" then none else some a, if b == "_" then none else some b)
          | _ => none)
      match pairs with
      | none => ((), "bad-op")
      | some l => match specDurableAt l 0 with
        | none => ((), "ok")
        | some k => ((), s!"viol {k}")
  | _ => ((), "bad-op")

def main : IO Unit := runDriver () handle
