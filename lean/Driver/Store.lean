import SgModel.Driver.Util
import SgModel.Model.StoreObs
/-!
Driver for the graph-store model (C06).  One request per case:

  chk    <P> <ops> <obs;obs;…>  -> ok | viol <k> <why> | diff <k> <model obs> | bad-op
  run    <P> <ops>              -> ok <obs;obs;…>      (model after the fixes)
  legacy <P> <ops>              -> ok <obs;obs;…>      (model of the pinned tree)

`chk` evaluates the specification on the *given* (implementation) observations — `specObs`
on every step, `specStep` between consecutive steps — and, if that holds, compares them with
the model's own observations.  Probes: ids 0…P, labels 0-1, types 0-1, keys 0-1.

  ops := op(;op)*   op := mkN.l | mkNP.l.k.v | mkNS.l | mkE.s.t.ty | mkEP.s.t.ty.k.v | mkES.s.t.ty
        | delE.e | delN.n | addL.n.l | rmL.n.l | setNP.n.k.v | rmNP.n.k | setEP.e.k.v | rmEP.e.k
        | compact | finish | clear
  obs := ret|nodes|edges|nodeCount|edgeCount|getE|outE|inE|outN|inN|outNT|inNT|outD|inD|btw|byLabel|byType|ncol|ecol|pending
-/
open SgModel SgModel.Driver SgModel.Store

def mkProbe (P : Nat) : Probe :=
  { ids := List.range (P + 1), labels := [0, 1], types := [0, 1], keys := [0, 1] }

/-! parsing -/

def parseOp? (s : String) : Option Op :=
  match s.splitOn "." with
  | ["compact"] => some .compact
  | ["finish"] => some .finish
  | ["clear"] => some .clear
  | [op, a] => do
      let a ← a.toNat?
      match op with
      | "mkN" => some (.mkN a) | "mkNS" => some (.mkNS a) | "delE" => some (.delE a)
      | "delN" => some (.delN a) | _ => none
  | [op, a, b] => do
      let a ← a.toNat?; let b ← b.toNat?
      match op with
      | "addL" => some (.addL a b) | "rmL" => some (.rmL a b) | "rmNP" => some (.rmNP a b)
      | "rmEP" => some (.rmEP a b) | _ => none
  | [op, a, b, c] => do
      let a ← a.toNat?; let b ← b.toNat?; let c ← c.toNat?
      match op with
      | "mkNP" => some (.mkNP a b c) | "mkE" => some (.mkE a b c) | "mkES" => some (.mkES a b c)
      | "setNP" => some (.setNP a b c) | "setEP" => some (.setEP a b c) | _ => none
  | ["mkEP", a, b, c, d, e] => do
      some (.mkEP (← a.toNat?) (← b.toNat?) (← c.toNat?) (← d.toNat?) (← e.toNat?))
  | _ => none

def parseOps? (s : String) : Option (List Op) := (s.splitOn ";").mapM parseOp?

def splitL (sep : String) (s : String) : List String := if s.isEmpty then [] else s.splitOn sep

def parseNats? (sep : String) (s : String) : Option (List Nat) := (splitL sep s).mapM (·.toNat?)

def parsePair? (s : String) : Option (Nat × Nat) :=
  match s.splitOn "." with
  | [a, b] => do pure (← a.toNat?, ← b.toNat?)
  | _ => none

def parseRow? (s : String) : Option Row := (splitL "," s).mapM parsePair?

def parseProps? (s : String) : Option Props :=
  (splitL "+" s).mapM (fun kv => match kv.splitOn "=" with
    | [k, v] => do pure (← k.toNat?, ← v.toNat?)
    | _ => none)

def parseNode? (s : String) : Option NodeObs :=
  match s.splitOn ":" with
  | [i, ls, ps] => do pure (← i.toNat?, ← parseNats? "." ls, ← parseProps? ps)
  | _ => none

def parseEdge? (s : String) : Option EdgeObs :=
  match s.splitOn ":" with
  | [i, a, b, ty, ps] => do pure (← i.toNat?, ← a.toNat?, ← b.toNat?, ← ty.toNat?, ← parseProps? ps)
  | _ => none

def parseGetE? (s : String) : Option (Option (Nat × Nat × Nat × Props)) :=
  if s == "_" then some none else
  match s.splitOn ":" with
  | [a, b, ty, ps] => do pure (some (← a.toNat?, ← b.toNat?, ← ty.toNat?, ← parseProps? ps))
  | _ => none

def parseOptNat? (s : String) : Option (Option Nat) :=
  if s == "_" then some none else s.toNat?.map some

def parseRet? (s : String) : Option Ret :=
  if s == "ok" then some .ok else if s == "no" then some .no
  else if s.startsWith "i" then (s.drop 1).toString.toNat?.map .id
  else if s.startsWith "e" then (s.drop 1).toString.toNat?.map .err
  else none

def parseObs? (s : String) : Option (Ret × Obs) :=
  match s.splitOn "|" with
  | [ret, nodes, edges, nc, ec, getE, outE, inE, outN, inN, outNT, inNT, outD, inD, btw, byL, byT,
     ncol, ecol, pend] => do
    let per {α : Type} (f : String → Option α) (x : String) : Option (List α) := (x.splitOn "/").mapM f
    let per2 {α : Type} (f : String → Option α) (x : String) : Option (List (List α)) :=
      (x.splitOn "/").mapM (fun y => (y.splitOn "~").mapM f)
    pure (← parseRet? ret,
      { nodes := ← (splitL "," nodes).mapM parseNode?
        edges := ← (splitL "," edges).mapM parseEdge?
        nodeCount := ← nc.toNat?
        edgeCount := ← ec.toNat?
        getE := ← per parseGetE? getE
        outE := ← per (parseNats? ",") outE
        inE := ← per (parseNats? ",") inE
        outN := ← per parseRow? outN
        inN := ← per parseRow? inN
        outNT := ← per2 parseRow? outNT
        inNT := ← per2 parseRow? inNT
        outD := ← per2 (·.toNat?) outD
        inD := ← per2 (·.toNat?) inD
        btw := ← (btw.splitOn "/").mapM (fun y => (y.splitOn "~").mapM (fun z =>
                  (z.splitOn "^").mapM (parseNats? ",")))
        byLabel := ← per (parseNats? ",") byL
        byType := ← per (parseNats? ",") byT
        ncol := ← per2 parseOptNat? ncol
        ecol := ← per2 parseOptNat? ecol
        pending := pend == "1" })
  | _ => none

/-! rendering (canonical: every unordered collection sorted) -/

def insNat (x : Nat) : List Nat → List Nat
  | [] => [x]
  | y :: ys => if x ≤ y then x :: y :: ys else y :: insNat x ys
def sortNats (l : List Nat) : List Nat := l.foldr insNat []

def pairLe (a b : Nat × Nat) : Bool := a.1 < b.1 || (a.1 == b.1 && a.2 ≤ b.2)
def insPair (x : Nat × Nat) : List (Nat × Nat) → List (Nat × Nat)
  | [] => [x]
  | y :: ys => if pairLe x y then x :: y :: ys else y :: insPair x ys
def sortPairs (l : List (Nat × Nat)) : List (Nat × Nat) := l.foldr insPair []

def showNats (sep : String) (l : List Nat) : String := joinWith sep (l.map toString)
def showSet (l : List Nat) : String := showNats "," (sortNats l)
def showRow (r : Row) : String := joinWith "," ((sortPairs r).map (fun p => s!"{p.1}.{p.2}"))
def showProps (ps : Props) : String := joinWith "+" ((sortPairs ps).map (fun p => s!"{p.1}={p.2}"))
def showOptNat : Option Nat → String | none => "_" | some n => toString n

def showRet : Ret → String
  | .id n => s!"i{n}" | .ok => "ok" | .no => "no" | .err c => s!"e{c}"

def showObs (ret : Ret) (o : Obs) : String :=
  joinWith "|" [
    showRet ret,
    joinWith "," (o.nodes.map (fun n => s!"{n.1}:{showNats "." (sortNats n.2.1)}:{showProps n.2.2}")),
    joinWith "," (o.edges.map (fun e => s!"{eId e}:{eSrc e}:{eTgt e}:{eTy e}:{showProps (eProps e)}")),
    toString o.nodeCount, toString o.edgeCount,
    joinWith "/" (o.getE.map (fun g => match g with
      | none => "_" | some (a, b, ty, ps) => s!"{a}:{b}:{ty}:{showProps ps}")),
    joinWith "/" (o.outE.map showSet), joinWith "/" (o.inE.map showSet),
    joinWith "/" (o.outN.map showRow), joinWith "/" (o.inN.map showRow),
    joinWith "/" (o.outNT.map (fun l => joinWith "~" (l.map showRow))),
    joinWith "/" (o.inNT.map (fun l => joinWith "~" (l.map showRow))),
    joinWith "/" (o.outD.map (showNats "~")), joinWith "/" (o.inD.map (showNats "~")),
    joinWith "/" (o.btw.map (fun l => joinWith "~" (l.map (fun m => joinWith "^" (m.map showSet))))),
    joinWith "/" (o.byLabel.map showSet), joinWith "/" (o.byType.map showSet),
    joinWith "/" (o.ncol.map (fun l => joinWith "~" (l.map showOptNat))),
    joinWith "/" (o.ecol.map (fun l => joinWith "~" (l.map showOptNat))),
    if o.pending then "1" else "0" ]

/-- model observations, one per op -/
def trace (stepf : State → Op → State × Ret) (between : State → Nat → Nat → Option Nat → List Nat)
    (p : Probe) (ops : List Op) : List String :=
  (ops.foldl (fun (acc : State × List String) op =>
      let (s', r) := stepf acc.1 op
      let o := obs s' p
      let o := { o with btw := p.ids.map (fun a => p.ids.map (fun b =>
                    (none :: p.types.map some).map (between s' a b))) }
      (s', showObs r o :: acc.2)) (init, [])).2.reverse

/-- first step whose given observation violates the specification -/
def firstViolation (p : Probe) (ops : List Op) (given : List (Ret × Obs)) : Option (Nat × String) :=
  let rec go (k : Nat) (pre : Obs) : List Op → List (Ret × Obs) → Option (Nat × String)
    | op :: ops, (r, post) :: rest =>
      if !specObs p post then some (k, specObsWhy p post)
      else if !specStep pre op r post then some (k, "step")
      else go (k + 1) post ops rest
    | _, _ => none
  go 0 (obs init p) ops given

def firstDiff : Nat → List String → List String → Option (Nat × String)
  | k, m :: ms, g :: gs => if m == g then firstDiff (k + 1) ms gs else some (k, m)
  | _, _, _ => none

def handle (_ : Unit) (line : String) : Unit × String :=
  match tokens line with
  | ["chk", P, ops, given] =>
    match P.toNat?, parseOps? ops, (given.splitOn ";").mapM parseObs? with
    | some P, some l, some g =>
      if l.length != g.length then ((), "bad-op") else
      let p := mkProbe P
      match firstViolation p l g with
      | some (k, why) => ((), s!"viol {k} {why}")
      | none =>
        match firstDiff 0 (trace step edgesBetween p l) (given.splitOn ";") with
        | some (k, m) => ((), s!"diff {k} {m}")
        | none => ((), "ok")
    | _, _, _ => ((), "bad-op")
  | ["run", P, ops] =>
    match P.toNat?, parseOps? ops with
    | some P, some l => ((), "ok " ++ joinWith ";" (trace step edgesBetween (mkProbe P) l))
    | _, _ => ((), "bad-op")
  | ["legacy", P, ops] =>
    match P.toNat?, parseOps? ops with
    | some P, some l => ((), "ok " ++ joinWith ";" (trace stepLegacy edgesBetweenLegacy (mkProbe P) l))
    | _, _ => ((), "bad-op")
  | _ => ((), "bad-op")

def main : IO Unit := runDriver () handle
