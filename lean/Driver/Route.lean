import SgModel.Driver.Util
import SgModel.Model.Route
/-!
Driver for the routing model (C23).  Requests (one per line):

  render <lead> <items> -> ok <valid 0|1> <hex text> <hasWriteClause> <routeNew> <legacyResp> <legacyHttp> <prefix> <executesWrite> <routePlanVeto>
  route  <hex>     -> ok <routeNew> <legacyResp> <legacyHttp> <prefix> <executesWrite> <routePlanVeto>
  lead  := (s|t|l|c)* or -    (whitespace before the statement)      prefix := n | e | p
  spec <hasWrite> <pre> <engOut> <engPost> <respOut> <respPost> <respRefused> <httpOut> <httpPost> <httpRefused>
                   -> ok | viol <clause number>

  items := item(,item)*        item := <tok>:<sep>
  tok   := W<hex> | S<2 hex digits of the delimiter><hex or -> | E<2 hex digits><hex or ->(_<hex or ->)+ (escaped delimiters between the parts) | Y<2 hex digits> | L<hex or -> (// comment) | B<hex or -> (/* comment */)
  sep   := n | s | t | l | c          (none, space, tab, LF, CRLF)
  text is ASCII, hex-encoded; observations are opaque space-free strings compared for equality.
-/
open SgModel SgModel.Driver SgModel.Route

def charsOfHex? (s : String) : Option (List Char) :=
  (bytesOfHex? s).map (fun bs => bs.map (fun b => Char.ofNat b.toNat))

def hexOfChars (cs : List Char) : String :=
  hexOrDash (cs.map (fun c => UInt8.ofNat c.toNat))

def parseSep? (s : String) : Option Sep :=
  match s with
  | "n" => some .none | "s" => some .sp | "t" => some .tab | "l" => some .lf | "c" => some .crlf
  | _ => none

def parseTok? (s : String) : Option Tok :=
  let body := (s.drop 1).toString
  if s.startsWith "W" then (charsOfHex? body).map .word
  else if s.startsWith "Y" then
    match charsOfHex? body with
    | some [c] => some (.sym c)
    | _ => none
  else if s.startsWith "S" then
    match charsOfHex? (body.take 2).toString, charsOfHex? (body.drop 2).toString with
    | some [q], some cs => some (.str q cs)
    | _, _ => none
  else if s.startsWith "E" then
    -- E<2 hex digits of the delimiter><hex seg>_<hex seg>_…_<hex last>  (segments joined by `\q`)
    match charsOfHex? (body.take 2).toString, ((body.drop 2).toString.splitOn "_").mapM charsOfHex? with
    | some [q], some parts =>
        match parts.reverse with
        | last :: revSegs => some (.strEsc q revSegs.reverse last)
        | [] => none
    | _, _ => none
  else if s.startsWith "L" then (charsOfHex? body).map .lineComment
  else if s.startsWith "B" then (charsOfHex? body).map .blockComment
  else none

def parseLead? (s : String) : Option (List Sep) :=
  if s == "-" then some [] else s.toList.mapM (fun c => parseSep? (String.singleton c))

def prefixLetter : Prefix → String
  | .none => "n" | .explain => "e" | .profile => "p"

def parseItem? (s : String) : Option (Tok × Sep) :=
  match s.splitOn ":" with
  | [t, p] => do pure (← parseTok? t, ← parseSep? p)
  | _ => none

def parseItems? (s : String) : Option (List (Tok × Sep)) := (s.splitOn ",").mapM parseItem?

def bit (b : Bool) : String := if b then "1" else "0"
def parseBit? (s : String) : Option Bool :=
  match s with | "1" => some true | "0" => some false | _ => none

def handle (_ : Unit) (line : String) : Unit × String :=
  match tokens line with
  | ["render", lead, items] => match parseLead? lead, parseItems? items with
      | some l, some xs =>
          let t := renderL l xs
          ((), s!"ok {bit (valid xs)} {hexOfChars t} {bit (hasWriteClause xs)} {bit (routeNew t)} {bit (routeLegacyResp t)} {bit (routeLegacyHttp t)} {prefixLetter (planPrefix t)} {bit (executesWrite t)} {bit (routePlanVeto t)}")
      | _, _ => ((), "bad-op")
  | ["route", hx] => match charsOfHex? hx with
      | some t => ((), s!"ok {bit (routeNew t)} {bit (routeLegacyResp t)} {bit (routeLegacyHttp t)} {prefixLetter (planPrefix t)} {bit (executesWrite t)} {bit (routePlanVeto t)}")
      | none => ((), "bad-op")
  | ["spec", hw, pre, eo, ep, ro, rp, rr, ho, hp, hr] =>
      match parseBit? hw, parseBit? rr, parseBit? hr with
      | some hw, some rr, some hr =>
          let o : Obs String String :=
            { hasWrite := hw, pre := pre, engOut := eo, engPost := ep, respOut := ro, respPost := rp,
              respRefused := rr, httpOut := ho, httpPost := hp, httpRefused := hr }
          let c := specFrontCode o
          ((), if c == 0 then "ok" else s!"viol {c}")
      | _, _, _ => ((), "bad-op")
  | _ => ((), "bad-op")

def main : IO Unit := runDriver () handle
