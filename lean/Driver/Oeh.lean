import SgModel.Driver.Util
import SgModel.Model.Oeh
import SgModel.Model.OehMgr
/-!
Driver for the OEH hierarchy-index model.  One line per whole case.

API level (`OehIndex`):

  run  <n> <edges> <enc> <meas> <steps> <ys> <pairs>      -> ok <obs>
  spec <n> <edges> <meas> <steps> <ys> <pairs> <obs>      -> ok | viol <where>

    edges := c-p(,c-p)* | -          (child-parent, dense indices, insertion order)
    enc   := auto | nested | chain | near
    meas  := v(,v)*  with v := <int> | _        (n entries)
    steps := s(;s)* | -      s := u<node>=<int|_>  (update_measure)  |  q  (roll-up checkpoint)
    ys    := all | a.b.c | -       pairs := all | x-y.x-y | -
    obs   := <kind> <width|-> <structural bytes> <subs> <desc> <lca> <rollups>
      kind  := nested-set | chain | near-tree | declined | notatree
      subs  := 0/1 per pair | -
      desc  := y:a.b.c(;y:…)* | -            (implementation order)
      lca   := l(;l)*  l := a.b | _   | -
      rollups := cp(|cp)* | -    cp := y:sum,count,min,max(;…)*     value := <int> | N
  `spec` takes only the last four fields of obs (plus kind) — the representation fields
  (width, bytes, order of `desc`) are compared model-vs-implementation, not against S.

Manager / planner level (`HierarchyIndexManager`, `hierarchy_detector`): see `mrun`/`mspec`
in `handleMgr` below.
-/
open SgModel SgModel.Driver SgModel.Oeh

def parseEdge? (s : String) : Option (Nat × Nat) :=
  match s.splitOn "-" with
  | [c, p] => do pure (← c.toNat?, ← p.toNat?)
  | _ => none

def parseEdges? (s : String) : Option (List (Nat × Nat)) :=
  if s == "-" then some [] else (s.splitOn ",").mapM parseEdge?

def parseOptInt? (s : String) : Option (Option Int) :=
  if s == "_" then some none else (parseInt? s).map some

def parseMeas? (s : String) : Option Measure :=
  if s == "-" then some [] else (s.splitOn ",").mapM parseOptInt?

inductive Step where
  | upd (u : Nat × Option Int)
  | query

def parseStep? (s : String) : Option Step :=
  if s == "q" then some .query
  else if s.startsWith "u" then
    match ((s.drop 1).toString).splitOn "=" with
    | [a, v] => do pure (.upd (← a.toNat?, ← parseOptInt? v))
    | _ => none
  else none

def parseSteps? (s : String) : Option (List Step) :=
  if s == "-" then some [] else (s.splitOn ";").mapM parseStep?

def parseYs? (n : Nat) (s : String) : Option (List Nat) :=
  if s == "all" then some (List.range n)
  else if s == "-" then some []
  else (s.splitOn ".").mapM (·.toNat?)

def parsePairs? (n : Nat) (s : String) : Option (List (Nat × Nat)) :=
  if s == "all" then some ((List.range n).flatMap (fun x => (List.range n).map (fun y => (x, y))))
  else if s == "-" then some []
  else (s.splitOn ".").mapM parseEdge?

def parseEnc? (s : String) : Option (Option Enc) :=
  match s with
  | "auto" => some none
  | "nested" => some (some .nested)
  | "chain" => some (some .chain)
  | "near" => some (some .near)
  | _ => none

def showRV : RV → String
  | .int i => toString i
  | .null => "N"

def parseRV? (s : String) : Option RV :=
  if s == "N" then some .null else (parseInt? s).map .int

def showNats (l : List Nat) : String :=
  if l.isEmpty then "_" else joinWith "." (l.map toString)

def parseNats? (s : String) : Option (List Nat) :=
  if s == "_" then some [] else (s.splitOn ".").mapM (·.toNat?)

def orDash (s : String) : String := if s.isEmpty then "-" else s

def encName : Enc → String
  | .nested => "nested-set"
  | .chain => "chain"
  | .near => "near-tree"

def allOps : List Op := [.sum, .count, .min, .max]

def showCheckpoint (ys : List Nat) (roll : Op → Nat → RV) : String :=
  joinWith ";" (ys.map (fun y => s!"{y}:" ++ joinWith "," (allOps.map (fun op => showRV (roll op y)))))

/-- run the steps on the index, collecting one block per checkpoint -/
def runSteps (ys : List Nat) : List Step → Index → List String → List String
  | [], _, acc => acc.reverse
  | .upd u :: rest, idx, acc => runSteps ys rest (idx.update u) acc
  | .query :: rest, idx, acc => runSteps ys rest idx (showCheckpoint ys idx.rollup :: acc)

def runCase (P : Poset) (enc : Option Enc) (m : Measure) (steps : List Step)
    (ys : List Nat) (pairs : List (Nat × Nat)) : String :=
  let r := match enc with
    | none => buildAuto P m
    | some e => buildForced P m e
  match r with
  | .declined w cap => s!"declined {w}:{cap} 0 - - - -"
  | .notATree => "notatree - 0 - - - -"
  | .ok idx =>
    -- the executable hypotheses of `C28_chain_reach_iff_partial`, discharged per case
    let hypOk := match idx with
      | .chain i => topoOkB P P.topoUp && chainsOkB P i.C
      | _ => true
    if !hypOk then "chain-hypotheses-failed - 0 - - - -" else
    let w := match idx.width with | some w => toString w | none => "-"
    let subs := orDash (String.join (pairs.map (fun p => if idx.subsumes p.1 p.2 then "1" else "0")))
    let desc := orDash (joinWith ";" (ys.map (fun y => s!"{y}:" ++ showNats (idx.descendants y))))
    let lca := orDash (joinWith ";" (pairs.map (fun p => showNats (idx.lca p.1 p.2))))
    let rolls := orDash (joinWith "|" (runSteps ys steps idx []))
    s!"{encName idx.enc} {w} {idx.structuralBytes} {subs} {desc} {lca} {rolls}"

def sortNats (l : List Nat) : List Nat := l.foldl (fun acc x => insertSorted x acc) []

/-- how S is evaluated: the recursive definitions the theorems are about on small posets,
the frontier closures (`descFast`, `ancFast`) on large ones -/
structure SpecFns where
  subs : Nat → Nat → Bool
  desc : Nat → List Nat
  lca : Nat → Nat → List Nat
  roll : Measure → Op → Nat → RV

def specFns (P : Poset) : SpecFns :=
  if P.n ≤ 8 then
    { subs := specSubsumes P, desc := specDesc P, lca := specLca P, roll := specRollup P }
  else
    { subs := fun x y => (descFast P y).contains x, desc := descFast P, lca := specLcaFast P,
      roll := specRollupFast P }

/-- on small posets both evaluations of S are run and must agree -/
def specSelfCheck (P : Poset) (ys : List Nat) (pairs : List (Nat × Nat)) : Bool :=
  P.n > 8 ||
  (ys.all (fun y => specDesc P y == descFast P y)
   && pairs.all (fun p => specLca P p.1 p.2 == specLcaFast P p.1 p.2
        && specSubsumes P p.1 p.2 == (ancFast P p.1).contains p.2))

/-- S evaluated on the implementation's observations -/
def specCase (P : Poset) (m : Measure) (steps : List Step) (ys : List Nat)
    (pairs : List (Nat × Nat)) (kind subs desc lca rolls : String) : String :=
  if kind == "declined" then "ok"
  else if kind == "notatree" then (if P.isTree then "viol notatree-on-tree" else "ok")
  else if !specSelfCheck P ys pairs then "viol spec-internal"
  else
  let F := specFns P
  -- subsumption
  let subsOk : Option String :=
    if pairs.isEmpty then none
    else
      let bits := subs.toList
      if bits.length != pairs.length then some "viol shape subs"
      else (pairs.zip bits).findSome? (fun (p, b) =>
        if (b == '1') == F.subs p.1 p.2 then none else some s!"viol subs {p.1} {p.2}")
  match subsOk with
  | some v => v
  | none =>
  -- descendants, as sets
  let descOk : Option String :=
    if ys.isEmpty then none
    else
      let items := desc.splitOn ";"
      if items.length != ys.length then some "viol shape desc"
      else (ys.zip items).findSome? (fun (y, it) =>
        match it.splitOn ":" with
        | [yy, l] =>
          match parseNats? l with
          | some ds =>
            if yy == toString y && nodupNat ds && sortNats ds == F.desc y then none
            else some s!"viol desc {y}"
          | none => some "viol shape desc"
        | _ => some "viol shape desc")
  match descOk with
  | some v => v
  | none =>
  let lcaOk : Option String :=
    if pairs.isEmpty then none
    else
      let items := lca.splitOn ";"
      if items.length != pairs.length then some "viol shape lca"
      else (pairs.zip items).findSome? (fun (p, it) =>
        match parseNats? it with
        | some l => if sortNats l == F.lca p.1 p.2 && nodupNat l then none
                    else some s!"viol lca {p.1} {p.2}"
        | none => some "viol shape lca")
  match lcaOk with
  | some v => v
  | none =>
  -- roll-ups at every checkpoint, against the measure as updated so far
  let cps := if rolls == "-" then [] else rolls.splitOn "|"
  let rec go (k : Nat) (nupd : Nat) (m : Measure) : List Step → List String → String
    | [], [] => "ok"
    | [], _ :: _ => "viol shape rollups"
    | .upd u :: rest, cps => go k (nupd + 1) (if u.1 < P.n then updMeasure m u else m) rest cps
    | .query :: _, [] => if ys.isEmpty then "ok" else "viol shape rollups"
    | .query :: rest, cp :: cps =>
      let items := cp.splitOn ";"
      if items.length != ys.length then "viol shape rollups"
      else
        match (ys.zip items).findSome? (fun (y, it) =>
          match it.splitOn ":" with
          | [_, vs] =>
            match (vs.splitOn ",").mapM parseRV? with
            | some [s, c, mn, mx] =>
              if s != F.roll m .sum y then some s!"viol rollup-sum {k} {y} {nupd}"
              else if c != F.roll m .count y then some s!"viol rollup-count {k} {y} {nupd}"
              else if mn != F.roll m .min y then some s!"viol rollup-min {k} {y} {nupd}"
              else if mx != F.roll m .max y then some s!"viol rollup-max {k} {y} {nupd}"
              else none
            | _ => some "viol shape rollups"
          | _ => some "viol shape rollups") with
        | some v => v
        | none => go (k + 1) nupd m rest cps
  if ys.isEmpty then "ok" else go 0 0 m steps cps

def handleApi (toks : List String) : Option String :=
  match toks with
  | ["run", n, es, enc, meas, steps, ys, pairs] => do
      let n ← n.toNat?
      let es ← parseEdges? es
      let enc ← parseEnc? enc
      let m ← parseMeas? meas
      let steps ← parseSteps? steps
      let ys ← parseYs? n ys
      let pairs ← parsePairs? n pairs
      let P : Poset := { n := n, edges := es }
      if !P.wf || m.length != n then none
      else if !(ys.all (· < n)) || !(pairs.all (fun p => p.1 < n && p.2 < n)) then none
      else pure ("ok " ++ runCase P enc m steps ys pairs)
  | ["spec", n, es, meas, steps, ys, pairs, kind, _w, _sb, subs, desc, lca, rolls] => do
      let n ← n.toNat?
      let es ← parseEdges? es
      let m ← parseMeas? meas
      let steps ← parseSteps? steps
      let ys ← parseYs? n ys
      let pairs ← parsePairs? n pairs
      let P : Poset := { n := n, edges := es }
      if !P.wf || m.length != n then none
      else pure (specCase P m steps ys pairs kind subs desc lca rolls)
  | _ => none

/-! ### manager / planner level

  mrun  <legacy 0|1> <n> <ops>     -> ok <out>(;<out>)*
  mspec <n> <ops> <obs>(;<obs>)*   -> ok | viol <k> <what>

    op  := e+<s>-<t>:<ty> | e-<s>-<t>:<ty> | s<v>=<int|_> | r<v>
         | c<ty>(.<ty>)*:<0|1 reverse> | b | d
         | q<D|C|S|N|X>:<ty>:<0|1 pinned node is the arrow target>:<root>
    out := .                         (writes)
         | ok:<encoding|declined|-> | err          (create / rebuild / drop)
         | <I|E>:<answer>            (query: plan used the Index / the Expansion)
    obs := as out, but a query carries both engines' answers:  <I|E>:<with index>:<without>
    answer := a.b.c | _  (rows, ascending)   |  <int> | N  (aggregate)
-/

def parseMOp? (s : String) : Option (MOp ⊕ Query) :=
  let edge? (t : String) : Option (Nat × Nat × Nat) :=
    match t.splitOn ":" with
    | [st, ty] => match st.splitOn "-" with
      | [a, b] => do pure (← a.toNat?, ← b.toNat?, ← ty.toNat?)
      | _ => none
    | _ => none
  if s.startsWith "e+" then (edge? (s.drop 2).toString).map (fun e => .inl (.addEdge e.1 e.2.1 e.2.2))
  else if s.startsWith "e-" then (edge? (s.drop 2).toString).map (fun e => .inl (.delEdge e.1 e.2.1 e.2.2))
  else if s.startsWith "s" then
    match ((s.drop 1).toString).splitOn "=" with
    | [v, x] => do pure (.inl (.setMeas (← v.toNat?) (← parseOptInt? x)))
    | _ => none
  else if s.startsWith "r" then ((s.drop 1).toString.toNat?).map (fun v => .inl (.removeMeas v))
  else if s.startsWith "c" then
    match ((s.drop 1).toString).splitOn ":" with
    | [tys, rv] => do
        let tys ← (tys.splitOn ".").mapM (·.toNat?)
        let rv ← (if rv == "1" then some true else if rv == "0" then some false else none)
        pure (.inl (.create { types := tys, reverse := rv }))
    | _ => none
  else if s == "b" then some (.inl .rebuild)
  else if s == "d" then some (.inl .drop)
  else if s.startsWith "q" then
    match ((s.drop 1).toString).splitOn ":" with
    | [k, ty, pt, root] => do
        let k ← (match k with
          | "D" => some QKind.desc | "C" => some QKind.count | "S" => some QKind.sum
          | "N" => some QKind.min | "X" => some QKind.max | _ => none)
        let pt ← (if pt == "1" then some true else if pt == "0" then some false else none)
        pure (.inr { kind := k, ty := ← ty.toNat?, pinnedIsTarget := pt, root := ← root.toNat? })
    | _ => none
  else none

def showQOut : QOut → String
  | .rows l => showNats l
  | .val v => showRV v

def showDdl (isDrop : Bool) : DdlOut → String
  | .none => "."
  | .err => "err"
  | .ok (some e) => "ok:" ++ encName e
  | .ok none => if isDrop then "ok:-" else "ok:declined"

def opsInRange (n : Nat) : List (MOp ⊕ Query) → Bool
  | [] => true
  | .inl (.addEdge a b _) :: r => a < n && b < n && opsInRange n r
  | .inl (.delEdge a b _) :: r => a < n && b < n && opsInRange n r
  | .inl (.setMeas v _) :: r => v < n && opsInRange n r
  | .inl (.removeMeas v) :: r => v < n && opsInRange n r
  | .inl _ :: r => opsInRange n r
  | .inr q :: r => q.root < n && opsInRange n r

def mrunOut (legacy : Bool) : MState → List (MOp ⊕ Query) → List String → List String
  | _, [], acc => acc.reverse
  | s, .inl op :: rest, acc =>
    let r := mstepWith legacy s op
    let isDrop := match op with | .drop => true | _ => false
    mrunOut legacy r.1 rest (showDdl isDrop r.2 :: acc)
  | s, .inr q :: rest, acc =>
    let a := answerWith legacy s q
    mrunOut legacy s rest (((if a.1 then "I:" else "E:") ++ showQOut a.2) :: acc)

/-- S on observations: the rewritten query returns what the expansion returns, and no plan
uses the index between a write to the covering relation and the next successful rebuild -/
def mspecGo (k : Nat) (spec : Option MSpec) (dirty : Bool) :
    List (MOp ⊕ Query) → List String → String
  | [], [] => "ok"
  | .inl op :: rest, o :: os =>
    match op with
    | .create sp =>
      if o.startsWith "ok:" then mspecGo (k + 1) (some sp) false rest os
      else mspecGo (k + 1) spec dirty rest os
    | .rebuild =>
      if o.startsWith "ok:" then mspecGo (k + 1) spec false rest os
      else mspecGo (k + 1) spec dirty rest os
    | .drop =>
      if o.startsWith "ok" then mspecGo (k + 1) none false rest os
      else mspecGo (k + 1) spec dirty rest os
    | w =>
      let d := match spec with
        | some sp => dirty || w.coveringWrite sp
        | none => dirty
      mspecGo (k + 1) spec d rest os
  | .inr _ :: rest, o :: os =>
    match o.splitOn ":" with
    | [plan, withIdx, without] =>
      if withIdx != without then s!"viol {k} rewrite-differs"
      else if plan == "I" && (dirty || spec.isNone) then s!"viol {k} stale-index-used"
      else mspecGo (k + 1) spec dirty rest os
    | _ => s!"viol {k} shape"
  | _, _ => "viol shape"

def handleMgr (toks : List String) : Option String :=
  match toks with
  | ["mrun", legacy, n, ops] => do
      let n ← n.toNat?
      let ops ← (ops.splitOn ";").mapM parseMOp?
      if !opsInRange n ops then none
      else pure ("ok " ++ joinWith ";" (mrunOut (legacy == "1") (MState.init n) ops []))
  | ["mspec", n, ops, obs] => do
      let n ← n.toNat?
      let ops ← (ops.splitOn ";").mapM parseMOp?
      if !opsInRange n ops then none
      else pure (mspecGo 0 none false ops (obs.splitOn ";"))
  | _ => none

def handle (_ : Unit) (line : String) : Unit × String :=
  let toks := tokens line
  match handleApi toks with
  | some r => ((), r)
  | none =>
    match handleMgr toks with
    | some r => ((), r)
    | none => ((), "bad-op")

def main : IO Unit := runDriver () handle
