import SgModel.Driver.Util
import SgModel.Model.Resp
/-!
Driver for the RESP model (C20, C21, C22).  One request per line:

  feed     <chunks>                  -> ok <events> <buf>     connection loop, repaired decoder
  legacy   <chunks>                  -> ok <events> <buf>     connection loop, pinned decoder
  frames   <frames>                  -> ok <hex> <wf>         wire bytes of the frames, all well-formed?
  spec20   <frames> <events> <buf>   -> ok | viol             S(C20) on given observations
  dec      <hex>                     -> ok <class> <value|-> <rest> <meter> <depth>
  declegacy <hex>                    -> same, pinned decoder
  enc      <value>                   -> ok <hex>              repaired encoder
  enclegacy <value>                  -> ok <hex>
  spec22   <hex>                     -> ok | viol             S(C22): exactly one frame
  spec21   <class> <peak> <len>      -> ok | viol             S(C21)
  relay    <chunks>                  -> ok <hex> | ok none    Proxy::forward on the remote node's reads
  relaylegacy <chunks>               -> same, pinned proxy (single read)

  chunks := hex(,hex)*        hex := lowercase hex, `-` = empty
  value  := S<hex>. | E<hex>. | I<int>. | B<hex>. | N. | Z. | A<n>.<value>*n
  frames := (value | L<hex>.)* or `-`       events := (value | X. | P.)* or `-`
  class  := V | M | X | P
-/
open SgModel SgModel.Driver SgModel.Resp

def spanDot (cs : List Char) : List Char × List Char :=
  let a := cs.takeWhile (· != '.')
  (a, (cs.drop a.length).drop 1)

def hexBody? (cs : List Char) : Option Bytes :=
  if cs.isEmpty then some [] else bytesOfHexChars cs

partial def parseVal : List Char → Option (RV × List Char)
  | 'S' :: r => let (h, r') := spanDot r; (hexBody? h).map (fun b => (.simple b, r'))
  | 'E' :: r => let (h, r') := spanDot r; (hexBody? h).map (fun b => (.error b, r'))
  | 'B' :: r => let (h, r') := spanDot r; (hexBody? h).map (fun b => (.bulk (some b), r'))
  | 'I' :: r => let (h, r') := spanDot r; (parseInt? (String.ofList h)).map (fun i => (.int i, r'))
  | 'N' :: '.' :: r => some (.bulk none, r)
  | 'Z' :: '.' :: r => some (.null, r)
  | 'A' :: r =>
    let (h, r') := spanDot r
    match (String.ofList h).toNat? with
    | none => none
    | some n =>
      let rec go (k : Nat) (acc : List RV) (cs : List Char) : Option (RV × List Char) :=
        if k = 0 then some (.array acc.reverse, cs)
        else match parseVal cs with
          | some (v, cs') => go (k - 1) (v :: acc) cs'
          | none => none
      go n [] r'
  | _ => none

partial def parseFrames (cs : List Char) (acc : List Frame) : Option (List Frame) :=
  match cs with
  | [] => some acc.reverse
  | 'L' :: r => let (h, r') := spanDot r
    match hexBody? h with
    | some b => parseFrames r' (.inline b :: acc)
    | none => none
  | _ => match parseVal cs with
    | some (v, r) => parseFrames r (.resp v :: acc)
    | none => none

partial def parseEvents (cs : List Char) (acc : List Event) : Option (List Event) :=
  match cs with
  | [] => some acc.reverse
  | 'X' :: '.' :: r => parseEvents r (.protoErr :: acc)
  | 'P' :: '.' :: r => parseEvents r (.crash :: acc)
  | _ => match parseVal cs with
    | some (v, r) => parseEvents r (.cmd v :: acc)
    | none => none

def dashList {α} (f : List Char → List α → Option (List α)) (s : String) : Option (List α) :=
  if s == "-" then some [] else f s.toList []

partial def showVal : RV → String
  | .simple s => "S" ++ hexOfBytes s ++ "."
  | .error s => "E" ++ hexOfBytes s ++ "."
  | .int i => "I" ++ toString i ++ "."
  | .bulk none => "N."
  | .bulk (some b) => "B" ++ hexOfBytes b ++ "."
  | .null => "Z."
  | .array vs => "A" ++ toString vs.length ++ "." ++ String.join (vs.map showVal)

def showEvents (es : List Event) : String :=
  if es.isEmpty then "-" else String.join (es.map (fun e => match e with
    | .cmd v => showVal v
    | .protoErr => "X."
    | .crash => "P."))

def parseChunks? (s : String) : Option (List Bytes) := (s.splitOn ",").mapM bytesOfHex?

def showConn (c : Conn) : String := "ok " ++ showEvents c.out ++ " " ++ hexOrDash c.buf

def showStep (s : Step) : String :=
  let (cls, v) := match s.out with
    | .val v => ("V", showVal v)
    | .more => ("M", "-")
    | .err => ("X", "-")
    | .panic => ("P", "-")
  s!"ok {cls} {v} {hexOrDash s.rest} {s.meter} {s.depth}"

def handle (_ : Unit) (line : String) : Unit × String :=
  match tokens line with
  | ["feed", cs] => match parseChunks? cs with
      | some l => ((), showConn (feedAll l))
      | none => ((), "bad-op")
  | ["legacy", cs] => match parseChunks? cs with
      | some l => ((), showConn (feedAllLegacy l))
      | none => ((), "bad-op")
  | ["frames", fs] => match dashList parseFrames fs with
      | some l => ((), "ok " ++ hexOrDash ((l.map Frame.bytes).flatten) ++ " "
                        ++ (if l.all Frame.wf then "1" else "0"))
      | none => ((), "bad-op")
  | ["spec20", fs, es, buf] =>
      match dashList parseFrames fs, dashList parseEvents es, bytesOfHex? buf with
      | some f, some e, some b => ((), if specFeed f e b then "ok" else "viol")
      | _, _, _ => ((), "bad-op")
  | ["dec", h] => match bytesOfHex? h with
      | some b => ((), showStep (decode b))
      | none => ((), "bad-op")
  | ["declegacy", h] => match bytesOfHex? h with
      | some b => ((), showStep (decodeLegacy b))
      | none => ((), "bad-op")
  | ["enc", v] => match parseVal v.toList with
      | some (v, []) => ((), "ok " ++ hexOrDash (encode v))
      | _ => ((), "bad-op")
  | ["enclegacy", v] => match parseVal v.toList with
      | some (v, []) => ((), "ok " ++ hexOrDash (encodeLegacy v))
      | _ => ((), "bad-op")
  | ["spec22", h] => match bytesOfHex? h with
      | some b => ((), if specOneFrame b then "ok" else "viol")
      | none => ((), "bad-op")
  | ["relay", cs] => match parseChunks? cs with
      | some l => ((), match relay l with | some b => "ok " ++ hexOrDash b | none => "ok none")
      | none => ((), "bad-op")
  | ["relaylegacy", cs] => match parseChunks? cs with
      | some l => ((), match relayLegacy l with | some b => "ok " ++ hexOrDash b | none => "ok none")
      | none => ((), "bad-op")
  | ["spec21", cls, peak, len] =>
      let c? : Option Nat := match cls with
        | "V" => some 0 | "M" => some 1 | "X" => some 2 | "P" => some 3 | _ => none
      match c?, peak.toNat?, len.toNat? with
      | some c, some p, some l => ((), if specSafe c p l then "ok" else "viol")
      | _, _, _ => ((), "bad-op")
  | _ => ((), "bad-op")

def main : IO Unit := runDriver () handle
