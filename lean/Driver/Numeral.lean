import SgModel.Driver.Util
import SgModel.Model.Numeral
/-!
Driver for the numeral-site model (C25).  Requests (one per line):

  site   <site> <text>         -> ok:<v> | absent | err | panic     (parser after the repair)
  legacy <site> <text>         -> same, for the pinned tree
  spec   <site> <text> <obs>   -> ok | viol         S on an observed outcome (same tokens)
  fits   <site> <text>         -> 1 | 0 | bad-op
  float  <mant> <exp10>        -> finite | err       (repaired)   flegacy -> finite | inf
  fspec  <mant> <exp10> <obs>  -> ok | viol          obs := finite | inf | err

  site := min | max | exact | skip | limit | int
  text := the numeral as the grammar's `integer` rule matched it (e.g. -0x1F, 007)
-/
open SgModel SgModel.Driver SgModel.Numeral

def parseSiteName? : String → Option Site
  | "min" => some .varLenMin
  | "max" => some .varLenMax
  | "exact" => some .varLenExact
  | "skip" => some .skip
  | "limit" => some .limit
  | "int" => some .intLit
  | _ => none

def showOutcome : Outcome → String
  | .ok v => s!"ok:{v}"
  | .absent => "absent"
  | .err => "err"
  | .panic => "panic"

def parseOutcome? (s : String) : Option Outcome :=
  if s == "absent" then some .absent
  else if s == "err" then some .err
  else if s == "panic" then some .panic
  else if s.startsWith "ok:" then (parseInt? (s.drop 3).toString).map .ok
  else none

def showF : FOutcome → String
  | .finite => "finite"
  | .inf => "inf"
  | .err => "err"

def parseF? : String → Option FOutcome
  | "finite" => some .finite
  | "inf" => some .inf
  | "err" => some .err
  | _ => none

def handle (_ : Unit) (line : String) : Unit × String :=
  match tokens line with
  | ["site", s, t] => match parseSiteName? s with
      | some s => ((), showOutcome (parseSiteText false s t.toList))
      | none => ((), "bad-op")
  | ["legacy", s, t] => match parseSiteName? s with
      | some s => ((), showOutcome (parseSiteText true s t.toList))
      | none => ((), "bad-op")
  | ["spec", s, t, o] => match parseSiteName? s, ofText t.toList, parseOutcome? o with
      | some s, some n, some o => ((), if specSite s n o then "ok" else "viol")
      | _, _, _ => ((), "bad-op")
  | ["fits", s, t] => match parseSiteName? s, ofText t.toList with
      | some s, some n => ((), if fits s n then "1" else "0")
      | _, _ => ((), "bad-op")
  | ["float", m, e] => match m.toNat?, parseInt? e with
      | some m, some e => ((), showF (parseFloatSite ⟨m, e⟩))
      | _, _ => ((), "bad-op")
  | ["flegacy", m, e] => match m.toNat?, parseInt? e with
      | some m, some e => ((), showF (parseFloatSiteLegacy ⟨m, e⟩))
      | _, _ => ((), "bad-op")
  | ["fspec", m, e, o] => match m.toNat?, parseInt? e, parseF? o with
      | some m, some e, some o => ((), if specFloat ⟨m, e⟩ o then "ok" else "viol")
      | _, _, _ => ((), "bad-op")
  | _ => ((), "bad-op")

def main : IO Unit := runDriver () handle
