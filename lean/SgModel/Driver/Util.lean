/-
Shared, import-free helpers for the line-protocol drivers.
Nothing here is part of any theorem; it is I/O glue (parsing, printing, the read loop).
-/
namespace SgModel.Driver

/-- Split a request line into space-separated tokens (empty tokens dropped). -/
def tokens (line : String) : List String :=
  (line.trimAscii.toString.splitOn " ").filter (· ≠ "")

def joinWith (sep : String) (xs : List String) : String :=
  match xs with
  | [] => ""
  | x :: rest => rest.foldl (fun acc y => acc ++ sep ++ y) x

def showList (xs : List String) : String := "[" ++ joinWith "," xs ++ "]"

/-- `a,b,c` → ["a","b","c"]; the empty string is the empty list. -/
def splitComma (s : String) : List String :=
  if s.isEmpty then [] else s.splitOn ","

/-- `[a,b,c]` → ["a","b","c"] (no nesting). -/
def parseBracketList (s : String) : Option (List String) :=
  if s.startsWith "[" && s.endsWith "]" then
    some (splitComma ((s.drop 1).dropEnd 1).toString)
  else none

def parseInt? (s : String) : Option Int :=
  if s.startsWith "-" then (s.drop 1).toString.toNat?.map (fun n => - (Int.ofNat n))
  else s.toNat?.map Int.ofNat

def hexDigit (n : Nat) : Char :=
  if n < 10 then Char.ofNat (48 + n) else Char.ofNat (87 + n)

def hexOfByte (b : UInt8) : String :=
  String.ofList [hexDigit (b.toNat / 16), hexDigit (b.toNat % 16)]

def hexOfBytes (bs : List UInt8) : String :=
  String.join (bs.map hexOfByte)

def hexVal? (c : Char) : Option Nat :=
  if '0' ≤ c ∧ c ≤ '9' then some (c.toNat - 48)
  else if 'a' ≤ c ∧ c ≤ 'f' then some (c.toNat - 87)
  else if 'A' ≤ c ∧ c ≤ 'F' then some (c.toNat - 55)
  else none

def bytesOfHexChars : List Char → Option (List UInt8)
  | [] => some []
  | [_] => none
  | a :: b :: rest =>
    match hexVal? a, hexVal? b, bytesOfHexChars rest with
    | some x, some y, some tl => some (UInt8.ofNat (x * 16 + y) :: tl)
    | _, _, _ => none

/-- lowercase/uppercase hex → bytes; `-` denotes the empty byte string. -/
def bytesOfHex? (s : String) : Option (List UInt8) :=
  if s == "-" then some [] else bytesOfHexChars s.toList

def hexOrDash (bs : List UInt8) : String :=
  if bs.isEmpty then "-" else hexOfBytes bs

/-- Read requests from stdin until EOF, one reply line per request line. -/
partial def loop {σ : Type} (hin hout : IO.FS.Stream) (flushEach : Bool) (s : σ)
    (step : σ → String → σ × String) : IO Unit := do
  let line ← hin.getLine
  if line.isEmpty then
    hout.flush
    return ()
  let (s', o) := step s line
  hout.putStrLn o
  if flushEach then hout.flush
  loop hin hout flushEach s' step

/-- `SG_FLUSH=1` in the environment selects interactive mode (flush after every reply). -/
def runDriver {σ : Type} (init : σ) (step : σ → String → σ × String) : IO Unit := do
  let hin ← IO.getStdin
  let hout ← IO.getStdout
  let fl := (← IO.getEnv "SG_FLUSH") == some "1"
  loop hin hout fl init step

end SgModel.Driver
