/-
Import-free helper for the C26/C27 drivers: IEEE-754 binary64 bit patterns (16 hex digits)
to exact rationals, and rational comparison helpers.  Not part of any theorem.
-/
namespace SgModel.Driver

def hexNat? (s : String) : Option Nat :=
  s.toList.foldl (fun acc c => match acc with
    | none => none
    | some a =>
      if '0' ≤ c ∧ c ≤ '9' then some (a * 16 + (c.toNat - 48))
      else if 'a' ≤ c ∧ c ≤ 'f' then some (a * 16 + (c.toNat - 87))
      else if 'A' ≤ c ∧ c ≤ 'F' then some (a * 16 + (c.toNat - 55))
      else none) (some 0)

/-- finite doubles only (`none` for NaN / ±∞) -/
def ratOfBits (b : Nat) : Option Rat :=
  let sign : Nat := b / 2 ^ 63
  let e : Nat := (b / 2 ^ 52) % 2048
  let m : Nat := b % 2 ^ 52
  let full : Nat := 2 ^ 52 + m
  if e = 2047 then none else
  let mag : Rat :=
    if e = 0 then (m : Rat) / (((2 ^ 1074 : Nat)) : Rat)
    else if e ≥ 1075 then (full : Rat) * (((2 ^ (e - 1075) : Nat)) : Rat)
    else (full : Rat) / (((2 ^ (1075 - e) : Nat)) : Rat)
  some (if sign = 1 then -mag else mag)

def ratOfHex? (s : String) : Option Rat :=
  if s.length ≠ 16 then none else (hexNat? s).bind ratOfBits

def ratAbs (x : Rat) : Rat := if x < 0 then -x else x

/-- `x` is within a relative 2^-52 of `y` (one rounding of an exact quotient) -/
def closeRel (x y : Rat) : Bool := ratAbs (x - y) ≤ ratAbs y / (((2 ^ 52 : Nat)) : Rat)

def showRat (x : Rat) : String := s!"{x.num}/{x.den}"

end SgModel.Driver
