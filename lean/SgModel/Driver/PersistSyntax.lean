import SgModel.Driver.Util
import SgModel.Model.Persist
/-! Text syntax shared by the Persist and Quota drivers (I/O glue, not part of any theorem). -/
namespace SgModel.Driver.PersistSyntax
open SgModel SgModel.Driver SgModel.Persist

def parseNats? (sep : String) (s : String) : Option (List Nat) :=
  if s == "-" then some [] else (s.splitOn sep).mapM (·.toNat?)

def parseProps? (s : String) : Option Props :=
  if s == "-" then some []
  else (s.splitOn "+").mapM (fun kv => match kv.splitOn "=" with
    | [k, v] => do pure (← k.toNat?, ← v.toNat?)
    | _ => none)

def parseOp? (s : String) : Option Op :=
  match s.splitOn ":" with
  | ["cn", id, ls, ps] => do pure (.createNode (← id.toNat?) (← parseNats? "+" ls) (← parseProps? ps))
  | ["ce", id, a, b, ty, ps] => do
      pure (.createEdge (← id.toNat?) (← a.toNat?) (← b.toNat?) (← ty.toNat?) (← parseProps? ps))
  | ["dn", id] => do pure (.deleteNode (← id.toNat?))
  | ["de", id] => do pure (.deleteEdge (← id.toNat?))
  | ["un", id, ps] => do pure (.updateNode (← id.toNat?) (← parseProps? ps))
  | ["ue", id, ps] => do pure (.updateEdge (← id.toNat?) (← parseProps? ps))
  | _ => none

def parseOps? (s : String) : Option (List Op) :=
  if s == "-" then some [] else (s.splitOn ";").mapM parseOp?

def reqOf (t : Nat) : Op → Req
  | .createNode id ls ps => .createNode t id ls ps
  | .createEdge id a b ty ps => .createEdge t id a b ty ps
  | .deleteNode id => .deleteNode t id
  | .deleteEdge id => .deleteEdge t id
  | .updateNode id ps => .updateNode t id ps
  | .updateEdge id ps => .updateEdge t id ps

def parseReq? (s : String) : Option Req :=
  match s.splitOn "@" with
  | [t, op] => do pure (reqOf (← t.toNat?) (← parseOp? op))
  | _ => none

def parseReqs? (s : String) : Option (List Req) :=
  if s == "-" then some [] else (s.splitOn ";").mapM parseReq?

def parseOptNat? (s : String) : Option (Option Nat) :=
  if s == "-" then some none else s.toNat?.map some

def parseBit? (s : String) : Option Bool :=
  if s == "1" then some true else if s == "0" then some false else none

def parseCfg? (s : String) : Option Cfg :=
  match s.splitOn "." with
  | [r, e, n, m] => do pure ⟨← parseBit? r, ← parseBit? e, ← parseOptNat? n, ← parseOptNat? m⟩
  | _ => none

def parseCfgs? (s : String) : Option (List (Nat × Cfg)) :=
  if s == "-" then some []
  else (s.splitOn ",").mapM (fun tc => match tc.splitOn "=" with
    | [t, c] => do pure (← t.toNat?, ← parseCfg? c)
    | _ => none)

def cfgsFn (l : List (Nat × Cfg)) (t : Nat) : Cfg :=
  match l.find? (fun p => p.1 == t) with
  | some p => p.2
  | none => { registered := false }

def showNats (l : List Nat) : String :=
  if l.isEmpty then "-" else joinWith "+" (l.map toString)
def showProps (p : Props) : String :=
  if p.isEmpty then "-" else joinWith "+" (p.map (fun kv => s!"{kv.1}={kv.2}"))
def showList' (l : List String) : String := if l.isEmpty then "-" else joinWith "," l

def showKV (kv : KV) : String :=
  showList' (kv.nodes.map (fun (id, v) => s!"{id}:{showNats v.labels}:{showProps v.props}"))
  ++ "/" ++
  showList' (kv.edges.map (fun (id, v) => s!"{id}:{v.src}:{v.tgt}:{v.ty}:{showProps v.props}"))

def parseNodeEnt? (s : String) : Option (Nat × NodeVal) :=
  match s.splitOn ":" with
  | [id, ls, ps] => do pure (← id.toNat?, ⟨← parseNats? "+" ls, ← parseProps? ps⟩)
  | _ => none
def parseEdgeEnt? (s : String) : Option (Nat × EdgeVal) :=
  match s.splitOn ":" with
  | [id, a, b, ty, ps] => do
      pure (← id.toNat?, ⟨← a.toNat?, ← b.toNat?, ← ty.toNat?, ← parseProps? ps⟩)
  | _ => none
def parseKV? (s : String) : Option KV :=
  match s.splitOn "/" with
  | [n, e] => do
      let nodes ← (if n == "-" then some [] else (n.splitOn ",").mapM parseNodeEnt?)
      let edges ← (if e == "-" then some [] else (e.splitOn ",").mapM parseEdgeEnt?)
      pure ⟨nodes, edges⟩
  | _ => none

def showRes : Res → String
  | .ok => "ok"
  | .err .notFound => "notfound"
  | .err .denied => "denied"
  | .err .quota => "quota"
  | .err .fuel => "fuel"
def parseRes? (s : String) : Option Res :=
  match s with
  | "ok" => some .ok
  | "notfound" => some (.err .notFound)
  | "denied" => some (.err .denied)
  | "quota" => some (.err .quota)
  | _ => none
def parseResults? (s : String) : Option (List Res) :=
  if s == "-" then some [] else (s.splitOn ",").mapM parseRes?

def pointName : Pc → String
  | .lock => "locked"
  | .check => "checked"
  | .log => "logged"
  | .store => "stored"
  | .count => "counted"
  | .ret => "ret"
  | .scan => "scanned"
  | .done => "done"

def showResp : Resp → String
  | .ok => "ok"
  | .nodeCreated id => s!"n{id}"
  | .edgeCreated id => s!"e{id}"
  | .error => "err"
def parseResp? (s : String) : Option Resp :=
  if s == "ok" then some .ok
  else if s == "err" then some .error
  else if s.startsWith "n" then (s.drop 1).toString.toNat?.map .nodeCreated
  else if s.startsWith "e" then (s.drop 1).toString.toNat?.map .edgeCreated
  else none
def parseResps? (s : String) : Option (List Resp) :=
  if s == "-" then some [] else (s.splitOn ",").mapM parseResp?

end SgModel.Driver.PersistSyntax
