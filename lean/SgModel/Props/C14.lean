import SgModel.Lemmas.SnapFSCrash
import SgModel.Lemmas.SnapFSChain
/-!
# C14 — imported snapshots survive restart and crashes during persistence

Property theorems only (helpers: `Lemmas/SnapFS.lean`).  The model is `SgModel.SnapFS`:
`persist_snapshot` as its list of file-system micro-steps over a directory / inode model with
current and durable views.  Every theorem quantifies over **all** histories of acknowledged
persists, all payloads, all crash points `k` inside the next persist, and (power loss) all
prefixes `p` of the not-yet-durable directory operations.

Full statement of the property (kept visible):

    after a crash at any point while import k+1 is being persisted, a restart restores the
    graph of imports 1..k or of imports 1..k+1; after a clean restart, of all acknowledged imports.

What is proved is the statement with "the graph of imports 1..k" replaced by "the snapshot of
import k" (`lastOf hist`): the code keeps one file, so a restart can only ever restore the
*last* acknowledged snapshot — that earlier acknowledged imports are lost is a genuine defect
which an existing test pins (`persist_overwrites_previous_snapshot`: "latest snapshot wins");
it is recorded as a known finding and refuted on the model by
`C14_counterexample_overwrite`.  Hence the `_partial` suffix on the crash theorems.
-/
namespace SgModel.SnapFS

/-- **Process crash**: whatever was acknowledged before (`hist`), wherever the process dies
inside the persist of `b` (`k` micro-steps done; `k = 0` is "before", `k ≥ 8` "after"), a
restart restores the last acknowledged snapshot or the new one. -/
theorem C14_restore_after_process_crash_partial (hist : List Nat) (b k : Nat) :
    restoreProcess (run ((persistSteps false b).take k) (persistAll false hist)) = lastOf hist
    ∨ restoreProcess (run ((persistSteps false b).take k) (persistAll false hist)) = .ok b :=
  crash_process_shape (shape_persistAll hist) b k

/-- **Power loss** (file-system contract of the model header): additionally for every prefix
`p` of the directory operations that had not been made durable yet. -/
theorem C14_restore_after_power_loss_partial (hist : List Nat) (b k p : Nat) :
    restorePower p (run ((persistSteps false b).take k) (persistAll false hist)) = lastOf hist
    ∨ restorePower p (run ((persistSteps false b).take k) (persistAll false hist)) = .ok b :=
  crash_power_shape (shape_persistAll hist) b k p

/-- **Never partial or corrupt**: no crash point and no power-loss state makes the restart
import a partially written or empty file. -/
theorem C14_never_corrupt (hist : List Nat) (b k p : Nat) :
    restoreProcess (run ((persistSteps false b).take k) (persistAll false hist)) ≠ .corrupt
    ∧ restorePower p (run ((persistSteps false b).take k) (persistAll false hist)) ≠ .corrupt := by
  constructor
  · rcases C14_restore_after_process_crash_partial hist b k with h | h <;> rw [h]
    · exact lastOf_ne_corrupt hist
    · simp
  · rcases C14_restore_after_power_loss_partial hist b k p with h | h <;> rw [h]
    · exact lastOf_ne_corrupt hist
    · simp

/-- **Crash, restart, import again, crash again**: the persist of `b2` may start from whatever
directory a crash inside the persist of `b1` left behind (a left-over tmp file, the new final
file under the old marker, a final file without a marker).  Wherever the second crash falls,
a restart restores what a restart right after the first crash would have restored, or `b2`. -/
theorem C14_crash_restart_persist_partial (hist : List Nat) (b1 b2 k1 k2 : Nat) :
    restoreProcess (run ((persistSteps false b2).take k2)
        (run ((persistSteps false b1).take k1) (persistAll false hist)))
      = restoreProcess (run ((persistSteps false b1).take k1) (persistAll false hist))
    ∨ restoreProcess (run ((persistSteps false b2).take k2)
        (run ((persistSteps false b1).take k1) (persistAll false hist)))
      = .ok b2 :=
  chain_shape (shape_persistAll hist) b1 b2 k1 k2

/-- **Clean restart** (and power loss after the acknowledgement): the last acknowledged
snapshot is restored — `_partial`: the *last*, not all of them (known finding). -/
theorem C14_clean_restart_partial (hist : List Nat) (p : Nat) :
    restoreProcess (persistAll false hist) = lastOf hist
    ∧ restorePower p (persistAll false hist) = lastOf hist := by
  have h := shape_persistAll hist
  rcases h with ⟨h1, h2⟩ | ⟨a, h1, h2 | h2 | h2⟩ <;> rw [h1, h2] <;>
    (constructor
     · rfl
     · cases p <;> rfl)

/-- The model satisfies the executable specification the harness evaluates on the restart of
the real code from the real directory at each crash point. -/
theorem C14_model_refines_spec (hist : List Nat) (b k p : Nat) :
    specCrash hist b (restoreProcess (run ((persistSteps false b).take k) (persistAll false hist))) = true
    ∧ specCrash hist b (restorePower p (run ((persistSteps false b).take k) (persistAll false hist))) = true := by
  constructor
  · rcases C14_restore_after_process_crash_partial hist b k with h | h <;> simp [specCrash, h]
  · rcases C14_restore_after_power_loss_partial hist b k p with h | h <;> simp [specCrash, h]

/-- **A refused import touches nothing on disk**: a handler run whose import fails performs no
file-system step — the directory (current and durable view) is exactly what it was, and the
request is not acknowledged. -/
theorem C14_refused_import_leaves_committed_snapshot (fs : FS) (b : Nat) :
    handleReq fs (b, false) = (fs, false) := rfl

/-- **HTTP histories**: after any sequence of import requests, accepted and refused in any
mix, a restart restores the snapshot of the last *acknowledged* request (nothing if there was
none) — in particular a 200 implies persisted, and a refusal leaves what a restart restores
unchanged.  `_partial` for the same reason as above: the last one, not all of them. -/
theorem C14_http_history_restores_last_acknowledged_partial (reqs : List (Nat × Bool)) (p : Nat) :
    restoreProcess (handleAll reqs) = lastOf (acked reqs)
    ∧ restorePower p (handleAll reqs) = lastOf (acked reqs) := by
  rw [handleAll_eq]
  exact C14_clean_restart_partial (acked reqs) p

/-! ### The pinned tree violated the property (witnesses replayed by `corpus/C14`) -/

/-- pinned tree: the committed marker is removed *first*; a crash right after that step of the
second persist restores neither the first snapshot nor the second -/
theorem C14_counterexample_marker :
    restoreProcess (run ((persistSteps true 2).take 1) (persistAll true [1])) = .nothing
    ∧ specCrash [1] 2 (restoreProcess (run ((persistSteps true 2).take 1) (persistAll true [1]))) = false := by
  decide

/-- … and so do the next five steps (until the marker is re-created) -/
theorem C14_counterexample_marker_window :
    ∀ k ∈ [1, 2, 3, 4, 5, 6],
      restoreProcess (run ((persistSteps true 2).take k) (persistAll true [1])) = .nothing := by
  decide

/-- pinned tree: no directory fsync — a power loss *after* the acknowledgement can lose the
acknowledged snapshot altogether -/
theorem C14_counterexample_power_after_ack :
    restorePower 0 (persistAll true [1]) = .nothing := by decide

/-- **known finding** (pinned by an existing test, not repaired): one file name — after two
acknowledged imports a clean restart restores only the second -/
theorem C14_counterexample_overwrite :
    restoreProcess (persistAll false [1, 2]) = .ok 2 ∧ restoreProcess (persistAll true [1, 2]) = .ok 2 := by
  decide

/-! ### Non-vacuity -/

example : restoreProcess (run ((persistSteps false 2).take 3) (persistAll false [1])) = .ok 1 := by decide
example : restoreProcess (run ((persistSteps false 2).take 5) (persistAll false [1])) = .ok 2 := by decide
example : restorePower 1 (run ((persistSteps false 2).take 5) (persistAll false [1])) = .ok 1 := by decide
example : restorePower 2 (run ((persistSteps false 2).take 5) (persistAll false [1])) = .ok 2 := by decide
example : restoreProcess (run ((persistSteps false 7).take 5) (persistAll false [])) = .nothing := by decide

end SgModel.SnapFS
