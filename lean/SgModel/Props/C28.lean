import SgModel.Lemmas.OehMinMax
import SgModel.Lemmas.OehLca
import SgModel.Lemmas.OehFast
import SgModel.Lemmas.OehLcaNested
import SgModel.Lemmas.OehChain
import SgModel.Lemmas.OehDecomp
import SgModel.Lemmas.OehNearFuel
/-!
# C28 — hierarchy index answers equal the brute-force poset answers

Property theorems only (helpers: `Lemmas/Oeh.lean`).  Model: `Model/Oeh.lean` (index),
`Model/OehMgr.lean` (registry, staleness, planner rewrite).
-/
namespace SgModel.Oeh

/-! ## stage 2 — staleness -/

/-- A write to the covering relation makes the index unusable until rebuilt: after an edge of a
covering type is created, no later query is planned onto the index, whatever operations follow,
as long as none of them is a REBUILD (or a DROP followed by a new CREATE). -/
theorem C28_stale_until_rebuilt_add (s : MState) (e : MEntry) (a b ty : Nat) (ops : List MOp)
    (he : s.entry = some e) (hc : e.spec.types.contains ty = true)
    (hops : ∀ op ∈ ops, NotRebuild op) (q : Query) :
    usesIndex (ops.foldl mstep (mstep s (.addEdge a b ty))) q = none :=
  usesIndex_of_staleInv _ q (staleInv_foldl ops _ (staleInv_addEdge s e a b ty he hc) hops)

/-- the same for the deletion of an existing covering relationship -/
theorem C28_stale_until_rebuilt_del (s : MState) (e : MEntry) (a b ty : Nat) (ops : List MOp)
    (he : s.entry = some e) (hc : e.spec.types.contains ty = true)
    (hx : s.g.edges.contains (a, b, ty) = true)
    (hops : ∀ op ∈ ops, NotRebuild op) (q : Query) :
    usesIndex (ops.foldl mstep (mstep s (.delEdge a b ty))) q = none :=
  usesIndex_of_staleInv _ q (staleInv_foldl ops _ (staleInv_delEdge s e a b ty he hc hx) hops)

/-- The planner uses the index exactly when the entry is fresh (built, not stale) and the
query is one the index speaks for: same single covering type, pinned node on the ancestor side
of the declared arrow, pinned node inside the poset. -/
theorem C28_uses_index_iff_fresh (s : MState) (q : Query) (ix : MIndex) :
    usesIndex s q = some ix ↔
      ∃ e, s.entry = some e ∧ e.stale = false ∧ e.built = some ix
        ∧ e.spec.types = [q.ty] ∧ q.pinnedIsTarget = !e.spec.reverse
        ∧ ix.nodes.contains q.root = true :=
  usesIndex_iff s q ix

/-- … and therefore, between a covering write and the next rebuild, every query is answered by
the engine's own expansion over the *current* graph (never by the outdated index) -/
theorem C28_stale_answers_by_expansion (s : MState) (e : MEntry) (a b ty : Nat) (ops : List MOp)
    (he : s.entry = some e) (hc : e.spec.types.contains ty = true)
    (hops : ∀ op ∈ ops, NotRebuild op) (q : Query) :
    let s' := ops.foldl mstep (mstep s (.addEdge a b ty))
    answer s' q = (false, bruteAnswer s'.g q) := by
  intro s'
  have h := C28_stale_until_rebuilt_add s e a b ty ops he hc hops q
  unfold answer answerWith
  unfold usesIndex at h
  rw [h]

/-- a successful rebuild makes the entry fresh again -/
theorem C28_rebuild_fresh (s : MState) (e : MEntry) (ix : MIndex) (he : s.entry = some e)
    (hb : buildFromGraph s.g e.spec = .ok ix) :
    (mstep s .rebuild).entry = some { spec := e.spec, built := some ix, stale := false } := by
  simp [mstep, mstepWith, he, hb]

/-! ## stage 1 — Fenwick tree -/

/-- `Fenwick::build` establishes the invariant for the given values … -/
theorem C28_fenwick_build (vals : List Int) :
    FwInv (fwBuild vals) vals.length (fun x => vals.getD x 0) := fwBuild_inv vals

/-- … under the invariant `prefix(i)` is the sum of the first `i` values, and a range query
is the sum of the inclusive range … -/
theorem C28_fenwick_prefix {t : List Int} {n : Nat} {v : Nat → Int} (h : FwInv t n v)
    (i : Nat) (hi : i ≤ n) : fwPrefix t i = psumF v i := fwPrefix_eq h i hi

theorem C28_fenwick_range {t : List Int} {n : Nat} {v : Nat → Int} (h : FwInv t n v)
    (lo hi : Nat) (hlo : lo ≤ hi) (hhi : hi < n) :
    fwRange t lo hi = psumF v (hi + 1) - psumF v lo := by
  unfold fwRange
  have : ¬ hi < lo := by omega
  simp only [this, if_false]
  rw [fwPrefix_eq h (hi + 1) (by omega), fwPrefix_eq h lo (by omega)]

/-- … and `Fenwick::add(pos, d)` keeps the invariant for the vector with `d` added at `pos`:
every later prefix changes by `d` exactly when it covers `pos` (`fenwick_prefix_update`). -/
theorem C28_fenwick_prefix_update {t : List Int} {n : Nat} {v : Nat → Int} (h : FwInv t n v)
    (pos : Nat) (d : Int) (i : Nat) (hi : i ≤ n) :
    FwInv (fwAdd t pos d) n (bump v pos d)
    ∧ fwPrefix (fwAdd t pos d) i = fwPrefix t i + (if pos < i then d else 0) := by
  have h' := fwAdd_inv h pos d
  refine ⟨h', ?_⟩
  rw [fwPrefix_eq h' i hi, fwPrefix_eq h i hi, psumF_bump]

/-! ## stage 1 — nested-set encoding on forests

`IsForest P h`: endpoints in range, distinct edges, at most one parent per node, and a height
function `h` that strictly grows from child to parent and stays below `n` (acyclicity).
No bound on the size or depth of the forest. -/

/-- two integer comparisons decide subsumption: interval containment ⇔ reachability -/
theorem C28_nested_subsumes_iff_reach {P : Poset} {h : Nat → Nat} (F : IsForest P h)
    (x y : Nat) (hx : x < P.n) (hy : y < P.n) :
    (buildNested P).subsumes x y = specSubsumes P x y := by
  have h1 := nested_subsumes_iff_mem F x y hx hy
  have h2 := mem_pre_iff_reach F.toAcyclic x y hy
  unfold specSubsumes
  cases hs : (buildNested P).subsumes x y <;> cases hr : reach P P.n x y <;> simp_all

/-- the contiguous slice `inv[tin y ..= tout y]` is duplicate-free and is exactly the
brute-force descendant set (as a permutation of `specDesc`, which is ascending) -/
theorem C28_nested_descendants_eq {P : Poset} {h : Nat → Nat} (F : IsForest P h)
    (y : Nat) (hy : y < P.n) :
    ((buildNested P).descendants y).Nodup
    ∧ ((buildNested P).descendants y).Perm (specDesc P y)
    ∧ ∀ x, x ∈ (buildNested P).descendants y ↔ (x < P.n ∧ specSubsumes P x y = true) := by
  rw [nested_descendants_eq_pre F y hy]
  refine ⟨nodup_pre F P.n y (F.hBound y hy), pre_perm_specDesc F y hy, ?_⟩
  intro x
  rw [(pre_perm_specDesc F y hy).mem_iff]
  simp [specDesc, specSubsumes]

/-- SUM roll-up after **any** sequence of `update_measure` calls equals the brute-force sum of
the updated measure over the set of descendants (`rollup_sum_after_updates`) -/
theorem C28_rollup_sum_after_updates {P : Poset} {h : Nat → Nat} (F : IsForest P h)
    (m : Measure) (hm : m.length = P.n) (us : List (Nat × Option Int)) (y : Nat) (hy : y < P.n) :
    (us.foldl NestedIdx.update (NestedIdx.build P m)).rollup .sum y
      = .int (bruteSum P (us.foldl updMeasure m) y) :=
  rollup_sum_of_inv F (ninv_foldl F us _ _ (ninv_build F m hm)) y hy

/-- COUNT is answered structurally (`tout - tin + 1`) and equals the size of the set -/
theorem C28_rollup_count_after_updates {P : Poset} {h : Nat → Nat} (F : IsForest P h)
    (m : Measure) (hm : m.length = P.n) (us : List (Nat × Option Int)) (y : Nat) (hy : y < P.n) :
    (us.foldl NestedIdx.update (NestedIdx.build P m)).rollup .count y
      = specRollup P (us.foldl updMeasure m) .count y :=
  rollup_count_forest F (ninv_foldl F us _ _ (ninv_build F m hm)) y hy

/-- `bruteSum` is the integer reading of the specification's SUM roll-up -/
theorem C28_bruteSum_is_spec (P : Poset) (m : Measure) (y : Nat) :
    specRollup P m .sum y = .int (bruteSum P m y) := by
  unfold specRollup bruteSum foldMeasure
  generalize specDesc P y = l
  have key : ∀ (l : List Nat) (a : Int),
      l.foldl (fun acc z => match mval m z with
        | some v => Op.sum.combine acc (.int v)
        | none => acc) (.int a) = .int (a + (l.map (fun z => (mval m z).getD 0)).sum) := by
    intro l
    induction l with
    | nil => intro a; simp
    | cons z l ih =>
      intro a
      simp only [List.foldl_cons, List.map_cons, List.sum_cons]
      cases hz : mval m z with
      | none => simp only [Option.getD_none]; rw [ih a]; congr 1; omega
      | some v =>
        have step : Op.sum.combine (.int a) (.int v) = .int (a + v) := rfl
        simp only [Option.getD_some]
        rw [step, ih (a + v)]; congr 1; omega
  have := key l 0
  rw [Int.zero_add] at this
  exact this

/-- **The model satisfies the executable specification** on the observations the harness
compares, for every forest, every measure, every update sequence and every queried node:
subsumption bits, descendant sets, SUM and COUNT roll-ups.

Full statement (kept visible; not yet proved):
`∀ P wf, ∀ enc, ∀ us, obs (us.foldl Index.update (build enc P m)) ⊨ S` for the chain and
near-tree encodings as well, including their descendant enumeration, suffix folds and LCA.
Proved here: the nested-set encoding (the one `build` selects for every forest), all four
monoids.  For the near-tree encoding see `C28_neartree_subsumes_iff_reach` / `C28_neartree_lca`
(subsumption and LCA on every DAG; its `descendants` frontier loop and FoldSet roll-up are
not proved).  The chain encoding is differential only. -/
theorem C28_model_refines_spec_partial {P : Poset} {h : Nat → Nat} (F : IsForest P h)
    (m : Measure) (hm : m.length = P.n) (us : List (Nat × Option Int))
    (x y : Nat) (hx : x < P.n) (hy : y < P.n) :
    let I := us.foldl NestedIdx.update (NestedIdx.build P m)
    let m' := us.foldl updMeasure m
    I.lab.subsumes x y = specSubsumes P x y
    ∧ (I.lab.descendants y).Perm (specDesc P y)
    ∧ I.rollup .sum y = specRollup P m' .sum y
    ∧ I.rollup .count y = specRollup P m' .count y
    ∧ I.rollup .min y = specRollup P m' .min y
    ∧ I.rollup .max y = specRollup P m' .max y := by
  intro I m'
  have inv := ninv_foldl F us _ _ (ninv_build F m hm)
  have invmm := ninvmm_foldl F us _ _ (ninvmm_build F m hm)
  refine ⟨?_, ?_, ?_, ?_, (rollup_minmax_of_inv F invmm y hy).1,
    (rollup_minmax_of_inv F invmm y hy).2⟩
  · show I.lab.subsumes x y = _
    rw [inv.hlab]; exact C28_nested_subsumes_iff_reach F x y hx hy
  · show (I.lab.descendants y).Perm _
    rw [inv.hlab]; exact (C28_nested_descendants_eq F y hy).2.1
  · rw [C28_bruteSum_is_spec]; exact rollup_sum_of_inv F inv y hy
  · exact rollup_count_forest F inv y hy

/-- `build` puts every forest on the nested-set encoding, so the theorems above are about the
index the implementation actually builds for trees -/
theorem C28_build_selects_nested (P : Poset) (m : Measure) (ht : P.isTree = true) :
    ∃ I, buildAuto P m = .ok (.nested I) ∧ I = NestedIdx.build P m := by
  simp [buildAuto, buildForced, ht]

/-! ## stage 3 — segment tree (MIN / MAX) -/

/-- `SegmentTree::build` establishes the node recurrence and the leaf layout … -/
theorem C28_segtree_build (vals : List RV) (op : Op) (hid : op.identity = .null) :
    SegInv (Seg.build vals op) (fun j => vals.getD j .null) := (seg_build_inv vals op hid).1

/-- … the bottom-up `range(lo, hi)` returns the fold of exactly the leaves `lo ..= hi`
(`segtree_range_min`; any commutative monoid with identity `Null`, i.e. MIN and MAX) … -/
theorem C28_segtree_range {s : Seg} {leaf : Nat → RV} (M : CMon s.op.combine) (I : SegInv s leaf)
    (hid : s.op.identity = .null) (lo hi : Nat) (hlo : lo ≤ hi) (hhi : hi < s.n) :
    s.range lo hi = segS s.op.combine leaf lo (hi - lo + 1) := seg_range_eq M I hid lo hi hlo hhi

/-- … and `set(pos, v)` keeps the invariant for the leaf vector with `v` at `pos` -/
theorem C28_segtree_set {s : Seg} {leaf : Nat → RV} (I : SegInv s leaf) (pos : Nat) (v : RV)
    (hpos : pos < s.n) : SegInv (s.set pos v) (fun j => if j = pos then v else leaf j) :=
  (seg_set_inv I pos v hpos).1

/-- MIN and MAX roll-ups after **any** sequence of `update_measure` calls equal the
specification's fold over the set of descendants -/
theorem C28_rollup_minmax_after_updates {P : Poset} {h : Nat → Nat} (F : IsForest P h)
    (m : Measure) (hm : m.length = P.n) (us : List (Nat × Option Int)) (y : Nat) (hy : y < P.n) :
    (us.foldl NestedIdx.update (NestedIdx.build P m)).rollup .min y
        = specRollup P (us.foldl updMeasure m) .min y
    ∧ (us.foldl NestedIdx.update (NestedIdx.build P m)).rollup .max y
        = specRollup P (us.foldl updMeasure m) .max y :=
  rollup_minmax_of_inv F (ninvmm_foldl F us _ _ (ninvmm_build F m hm)) y hy

/-! ## stage 4 — chain encoding

The subsumption test and the LCA are proved unconditionally (`C28_chain_reach_iff`,
`C28_chain_lca`, via `C28_topo_order_wf` and `C28_chain_decomposition_wf`); the two `_partial`
theorems are the conditional forms they are assembled from.  Still differential only for this
encoding: `descendants` (suffix enumeration) and the per-chain suffix-fold roll-ups.

Statement of the conditional form: `∀ P, Acyclic P h → ∀ x y < n, (buildChain P).subsumes x y =
specSubsumes P x y`.  Proved here under two *executable* hypotheses about the two graph
algorithms the encoding rests on — `topoOkB P P.topoUp` (Kahn's sort lists every node once,
children before parents) and `chainsOkB P (buildChain P)` (every node sits where `chain_of`
says; every chain is a downward path).  Missing: the proofs that `topoLoop` and
`decomposeChains` always produce such outputs; the driver evaluates both checks on every
chain-encoded case it runs, so on the explored cases the hypotheses are discharged by
computation.  What *is* proved is the heart of the encoding: the `reach` tables folded
children-before-parents with `min`, and the binary-search test against them, are sound and
complete. -/
theorem C28_chain_reach_iff_partial {P : Poset} {h : Nat → Nat} (A : Acyclic P h)
    (ht : topoOkB P P.topoUp = true) (hc : chainsOkB P (buildChain P) = true)
    (x y : Nat) (hx : x < P.n) (hy : y < P.n) :
    (buildChain P).subsumes x y = specSubsumes P x y := chain_subsumes_iff_reach A ht hc x y hx hy

/-- chain LCA = minimal common upper bounds (same hypotheses) -/
theorem C28_chain_lca_partial {P : Poset} {h : Nat → Nat} (A : Acyclic P h)
    (ht : topoOkB P P.topoUp = true) (hc : chainsOkB P (buildChain P) = true)
    (x y : Nat) (hx : x < P.n) (hy : y < P.n) :
    lcaBy P.n (buildChain P).subsumes x y = specLca P x y :=
  lcaBy_eq_specLca P _ (fun a b ha hb => chain_subsumes_iff_reach A ht hc a b ha hb) x y hx hy

/-- **Kahn's sort is a topological order**: on every DAG the model's `topo_sort_up` lists every
node exactly once, only nodes, and every child before its parents (first hypothesis of
`C28_chain_reach_iff_partial`, now discharged for all inputs) -/
theorem C28_topo_order_wf {P : Poset} {h : Nat → Nat} (D : IsDag P h) :
    topoOkB P P.topoUp = true := topoUp_ok D

/-- **the greedy chain decomposition is well-formed**: on every DAG every node sits on the chain
and at the position `chain_of` records, and every chain is a downward path (second hypothesis,
discharged for all inputs) -/
theorem C28_chain_decomposition_wf {P : Poset} {h : Nat → Nat} (D : IsDag P h) :
    chainsOkB P (buildChain P) = true := chains_ok D

/-- **chain subsumption is reachability**, unconditionally on every DAG
(`chain_reach_sound_complete`) -/
theorem C28_chain_reach_iff {P : Poset} {h : Nat → Nat} (D : IsDag P h)
    (x y : Nat) (hx : x < P.n) (hy : y < P.n) :
    (buildChain P).subsumes x y = specSubsumes P x y :=
  chain_subsumes_iff_reach D.toAcyclic (topoUp_ok D) (chains_ok D) x y hx hy

/-- chain LCA = minimal common upper bounds, unconditionally on every DAG -/
theorem C28_chain_lca {P : Poset} {h : Nat → Nat} (D : IsDag P h)
    (x y : Nat) (hx : x < P.n) (hy : y < P.n) :
    lcaBy P.n (buildChain P).subsumes x y = specLca P x y :=
  lcaBy_eq_specLca P _
    (fun a b ha hb => chain_subsumes_iff_reach D.toAcyclic (topoUp_ok D) (chains_ok D) a b ha hb)
    x y hx hy

/-- the hypotheses hold on a concrete diamond (non-vacuity) -/
example : topoOkB ⟨4, [(0, 1), (2, 1), (3, 0), (3, 2)]⟩ (Poset.topoUp ⟨4, [(0, 1), (2, 1), (3, 0), (3, 2)]⟩) = true
    ∧ chainsOkB ⟨4, [(0, 1), (2, 1), (3, 0), (3, 2)]⟩ (buildChain ⟨4, [(0, 1), (2, 1), (3, 0), (3, 2)]⟩) = true := by
  decide

/-! ## stage 5 — near-tree encoding (spanning forest + exception edges)

`IsDag P h`: endpoints in range, distinct edges, a height function witnessing acyclicity; any
number of parents per node. -/

/-- the interval test on the spanning forest, or a chain of exception hops found by
`via_exception` with its threaded `seen` list, decides reachability: sound and complete on
every DAG, whatever the order of the exception list -/
theorem C28_neartree_subsumes_iff_reach {P : Poset} {h : Nat → Nat} (D : IsDag P h)
    (x y : Nat) (hx : x < P.n) (hy : y < P.n) :
    (buildNear P).subsumes x y = specSubsumes P x y := near_subsumes_iff_reach D x y hx hy

/-- LCA: filtering the nodes by a correct subsumption test yields exactly the minimal common
upper bounds of the specification (the DAG encodings' `lowest_common_ancestors`) -/
theorem C28_lca_of_correct_subsumes (P : Poset) (sub : Nat → Nat → Bool)
    (hs : ∀ a b, a < P.n → b < P.n → sub a b = specSubsumes P a b) (x y : Nat)
    (hx : x < P.n) (hy : y < P.n) : lcaBy P.n sub x y = specLca P x y :=
  lcaBy_eq_specLca P sub hs x y hx hy

/-- near-tree `descendants` (the frontier loop over forest subtrees and exception edges):
for every fuel the enumeration is strictly increasing — no duplicates — and lists only
descendants … -/
theorem C28_neartree_descendants_sound {P : Poset} {h : Nat → Nat} (D : IsDag P h) (y : Nat)
    (hy : y < P.n) :
    ((buildNear P).descendants y).Pairwise (· < ·)
    ∧ ∀ z ∈ (buildNear P).descendants y, specSubsumes P z y = true := by
  have := near_desc_sound D y hy
  exact ⟨this.1, fun z hz => (reach_iff_Reach D.toAcyclic z y hy).mpr (this.2 z hz)⟩

/-- … and with the model's fuel (shown sufficient: the loop always stops on an empty frontier)
it is **exactly** the specification's descendant list, on every DAG: membership ⇔
`specSubsumes`, no duplicates, ascending -/
theorem C28_neartree_descendants_eq {P : Poset} {h : Nat → Nat} (D : IsDag P h) (y : Nat)
    (hy : y < P.n) :
    (buildNear P).descendants y = specDesc P y
    ∧ (∀ x, x ∈ (buildNear P).descendants y ↔ (x < P.n ∧ specSubsumes P x y = true))
    ∧ ((buildNear P).descendants y).Nodup := by
  have e := near_desc_eq_spec D y hy
  refine ⟨e, ?_, ?_⟩
  · intro x; rw [e]; simp [specDesc, specSubsumes]
  · rw [e]; exact List.Pairwise.filter _ List.nodup_range

/-- near-tree roll-ups (SUM / COUNT / MIN / MAX through FoldSet) after **any** sequence of
`update_measure` calls equal the specification's fold over the descendant set, on every DAG -/
theorem C28_neartree_rollup_after_updates {P : Poset} {h : Nat → Nat} (D : IsDag P h)
    (m : Measure) (hm : m.length = P.n) (us : List (Nat × Option Int)) (op : Op) (y : Nat)
    (hy : y < P.n) :
    (us.foldl Index.update (.near { P := P, N := buildNear P, measure := m })).rollup op y
      = specRollup P (us.foldl updMeasure m) op y := by
  rw [near_fold_updates P us m hm]
  exact near_rollup_eq D _ op y hy

/-- near-tree LCA = minimal common upper bounds -/
theorem C28_neartree_lca {P : Poset} {h : Nat → Nat} (D : IsDag P h) (x y : Nat)
    (hx : x < P.n) (hy : y < P.n) :
    lcaBy P.n (buildNear P).subsumes x y = specLca P x y :=
  lcaBy_eq_specLca P _ (fun a b ha hb => near_subsumes_iff_reach D a b ha hb) x y hx hy

/-- nested-set LCA (walk up from `x` to the first ancestor whose interval contains `y`) is the
specification's set of minimal common upper bounds: one node, or none across different trees;
also after any sequence of measure updates (they do not touch the labels) -/
theorem C28_nested_lca {P : Poset} {h : Nat → Nat} (F : IsForest P h) (m : Measure)
    (hm : m.length = P.n) (us : List (Nat × Option Int)) (x y : Nat) (hx : x < P.n)
    (hy : y < P.n) :
    (us.foldl NestedIdx.update (NestedIdx.build P m)).lca x y = specLca P x y := by
  have inv := ninv_foldl F us _ _ (ninv_build F m hm)
  unfold NestedIdx.lca
  rw [inv.hP, inv.hlab]
  exact nestedLca_eq F x y hx hy (P.n + 1) x hx (by omega) (Reach.refl _)
    (fun c r => Or.inl r)

/-! ## the specification evaluated by frontier closure (what the driver runs on large posets)
is the specification -/

/-- `descFast` (sorted frontier closure over `children`) is `specDesc` -/
theorem C28_descFast_eq_specDesc {P : Poset} {h : Nat → Nat} (A : Acyclic P h) (y : Nat)
    (hy : y < P.n) : descFast P y = specDesc P y := descFast_eq_specDesc A y hy

/-- membership in `ancFast` (closure over `parents`) is `specSubsumes` -/
theorem C28_ancFast_contains {P : Poset} {h : Nat → Nat} (A : Acyclic P h) (x c : Nat)
    (hx : x < P.n) (hc : c < P.n) : (ancFast P x).contains c = specSubsumes P x c :=
  ancFast_contains A x c hx hc

theorem C28_specLcaFast_eq {P : Poset} {h : Nat → Nat} (A : Acyclic P h) (x y : Nat)
    (hx : x < P.n) (hy : y < P.n) : specLcaFast P x y = specLca P x y := specLcaFast_eq A x y hx hy

theorem C28_specRollupFast_eq {P : Poset} {h : Nat → Nat} (A : Acyclic P h) (m : Measure)
    (op : Op) (y : Nat) (hy : y < P.n) : specRollupFast P m op y = specRollup P m op y := by
  unfold specRollupFast specRollup
  rw [descFast_eq_specDesc A y hy]

/-! ### non-vacuity: a concrete forest (two roots, depth 3) satisfies `IsForest` -/

def exForest : Poset := { n := 6, edges := [(1, 0), (2, 0), (3, 1), (4, 3)] }
def exHeight : Nat → Nat := fun v => [3, 2, 0, 1, 0, 0].getD v 0

example : IsForest exForest exHeight where
  inRange := by decide
  hEdge := by decide
  hBound := by decide
  onePar := by
    intro i
    by_cases hi : i < 6
    · have : ∀ j, j < 6 → (exForest.parents j).length ≤ 1 := by decide
      exact this i hi
    · have hall : ∀ e ∈ exForest.edges, e.1 < 6 := by decide
      have : exForest.parents i = [] := by
        simp only [Poset.parents, List.map_eq_nil_iff, List.filter_eq_nil_iff]
        intro e he
        have := hall e he
        simp only [beq_iff_eq]; omega
      rw [this]; simp
  edgesNodup := by decide

example : (buildNested exForest).descendants 0 = [0, 1, 3, 4, 2] := by decide
example : (buildNested exForest).subsumes 4 1 = true ∧ (buildNested exForest).subsumes 2 1 = false := by decide

/-! ## the pinned tree violated the property (witnesses replayed by `corpus/C28`) -/

def wMulti : List MOp :=
  [.addEdge 1 0 0, .addEdge 2 0 1, .create { types := [0, 1], reverse := false }]
def qMulti : Query := { kind := .count, ty := 0, pinnedIsTarget := true, root := 0 }

/-- an index over `T0|T1` answered the rewrite of a `T0`-only expansion: 3 rows instead of 2 -/
theorem C28_counterexample_multi_type :
    answerWith true (mrunLegacy 3 wMulti) qMulti = (true, .val (.int 3))
    ∧ bruteAnswer (mrunLegacy 3 wMulti).g qMulti = .val (.int 2) := by decide

def wRev : List MOp :=
  [.addEdge 0 1 0, .addEdge 1 2 0, .create { types := [0], reverse := true }]
def qRev : Query := { kind := .count, ty := 0, pinnedIsTarget := true, root := 2 }

/-- the rewrite ignored `reverse`: `(d)-[:T0*0..]->(r)` got the poset descendants of `r` (1)
instead of the nodes that reach `r` (3) -/
theorem C28_counterexample_reversed :
    answerWith true (mrunLegacy 3 wRev) qRev = (true, .val (.int 1))
    ∧ bruteAnswer (mrunLegacy 3 wRev).g qRev = .val (.int 3) := by decide

def wRem : List MOp := [.addEdge 1 0 0, .setMeas 0 (some 1), .setMeas 1 (some 2),
  .create { types := [0], reverse := false }, .removeMeas 1]
def qRem : Query := { kind := .max, ty := 0, pinnedIsTarget := true, root := 0 }

/-- `REMOVE d.units` did not reach the index: max stayed 2, the expansion says 1 -/
theorem C28_counterexample_remove_measure :
    answerWith true (mrunLegacy 2 wRem) qRem = (true, .val (.int 2))
    ∧ bruteAnswer (mrunLegacy 2 wRem).g qRem = .val (.int 1) := by decide

/-! ### the same histories on the repaired model; non-vacuity of the staleness theorems -/

example : answer (mrun 3 wMulti) qMulti = (false, .val (.int 2)) := by decide
example : answer (mrun 3 wRev) { qRev with pinnedIsTarget := false, root := 0 }
    = (true, .val (.int 3)) := by decide
example : answer (mrun 2 wRem) qRem = (true, .val (.int 1)) := by decide
/-- a fresh index is used, a covering write turns it off, a rebuild turns it on again -/
example : (answer (mrun 2 (wRem ++ [.addEdge 0 1 1])) qRem).1 = true
    ∧ (answer (mrun 3 (wRem ++ [.addEdge 2 0 0, .setMeas 2 (some 7)])) qRem) = (false, .val (.int 7))
    ∧ (answer (mrun 3 (wRem ++ [.addEdge 2 0 0, .setMeas 2 (some 7), .rebuild])) qRem)
        = (true, .val (.int 7)) := by decide

end SgModel.Oeh
