import SgModel.Lemmas.IdxScanSound
/-!
# C02 — query results do not depend on indexes, storage tier, planner mode or process

Property theorems only (helpers in `Lemmas/IdxScan*.lean`).  The model is
`Model/IdxScan.lean`: the B-tree property index with the store's write operations, the index
scan with the residual filter, chunked filtering and a two-tier adjacency.

What is proved here is about the model, for **every** history of write operations, every
index, operator and probe value (no size bound):
* every reachable state satisfies the store invariant (`C02_index_inv_preserved`,
  `C02_inv_reachable`): ids unique, each index holds exactly the (value, node) pairs of the
  live nodes with its label and key — across type changes of the indexed key, id reuse,
  label changes and index creation at any point of the history;
* under that invariant an index scan followed by the residual predicate returns the same
  bag as filtering the label scan (`C02_index_scan_then_filter_sound`), for any conjunction
  with the index chosen the way the planner chooses it (`C02_plan_eq_spec`), and the rows
  are the specified bag (`C02_model_refines_spec`);
* filtering chunk by chunk is filtering (`C02_parallel_filter_eq_sequential`), in any
  completion order up to permutation (`C02_parallel_filter_perm`);
* compaction does not change the abstract adjacency (`C02_abs_compact`), and any history of
  relationship creates/deletes (ids reused freely) with compactions at any points leaves the
  relationships of the uncompacted store (`C02_tier_refines_flat`,
  `C02_compaction_placement_irrelevant`).
The graph-native planner has no model; planner mode, process and the engine as a whole are
tied to this model only differentially (harness `c02`).
`C02_counterexample_*` refute the same statements for the model of the pinned tree.
-/
namespace SgModel.IdxScan

/-- The store invariant is preserved by every write operation (create, set — including a
change of the value's type —, remove, delete, label add/remove, index create/drop, and
relationship operations). -/
theorem C02_index_inv_preserved (s : St) (h : Inv s) (op : Op) : Inv (step s op) := inv_step h op

/-- Every state reachable from the empty store satisfies the invariant. -/
theorem C02_inv_reachable (ops : List Op) : Inv (run ops) := inv_run ops

/-- Index scan + residual predicate = label scan + predicate, as bags: for every state
satisfying the invariant, every index of the store, every comparison operator and probe. -/
theorem C02_index_scan_then_filter_sound (s : St) (h : Inv s) (ix : Ix) (hix : ix ∈ s.ixs)
    (op : CmpOp) (v : Val) :
    ((indexScan ix.tree op v).filter (residual s [.cmp ix.key op v])).Perm
      ((labelScan s ix.label).filter (residual s [.cmp ix.key op v])) := by
  have hok := h.2 ix hix
  rw [List.perm_ext_iff_of_nodup
    (List.Nodup.sublist List.filter_sublist (indexScan_nodup hok op v))
    (List.Nodup.sublist List.filter_sublist (labelScan_nodup h ix.label))]
  intro id
  simp only [List.mem_filter]
  constructor
  · rintro ⟨hs, hr⟩
    obtain ⟨n, hn, hl⟩ := label_of_candidate hok hs
    exact ⟨(mem_labelScan h ix.label id).mpr ⟨n, hn, hl⟩, hr⟩
  · rintro ⟨hs, hr⟩
    obtain ⟨n, hn, hl⟩ := (mem_labelScan h ix.label id).mp hs
    refine ⟨?_, hr⟩
    simp only [residual, hn, List.all_cons, List.all_nil, Bool.and_true, evalPred] at hr
    exact candidate_of_match hok hn hl op v hr

/-- The index scan never yields a node twice (the probe ranges are disjoint and every node
is indexed under exactly its current value). -/
theorem C02_index_scan_nodup (s : St) (h : Inv s) (ix : Ix) (hix : ix ∈ s.ixs) (op : CmpOp) (v : Val) :
    (indexScan ix.tree op v).Nodup := indexScan_nodup (h.2 ix hix) op v

/-- The probe ranges contain every key the query comparison accepts (no side condition on
the kinds of the probe and the stored value). -/
theorem C02_probe_ranges_superset (op : CmpOp) (k v : Val) (h : cmpCy op k v = true) :
    ∃ r ∈ probeRanges op v, inRange r k = true := probe_superset op k v h

/-- The plan (index scan on the first indexed comparison if any, conjunction kept as a
filter; otherwise label scan + filter) returns the specified bag of nodes. -/
theorem C02_plan_eq_spec (s : St) (h : Inv s) (l : Nat) (ps : List Pred) :
    (planIds s l ps).Perm (specIds s l ps) := planIds_perm_specIds h l ps

/-- Results do not depend on which indexes exist: two stores with the same nodes and
relationships (any indexes, each satisfying the invariant) give the same bag of rows. -/
theorem C02_result_independent_of_indexes (s₁ s₂ : St) (h₁ : Inv s₁) (h₂ : Inv s₂)
    (hn : s₁.nodes = s₂.nodes) (he : s₁.edges = s₂.edges) (q : Query) :
    (planRows s₁ q).Perm (planRows s₂ q) := by
  have e1 : (planRows s₁ q).Perm (specRows s₁ q) := rowsOf_perm s₁ q (planIds_perm_specIds h₁ _ _)
  have e2 : (planRows s₂ q).Perm (specRows s₂ q) := rowsOf_perm s₂ q (planIds_perm_specIds h₂ _ _)
  have hna : nodeAt s₁ = nodeAt s₂ := by funext id; simp only [nodeAt, hn]
  have hr : residual s₁ = residual s₂ := by funext ps id; simp only [residual, hna]
  have : specRows s₁ q = specRows s₂ q := by
    simp only [specRows, rowsOf, specIds, labelScan, hna, hr, hn, he]
  exact e1.trans (this ▸ e2.symm)

/-- The model satisfies the executable specification after every history, for every query
of the modelled shapes: this is what the harness evaluates on the engine's rows. -/
theorem C02_model_refines_spec (ops : List Op) (q : Query) :
    specObs (run ops) q (planRows (run ops) q) = true := by
  simp only [specObs, List.isPerm_iff]
  exact rowsOf_perm _ q (planIds_perm_specIds (inv_run ops) _ _)

/-- Filtering chunk by chunk and concatenating is filtering the whole input. -/
theorem C02_parallel_filter_eq_sequential {α : Type} (p : α → Bool) (chunks : List (List α)) :
    parFilter p chunks = chunks.flatten.filter p := by
  simp only [parFilter, List.filter_flatten, List.flatMap]

/-- … and if the chunks complete in any other order the result is the same bag. -/
theorem C02_parallel_filter_perm {α : Type} (p : α → Bool) (chunks chunks' : List (List α))
    (h : chunks'.Perm chunks) : (parFilter p chunks').Perm (chunks.flatten.filter p) := by
  rw [← C02_parallel_filter_eq_sequential]
  exact h.flatMap_right _

/-- Compaction moves the write buffer into a frozen segment and leaves the abstract
adjacency unchanged. -/
theorem C02_abs_compact (a : Adj) : a.compact.abs = a.abs := by
  unfold Adj.compact
  split
  · rfl
  · simp [Adj.abs, List.flatten_append]

/-- … hence every neighbourhood read is the same before and after compaction. -/
theorem C02_neighbors_compact (a : Adj) (src ty : Nat) :
    a.compact.neighbors src ty = a.neighbors src ty := by
  simp only [Adj.neighbors, C02_abs_compact a]

/-- One write on the two-tier adjacency is the same write on the flat list of relationships. -/
theorem C02_tier_step (a : Adj) (op : AOp) : (a.step op).abs = flatStep a.abs op := by
  cases op with
  | create e => simp [Adj.step, Adj.abs, flatStep]
  | delete id =>
    simp only [Adj.step, Adj.abs, flatStep, List.filter_append, List.filter_flatten]
  | compact => exact C02_abs_compact a

/-- Tier invariance for whole histories: creates, deletes (of frozen and of buffered
relationships, in any order, with any reuse of ids) and compactions at any points leave
exactly the relationships that the same writes leave without any compaction. -/
theorem C02_tier_refines_flat (ops : List AOp) (a : Adj) :
    (ops.foldl Adj.step a).abs = ops.foldl flatStep a.abs := by
  induction ops generalizing a with
  | nil => rfl
  | cons op rest ih => simp only [List.foldl_cons, ih, C02_tier_step]

/-- Where the compactions happen does not matter: two histories that differ only in their
`compact` steps end with the same abstract adjacency. -/
theorem C02_compaction_placement_irrelevant (ops ops' : List AOp)
    (h : ops.filter (fun o => match o with | .compact => false | _ => true)
       = ops'.filter (fun o => match o with | .compact => false | _ => true)) :
    (ops.foldl Adj.step {}).abs = (ops'.foldl Adj.step {}).abs := by
  have key : ∀ (l : List AOp) (es : List Edge),
      l.foldl flatStep es = (l.filter (fun o => match o with | .compact => false | _ => true)).foldl flatStep es := by
    intro l
    induction l with
    | nil => intro es; rfl
    | cons o rest ih =>
      intro es
      cases o <;> simp [List.filter, flatStep, ih]
  rw [C02_tier_refines_flat, C02_tier_refines_flat, key ops, key ops', h]

/-! ### the pinned tree -/

def kx : Nat := 1
def lP : Nat := 7

/-- three `:P` nodes with x = 1, 1.0, 's' and an index on `:P(x)` -/
def witnessOps : List Op :=
  [.createIndex lP kx,
   .create 1 [lP], .setProp 1 hKey (.int 1), .setProp 1 kx (.int 1),
   .create 2 [lP], .setProp 2 hKey (.int 2), .setProp 2 kx (.flt 2),
   .create 3 [lP], .setProp 3 hKey (.int 3), .setProp 3 kx (.str [115])]

def qEq1 : Query := { label := lP, preds := [.cmp kx .eq (.int 1)], ret := .prop hKey }
def qGt0 : Query := { label := lP, preds := [.cmp kx .gt (.int 0)], ret := .prop hKey }

/-- #49: with the index, `n.x = 1` misses the node whose x is `1.0`. -/
theorem C02_counterexample_eq_misses_float_twin :
    planRowsLegacy (runLegacy witnessOps) qEq1 = [[.int 1]]
    ∧ specRows (runLegacy witnessOps) qEq1 = [[.int 2], [.int 1]] := by decide

/-- #49b: where the planner dropped the predicate, `n.x > 0` over the index also returns the
string-valued node (the key order ranks strings above numbers). -/
theorem C02_counterexample_range_leaks_other_kinds :
    planRowsLegacy (runLegacy witnessOps) qGt0 = [[.int 1], [.int 2], [.int 3]]
    ∧ specRows (runLegacy witnessOps) qGt0 = [[.int 2], [.int 1]] := by decide

/-- `n.x >= 1.0` misses the stored integer `1` (it sorts directly below its float twin). -/
theorem C02_counterexample_ge_float_misses_int :
    (runLegacy witnessOps).ixs.map (fun ix => indexScanLegacy ix.tree .ge (.flt 2)) = [[2, 3]]
    ∧ (specIds (runLegacy witnessOps) lP [.cmp kx .ge (.flt 2)]) = [2, 1] := by decide

/-- `REMOVE n.x` then `SET n.x = 9` leaves the node under two keys: a range scan returns it twice. -/
theorem C02_counterexample_remove_prop_stale :
    planRowsLegacy (runLegacy (witnessOps ++ [.removeProp 1 kx, .setProp 1 kx (.int 9)])) qGt0
      = [[.int 1], [.int 2], [.int 1], [.int 3]] := by decide

/-- `REMOVE n:P` leaves the node in the index of `:P(x)`: it still matches `(n:P)`. -/
theorem C02_counterexample_remove_label_stale :
    planRowsLegacy (runLegacy (witnessOps ++ [.removeLabel 1 lP])) qEq1 = [[.int 1]]
    ∧ specRows (runLegacy (witnessOps ++ [.removeLabel 1 lP])) qEq1 = [[.int 2]] := by decide

/-- `n.x = true` misses the string 'TRUE' that the filter accepts. -/
theorem C02_counterexample_bool_string :
    cmpCy .eq (.str [84, 82, 85, 69]) (.bool true) = true
    ∧ (probeRangesLegacy .eq (.bool true)).all (fun r => !inRange r (.str [84, 82, 85, 69])) = true := by
  decide

/-- The repaired model on the same witnesses. -/
example : planRows (run witnessOps) qEq1 = [[.int 1], [.int 2]] := by decide
example : planRows (run witnessOps) qGt0 = [[.int 1], [.int 2]] := by decide
example : planRows (run (witnessOps ++ [.removeProp 1 kx, .setProp 1 kx (.int 9)])) qGt0
    = [[.int 2], [.int 1]] := by decide

/-- The two zeros and the integer 0 are three distinct index keys (in this order) and one
query value; NaN is a key equal to nothing, itself included.  The invariant and soundness
theorems above cover histories that rewrite a key with such a value. -/
theorem C02_equal_values_distinct_keys :
    idxLt (.int 0) .nzero = true ∧ idxLt .nzero (.flt 0) = true
    ∧ cmpCy .eq .nzero (.flt 0) = true ∧ cmpCy .eq (.flt 0) .nzero = true ∧ cmpCy .eq .nzero (.int 0) = true
    ∧ cmpCy .eq .nan .nan = false ∧ cmpCy .ge .nan (.int 0) = false := by decide

/-- `0.0 → -0.0 → 7` on an indexed key, then delete and reuse of the id under another label:
the repaired model files the node under exactly its current value at every step. -/
example :
    let ops : List Op := [.createIndex lP kx, .create 1 [lP], .setProp 1 hKey (.int 1),
      .setProp 1 kx (.flt 0), .setProp 1 kx .nzero, .setProp 1 kx .nzero, .setProp 1 kx (.int 7)]
    planRows (run ops) { label := lP, preds := [.cmp kx .ge (.int 0)], ret := .prop hKey } = [[.int 1]]
    ∧ planRows (run (ops ++ [.delete 1, .create 1 [3], .setProp 1 kx (.flt 0)]))
        { label := lP, preds := [.cmp kx .eq (.int 0)], ret := .count } = [[.int 0]]
    ∧ (run (ops.take 5)).ixs.map (fun ix => ix.tree) = [[(.nzero, [1])]] := by
  decide

/-- The invariant is satisfied by a non-trivial state (three nodes of three value kinds, one
index with three keys). -/
example : Inv (run witnessOps) ∧ ((run witnessOps).ixs.map (fun ix => ix.tree.length)) = [3] :=
  ⟨inv_run _, by decide⟩

/-- Parallel relationships, a compaction, deletion of one sibling and a create reusing its id:
the two-tier store ends with the relationships of the uncompacted one. -/
example :
    let ops : List AOp := [.create ⟨1, 1, 2, 1⟩, .create ⟨2, 1, 2, 2⟩, .compact, .delete 2, .create ⟨2, 3, 4, 1⟩]
    (ops.foldl Adj.step {}).abs = [⟨1, 1, 2, 1⟩, ⟨2, 3, 4, 1⟩] ∧ (ops.foldl Adj.step {}).segs.length = 1 := by
  decide

end SgModel.IdxScan
