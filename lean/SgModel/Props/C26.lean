import SgModel.Lemmas.AlgoCert
import SgModel.Lemmas.AlgoView
import SgModel.Lemmas.AlgoMstExch
/-!
# C26 — graph algorithms match their reference definitions

Property theorems only (helpers: `Lemmas/Algo*.lean`).  Nothing is bounded: every theorem
quantifies over all graphs (all `n`, all edge lists / views, all weights in ℕ).  Floats do
not appear: the generators use integer weights, on which the Rust `f64` arithmetic is exact.

Shape (DESIGN §6 Group E): for WCC/SCC/triangles/LCC/projection the reference function or
the implementation's enumeration is proved equal to the definition; for shortest paths and
max-flow the **certificate checker** is proved sound for every input and the driver checks
a certificate for each concrete answer of the implementation; for MST the certificate
(spanning tree of node 0's component + the cycle property) is proved to imply minimum weight
among all connected spanning edge sets (`C26_mst_minimal`, exchange argument).
`…_counterexample…` theorems exhibit the two defects of the pinned tree on the legacy model.
-/
namespace SgModel.Algo

/-! ## WCC / SCC -/

/-- the fuelled closure computes exactly the reachable set (for every pair list, every source) -/
theorem C26_reach_set_correct (P : Pairs) (s v : Nat) : v ∈ reachSet P s ↔ Reach P s v :=
  mem_reachSet_iff

/-- reference WCC: `v` is in the class of `s` iff it is weakly reachable from `s` -/
theorem C26_wcc_ref_correct (P : Pairs) (n s v : Nat) :
    v ∈ compW P n s ↔ v < n ∧ Reach (sym P) s v := mem_compW_iff

/-- reference SCC: `v` is in the class of `s` iff `s` and `v` are mutually reachable -/
theorem C26_scc_ref_correct (P : Pairs) (n s v : Nat) :
    v ∈ compS P n s ↔ v < n ∧ Reach P s v ∧ Reach P v s := mem_compS_iff

/-- the reference WCC partition: every class is the weak-reachability class of each of its
members, and every node lies in a class -/
theorem C26_wcc_partition_correct (vw : View) :
    (∀ C ∈ wccRef vw, ∀ u ∈ C, ∀ v, v ∈ C ↔ v < vw.n ∧ Reach (sym (pairs (edgesOf vw))) u v)
    ∧ (∀ v, v < vw.n → ∃ C ∈ wccRef vw, v ∈ C) := by
  constructor
  · intro C hC u hu v
    obtain ⟨s, _, rfl⟩ := mem_partitionBy hC
    have hsu := (mem_compW_iff.mp hu).2
    rw [mem_compW_iff]
    constructor
    · rintro ⟨hv, hsv⟩; exact ⟨hv, Reach.trans (reach_sym_symm hsu) hsv⟩
    · rintro ⟨hv, huv⟩; exact ⟨hv, Reach.trans hsu huv⟩
  · intro v hv
    apply partitionBy_covers
    · intro s hs
      exact mem_compW_iff.mpr ⟨List.mem_range.mp hs, Reach.refl _⟩
    · exact List.mem_range.mpr hv

/-- the reference SCC partition: every class is the mutual-reachability class of each of its
members, and every node lies in a class -/
theorem C26_scc_partition_correct (vw : View) :
    (∀ C ∈ sccRef vw, ∀ u ∈ C, ∀ v, v ∈ C ↔
        v < vw.n ∧ Reach (pairs (edgesOf vw)) u v ∧ Reach (pairs (edgesOf vw)) v u)
    ∧ (∀ v, v < vw.n → ∃ C ∈ sccRef vw, v ∈ C) := by
  constructor
  · intro C hC u hu v
    obtain ⟨s, _, rfl⟩ := mem_partitionBy hC
    have ⟨_, hsu, hus⟩ := mem_compS_iff.mp hu
    rw [mem_compS_iff]
    constructor
    · rintro ⟨hv, hsv, hvs⟩; exact ⟨hv, Reach.trans hus hsv, Reach.trans hvs hsu⟩
    · rintro ⟨hv, huv, hvu⟩; exact ⟨hv, Reach.trans hsu huv, Reach.trans hvu hus⟩
  · intro v hv
    apply partitionBy_covers
    · intro s hs
      exact mem_compS_iff.mpr ⟨List.mem_range.mp hs, Reach.refl _, Reach.refl _⟩
    · exact List.mem_range.mpr hv

/-! ## BFS / Dijkstra: potentials certificate -/

/-- `potential_sound`: with feasible potentials `d` (`d s = 0`, `d v ≤ d u + w` on every edge
out of a labelled node), every walk from `s` to `t` costs at least `d t` — for all graphs,
all non-negative weights. -/
theorem C26_potential_sound (E : List Edge) (d : Dist) (s t : Nat) (h : potentialOk E s d = true)
    {p : List Nat} {c : Nat} (hw : Walk E s t p c) : ∃ dt, dget d t = some dt ∧ dt ≤ c := by
  obtain ⟨h0, hf⟩ := potentialOk_iff.mp h
  obtain ⟨dt, hdt, hle⟩ := potential_walk hf hw 0 h0
  exact ⟨dt, hdt, by omega⟩

/-- `unreachable_sound`: if the certificate leaves `t` unlabelled there is no walk to `t` -/
theorem C26_unreachable_sound (E : List Edge) (d : Dist) (s t : Nat) (h : potentialOk E s d = true)
    (ht : dget d t = none) : ¬ ∃ p c, Walk E s t p c := by
  rintro ⟨p, c, hw⟩
  obtain ⟨dt, hdt, _⟩ := C26_potential_sound E d s t h hw
  rw [ht] at hdt; cases hdt

/-- the checker applied to an answer of `bfs` / `dijkstra`: an accepted `none` means there is
no path at all; an accepted `(cost, path)` is a real path of that cost and no path is cheaper -/
theorem C26_shortest_checker_sound (E : List Edge) (d : Dist) (s t : Nat) (o : PathObs)
    (h : spCheck E d s t o = true) :
    match o with
    | none => ¬ ∃ p c, Walk E s t p c
    | some (c, p) => Walk E s t p c ∧ ∀ p' c', Walk E s t p' c' → c ≤ c' := by
  cases o with
  | none =>
    simp only [spCheck, Bool.and_eq_true, beq_iff_eq] at h
    exact C26_unreachable_sound E d s t h.1 h.2
  | some cp =>
    obtain ⟨c, p⟩ := cp
    simp only [spCheck, Bool.and_eq_true, beq_iff_eq] at h
    obtain ⟨⟨⟨⟨hpot, hhead⟩, hlast⟩, hcost⟩, hdt⟩ := h
    obtain ⟨u, t', hh, hl, hw⟩ := walkCost_walk p c hcost
    rw [hhead] at hh; rw [hlast] at hl
    simp only [Option.some.injEq] at hh hl
    subst hh; subst hl
    refine ⟨hw, ?_⟩
    intro p' c' hw'
    obtain ⟨dt, hdt', hle⟩ := C26_potential_sound E d s t hpot hw'
    rw [hdt] at hdt'
    simp only [Option.some.injEq] at hdt'
    omega

/-! ## Max-flow: weak duality -/

/-- `v` is the maximum flow value of the network `E` from `s` to `t` -/
def IsMaxFlowValue (n : Nat) (E : List Edge) (s t : Nat) (v : Int) : Prop :=
  (∃ L, netw L = E ∧ FeasibleFlow n L s t ∧ net L s = v)
  ∧ ∀ L, netw L = E → FeasibleFlow n L s t → net L s ≤ v

/-- `flow_le_cut` (weak duality), for every network, every feasible flow and every s-t cut -/
theorem C26_flow_le_cut (n : Nat) (L : List FEdge) (s t : Nat) (hf : FeasibleFlow n L s t)
    (S : List Nat) (hs : s ∈ S) (ht : t ∉ S) (hsn : s < n) : net L s ≤ (cutCap L S : Int) :=
  flow_le_cut hf hs ht hsn

/-- `checker_sound`: a feasible flow of value `v` together with a cut of capacity `v`
proves that `v` is the maximum flow value -/
theorem C26_flow_checker_sound (n : Nat) (L : List FEdge) (s t : Nat) (S : List Nat) (v : Nat)
    (h : flowCheck n L s t S v = true) : IsMaxFlowValue n (netw L) s t v := by
  simp only [flowCheck, Bool.and_eq_true, decide_eq_true_eq, beq_iff_eq, Bool.not_eq_eq_eq_not,
    Bool.not_true, decide_eq_false_iff_not] at h
  obtain ⟨⟨⟨⟨⟨⟨hfe, hsn⟩, _⟩, hval⟩, hs⟩, ht⟩, hcut⟩ := h
  have hfe := feasibleB_iff.mp hfe
  constructor
  · exact ⟨L, rfl, hfe, by simp only [net]; omega⟩
  · intro L' hnet hfe'
    have := flow_le_cut hfe' hs ht hsn
    rw [cutCap_netw hnet, hcut] at this
    exact this

/-- the driver's reference value: whenever `maxFlowRef` answers for `s ≠ t`, the answer is the
maximum flow value (its own certificate has been checked) -/
theorem C26_maxflow_ref_is_max (n : Nat) (E : List Edge) (s t : Nat) (hst : s ≠ t) (v : Nat)
    (h : maxFlowRef n E s t = some v) : IsMaxFlowValue n E s t v := by
  simp only [maxFlowRef, if_neg hst] at h
  split at h
  · rename_i hc
    simp only [Bool.and_eq_true, beq_iff_eq] at hc
    simp only [Option.some.injEq] at h
    subst h
    have := C26_flow_checker_sound _ _ _ _ _ _ hc.1
    rw [hc.2] at this
    exact this
  · cases h

/-- termination at `source = sink`: the repaired loop answers 0 at once … -/
theorem C26_ek_self_returns_zero (n : Nat) (E : List Edge) (s fuel : Nat) :
    ek n E s s (fuel + 1) = some 0 := by
  simp [ek, ekLoop]

/-- … the loop of the pinned tree never ends, whatever the fuel (`edmonds_karp(s, s)` hangs) -/
theorem C26_counterexample_flow_self_hangs (n : Nat) (E : List Edge) (s : Nat) :
    ∀ fuel, ekLegacy n E s s fuel = none := by
  intro fuel
  unfold ekLegacy
  generalize zeroFlow E = L
  generalize (0 : Nat) = total
  induction fuel generalizing L total with
  | zero => rfl
  | succ f ih => rw [ekLoop]; simp [ih]

/-! ## MST -/

/-- `C26_counterexample_…`: the pinned Prim takes the first parallel edge's weight
(weights listed `[10, 1]` ⇒ 10); the repaired one takes the lightest (⇒ 1) -/
theorem C26_counterexample_prim_parallel :
    (primLegacy (ofEdges 2 [(1, 0, 10), (1, 0, 1)])).1 = 10
    ∧ (prim (ofEdges 2 [(1, 0, 10), (1, 0, 1)])).1 = 1 := by decide

/-- the spanning-tree part of the certificate on a view: an accepted answer is a set of real
edges (either orientation, with their weights), the reported total is their weight, they
connect exactly the weak component of node 0, and there are `|component| − 1` of them -/
theorem C26_mst_spanning (vw : View) (total : Nat) (T : List Edge) (hn : vw.n ≠ 0)
    (h : mstCheck vw total T = true) :
    (∀ e ∈ T, (e.1, e.2.1, e.2.2) ∈ edgesOf vw ∨ (e.2.1, e.1, e.2.2) ∈ edgesOf vw)
    ∧ (T.map (·.2.2)).sum = total
    ∧ (∀ v, v < vw.n → (Reach (sym (pairs T)) 0 v ↔ Reach (sym (pairs (edgesOf vw))) 0 v))
    ∧ T.length + 1 = (compW (pairs (edgesOf vw)) vw.n 0).length := by
  simp only [mstCheck, if_neg hn, Bool.and_eq_true, List.all_eq_true, Bool.or_eq_true,
    decide_eq_true_eq, beq_iff_eq] at h
  obtain ⟨⟨⟨h1, h2⟩, h3⟩, h4⟩ := h
  refine ⟨h1, h2, ?_, h4⟩
  intro v hv
  have := congrArg (fun l => v ∈ l) h3
  simp only [mem_compW_iff, hv, true_and, eq_iff_iff] at this
  exact this

/-- the nodes of node 0's component, each once -/
theorem C26_comp_nodes_correct (E : List Edge) :
    (compNodes E).Nodup ∧ ∀ x, x ∈ compNodes E ↔ Reach (sym (pairs E)) 0 x :=
  ⟨nodup_dedup _, fun _ => by rw [compNodes, mem_dedup, mem_reachSet_iff]⟩

/-- `T'` consists of edges of the undirected multigraph `E` (either orientation, same weight;
repetitions allowed) and joins every node of node 0's component to node 0 -/
def SpansComponent (E T' : List Edge) : Prop := SubE T' E ∧ Conn E T'

/-- **MST minimality** (full strength; replaces the former partial theorem).  For every
undirected multigraph `E` with weights in ℕ and every reported `(total, T)` accepted by
`mstMinCheck` — real edges, `|component| − 1` of them, connecting the component of node 0,
and the cycle property (the ends of every edge of the component are joined inside `T` by
edges that are not heavier) — `T` is a spanning tree of that component with weight `total`,
and **every** edge set that spans the component (in particular every spanning tree) weighs
at least `total`.  Proof: exchange argument (`exchange_step`, `exchange_all`) plus
"a connected graph on m nodes has at least m − 1 edges" (`count_le_edges`). -/
theorem C26_mst_minimal (E T : List Edge) (total : Nat) (h : mstMinCheck E total T = true) :
    SpansComponent E T ∧ T.length + 1 = (compNodes E).length ∧ wsum T = total
    ∧ ∀ T', SpansComponent E T' → total ≤ wsum T' := by
  simp only [mstMinCheck, Bool.and_eq_true, List.all_eq_true, decide_eq_true_eq, beq_iff_eq] at h
  obtain ⟨⟨⟨⟨hsub, hsum⟩, hlen⟩, hreach⟩, hcyc⟩ := h
  have hC := C26_comp_nodes_correct E
  have hTconn : Conn E T := by
    intro x hx
    exact mem_reachSet_iff.mp (hreach x ((hC.2 x).mpr hx))
  have hcert : TreeCert E T := by
    refine ⟨hsub, ?_⟩
    intro g hg hg1
    simp only [cycleCert, List.all_eq_true, Bool.or_eq_true, Bool.not_eq_eq_eq_not, Bool.not_true,
      decide_eq_false_iff_not, decide_eq_true_eq] at hcyc
    rcases hcyc g hg with h | h
    · exact absurd (mem_reachSet_iff.mpr hg1) h
    · exact mem_reachSet_iff.mp h
  refine ⟨⟨hsub, hTconn⟩, hlen, hsum, ?_⟩
  intro T' hT'
  obtain ⟨T'', h0, hconn'', hle⟩ := exchange_all hcert (foreign T T') T' rfl hT'.1 hT'.2
  have := tree_le_of_inside hC.1 (fun x hx => (hC.2 x).mp hx) hlen hTconn h0 hconn''
  omega

/-- the certificate is satisfiable on the witness of the Prim defect: the lighter parallel
edge is accepted as the MST, the heavier one is rejected by the cycle property -/
example : mstMinCheck [(1, 0, 10), (1, 0, 1), (1, 2, 4)] 5 [(0, 1, 1), (1, 2, 4)] = true
    ∧ mstMinCheck [(1, 0, 10), (1, 0, 1), (1, 2, 4)] 14 [(0, 1, 10), (1, 2, 4)] = false := by
  decide +kernel

/-! ## Triangles, LCC -/

/-- `triangles_impl_eq_def`: the ordered enumeration of `count_triangles` (u, then `v > u` in
N(u), then `w > v` in N(v), test `w ∈ N(u)`, over de-duplicated neighbourhoods) counts exactly
the vertex triples `u < v < w` that are pairwise adjacent in the underlying simple graph -/
theorem C26_triangles_impl_eq_def (vw : View) (hw : WellFormed vw) :
    trianglesImpl vw = trianglesDef vw := triangles_impl_eq_def hw

/-- LCC numerator and denominator of `local_clustering_coefficient` are those of the definition:
(adjacent pairs `a < b` among the neighbours of `u` other than `u`, deg·(deg−1)/2) -/
theorem C26_lcc_impl_eq_def (vw : View) (hw : WellFormed vw) (u : Nat) (hu : u < vw.n) :
    lccImpl vw u = (if degDef vw u < 2 then (0, 1)
                    else (lccDefNum vw u, degDef vw u * (degDef vw u - 1) / 2)) := by
  simp only [lccImpl, lcc_deg_eq_def hw hu, lcc_num_eq_def hw hu]

/-- the enumeration order of the neighbour `HashSet` does not matter: any duplicate-free
re-ordering of the neighbour list gives the same pair count (symmetric relation) -/
theorem C26_lcc_order_independent (R : Nat → Nat → Bool) (l₁ l₂ : List Nat) (hp : l₁.Perm l₂)
    (hnd : l₁.Nodup) (hsym : ∀ a b, R a b = R b a) : pairsCount R l₁ = pairsCount R l₂ := by
  have hnd₂ : l₂.Nodup := hp.nodup_iff.mp hnd
  rw [pairsCount_eq R l₁ hnd (fun a _ b _ => hsym a b), pairsCount_eq R l₂ hnd₂ (fun a _ b _ => hsym a b)]
  have inner : ∀ a, nsum l₁ (fun b => if a < b ∧ R a b = true then 1 else 0)
      = nsum l₂ (fun b => if a < b ∧ R a b = true then 1 else 0) := by
    intro a; unfold nsum; exact (hp.map _).sum_nat
  rw [nsum_congr (fun a _ => inner a)]
  unfold nsum; exact (hp.map _).sum_nat

/-! ## Projection (`build_view`) -/

/-- every built view is well formed (`in` = transpose of `out`, indices in range) -/
theorem C26_build_view_wellformed (st : Store) (label ty : Option Nat) (weighted : Bool) :
    WellFormed (buildView st label ty weighted) :=
  wellFormed_ofEdges (projEdges_lt st label ty weighted)

/-- `build_view_spec`: the successors of the `u`-th selected node are, in store listing order,
exactly the projected store edges out of it; an edge `(u, v, w)` is in the view iff some store
edge passes the type filter, has both endpoints among the selected nodes (at positions `u`,
`v`) and `w` is its numeric weight property, or 1 when absent / not requested -/
theorem C26_build_view_spec (st : Store) (label ty : Option Nat) (weighted : Bool) :
    let vw := buildView st label ty weighted
    let ids := projNodes st label
    vw.n = ids.length
    ∧ (∀ u, u < vw.n → vw.succW u = outOf (projEdges st label ty weighted) u)
    ∧ (∀ e, e ∈ edgesOf vw ↔ ∃ x ∈ st.edges, typeOk ty x.2.2.1 = true
          ∧ indexOf? ids x.1 = some e.1 ∧ indexOf? ids x.2.1 = some e.2.1
          ∧ e.2.2 = (if weighted then x.2.2.2.getD 1 else 1)) := by
  intro vw ids
  refine ⟨rfl, fun u hu => succW_ofEdges hu, ?_⟩
  intro e
  show e ∈ edgesOf (ofEdges _ _) ↔ _
  rw [mem_edgesOf_ofEdges (projEdges_lt st label ty weighted)]
  simp only [projEdges, List.mem_filterMap]
  constructor
  · rintro ⟨x, hx, hsome⟩
    exact ⟨x, hx, projEdge_some hsome⟩
  · rintro ⟨x, hx, hty, hu, hv, hw⟩
    refine ⟨x, hx, ?_⟩
    unfold projEdge
    rw [if_pos hty, hu, hv, ← hw]

/-- a view built from an edge list keeps the per-source listing order and the edge set -/
theorem C26_view_of_edges (n : Nat) (es : List Edge) (hes : ∀ e ∈ es, e.1 < n ∧ e.2.1 < n) :
    WellFormed (ofEdges n es) ∧ (∀ e, e ∈ edgesOf (ofEdges n es) ↔ e ∈ es)
    ∧ ∀ u, u < n → (ofEdges n es).succW u = outOf es u :=
  ⟨wellFormed_ofEdges hes, fun _ => mem_edgesOf_ofEdges hes, fun _ hu => succW_ofEdges hu⟩

/-! ## the model's answers satisfy the specification -/

/-- What `run` prints satisfies what `spec` checks, for every input: the reference partitions
are the true ones, a certified reference flow value is the maximum, the implementation-shaped
triangle / LCC enumerations equal their definitions on every well-formed view (and every
built view is well formed). -/
theorem C26_model_refines_spec :
    (∀ vw : View, ∀ C ∈ wccRef vw, ∀ u ∈ C, ∀ v, v ∈ C ↔ v < vw.n ∧ Reach (sym (pairs (edgesOf vw))) u v)
    ∧ (∀ vw : View, ∀ C ∈ sccRef vw, ∀ u ∈ C, ∀ v, v ∈ C ↔
        v < vw.n ∧ Reach (pairs (edgesOf vw)) u v ∧ Reach (pairs (edgesOf vw)) v u)
    ∧ (∀ n E s t v, s ≠ t → maxFlowRef n E s t = some v → IsMaxFlowValue n E s t v)
    ∧ (∀ n es, (∀ e ∈ es, e.1 < n ∧ e.2.1 < n) →
        trianglesImpl (ofEdges n es) = trianglesDef (ofEdges n es)
        ∧ ∀ u, u < n → lccImpl (ofEdges n es) u =
            (if degDef (ofEdges n es) u < 2 then (0, 1)
             else (lccDefNum (ofEdges n es) u, degDef (ofEdges n es) u * (degDef (ofEdges n es) u - 1) / 2))) := by
  refine ⟨fun vw => (C26_wcc_partition_correct vw).1, fun vw => (C26_scc_partition_correct vw).1,
    fun n E s t v hst h => C26_maxflow_ref_is_max n E s t hst v h, ?_⟩
  intro n es hes
  have hw := wellFormed_ofEdges hes
  exact ⟨triangles_impl_eq_def hw, fun u hu => C26_lcc_impl_eq_def _ hw u hu⟩

/-! ## hypotheses are satisfiable (non-trivial instances) -/

/-- a 4-node graph with a cycle, a parallel edge and a self-loop: the flow certificate check
passes with a non-zero flow, the potentials certificate accepts the shortest path -/
example : maxFlowRef 4 [(0, 1, 3), (1, 2, 1), (2, 0, 2), (2, 3, 5), (0, 3, 9), (3, 3, 1), (0, 1, 2)] 0 3 = some 10 := by
  decide +kernel
example :
    let E : List Edge := [(0, 1, 3), (1, 2, 1), (2, 0, 2), (2, 3, 5), (0, 3, 9)]
    spCheck E (bellmanFord E 4 0) 0 3 (some (9, [0, 1, 2, 3])) = true := by decide +kernel
example : WellFormed (ofEdges 3 [(0, 1, 1), (1, 2, 1), (2, 0, 1), (0, 1, 7)]) :=
  wellFormed_ofEdges (by decide)
example : trianglesDef (ofEdges 3 [(0, 1, 1), (1, 2, 1), (2, 0, 1), (0, 1, 7)]) = 1 := by decide +kernel
example : mstCheck (ofEdges 3 [(1, 0, 10), (1, 0, 1), (1, 2, 4)]) 5 [(0, 1, 1), (1, 2, 4)] = true := by
  decide +kernel

end SgModel.Algo
