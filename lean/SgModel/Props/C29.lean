import SgModel.Lemmas.VecIdxSearch
/-!
# C29 — vector search returns live, current, correctly ranked nodes

Property theorems only (helpers are in `Lemmas/VecIdx*.lean`).  Every theorem quantifies over
all histories `ops` of statements (CREATE VECTOR INDEX, CREATE, SET / REMOVE of the vector
property, SET / REMOVE of the label, DELETE), all queries `q`, all `k`, and — above the
exact-search bound — all candidate lists `raw` the HNSW graph may come back with.  Distances
are exact (integer components; cosine through the signed squared similarity, L2 through the
squared distance).  Nothing is bounded; exact top-k is claimed for indexes of at most
`EXACT_MAX = 128` entries, as the property states.

`…_counterexample…` theorems refute the statements for the model of the pinned tree
(`stepLegacy`, `searchLegacy`); the witnesses are replayed on the implementation by the corpus.
-/
namespace SgModel.VecIdx

/-- After any history the index holds exactly one entry per live labelled node carrying a
vector of the index dimension — the node's *current* vector — and nothing else. -/
theorem C29_index_exact (ops : List Op) (ix : Index) (h : (run ops).idx = some ix) :
    (∀ e, e ∈ ix.entries ↔
        ∃ x ∈ (run ops).nodes, x.id = e.node ∧ x.inL = true ∧ x.vec = some e.vec ∧ e.vec.length = ix.dim)
    ∧ (ix.entries.map (·.node)).Nodup := by
  have hok := (inv_run ops).ix ix h
  refine ⟨hok.exact, ?_⟩
  have := hok.nodup
  unfold NodesNodup at this
  rw [List.Nodup, List.pairwise_map]; exact this

/-- Results are live nodes that carry the label and the property, reported with their current
vector — in both regimes, whatever HNSW returned. -/
theorem C29_results_live_current (ops : List Op) (q : Vec) (k : Nat) (raw : List Nat) :
    ∀ e ∈ search (run ops) q k raw,
      ∃ x ∈ (run ops).nodes, x.id = e.node ∧ x.inL = true ∧ x.vec = some e.vec := by
  intro e he
  unfold search at he
  cases hix : (run ops).idx with
  | none => simp [hix] at he
  | some ix =>
    simp only [hix] at he
    have hok := (inv_run ops).ix ix hix
    obtain ⟨x, hx, h1, h2, h3, _⟩ := (hok.exact e).mp (searchIx_subset ix q k raw e he)
    exact ⟨x, hx, h1, h2, h3⟩

/-- No node is returned twice — in both regimes. -/
theorem C29_results_nodup (ops : List Op) (q : Vec) (k : Nat) (raw : List Nat) :
    ((search (run ops) q k raw).map (·.node)).Nodup := by
  unfold search
  cases hix : (run ops).idx with
  | none => simp
  | some ix =>
    simp only
    have := searchIx_nodup ((inv_run ops).ix ix hix).nodup q k raw
    unfold NodesNodup at this
    rw [List.Nodup, List.pairwise_map]; exact this

/-- Results come in non-decreasing exact distance under the metric the index was declared
with — whichever of cosine, l2 and inner product that is (`ix.metric` is arbitrary), whatever
the sign of the distance — in both regimes. -/
theorem C29_results_sorted (ops : List Op) (q : Vec) (k : Nat) (raw : List Nat) (ix : Index)
    (h : (run ops).idx = some ix) :
    (search (run ops) q k raw).Pairwise
      (fun a b => RLe (rank ix.metric q a.vec) (rank ix.metric q b.vec)) := by
  unfold search
  simp only [h]
  exact searchIx_sorted ix q k raw

/-- Small index (linear-scan regime), any declared metric: exactly the `k` nearest.  The answer has
`min k (number of candidates)` rows, and every live labelled node with a vector of the index
dimension that was *not* returned is at least as far as every returned one. -/
theorem C29_exact_topk (ops : List Op) (q : Vec) (k : Nat) (raw : List Nat) (ix : Index)
    (h : (run ops).idx = some ix) (hq : q.length = ix.dim) (hsz : ix.entries.length ≤ EXACT_MAX) :
    (search (run ops) q k raw).length = min k ix.entries.length
    ∧ ∀ x ∈ (run ops).nodes, x.inL = true → ∀ v, x.vec = some v → v.length = ix.dim →
        x.id ∉ (search (run ops) q k raw).map (·.node) →
        ∀ e ∈ search (run ops) q k raw, RLe (rank ix.metric q e.vec) (rank ix.metric q v) := by
  have hok := (inv_run ops).ix ix h
  obtain ⟨hlen, htop⟩ := searchIx_topk hq hsz k raw
  unfold search
  simp only [h]
  refine ⟨hlen, ?_⟩
  intro x hx hL v hv hdim hnot e he
  have hc : (⟨x.id, v⟩ : Entry) ∈ ix.entries := (hok.exact _).mpr ⟨x, hx, rfl, hL, hv, hdim⟩
  have hnot' : (⟨x.id, v⟩ : Entry) ∉ searchIx ix q k raw := by
    intro hin
    exact hnot (List.mem_map.mpr ⟨_, hin, rfl⟩)
  exact htop _ hc hnot' e he

/-- The model's answer satisfies the executable specification (the brute-force reference
evaluated on observations) for every reachable state, every query of the index dimension,
every `k` and every HNSW candidate list. -/
theorem C29_model_refines_spec (ops : List Op) (q : Vec) (k : Nat) (raw : List Nat) (ix : Index)
    (h : (run ops).idx = some ix) (hq : q.length = ix.dim) :
    specSearch (obsNodes (run ops)) ix.dim ix.metric q k ((search (run ops) q k raw).map (·.node)) = true := by
  have hi := inv_run ops
  have := spec_of_ixOk hi.ids (hi.ix ix h) hq k raw
  unfold search
  simp only [h]
  exact this

/-- The three theorems above hold for every metric the code has: spelled out per variant,
with the distance each one declares (cosine through the signed squared similarity, l2 through
the squared distance, inner product through the negated dot product — 1 − q·v is negative as
soon as q·v > 1, and must still sort before the positive ones). -/
theorem C29_sorted_every_metric (ops : List Op) (q : Vec) (k : Nat) (raw : List Nat) (ix : Index)
    (h : (run ops).idx = some ix) :
    (ix.metric = .cosine → (search (run ops) q k raw).Pairwise
        (fun a b => RLe (cosRank q a.vec) (cosRank q b.vec)))
    ∧ (ix.metric = .l2 → (search (run ops) q k raw).Pairwise (fun a b => l2sq q a.vec ≤ l2sq q b.vec))
    ∧ (ix.metric = .ip → (search (run ops) q k raw).Pairwise (fun a b => dot q b.vec ≤ dot q a.vec)) := by
  have hs := C29_results_sorted ops q k raw ix h
  refine ⟨?_, ?_, ?_⟩
  · intro hm; rw [hm] at hs; exact hs
  · intro hm; rw [hm] at hs
    refine List.Pairwise.imp ?_ hs
    intro a b hab
    simpa [RLe, rank] using hab
  · intro hm; rw [hm] at hs
    refine List.Pairwise.imp ?_ hs
    intro a b hab
    simp only [RLe, rank] at hab
    omega

/-- inner-product index, exact regime: whoever is left out has a dot product with the query
no larger than that of anyone returned (so the hits with q·v > 1 — negative distance — are
the *first* rows, never evicted) -/
theorem C29_exact_topk_inner_product (ops : List Op) (q : Vec) (k : Nat) (raw : List Nat) (ix : Index)
    (h : (run ops).idx = some ix) (hm : ix.metric = .ip) (hq : q.length = ix.dim)
    (hsz : ix.entries.length ≤ EXACT_MAX) :
    ∀ x ∈ (run ops).nodes, x.inL = true → ∀ v, x.vec = some v → v.length = ix.dim →
      x.id ∉ (search (run ops) q k raw).map (·.node) →
      ∀ e ∈ search (run ops) q k raw, dot q v ≤ dot q e.vec := by
  intro x hx hL v hv hd hnot e he
  have := (C29_exact_topk ops q k raw ix h hq hsz).2 x hx hL v hv hd hnot e he
  rw [hm] at this
  simp only [RLe, rank] at this
  omega

/-- the ranking-free part of the specification follows from the whole -/
theorem C29_spec_live_of_spec (nodes : List ONode) (dim : Nat) (m : Metric) (q : Vec) (k : Nat) (r : List Nat)
    (h : specSearch nodes dim m q k r = true) : specLive nodes dim r = true := by
  unfold specSearch at h
  unfold specLive
  simp only [Bool.and_eq_true] at h ⊢
  exact ⟨h.1.1.1, h.1.1.2⟩

/-! ### The pinned tree violated the property (witnesses replayed by the corpus) -/

/-- SET n.v appends a second entry: the node is returned twice (`vector-update-duplicate`) -/
theorem C29_counterexample_update_duplicates :
    (searchLegacy (runLegacy [.mkIndex 2 .cosine, .create true (some [1, 0]), .create true (some [0, 1]),
        .setVec 1 (some [1, 1])]) [1, 0] 5).map (·.node) = [0, 1, 1] := by decide

/-- DELETE leaves the entry: a dead node is returned (`vector-delete-stale`) -/
theorem C29_counterexample_delete_stale :
    (searchLegacy (runLegacy [.mkIndex 2 .cosine, .create true (some [1, 0]), .create true (some [0, 1]),
        .delete 0]) [1, 0] 5).map (·.node) = [0, 1] := by decide

/-- so do REMOVE n.v and REMOVE n:L -/
theorem C29_counterexample_remove_stale :
    (searchLegacy (runLegacy [.mkIndex 2 .cosine, .create true (some [1, 0]), .create true (some [0, 1]),
        .removeVec 0, .removeLabel 1]) [1, 0] 5).map (·.node) = [0, 1] := by decide

/-- an index declared `l2` is ranked by cosine: for the query [1,0] the vector [3,0]
(L2² = 4) comes before [1,1] (L2² = 1) (`vector-l2-as-cosine`) -/
theorem C29_counterexample_l2_as_cosine :
    (searchLegacy (runLegacy [.mkIndex 2 .l2, .create true (some [3, 0]), .create true (some [1, 1])])
        [1, 0] 5).map (·.node) = [0, 1] := by decide

/-! ### Non-vacuity: the same histories under the repaired step -/

example : (search (run [.mkIndex 2 .cosine, .create true (some [1, 0]), .create true (some [0, 1]),
    .setVec 1 (some [1, 1])]) [1, 0] 5 []).map (·.node) = [0, 1] := by decide

example : (search (run [.mkIndex 2 .cosine, .create true (some [1, 0]), .create true (some [0, 1]),
    .delete 0]) [1, 0] 5 []).map (·.node) = [1] := by decide

example : (search (run [.mkIndex 2 .cosine, .create true (some [1, 0]), .create true (some [0, 1]),
    .removeVec 0, .removeLabel 1]) [1, 0] 5 []).map (·.node) = [] := by decide

example : (search (run [.mkIndex 2 .l2, .create true (some [3, 0]), .create true (some [1, 1])])
    [1, 0] 5 []).map (·.node) = [1, 0] := by decide

/-- inner product: distances of both signs and a zero vector; k smaller than the index -/
example : (search (run [.mkIndex 2 .ip, .create true (some [1, 0]), .create true (some [3, 1]),
    .create true (some [0, 0]), .create true (some [-2, 0])]) [1, 0] 3 []).map (·.node) = [1, 0, 2] := by decide

/-- the hypotheses of `C29_exact_topk` are satisfiable by a state whose index saw an update
and a delete -/
example : ∃ ix, (run [.mkIndex 2 .l2, .create true (some [3, 0]), .create true (some [1, 1]),
      .setVec 0 (some [2, 2]), .delete 1]).idx = some ix
    ∧ ([1, 0] : Vec).length = ix.dim ∧ ix.entries.length ≤ EXACT_MAX ∧ ix.entries = [⟨0, [2, 2]⟩] :=
  ⟨_, rfl, by decide, by decide, by decide⟩

end SgModel.VecIdx
