import SgModel.Lemmas.RdfDoc
import SgModel.Lemmas.RdfXml
import SgModel.Lemmas.RdfTtl
/-!
# C36 — RDF serialisations round-trip every triple set

Property theorems only (helpers: `Lemmas/Rdf*.lean`).  All theorems quantify over every
triple list / every literal content (any `List Char`: controls, quotes, backslashes,
astral-plane characters), with no size bound.

Full statement of the property on the model:

    ∀ f ∈ {nt, ttl, xml}, ∀ ts, predict f ts = back ts' ∧ ts' =_set ts      (up to blank-node renaming)

What is proved, and what is not:

* **N-Triples: proved** (`C36_nt_roundtrip`) for every triple list whose IRIs satisfy `iriOK`,
  language tags `langOK`, literals the constructor invariant `Lit.WF`, and blank-node labels
  `bnodeOK`.  The first three are implied by the repository's constructors (checked against
  the real constructors by the harness); `bnodeOK` is **not** — `BlankNode::from_str` also
  accepts labels containing `:` or `..`, which rio's parser cannot read back: that is the
  known finding `nt:bnode-label` / `ttl:bnode-label` (`C36_counterexample_nt_bnode_colon`),
  so the N-Triples theorem is the full statement *minus exactly those labels*.
* **Term conversion: proved** (`C36_term_conv_roundtrip`, `C36_constructors_wf`).
* **Turtle: partial.**  `C36_ttl_subset_roundtrip_partial` is a round trip between the
  model of rio's `TurtleFormatter` (compared byte-for-byte with the real one) and a parser
  *for the subset that formatter emits*; rio's actual Turtle parser is tied only
  differentially.
* **RDF/XML: partial.**  Escaping (`C36_xml_escape_roundtrip`), the predicate split
  (`C36_xml_split_join`, `C36_xml_split_local_ncname`) and the text rule
  (`C36_xml_text_partial`) are proved; the XML grammar / rio_xml's parser is tied only
  differentially.  Four known findings: white-space-only literals come back empty
  (`C36_counterexample_xml_whitespace_literal`), blank-node labels that are not NCNames make
  the output unparseable (`C36_counterexample_xml_bnode_digit`), so do predicates RDF/XML
  reserves (`C36_counterexample_xml_reserved_predicate`), and predicate `rdf:li` comes back as
  `rdf:_n` (`C36_counterexample_xml_rdf_li`).
-/
namespace SgModel.Rdf

/-! ### term conversion -/

/-- Whatever literal the repository holds, handing it to rio and converting rio's literal
back yields the same literal. -/
theorem C36_term_conv_roundtrip (l : Lit) (h : l.WF = true) : fromRio (toRio l) = l :=
  fromRio_toRio l h

/-- Every literal built by the repository's constructors satisfies the invariant. -/
theorem C36_constructors_wf (v x : Str) :
    (Lit.simple v).WF = true ∧ (mkLang v x).WF = true ∧ (mkTyped v x).WF = true :=
  ⟨rfl, mkLang_wf v x, mkTyped_wf v x⟩

/-- The choice of rio variant: `Simple` exactly for plain `xsd:string` literals. -/
theorem C36_toRio_simple_iff (l : Lit) (h : l.WF = true) :
    (∃ v, toRio l = .simple v) ↔ (∃ v, l = .simple v) := by
  cases l with
  | simple v => simp [toRio, Lit.language, Lit.datatype, Lit.value]
  | lang v lg => simp [toRio, Lit.language, Lit.value]
  | typed v dt =>
    simp only [Lit.WF, bne_iff_ne, ne_eq] at h
    simp [toRio, Lit.language, Lit.datatype, Lit.value, h]

/-! ### N-Triples -/

/-- Escaping then unescaping a literal is the identity, for any content and any continuation. -/
theorem C36_nt_literal_roundtrip (v rest : Str) :
    parseStrBody (escapeLit v ++ '"' :: rest) = some (v, rest) :=
  parseStrBody_escape v rest

/-- One formatted line, followed by anything, parses to exactly its triple. -/
theorem C36_nt_line_roundtrip (t : Triple) (rest : Str) (h : tripleOK t = true) :
    parseLine (renderLine t ++ rest) = some (some t, rest) :=
  parseLine_render t rest h

/-- `parse (serialize ts) = ts` — as lists, hence as sets — for every triple list. -/
theorem C36_nt_roundtrip (ts : List Triple) (h : ∀ t ∈ ts, tripleOK t = true) :
    parseDoc (renderDoc ts) = some ts :=
  parseDocFuel_render ts h _ (Nat.lt_succ_of_le (renderDoc_length ts))

/-! ### Turtle (emitted subset only) -/

/-- PARTIAL.  Full statement: `rio_turtle::TurtleParser (TurtleFormatter ts) = ts`.
Proved: the subset parser of the model reads back the formatter model's output. -/
theorem C36_ttl_subset_roundtrip_partial (ts : List Triple) (h : ∀ t ∈ ts, tripleOK t = true) :
    ttlParse (ttlRender ts) = some ts :=
  ttlParse_render ts h

/-! ### RDF/XML (escaping, predicate split, text rule) -/

theorem C36_xml_escape_roundtrip (v : Str) : xmlUnescape (xmlEscape v) = some v :=
  xmlUnescape_escape v

/-- `split_iri` never loses a character of the predicate IRI … -/
theorem C36_xml_split_join (p : Str) : (splitIri p).1 ++ (splitIri p).2 = p :=
  splitIri_join p

/-- … and the element name it yields is an NCName (or the `prop:` fallback is used). -/
theorem C36_xml_split_local_ncname (p : Str) :
    (splitIri p).2 = [] ∨ isNcName (splitIri p).2 = true :=
  splitIri_local p

/-- PARTIAL.  Full statement: `xmlReadText (xmlEscape v) = some v` for every `v`.
Proved under the exact excluding hypothesis "not a non-empty white-space-only string". -/
theorem C36_xml_text_partial (v : Str) (h : v = [] ∨ v.all isXmlWs = false) :
    xmlReadText (xmlEscape v) = some v := by
  rw [xmlReadText_escape]
  rcases h with h | h
  · subst h; rfl
  · simp [h]

/-! ### the model satisfies the executable specification -/

/-- N-Triples: for every admissible triple list the predicted outcome satisfies S. -/
theorem C36_model_refines_spec (ts : List Triple) (h : ∀ t ∈ ts, tripleOK t = true) :
    spec .nt ts (predict .nt ts) = .ok ∧ spec .ttl ts (predict .ttl ts) = .ok := by
  constructor
  · simp only [predict, C36_nt_roundtrip ts h, spec, sameUpToBnodes, setEq_refl, Bool.true_or,
      if_true]
  · simp only [predict, C36_ttl_subset_roundtrip_partial ts h, spec, sameUpToBnodes, setEq_refl,
      Bool.true_or, if_true]

/-- RDF/XML, PARTIAL: outside the four known findings (non-NCName blank-node labels, reserved
predicates, `rdf:li`, white-space-only literals) the predicted outcome satisfies S. -/
theorem C36_model_refines_spec_xml_partial (ts : List Triple)
    (hb : anyBnodeBad isNcName ts = false)
    (hp : ts.any (fun t => xmlPredBad t.p) = false)
    (hli : ∀ t ∈ ts, t.p ≠ rdfLi)
    (hw : ∀ t ∈ ts, ∀ l, t.o = .lit l → litWsOnly l = false) :
    spec .xml ts (predict .xml ts) = .ok := by
  have hmap : ts.map xmlTripleBack = ts := by
    have : ts.map xmlTripleBack = ts.map id :=
      List.map_congr_left (fun t ht => xmlTripleBack_id t (hw t ht))
    simpa using this
  have hback : xmlBack ts = ts := by
    unfold xmlBack
    rw [xmlBackFrom_map ts hli, hmap]
  simp only [predict, hb, hp, hback, spec, sameUpToBnodes, setEq_refl, Bool.true_or, if_true,
    Bool.false_eq_true, if_false, Bool.or_self]

/-! ### the pinned tree violates the property (witnesses replayed by the corpus) -/

def wS : Subj := .iri ['h','t','t','p',':','/','/','e','/','s']
def wP : Str := ['h','t','t','p',':','/','/','e','/','p']

/-- `_:a:b` is accepted by `BlankNode::from_str` but its N-Triples line does not parse. -/
theorem C36_counterexample_nt_bnode_colon :
    oxBnodeValid ['a', ':', 'b'] = true ∧ bnodeOK ['a', ':', 'b'] = false
    ∧ parseDoc (renderDoc [⟨wS, wP, .bnode ['a', ':', 'b']⟩]) = none := by
  decide

/-- `_:a..b`: same, for two consecutive dots. -/
theorem C36_counterexample_nt_bnode_dotdot :
    oxBnodeValid ['a', '.', '.', 'b'] = true
    ∧ parseDoc (renderDoc [⟨wS, wP, .bnode ['a', '.', '.', 'b']⟩]) = none := by
  decide

/-- the literal `" "` comes back from RDF/XML as `""`. -/
theorem C36_counterexample_xml_whitespace_literal :
    xmlReadText (xmlEscape [' ']) = some []
    ∧ spec .xml [⟨wS, wP, .lit (.simple [' '])⟩] (predict .xml [⟨wS, wP, .lit (.simple [' '])⟩])
        = .viol "whitespace-only-literal" := by
  decide

/-- blank node `_:0a` (valid for oxrdf, N-Triples and Turtle) is not an NCName. -/
theorem C36_counterexample_xml_bnode_digit :
    oxBnodeValid ['0', 'a'] = true ∧ bnodeOK ['0', 'a'] = true ∧ isNcName ['0', 'a'] = false
    ∧ predict .xml [⟨wS, wP, .bnode ['0', 'a']⟩] = .parseErr := by
  decide

/-- predicate `rdf:li` is written as an `<li>` element and read back as `rdf:_1`. -/
theorem C36_counterexample_xml_rdf_li :
    predict .xml [⟨wS, rdfLi, .lit (.simple ['x'])⟩]
      = .back [⟨wS, rdfNs ++ ['_', '1'], .lit (.simple ['x'])⟩]
    ∧ spec .xml [⟨wS, rdfLi, .lit (.simple ['x'])⟩] (predict .xml [⟨wS, rdfLi, .lit (.simple ['x'])⟩])
        = .viol "rdf-li-renumbered" := by
  decide

/-- a predicate RDF/XML reserves (here `rdf:about`) is written as a property element the
parser rejects; so is the XML-namespaces IRI `http://www.w3.org/2000/xmlns/`. -/
theorem C36_counterexample_xml_reserved_predicate :
    predict .xml [⟨wS, rdfNs ++ ['a','b','o','u','t'], .lit (.simple ['x'])⟩] = .parseErr
    ∧ spec .xml [⟨wS, rdfNs ++ ['a','b','o','u','t'], .lit (.simple ['x'])⟩] .parseErr
        = .viol "reserved-predicate"
    ∧ predict .xml [⟨wS, xmlnsNs, .lit (.simple ['x'])⟩] = .parseErr := by
  decide

/-! ### non-vacuity -/

example : tripleOK ⟨wS, wP, .lit (.simple ['"', '\\', '\n', '\r', Char.ofNat 1, Char.ofNat 0x1F600])⟩ = true := by
  decide

example : tripleOK ⟨.bnode ['b', '.', '1'], wP, .lit (mkLang [] ['E', 'N'])⟩ = true := by decide

example : parseDoc (renderDoc [⟨wS, wP, .lit (.simple ['"', '\\', '\n'])⟩])
    = some [⟨wS, wP, .lit (.simple ['"', '\\', '\n'])⟩] := by decide

example : splitIri wP = (['h','t','t','p',':','/','/','e','/'], ['p']) := by decide

end SgModel.Rdf
