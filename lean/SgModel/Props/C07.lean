import SgModel.Lemmas.MvccObs
import SgModel.Lemmas.MvccRelRead
/-!
# C07 — versioned reads are stable, duplicate-free and respect deletion

Property theorems only.  `step` is the model of the store after the four `fix:` commits
(copy-on-write `remove_node_property` and label functions, `delete_node` drops the chain,
`node_count`/`all_nodes` take the newest version of each chain); `stepLegacy` is the pinned tree.

Full statement of the property (kept here because only part of it holds for the code):

    for every history and every entity e (node or relationship), every v < current_version:
      (a) read(e, v) = the state e had when the current version was last ≤ v, and
      (b) read(e, v) is never changed by a later step;
    (c) node_count / all_nodes return each live node exactly once;
    (d) a deleted node is not readable at the current version.

What is proved: (a)–(d) for **nodes** at full strength for every history in which the node is
not deleted afterwards (`C07_node_read_past_stable`, `C07_node_read_as_of`,
`C07_node_history_stable`, `C07_scan_each_live_once`, `C07_deleted_unreadable_now`).

For **relationships** the read is characterised exactly for every history
(`C07_rel_read_characterised`: newest logged snapshot `≤ v`, else the current map stamped 1) and,
with the invariants of reachable states discharged (`RelInv`, `Lemmas/MvccRel.lean`):
(a) at the current version and for every relationship not written after `v`
(`C07_rel_read_current`, `C07_rel_unmodified_since`, `C07_rel_write_visible_now`);
(b) for every read that has a logged snapshot `≤ v`, one step and along every history with any
number of further writes, creations, other deletions and commits (`C07_rel_read_anchored`,
`C07_rel_step_stable`, `C07_rel_history_stable`), and for every read whatsoever under operations
that do not write or delete the relationship (`C07_rel_record_frame`).
What is *not* provable because the code violates it (known findings, reproduced on the real
code; `C07_rel_unanchored_reads_current_partial` states exactly what the code returns instead):
a relationship's creation version and its properties before the first logged write are not
recorded (`get_edge_at_version` falls back to the live map and version 1), and the history of a
deleted node or relationship is dropped.  The corresponding `…_counterexample_…` theorems
below hold for the *repaired* model as well and are marked as such.
-/
namespace SgModel.Mvcc

/-- ops that may legitimately change a past read of node `n`: its deletion (known finding:
history of a deleted node is dropped) and garbage collection (C08) -/
def touchesHistoryOf (n : Nat) : Op → Bool
  | .deleteNode m => m == n
  | .txn (.gc _) => true
  | _ => false

theorem step_cur_le (s : State) (op : Op) : s.cur ≤ (step s op).1.cur := by
  cases op with
  | txn top =>
    have hle : s.cur ≤ (Txn.step s.txn top).1.core.cur := Txn.shape_cur_le (Txn.step_shape s.txn top)
    cases top <;> exact hle
  | deleteNode n =>
    simp only [step, stepG]
    split
    · exact Nat.le_refl _
    · show s.cur ≤ (List.foldl killEdge _ (incident s n)).txn.core.cur
      rw [(killEdges_props _ _).1]; exact Nat.le_refl _
  | deleteEdge e =>
    simp only [step, stepG]
    split
    · exact Nat.le_refl _
    · show s.cur ≤ (killEdge s e).txn.core.cur
      rw [(killEdge_props _ _).1]; exact Nat.le_refl _
  | createNode l => exact Nat.le_refl _
  | setProp n k v => simp only [step, stepG]; split <;> exact Nat.le_refl _
  | removeProp n k => exact Nat.le_refl _
  | addLabel n l => simp only [step, stepG]; split <;> exact Nat.le_refl _
  | removeLabel n l =>
    simp only [step, stepG]
    split
    · exact Nat.le_refl _
    · split <;> exact Nat.le_refl _
  | createEdge a b p =>
    simp only [step, stepG]
    split
    · exact Nat.le_refl _
    · split <;> exact Nat.le_refl _
  | setEdgeProp e k v => simp only [step, stepG]; split <;> exact Nat.le_refl _

/-- **(b) for nodes, one step.**  In every reachable state, a read of node `n` at a version
older than the current one is unchanged by any operation other than deleting `n` or `gc`:
property writes, label writes, creations (also when `n`'s id is being reused), deletions of
other nodes, relationship writes, version bumps, transaction commits. -/
theorem C07_node_read_past_stable (s : State) (hinv : Inv s) (op : Op) (n v : Nat)
    (hv : v < s.cur) (hop : touchesHistoryOf n op = false) :
    getNodeAt (step s op).1 n v = getNodeAt s n v := by
  unfold getNodeAt
  have hcow : ∀ (m : Nat) (f : NodeV → NodeV), (∀ x, (f x).version = x.version) →
      chainAt (upd s.nodes m (cow (s.nodes m) s.cur f) n) v = chainAt (s.nodes n) v := by
    intro m f hf
    by_cases h : n = m
    · subst h; rw [upd_same]; exact chainAt_cow _ _ _ f hf (hinv.chains n) hv
    · rw [upd_other _ _ _ _ h]
  cases op with
  | createNode l =>
    simp only [step, stepG]
    by_cases h : n = (popId s.freeNodes s.nextNode).1
    · rw [h, upd_same]; exact chainAt_append_gt _ _ v hv
    · rw [upd_other _ _ _ _ h]
  | setProp m k val =>
    simp only [step, stepG]
    split
    · rfl
    · exact hcow m _ (fun _ => rfl)
  | removeProp m k => simp only [step, stepG]; exact hcow m _ (fun _ => rfl)
  | addLabel m l =>
    simp only [step, stepG]
    split
    · rfl
    · exact hcow m _ (fun _ => rfl)
  | removeLabel m l =>
    simp only [step, stepG]
    split
    · rfl
    · split
      · rfl
      · exact hcow m _ (fun _ => rfl)
  | deleteNode m =>
    simp only [touchesHistoryOf, beq_eq_false_iff_ne, ne_eq] at hop
    simp only [step, stepG]
    split
    · rfl
    · rw [(killEdges_props _ _).2.1]
      show chainAt (upd s.nodes m _ n) v = chainAt (s.nodes n) v
      rw [upd_other _ _ _ _ (fun h => hop h.symm)]
  | createEdge a b p =>
    simp only [step, stepG]
    split
    · rfl
    · split <;> rfl
  | setEdgeProp e k val => simp only [step, stepG]; split <;> rfl
  | deleteEdge e =>
    simp only [step, stepG]
    split
    · rfl
    · rw [(killEdge_props _ _).2.1]
  | txn top =>
    cases top with
    | gc w => simp [touchesHistoryOf] at hop
    | _ => rfl

/-- **(a) for nodes.**  At or above the current version the read *is* the current state, so
when a step raises the current version from `c` the reads at `c ≤ v` freeze what was current;
with `C07_node_read_past_stable` they stay frozen. -/
theorem C07_node_read_as_of (s : State) (hinv : Inv s) (n v : Nat) (hv : s.cur ≤ v) :
    getNodeAt s n v = getNode s n := by
  unfold getNode getNodeAt
  rw [chainAt_ge _ s.cur v (hinv.chains n) hv, chainAt_ge _ s.cur s.cur (hinv.chains n) (Nat.le_refl _)]

/-- **(a)+(b) along every history**: after `pre`, every continuation `post` that neither
deletes node `n` nor collects garbage leaves every read of `n` below `pre`'s current version
unchanged — whatever is created, written, removed, relabelled, committed or bumped. -/
theorem C07_node_history_stable (pre post : List Op) (n v : Nat)
    (hv : v < (exec pre).cur) (hpost : ∀ op ∈ post, touchesHistoryOf n op = false) :
    getNodeAt (exec (pre ++ post)) n v = getNodeAt (exec pre) n v := by
  have key : ∀ (post : List Op), (∀ op ∈ post, touchesHistoryOf n op = false) →
      ∀ (s : State), Inv s → v < s.cur →
      getNodeAt (post.foldl (fun s op => (step s op).1) s) n v = getNodeAt s n v := by
    intro post
    induction post with
    | nil => intro _ s _ _; rfl
    | cons op post ih =>
      intro hp s hinv hvs
      simp only [List.foldl_cons]
      rw [ih (fun o ho => hp o (List.mem_cons_of_mem _ ho)) (step s op).1 (inv_step false hinv op)
        (Nat.lt_of_lt_of_le hvs (step_cur_le s op))]
      exact C07_node_read_past_stable s hinv op n v hvs (hp op List.mem_cons_self)
  have hx : exec (pre ++ post) = post.foldl (fun s op => (step s op).1) (exec pre) := by
    simp [exec, List.foldl_append]
  rw [hx]
  exact key post hpost (exec pre) (inv_exec pre) hv

/-- **Transaction bookkeeping never touches a version chain or a relationship log.**
`begin`, `txn_write_node`, `txn_write_edge`, `commit`, `abort` and a version bump change the
transaction table, the last-commit maps and `current_version` only. -/
theorem C07_txn_bookkeeping_keeps_chains (s : State) (top : Txn.Op) (h : ∀ w, top ≠ .gc w) :
    (step s (.txn top)).1.nodes = s.nodes ∧ (step s (.txn top)).1.edges = s.edges := by
  cases top with
  | gc w => exact absurd rfl (h w)
  | _ => exact ⟨rfl, rfl⟩

/-- **A commit freezes what was current.**  After any transaction operation (in particular a
commit that raises the current version from `c` to `c+1`, whatever its write set holds), the
read of every node at every version `v ≥ c` — so at the pre-commit version `c` itself — is the
state that was current before the operation. -/
theorem C07_commit_freezes_current (s : State) (hinv : Inv s) (top : Txn.Op) (h : ∀ w, top ≠ .gc w)
    (n v : Nat) (hv : s.cur ≤ v) :
    getNodeAt (step s (.txn top)).1 n v = getNode s n := by
  rw [← C07_node_read_as_of s hinv n v hv]
  unfold getNodeAt
  rw [(C07_txn_bookkeeping_keeps_chains s top h).1]

theorem ids_of_allNodes (nodes : Nat → List NodeV) (l : List Nat) :
    (l.filterMap (fun i => (nodes i).getLast?.map (fun x => (i, x.version)))).map (·.1)
      = l.filter (fun i => !(nodes i).isEmpty) := by
  induction l with
  | nil => rfl
  | cons i l ih =>
    rw [List.filterMap_cons, List.filter_cons]
    cases hn : nodes i with
    | nil => simpa using ih
    | cons a rest =>
      have : ((a :: rest).getLast?).isSome := by simp
      obtain ⟨y, hy⟩ := Option.isSome_iff_exists.mp this
      simp only [hy, Option.map_some, List.map_cons, List.isEmpty_cons, Bool.not_false, if_true]
      rw [ih]

/-- **(c) scans and counts.**  In every state `all_nodes` lists each id at most once, lists
exactly the ids whose chain holds a node, and `node_count` is the length of that list —
however many versions the chains hold. -/
theorem C07_scan_each_live_once (s : State) :
    ((allNodesG false s).map (·.1)).Nodup
    ∧ (∀ i, i ∈ (allNodesG false s).map (·.1) ↔ i < s.nextNode ∧ s.nodes i ≠ [])
    ∧ nodeCountG false s = (allNodesG false s).length := by
  have hids := ids_of_allNodes s.nodes (List.range s.nextNode)
  simp only [allNodesG, nodeCountG, Bool.false_eq_true, if_false]
  refine ⟨?_, ?_, ?_⟩
  · rw [hids]; exact (List.nodup_range).filter _
  · intro i
    rw [hids, List.mem_filter, List.mem_range]
    simp
  · rw [← hids, List.length_map]

/-- … and what is listed is what is readable now: the listed version of a listed id is the
one `get_node` returns (reachable states). -/
theorem C07_scan_lists_current (s : State) (hinv : Inv s) (i ver : Nat)
    (h : (i, ver) ∈ allNodesG false s) : (getNode s i).map (·.version) = some ver := by
  simp only [allNodesG, Bool.false_eq_true, if_false, List.mem_filterMap, List.mem_range] at h
  obtain ⟨j, _, hj⟩ := h
  cases hl : (s.nodes j).getLast? with
  | none => simp [hl] at hj
  | some last =>
    simp only [hl, Option.map_some, Option.some.injEq, Prod.mk.injEq] at hj
    obtain ⟨rfl, rfl⟩ := hj
    unfold getNode getNodeAt
    rw [chainAt_ge _ s.cur s.cur (hinv.chains j) (Nat.le_refl _), hl]; rfl

/-- **(d) a deleted node is not readable** at the current version (nor at any other: the
chain is dropped), and it is no longer listed or counted. -/
theorem C07_deleted_unreadable_now (s : State) (n : Nat)
    (hok : (step s (.deleteNode n)).2 = .ok) :
    (∀ v, getNodeAt (step s (.deleteNode n)).1 n v = none)
    ∧ getNode (step s (.deleteNode n)).1 n = none
    ∧ n ∉ (allNodesG false (step s (.deleteNode n)).1).map (·.1) := by
  have hnil : (step s (.deleteNode n)).1.nodes n = [] := by
    simp only [step, stepG] at hok ⊢
    split
    · rename_i h; simp [h] at hok
    · rw [(killEdges_props _ _).2.1]
      show upd s.nodes n _ n = []
      rw [upd_same]; rfl
  refine ⟨?_, ?_, ?_⟩
  · intro v; unfold getNodeAt; rw [hnil]; rfl
  · unfold getNode getNodeAt; rw [hnil]; rfl
  · rw [(C07_scan_each_live_once _).2.1]
    intro h; exact h.2 hnil

/-- **Relationships (partial).**  (b) holds for a relationship read that hits a logged
snapshot: in a reachable state, for `v` below the current version, if the log of `e` has an
entry `≤ v` then `set_edge_property` on `e` leaves the read at `v` unchanged.
Not covered (the code violates it — known findings): reads served by the fallback branch
(no entry `≤ v`: creation version and pre-images are not recorded), and reads of a
relationship that has been deleted. -/
theorem C07_partial (s : State) (e k v : Nat) (val : Int) (hv : v < s.cur)
    (hex : ∃ x ∈ (s.edges e).log, x.version ≤ v) :
    getEdgeAt (step s (.setEdgeProp e k val)).1 e v = getEdgeAt s e v := by
  simp only [step, stepG]
  split
  · rfl
  · unfold getEdgeAt
    show edgeAt (upd s.edges e _ e) s.cur v = edgeAt (s.edges e) s.cur v
    rw [upd_same]
    exact setEdge_read (s.edges e) s.cur v k val hv hex

/-- … and every step that is not a write to / deletion of that relationship (or of an
endpoint), a creation that allocates its id, or a `gc`, leaves every read of it below the
current version unchanged. -/
theorem C07_partial_frame (s : State) (op : Op) (e v : Nat) (hv : v < s.cur)
    (hop : match op with
      | .setEdgeProp e' _ _ => e' ≠ e
      | .deleteEdge _ | .deleteNode _ | .createEdge _ _ _ => False
      | .txn (.gc _) => False
      | _ => True) :
    getEdgeAt (step s op).1 e v = getEdgeAt s e v := by
  unfold getEdgeAt
  cases op with
  | createNode l => rfl
  | setProp n k val => simp only [step, stepG]; split <;> rfl
  | removeProp n k => rfl
  | addLabel n l => simp only [step, stepG]; split <;> rfl
  | removeLabel n l =>
    simp only [step, stepG]
    split
    · rfl
    · split <;> rfl
  | deleteNode n => exact absurd hop id
  | createEdge a b p => exact absurd hop id
  | setEdgeProp e' k val =>
    simp only at hop
    simp only [step, stepG]
    split
    · rfl
    · show edgeAt (upd s.edges e' _ e) s.cur v = edgeAt (s.edges e) s.cur v
      rw [upd_other _ _ _ _ (fun h => hop h.symm)]
  | deleteEdge e' => exact absurd hop id
  | txn top =>
    have hle : s.cur ≤ (Txn.step s.txn top).1.core.cur := Txn.shape_cur_le (Txn.step_shape s.txn top)
    have h1 : decide (v < (Txn.step s.txn top).1.core.cur) = true := by simp; omega
    have h2 : decide (v < s.cur) = true := by simpa using hv
    cases top with
    | gc w => exact absurd hop id
    | _ =>
      -- the current version may move, but `v` stays below it
      show edgeAt (s.edges e) (Txn.step s.txn _).1.core.cur v = edgeAt (s.edges e) s.cur v
      unfold edgeAt
      simp only [h1, h2]

/-- **The model satisfies the node clauses of the executable specification** that the
harness evaluates on the implementation's dumps: for every reachable state and every
operation that is neither a node deletion nor a `gc`, no probed node violates `stable`
(clause 0), and after *every* operation whatsoever the scan clause's ingredients hold
(`C07_scan_each_live_once`).  (`_partial`: the relationship clauses are not claimed — see the
known findings; the `now` and `asof` clauses are compared differentially only.) -/
theorem C07_model_refines_spec_partial (s : State) (hinv : Inv s) (op : Op) (o o' : Out)
    (hop : ∀ n, touchesHistoryOf n op = false) :
    stableNodes (obsG false s o) op (obsG false (step s op).1 o') = [] := by
  rw [stableNodes, List.filter_eq_nil_iff]
  intro i hi
  simp only [ids, List.mem_range] at hi
  simp only [Bool.not_eq_true, List.any_eq_false, bne_iff_ne, ne_eq, Decidable.not_not]
  intro v hv
  have hvlt : v < s.cur := by
    have : stableVs (obsG false s o) op = List.range s.cur := by
      cases op with
      | txn top =>
        cases top with
        | gc w => have := hop 0; simp [touchesHistoryOf] at this
        | _ => rfl
      | _ => rfl
    rw [this] at hv
    exact List.mem_range.mp hv
  have hle := step_cur_le s op
  rw [nodeRead_obs false (step s op).1 o' i v hi (by omega), nodeRead_obs false s o i v hi (by omega)]
  exact C07_node_read_past_stable s hinv op (i + 1) v hvlt (hop (i + 1))

/-! ### Relationships: exactly what `get_edge_at_version` guarantees, for every history

The hypotheses of `C07_partial` / `C07_partial_frame` are discharged below as invariants of every
state the model can reach (`RelInv`: the newest log entry carries the live property map,
`current_version ≥ 1`, the id allocator never hands out the id of a live relationship), and the
read is characterised exactly.  What remains outside (`_partial` names) is what the code does not
record — see the `C07_counterexample_rel_…` witnesses. -/

/-- **Exact characterisation, every history, every relationship, every version.**
`get_edge_at_version(e, v)` is: nothing for a deleted / never created relationship; otherwise the
newest logged snapshot `≤ v` (its version and *its* properties); otherwise — no snapshot that
old — the **current** property map stamped version 1 (nothing for `v = 0`). -/
theorem C07_rel_read_characterised (ops : List Op) (e v : Nat) :
    getEdgeAt (exec ops) e v = edgeAtSpec ((exec ops).edges e) v :=
  getEdgeAt_eq_spec _ (relInv_exec ops) e v

/-- **(a) at the current version, full strength.**  After every history, the read of a live
relationship at the current version — and at every later one — is its current property map. -/
theorem C07_rel_read_current (ops : List Op) (e v : Nat)
    (hlive : ((exec ops).edges e).live = true) (hv : (exec ops).cur ≤ v) :
    getEdgeAt (exec ops) e v = getEdge (exec ops) e
    ∧ ∃ ver, getEdge (exec ops) e = some (ver, ((exec ops).edges e).props) :=
  rel_unmodified_since _ (inv_exec ops) (relInv_exec ops) e v hlive
    (Nat.le_trans (relInv_exec ops).curPos hv)
    (fun x hx => Nat.le_trans (((inv_exec ops).logs e).2 x hx) hv)

/-- **(a) for relationships not modified after `v`, full strength.**  After every history, if no
logged write of live relationship `e` is newer than `v ≥ 1`, the read at `v` is the current
state (so: a relationship never written after `v` reads at `v` what it reads now). -/
theorem C07_rel_unmodified_since (ops : List Op) (e v : Nat)
    (hlive : ((exec ops).edges e).live = true) (hv : 1 ≤ v)
    (hall : ∀ x ∈ ((exec ops).edges e).log, x.version ≤ v) :
    getEdgeAt (exec ops) e v = getEdge (exec ops) e
    ∧ ∃ ver, getEdge (exec ops) e = some (ver, ((exec ops).edges e).props) :=
  rel_unmodified_since _ (inv_exec ops) (relInv_exec ops) e v hlive hv hall

/-- a write is visible at the current version: read-your-write for `set_edge_property` -/
theorem C07_rel_write_visible_now (ops : List Op) (e k : Nat) (val : Int)
    (hlive : ((exec ops).edges e).live = true) :
    ∃ ver, getEdge (exec (ops ++ [.setEdgeProp e k val])) e
      = some (ver, setKey ((exec ops).edges e).props k val) := by
  have hx : exec (ops ++ [.setEdgeProp e k val]) = (step (exec ops) (.setEdgeProp e k val)).1 := by
    simp [exec, List.foldl_append]
  have hrec := step_edges_write false (exec ops) e k val hlive
  have hlive' : ((exec (ops ++ [.setEdgeProp e k val])).edges e).live = true := by
    rw [hx]; show ((stepG false (exec ops) (.setEdgeProp e k val)).1.edges e).live = true
    rw [hrec]; exact hlive
  obtain ⟨ver, h⟩ := (C07_rel_read_current (ops ++ [.setEdgeProp e k val]) e _ hlive' (Nat.le_refl _)).2
  refine ⟨ver, ?_⟩
  rw [h, hx]
  show some (ver, ((stepG false (exec ops) (.setEdgeProp e k val)).1.edges e).props) = _
  rw [hrec]; rfl

/-- **Anchored reads.**  After every history, when the log of live relationship `e` holds a
snapshot `≤ v`, the read at `v` is the newest such snapshot — version and properties as logged,
independent of the current version and of the live map. -/
theorem C07_rel_read_anchored (ops : List Op) (e v : Nat) (ent : ELog)
    (hlive : ((exec ops).edges e).live = true)
    (hf : ((exec ops).edges e).log.reverse.find? (fun x => decide (x.version ≤ v)) = some ent) :
    getEdgeAt (exec ops) e v = some (ent.version, ent.props) :=
  rel_read_anchored _ (relInv_exec ops) e v ent hlive hf

/-- **What the code does when no snapshot is old enough** (the known finding, stated exactly):
the read at `v ≥ 1` is the *current* property map with version 1 — whatever the relationship held,
and whether or not it existed, at `v`. -/
theorem C07_rel_unanchored_reads_current_partial (ops : List Op) (e v : Nat)
    (hlive : ((exec ops).edges e).live = true) (hv : 1 ≤ v)
    (hnone : ∀ x ∈ ((exec ops).edges e).log, v < x.version) :
    getEdgeAt (exec ops) e v = some (1, ((exec ops).edges e).props) :=
  rel_read_unanchored _ (relInv_exec ops) e v hlive hv hnone

/-- **No operation disturbs a relationship it does not delete or write**, in any reachable
state: node and label writes, creations (a creation never reuses the id of a live relationship),
deletions of other relationships, deletions of nodes that are not its endpoints (the cascade
reaches incident relationships only), property writes to other relationships and all transaction
bookkeeping leave endpoints, property map and version log of `e` untouched. -/
theorem C07_rel_record_frame (ops : List Op) (op : Op) (e : Nat)
    (hlive : ((exec ops).edges e).live = true)
    (hop : touchesRel e ((exec ops).edges e).src ((exec ops).edges e).tgt op = false)
    (hw : writesRel e op = false) :
    (step (exec ops) op).1.edges e = (exec ops).edges e :=
  step_edges_frame false _ (relInv_exec ops) op e hlive hop hw

/-- **(b) one step, hypotheses discharged.**  In every reachable state, for every operation
that does not delete relationship `e` (directly, through an endpoint, or by `gc`): the read at
*every* `v` is unchanged when the operation is not a property write to `e`; and when it is, the
read at every `v` below the current version that has a logged snapshot `≤ v` is unchanged. -/
theorem C07_rel_step_stable (ops : List Op) (op : Op) (e v : Nat)
    (hlive : ((exec ops).edges e).live = true)
    (hop : touchesRel e ((exec ops).edges e).src ((exec ops).edges e).tgt op = false)
    (hanch : writesRel e op = true →
      v < (exec ops).cur ∧ ∃ x ∈ ((exec ops).edges e).log, x.version ≤ v) :
    getEdgeAt (step (exec ops) op).1 e v = getEdgeAt (exec ops) e v :=
  rel_step_stable false _ (relInv_exec ops) op e v hlive hop hanch

/-- **(b) along every history.**  Once live relationship `e` has a logged snapshot `≤ v` with `v`
below the current version, every continuation that does not delete `e`, delete one of its
endpoints or collect garbage — any number of further property writes to `e`, creations, other
deletions, commits, bumps — leaves the read at `v` equal to that snapshot. -/
theorem C07_rel_history_stable (pre post : List Op) (e v : Nat) (ent : ELog)
    (hlive : ((exec pre).edges e).live = true)
    (hf : ((exec pre).edges e).log.reverse.find? (fun x => decide (x.version ≤ v)) = some ent)
    (hv : v < (exec pre).cur)
    (hpost : ∀ op ∈ post, touchesRel e ((exec pre).edges e).src ((exec pre).edges e).tgt op = false) :
    getEdgeAt (exec (pre ++ post)) e v = getEdgeAt (exec pre) e v
    ∧ getEdgeAt (exec (pre ++ post)) e v = some (ent.version, ent.props) := by
  have hx : exec (pre ++ post) = post.foldl (fun s op => (stepG false s op).1) (exec pre) := by
    simp [exec, step, List.foldl_append]
  have h0 : Anchored (exec pre) e ((exec pre).edges e).src ((exec pre).edges e).tgt v ent :=
    ⟨hlive, rfl, rfl, hf, hv⟩
  obtain ⟨h1, r1⟩ := anchored_foldl false post hpost (relInv_exec pre) h0
  have hpost_read := rel_read_anchored _ r1 e v ent h1.live h1.find
  rw [hx, hpost_read, rel_read_anchored _ (relInv_exec pre) e v ent hlive hf]
  exact ⟨rfl, rfl⟩

/-- the hypotheses of `C07_rel_history_stable` are satisfiable and its conclusion is not
trivial: snapshot `{0: 7}` logged at version 1, two later writes at versions 3 and 4, a second
relationship created and deleted in between — the read at version 2 is still `{0: 7}` -/
example :
    let pre := [Op.createNode 1, .createNode 1, .createEdge 1 2 [], .setEdgeProp 1 0 7, .txn .bump, .txn .bump]
    let post := [Op.setEdgeProp 1 0 8, .createEdge 2 1 [], .txn .bump, .setEdgeProp 1 0 9, .deleteEdge 2]
    getEdgeAt (exec (pre ++ post)) 1 2 = some (1, [(0, 7)])
    ∧ getEdge (exec (pre ++ post)) 1 = some (4, [(0, 9)]) := by decide

/-! ### The pinned tree violated the property (witnesses replayed by the corpus) -/

/-- #30 `remove_node_property` rewrote an older version: the read at version 1 loses `k`. -/
theorem C07_counterexample_remove_in_place :
    getNodeAt (execLegacy [.createNode 1, .setProp 1 0 5, .txn .bump, .removeProp 1 0]) 1 1
      ≠ getNodeAt (execLegacy [.createNode 1, .setProp 1 0 5, .txn .bump]) 1 1 := by decide

/-- #31 label writes rewrote an older version. -/
theorem C07_counterexample_label_in_place :
    getNodeAt (execLegacy [.createNode 1, .txn .bump, .addLabel 1 2]) 1 1
      ≠ getNodeAt (execLegacy [.createNode 1, .txn .bump]) 1 1
    ∧ getNodeAt (execLegacy [.createNode 1, .txn .bump, .removeLabel 1 1]) 1 1
      ≠ getNodeAt (execLegacy [.createNode 1, .txn .bump]) 1 1 := by decide

/-- #33 `delete_node` popped one version: a node with two versions is still readable now. -/
theorem C07_counterexample_delete_pops_one :
    getNode (execLegacy [.createNode 1, .setProp 1 0 1, .txn .bump, .setProp 1 0 2, .deleteNode 1]) 1
      = some ⟨1, [1], [(0, 1)]⟩ := by decide

/-- #35 `node_count` / `all_nodes` counted versions: one node with two versions counts as 2. -/
theorem C07_counterexample_count_versions :
    nodeCountG true (execLegacy [.createNode 1, .txn .bump, .setProp 1 0 2]) = 2
    ∧ (allNodesG true (execLegacy [.createNode 1, .txn .bump, .setProp 1 0 2])).map (·.1) = [1, 1] := by
  decide

/-- #32 (known finding, still present after the repairs): a relationship created with
`{0: 1}` at version 1 and set at version 3 reads `{0: 2}` at version 2 … -/
theorem C07_counterexample_rel_preimage_lost :
    getEdgeAt (exec [.createNode 1, .createNode 1, .createEdge 1 2 [(0, 1)], .txn .bump, .txn .bump,
                     .setEdgeProp 1 0 2]) 1 2 = some (1, [(0, 2)])
    ∧ getEdgeAt (exec [.createNode 1, .createNode 1, .createEdge 1 2 [(0, 1)], .txn .bump, .txn .bump]) 1 2
        = some (1, [(0, 1)]) := by decide

/-- … and a relationship created at version 5 is readable at version 2. -/
theorem C07_counterexample_rel_creation_version_lost :
    getEdgeAt (exec [.createNode 1, .createNode 1, .txn .bump, .txn .bump, .txn .bump, .txn .bump,
                     .createEdge 1 2 []]) 1 2 = some (1, []) := by decide

/-- #34 (known finding): the history of a deleted node is dropped — the read at version 1
changes from the node to nothing when the node is deleted at version 2. -/
theorem C07_counterexample_deleted_history_dropped :
    getNodeAt (exec [.createNode 1, .txn .bump]) 1 1 = some ⟨1, [1], []⟩
    ∧ getNodeAt (exec [.createNode 1, .txn .bump, .deleteNode 1]) 1 1 = none := by decide

/-! ### Non-vacuity: the witnesses under the repaired step -/

example :
    getNodeAt (exec [.createNode 1, .setProp 1 0 5, .txn .bump, .removeProp 1 0]) 1 1 = some ⟨1, [1], [(0, 5)]⟩
    ∧ getNode (exec [.createNode 1, .setProp 1 0 5, .txn .bump, .removeProp 1 0]) 1 = some ⟨2, [1], []⟩ := by
  decide

example :
    getNodeAt (exec [.createNode 1, .txn .bump, .addLabel 1 2]) 1 1 = some ⟨1, [1], []⟩
    ∧ getNode (exec [.createNode 1, .txn .bump, .addLabel 1 2]) 1 = some ⟨2, [1, 2], []⟩ := by decide

example : getNode (exec [.createNode 1, .setProp 1 0 1, .txn .bump, .setProp 1 0 2, .deleteNode 1]) 1 = none := by
  decide

example : nodeCountG false (exec [.createNode 1, .txn .bump, .setProp 1 0 2]) = 1
    ∧ allNodesG false (exec [.createNode 1, .txn .bump, .setProp 1 0 2]) = [(1, 2)] := by decide

/-- the hypothesis of `C07_partial` is satisfiable: a logged snapshot at version 1, a write at 3 -/
example :
    let s := exec [.createNode 1, .createNode 1, .createEdge 1 2 [], .setEdgeProp 1 0 7, .txn .bump, .txn .bump]
    (∃ x ∈ (s.edges 1).log, x.version ≤ 2) ∧ getEdgeAt (step s (.setEdgeProp 1 0 8)).1 1 2 = some (1, [(0, 7)]) := by
  decide

end SgModel.Mvcc
