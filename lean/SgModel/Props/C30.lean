import SgModel.Lemmas.ColumnStore
/-!
# C30 — the column store behaves as a map under every update sequence

Property theorems only (helpers: `Lemmas/Column.lean`, `Lemmas/ColumnData.lean`,
`Lemmas/ColumnStore.lean`).  Every theorem is quantified over an **arbitrary representation
policy** `P` (any `dense_is_smaller`, any promotion gate), all operation histories, all rows,
keys and values: sparse→dense promotion, upward extension, rebasing below the base, demotion
back to sparse and the spill of a typed column to `Other` cannot be observed through
`get` / `has` / `len` / `keys`, whatever the policy decides.  Nothing is bounded.
-/
namespace SgModel.Column

variable {α : Type}

/-! ### `ColumnData<T>` -/

/-- The invariant (map keys unique; band and bitmap equally long; kept count = number of
presence bits) holds initially and is preserved by `set` and `remove`, for any policy. -/
theorem C30_colData_invariant (P : Policy) (e : Nat) (d : α) :
    (ColData.sparse ([] : List (Nat × α))).WF
    ∧ (∀ c : ColData α, c.WF → ∀ i v, (c.set P e d i v).WF)
    ∧ (∀ c : ColData α, c.WF → ∀ i, (c.remove d i).WF) :=
  ⟨ColData.wf_new, fun _ h i v => ColData.wf_set P e d h i v, fun _ h i => ColData.wf_remove d h i⟩

/-- get-after-set: the written row reads the written value, every other row is unchanged —
through promotion, in-band writes, extension, rebasing and demotion alike. -/
theorem C30_colData_get_set (P : Policy) (e : Nat) (d : α) (c : ColData α) (h : c.WF)
    (i : Nat) (v : α) (j : Nat) :
    (c.set P e d i v).get j = if j = i then some v else c.get j :=
  ColData.get_set P e d h i v j

/-- get-after-remove: the removed row reads absent (never the default), others unchanged. -/
theorem C30_colData_get_remove (d : α) (c : ColData α) (h : c.WF) (i j : Nat) :
    (c.remove d i).get j = if j = i then none else c.get j :=
  ColData.get_remove d h i j

/-- count correct: `len` is the length of a duplicate-free enumeration of exactly the rows
that read present; it goes up by one exactly when `set` creates a row and down by one
exactly when `remove` deletes one (so the kept `count` never under- or overflows). -/
theorem C30_colData_count_correct (P : Policy) (e : Nat) (d : α) (c : ColData α) (h : c.WF) :
    (KeysNodup c.entries ∧ (∀ j, alGet c.entries j = c.get j) ∧ c.entries.length = c.len)
    ∧ (∀ i v, (c.set P e d i v).len = if (c.get i).isSome then c.len else c.len + 1)
    ∧ (∀ i, (c.remove d i).len = if (c.get i).isSome then c.len - 1 else c.len) :=
  ⟨⟨ColData.keysNodup_entries h, ColData.alGet_entries c, ColData.length_entries h⟩,
   fun i v => ColData.len_set P e d h i v, fun i => ColData.len_remove d h i⟩

/-! ### typed `Column` with spill to `Other` -/

/-- get-after-set / get-after-remove for a typed column: a value of another type (or a
Null, or a value without a typed column) spills the column to `Other` and is then simply
the row's value; everything stored before survives the spill. -/
theorem C30_column_lookup_set_remove (P : Policy) (c : Col) (h : c.WF) (i : Nat) (v : PV) (j : Nat) :
    (c.set P i v).lookup j = (if j = i then some v else c.lookup j)
    ∧ (c.remove i).lookup j = (if j = i then none else c.lookup j)
    ∧ (c.set P i v).WF ∧ (c.remove i).WF :=
  ⟨Col.lookup_set P h i v j, Col.lookup_remove h i j, Col.wf_set P h i v, Col.wf_remove h i⟩

/-- `Column::len` counts exactly the rows that have an entry. -/
theorem C30_column_count_correct (c : Col) (h : c.WF) :
    KeysNodup c.spill ∧ (∀ j, alGet c.spill j = c.lookup j) ∧ c.spill.length = c.len :=
  ⟨Col.keysNodup_spill h, Col.alGet_spill c, Col.length_spill h⟩

/-! ### `ColumnStore` -/

/-- The store refines the (row, key) → value map: after any history, under any policy, the
binding of every (row, key) is the one the reference map holds. -/
theorem C30_store_refines_map (P : Policy) (ops : List Op) (r k : Nat) :
    Store.lookup (Store.run P ops) r k = RefMap.get (RefMap.run ops) r k :=
  refines_foldl P ops Store.wf_nil (fun _ _ => rfl) r k

/-- … hence `get_property` returns the last value set (Null if none). -/
theorem C30_get_property_eq (P : Policy) (ops : List Op) (r k : Nat) :
    Store.get (Store.run P ops) r k = (RefMap.get (RefMap.run ops) r k).getD .null := by
  unfold Store.get; rw [C30_store_refines_map]

/-- `get_property_keys` lists exactly the keys that have a binding for the row, each once. -/
theorem C30_keys_eq (P : Policy) (ops : List Op) (r : Nat) :
    (∀ k, k ∈ Store.keys (Store.run P ops) r ↔ (RefMap.get (RefMap.run ops) r k).isSome = true)
    ∧ (Store.keys (Store.run P ops) r).Nodup := by
  refine ⟨fun k => ?_, Store.nodup_keys (Store.wf_run P ops) r⟩
  rw [Store.mem_keys (Store.wf_run P ops), C30_store_refines_map]

/-- The representation is not observable: two different policies give the same reads. -/
theorem C30_representation_independent (P Q : Policy) (ops : List Op) (r k : Nat) :
    Store.get (Store.run P ops) r k = Store.get (Store.run Q ops) r k
    ∧ (k ∈ Store.keys (Store.run P ops) r ↔ k ∈ Store.keys (Store.run Q ops) r) := by
  refine ⟨by rw [C30_get_property_eq, C30_get_property_eq], ?_⟩
  rw [(C30_keys_eq P ops r).1, (C30_keys_eq Q ops r).1]

/-! ### the model satisfies the executable specification -/

/-- For every policy, history and set of probes, the model's observation satisfies the
specification that the harness evaluates on the implementation's observations. -/
theorem C30_model_refines_spec (P : Policy) (ops : List Op) (p : Probes) :
    specObs (RefMap.run ops) p (Store.obs (Store.run P ops) p) = true := by
  unfold specObs Store.obs
  simp only [Bool.and_eq_true, beq_iff_eq]
  constructor
  · apply List.map_congr_left
    intro c _
    exact C30_get_property_eq P ops c.1 c.2
  · apply zipAll_map
    intro r _
    have hk := C30_keys_eq P ops r
    simp only [keysOk, Bool.and_eq_true, List.all_eq_true]
    refine ⟨⟨fun k hk' => (hk.1 k).mp hk', fun k _ => ?_⟩, nodupB_of_nodup hk.2⟩
    cases hb : (RefMap.get (RefMap.run ops) r k).isSome
    · simp
    · simpa using (hk.1 k).mpr hb

/-! ### Non-vacuity: a policy under which tiny columns already change representation -/

/-- promotion, in-band write, extension, rebase, demotion and spill all happen … -/
example : ((ColData.sparse []).set tinyPolicy 8 (0 : Int) 5 50 |>.set tinyPolicy 8 0 6 60).isDense = true := by decide
example : (((ColData.sparse []).set tinyPolicy 8 (0 : Int) 5 50 |>.set tinyPolicy 8 0 6 60
    |>.set tinyPolicy 8 0 4 40).get 4, ((ColData.sparse []).set tinyPolicy 8 (0 : Int) 5 50
    |>.set tinyPolicy 8 0 6 60 |>.set tinyPolicy 8 0 4 40).isDense) = (some 40, true) := by decide
example : ((ColData.sparse []).set tinyPolicy 8 (0 : Int) 5 50 |>.set tinyPolicy 8 0 6 60
    |>.set tinyPolicy 8 0 100 7).isDense = false := by decide
example : (Store.run tinyPolicy [.set 5 1 (.int 50), .set 6 1 (.int 60), .set 7 1 (.str 3),
    .remove 5 1]).map (fun e => (e.1, e.2.isDense, e.2.len)) = [(1, false, 2)] := by decide
/-- … and the reads are those of the map -/
example : Store.get (Store.run tinyPolicy [.set 5 1 (.int 50), .set 6 1 (.int 60), .set 4 1 (.int 40),
    .set 90 1 (.int 9), .clearRow 6]) 4 1 = .int 40 := by decide
example : Store.keys (Store.run tinyPolicy [.set 5 1 (.int 50), .set 5 2 .null, .set 5 3 (.other 1),
    .remove 5 1]) 5 = [2, 3] := by decide

end SgModel.Column
