import SgModel.Lemmas.PersistSM
/-!
# C32 — replicated requests have their persistence effect on every replica

`GraphStateMachine::apply` (model: `applyReq` / `applyAll` over the Persist model) applied to
the same request sequence on fresh stores.  A replica is determined by the tenant
registrations `cfgs` and the request sequence alone — the model has no clock, no iteration
order and no id allocation as inputs, and the correspondence run checks that the code's
observable output has none either (2-3 real state machines, compared with each other and
with the model).  All theorems quantify over all request sequences and registrations.
-/
namespace SgModel.Persist

/-- **Effect of the requests.**  For a registered tenant, what `recover` returns on a replica
that applied `reqs` is the effect — creations, deletions and property updates, in order —
of exactly the requests of that tenant that were answered without error. -/
theorem C32_apply_refines_spec (cfgs : Nat → Cfg) (reqs : List Req) (t : Nat) (o : ReplicaObs)
    (ho : replicaObs smFixed cfgs reqs t = some o) :
    o.resps = (applyAll smFixed cfgs reqs []).2
    ∧ o.recovered = KV.applyAll {} (effective t reqs o.resps) := by
  rw [replicaObs_eq] at ho
  have hI : smFixed.impl.recover = recover := rfl
  rw [hI] at ho
  cases hrec : recover (cfgs t) (crash ((applyAll smFixed cfgs reqs []).1.state t)) with
  | error e => simp [hrec] at ho
  | ok p =>
    obtain ⟨st, kv⟩ := p
    have hreg : (cfgs t).registered = true := by
      cases hr : (cfgs t).registered with
      | true => rfl
      | false => simp [recover, hr] at hrec
    simp only [hrec, Option.some.injEq] at ho
    subst ho
    refine ⟨rfl, ?_⟩
    have hkv : kv = ((applyAll smFixed cfgs reqs []).1.state t).kv := by
      simp [recover, hreg, crash] at hrec
      exact hrec.2.symm
    have := (applyAll_proj cfgs t hreg reqs []).1
    simp only
    rw [hkv, this]
    rfl

/-- **Replicas agree.**  Any number of replicas that applied the same requests under the same
registrations made the same observations, and these satisfy the effect equation. -/
theorem C32_replicas_agree (cfgs : Nat → Cfg) (reqs : List Req) (t : Nat) (o₁ o₂ : ReplicaObs)
    (h₁ : replicaObs smFixed cfgs reqs t = some o₁) (h₂ : replicaObs smFixed cfgs reqs t = some o₂) :
    o₁ = o₂ ∧ o₁.recovered = KV.applyAll {} (effective t reqs o₁.resps) := by
  refine ⟨by rw [h₁] at h₂; exact Option.some.inj h₂, (C32_apply_refines_spec cfgs reqs t o₁ h₁).2⟩

/-- A request that is answered with an error (tenant unknown or disabled, quota exceeded)
leaves the tenant's state as it was. -/
theorem C32_failing_request_leaves_state (cfgs : Nat → Cfg) (m : Replica) (r : Req)
    (hreg : (cfgs r.tenant).registered = true) (herr : (applyReq smFixed cfgs m r).2 = .error) :
    (applyReq smFixed cfgs m r).1.state r.tenant = m.state r.tenant := by
  simp only [applyReq, smFixed, state_put, if_true] at herr ⊢
  have hkv := trace_kv (cfgs r.tenant) hreg r.toOp (m.state r.tenant)
  cases hr : (traceOp fixed (cfgs r.tenant) r.toOp (m.state r.tenant)).result with
  | ok => rw [hr] at herr; exact absurd herr (respOf_ok_ne_error r)
  | err e =>
    have hne : (traceOp fixed (cfgs r.tenant) r.toOp (m.state r.tenant)).result ≠ .ok := by
      rw [hr]; simp
    exact (hkv.2.1 hne).1

/-- Requests addressed to other tenants do not change what a tenant's replica holds. -/
theorem C32_other_tenants_do_not_interfere (cfgs : Nat → Cfg) (reqs : List Req) (m : Replica) (t : Nat)
    (h : ∀ r ∈ reqs, r.tenant ≠ t) :
    (applyAll smFixed cfgs reqs m).1.state t = m.state t :=
  applyAll_other smFixed cfgs t reqs m h

/-- An unlabelled node is stored without labels (the pinned tree gave it the label `""`). -/
theorem C32_unlabelled_node_has_no_label (t id : Nat) (ps : Props) :
    (Req.createNode t id [] ps).toOp = .createNode id [] ps := rfl

/-- The model satisfies the executable specification that the harness evaluates on the
observations of the real replicas — for any number of replicas. -/
theorem C32_model_refines_spec (cfgs : Nat → Cfg) (reqs : List Req) (t : Nat) (o : ReplicaObs) (n : Nat)
    (ho : replicaObs smFixed cfgs reqs t = some o) :
    specReplicas reqs t (List.replicate n o) = true := by
  have hspec := C32_apply_refines_spec cfgs reqs t o ho
  have hreg : (cfgs t).registered = true := by
    rw [replicaObs_eq] at ho
    have hI : smFixed.impl.recover = recover := rfl
    rw [hI] at ho
    cases hr : (cfgs t).registered with
    | true => rfl
    | false => simp [recover, hr] at ho
  have hp := applyAll_proj cfgs t hreg reqs []
  unfold specReplicas
  simp only [Bool.and_eq_true, List.all_eq_true, beq_iff_eq]
  refine ⟨?_, ?_⟩
  · intro o' ho'
    have : o' = o := List.eq_of_mem_replicate ho'
    subst this
    refine ⟨⟨by rw [hspec.1]; exact hp.2.1, ?_⟩, hspec.2⟩
    intro rp hrp
    rw [hspec.1] at hrp
    exact hp.2.2 rp hrp
  · cases n with
    | zero => simp
    | succ n =>
      simp only [List.replicate_succ, List.all_eq_true, beq_iff_eq]
      intro o' ho'
      exact List.eq_of_mem_replicate ho'

/-! ### The pinned tree violated the property (witnesses replayed by the corpus) -/

/-- an acknowledged property update is missing from every replica's recovered graph -/
theorem C32_counterexample_update :
    ∃ o, replicaObs smLegacy (fun _ => {}) [.createNode 0 1 [1] [], .updateNode 0 1 [(0, 3)]] 0 = some o
      ∧ o.resps = [.nodeCreated 1, .ok]
      ∧ specReplicas [.createNode 0 1 [1] [], .updateNode 0 1 [(0, 3)]] 0 [o, o] = false := by
  refine ⟨_, rfl, ?_, ?_⟩ <;> decide

/-- an unlabelled node comes back with the label `""` (tag 0) -/
theorem C32_counterexample_empty_label :
    ∃ o, replicaObs smLegacy (fun _ => {}) [.createNode 0 1 [] []] 0 = some o
      ∧ o.recovered.nodes = [(1, ⟨[0], []⟩)]
      ∧ specReplicas [.createNode 0 1 [] []] 0 [o, o] = false := by
  refine ⟨_, rfl, ?_, ?_⟩ <;> decide

/-! ### Non-vacuity -/

/-- a failing request (quota 2 reached), a request to an unregistered tenant, an edge to a
missing node (stored: `persist_create_edge` has no referential check) and an update -/
example :
    replicaObs smFixed (fun t => if t = 0 then { maxNodes := some 2 } else { registered := false })
      [.createNode 0 1 [] [], .createNode 0 2 [2, 1, 2] [], .createNode 0 3 [] [], .createNode 1 4 [] [],
       .createEdge 0 1 1 9 1 [], .updateNode 0 2 [(0, 3)]] 0
    = some ⟨[.nodeCreated 1, .nodeCreated 2, .error, .error, .edgeCreated 1, .ok],
            { nodes := [(1, ⟨[], []⟩), (2, ⟨[1, 2], [(0, 3)]⟩)], edges := [(1, ⟨1, 9, 1, []⟩)] }⟩ := by decide

end SgModel.Persist
