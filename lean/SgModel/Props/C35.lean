import SgModel.Lemmas.CyWParam
/-!
# C35 — parameterised queries never answer differently from inlined literals

`eval g P row e` looks parameters up in `P` at run time (the engine's `Expression::Parameter`
arm); `substE ps` is `substitute_expr` (parameter → literal).  Proved for every expression of
the model (all constructors, including list / map literals and the comprehension binder):

* `C35_subst_expr_lemma`   — the substitution lemma `eval P (substE ps e) = eval (ps ++ P) e`;
* `C35_unvisited_position_errors_or_agrees` — a position that `substitute_params` does not visit
  keeps its `$p`; evaluating it without the binding either fails or gives the very value the
  inlined text gives (monotonicity of `eval` in the parameter map);
* `C35_subst_sound_expr`   — engine path vs inlined text for one expression, visited or not;
* `C35_literal_roundtrip_*` — "written as a literal" is well defined for the scalar classes the
  harness inlines (strings with quotes / backslashes / any code point; integers; bool/null are
  keywords).

Statement level (`Stmt.substVisited` vs `Stmt.inline` under `exec`) is **not** proved — see the
comment at the end; it is compared differentially by `harness/src/bin/c35.rs`.
-/
namespace SgModel.CyW

/-- **substitution lemma**: evaluating the substituted expression is evaluating the original
with the substituted parameters bound (in front of whatever was bound already) -/
theorem C35_subst_expr_lemma (g : G) (ps P : Props) (e : E) :
    ∀ row, eval g P row (substE ps e) = eval g (ps ++ P) row e := by
  induction e with
  | lit v => intro row; rfl
  | var x => intro row; rfl
  | prop x k => intro row; rfl
  | param p =>
    intro row
    simp only [substE, eval, plookup_append]
    cases h : plookup ps p with
    | some v => simp [eval]
    | none => simp [eval]
  | lnil => intro row; rfl
  | lcons h t ih1 ih2 => intro row; simp only [substE, eval, ih1, ih2]
  | mnil => intro row; rfl
  | mcons k h t ih1 ih2 => intro row; simp only [substE, eval, ih1, ih2]
  | un op a ih => intro row; simp only [substE, eval, ih]
  | bin op a b ih1 ih2 => intro row; simp only [substE, eval, ih1, ih2]
  | ite c t e ih1 ih2 ih3 => intro row; simp only [substE, eval, ih1, ih2, ih3]
  | idx a i ih1 ih2 => intro row; simp only [substE, eval, ih1, ih2]
  | comp x l f m ih1 ih2 ih3 =>
    intro row
    simp only [substE, eval, ih1]
    cases eval g (ps ++ P) row l with
    | error e => rfl
    | ok lv =>
      simp only [bind, Except.bind]
      split
      · rfl
      · split
        · rfl
        · apply filterMapV_congr
          intro v
          simp only [ih2, ih3]

/-- monotonicity: a successful evaluation is unaffected by binding more parameters -/
theorem C35_eval_monotone_in_params (g : G) (P P' : Props) (hP : Extends P P') (e : E) (row : Row) (v : V)
    (h : eval g P row e = .ok v) : eval g P' row e = .ok v := eval_mono g P P' hP e row v h

/-- a position `substitute_params` does not visit keeps `$p` and is evaluated with nothing
bound: it either **errors** or answers exactly what the inlined text answers -/
theorem C35_unvisited_position_errors_or_agrees (g : G) (ps : Props) (row : Row) (e : E) :
    (∃ err, eval g [] row e = .error err) ∨ eval g [] row e = eval g [] row (substE ps e) := by
  cases h : eval g [] row e with
  | error err => exact Or.inl ⟨err, rfl⟩
  | ok v =>
    refine Or.inr ?_
    rw [C35_subst_expr_lemma g ps [] e row]
    exact (eval_mono g [] (ps ++ []) (extends_nil _) e row v h).symm

/-- … and when `$p` is supplied but the position is unvisited and actually evaluated, it is
an error (`Unresolved parameter`), never a default -/
theorem C35_unbound_param_is_error (g : G) (row : Row) (p : Nat) :
    eval g [] row (.param p) = .error .param := rfl

/-- engine path against inlined text for one expression position: `visited` decides whether
`substitute_params` rewrote it; whatever it is, a successful answer is the inlined answer -/
theorem C35_subst_sound_expr (g : G) (ps : Props) (row : Row) (e : E) (visited : Bool) (v : V)
    (h : eval g [] row (if visited then substE ps e else e) = .ok v) :
    eval g [] row (substE ps e) = .ok v := by
  cases visited with
  | true => exact h
  | false =>
    rcases C35_unvisited_position_errors_or_agrees g ps row e with ⟨err, he⟩ | he
    · simp only [Bool.false_eq_true, if_false] at h; rw [he] at h; cases h
    · simp only [Bool.false_eq_true, if_false] at h; rw [← he]; exact h

/-- lists / maps of parameters: the engine drops the `Result` of the recursive substitution
(`executor/mod.rs:645-652`); a missing parameter below a list literal is therefore not
reported at substitution time — it stays and fails at evaluation -/
theorem C35_missing_in_list_fails_at_eval (g : G) (ps : Props) (row : Row) (p : Nat)
    (hp : plookup ps p = none) :
    missingParam ps (.lcons (.param p) .lnil) = false
      ∧ eval g [] row (substE ps (.lcons (.param p) .lnil)) = .error .param := by
  constructor
  · rfl
  · simp [substE, hp, eval, plookup, bind, Except.bind]

/-- scripts: the substitution lemma holds for every expression of every statement run with
the same parameter map, one after another — substitution depends on `ps` and the expression
only, not on what was executed before.  (That the ENGINE keeps its parameter map from one
`execute` to the next is not a statement about this model: it is compared differentially by
the script cases of `harness/src/bin/c35.rs`.) -/
theorem C35_subst_expr_lemma_on_scripts (g : G) (ps P : Props) (row : Row) (script : List (List E)) :
    script.map (fun es => (es.map (substE ps)).map (eval g P row))
      = script.map (fun es => es.map (eval g (ps ++ P) row)) := by
  apply List.map_congr_left
  intro es _
  simp [List.map_map, Function.comp, C35_subst_expr_lemma]

/-- a parameter inside a NESTED list / map literal keeps its place and its structure: the
substituted literal evaluates to the nested value itself, never to a flattened or nulled
element — for every value `v`, graph and row (class of the seeded change C35-c) -/
theorem C35_nested_literal_keeps_structure (g : G) (row : Row) (v : V) :
    eval g [] row (substE [(0, v)] (.lcons (.lcons (.param 0) .lnil) (.lcons (.lit (.int 2)) .lnil)))
      = .ok (.cons (.cons v .nil) (.cons (.int 2) .nil))
    ∧ eval g [] row (substE [(0, v)] (.lcons (.mcons 0 (.param 0) .mnil) .lnil))
      = .ok (.cons (.mcons 0 v .mnil) .nil) :=
  ⟨rfl, rfl⟩

/-! ### three-valued logic: null is not false -/

/-- AND / OR / XOR / NOT of the model are Kleene's: an unknown operand stays unknown unless
the other operand decides the result -/
theorem C35_connectives_three_valued :
    binop .or .null (.bool false) = .ok .null ∧ binop .or .null (.bool true) = .ok (.bool true)
    ∧ binop .and .null (.bool true) = .ok .null ∧ binop .and .null (.bool false) = .ok (.bool false)
    ∧ binop .xor .null (.bool true) = .ok .null ∧ unop .not .null = .ok .null
    ∧ binop .inList .null .nil = .ok (.bool false)
    ∧ binop .inList (.int 1) (.cons .null .nil) = .ok .null :=
  ⟨rfl, rfl, rfl, rfl, rfl, rfl, rfl, rfl⟩

/-- substituting `$p = null` as a direct operand of AND keeps the result unknown, also under
NOT and IS NULL — for every graph and row -/
theorem C35_null_param_under_connectives (g : G) (row : Row) :
    eval g [] row (substE [(0, .null)] (.un .not (.bin .and (.param 0) (.lit (.bool true))))) = .ok .null
    ∧ eval g [] row (substE [(0, .null)] (.un .isNull (.bin .or (.param 0) (.lit (.bool false)))))
        = .ok (.bool true) :=
  ⟨rfl, rfl⟩

/-- the rewrite of the seeded change C35-a (fold AND / OR reading a null literal as false) is
**not** semantics preserving: on `$p OR false` with `$p = null` it answers false, the
unfolded (= inlined) expression answers null -/
theorem C35_fold_null_as_false_unsound :
    okOf (eval G.empty [] [] (foldConn (substE [(0, .null)] (.bin .or (.param 0) (.lit (.bool false))))))
      = some (.bool false)
    ∧ okOf (eval G.empty [] [] (substE [(0, .null)] (.bin .or (.param 0) (.lit (.bool false)))))
      = some .null := by decide

/-! ### "written as a literal" is well defined -/

/-- strings: every code point, quotes and backslashes included -/
theorem C35_literal_roundtrip_string (s rest : List Char) :
    parseStr (renderStr s ++ rest) = some (s, rest) := by
  simp only [renderStr, List.cons_append, parseStr, List.append_assoc]
  exact unescBody_escBody s rest

/-- integers, including both `i64` extremes (no bound at all) -/
theorem C35_literal_roundtrip_int (i : Int) : parseInt (renderInt i) = i := by
  simp only [parseInt, renderInt, List.reverse_reverse]
  rw [valRev_digitsRev _ _ (Nat.lt_succ_self _)]
  by_cases h : i < 0
  · simp only [h, decide_true, if_true]; omega
  · simp only [h, decide_false, Bool.false_eq_true, if_false]; omega

/-
Not proved (kept visible): the statement-level lifting

  theorem C35_subst_query_sound (vis : Clause → Bool) (ps : Props) (g : G) (q : Stmt) r :
      exec [] g (q.substVisited vis ps) = .ok r → exec [] g (q.inline ps) = .ok r

It follows from `C35_subst_sound_expr` by congruence of `exec` in its expression positions
(every clause uses its expressions only through `eval`), but the congruence lemmas for all ten
clause forms were not written.  The engine-vs-inlined comparison at statement level is
differential (`harness/src/bin/c35.rs`).
-/

/-! ### non-vacuity -/

example : okOf (eval G.empty [] [] (substE [(0, .int 5)]
    (.comp 3 (.lit (V.ofList [.int 1, .int 2])) (.bin .gt (.var 3) (.lit (.int 1)))
      (.bin .add (.var 3) (.param 0))))) = some (V.ofList [.int 7]) := by decide
example : parseStr (renderStr ['a', '\'', '\\', 'n', 'é']) = some (['a', '\'', '\\', 'n', 'é'], []) := by
  decide
example : renderInt (-9223372036854775808) = (true, [9,2,2,3,3,7,2,0,3,6,8,5,4,7,7,5,8,0,8]) := by
  decide +kernel

end SgModel.CyW
