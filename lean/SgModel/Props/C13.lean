import SgModel.Lemmas.SnapImport
import SgModel.Lemmas.SnapIso
import SgModel.Lemmas.SnapRollback
import SgModel.Lemmas.SnapJsonUndoStep
import SgModel.Lemmas.SnapLidxFinal
/-!
# C13 — a failed snapshot import leaves the store unchanged

Property theorems only (helpers: `Lemmas/SnapImport.lean`).  The model is
`SgModel.SnapJson.importLines` (`import_tenant_with_dedup`): the fold over the body lines with
the id-remap table, the dedup index, the merge path, the undo journal of the repaired code,
and `rollback` on the first failing line.  A truncated or corrupted snapshot is just another
line sequence (ending in `Line.bad` where the reader failed), so quantifying over all line
sequences covers every truncation point and every corruption.

Full statement of the property on the model (kept visible; only parts of it are proved):

    ∀ ks hdr st lines (st well-formed),
      match importLines false true ks hdr st lines with
      | (st', some _) => some st' = mergeSpec ks hdr st lines
      | (st', none)   => logical st' = logical st ∧ lidxOk st'

Proved below: the success half in full (`C13_success_is_merge_spec`), and the **logical-graph
clause of the failure half in full generality** — any dedup keys, any header labels, any
store satisfying `StoreWF2`, any line sequence
(`C13_failed_import_restores_store_partial`, `C13_failed_import_restores_logical_graph_partial`;
helpers `Lemmas/SnapJsonUndo.lean`, `Lemmas/SnapJsonUndoStep.lean`): the undo journal of the
merge path undoes every merge it recorded, relationships between merged nodes are taken back,
and deleting the created nodes removes the rest, so the node list (labels, row and column maps
— not only the merged view), the relationship list and the hierarchy declarations are
*exactly* what they were.  `C13_failed_import_without_dedup_restores_partial` is the earlier
special case without dedup keys, kept for its weaker well-formedness assumption.

The label-index clause is proved too (`C13_failed_import_label_index_exact`,
`C13_failed_import_restores_logical_graph`, `C13_failed_import_satisfies_spec`; helpers
`Lemmas/SnapLidxUndo.lean`, `SnapLidxExact.lean`, `SnapLidxImport.lean`, `SnapLidxFinal.lean`).
After a rollback the index equals the original one only up to the order of its entries (an
entry that was emptied and re-created moves to the end), so the invariant is extensional:
`LidxExact st` = under every label the index lists exactly the ids of the nodes carrying it
(`lk l st.lidx` as a set) **and** the index is well formed (a label is a key at most once, an
id is listed at most once per label — true by construction of the real
`HashMap<Label, HashSet<NodeId>>`; the list model is finer than the implementation, and the
executable `lidxOk` alone does not exclude a shadowed duplicate key).  `LidxExact` is kept by
every line of an import, by every `undo1` and by every `deleteNode`, and implies `lidxOk`.
So the failure half holds in full under `StoreWF2 st ∧ LidxExact st`; the theorems that carry
`_partial` below are the earlier, weaker forms (no label-index clause), kept because they need
no hypothesis on the index.
-/
namespace SgModel.SnapJson

/-- A successful import builds exactly the store of the merge specification: the undo journal
is bookkeeping and never influences the result.  Holds for every store, every line sequence
(truncated, corrupted or not) and every list of dedup keys. -/
theorem C13_success_is_merge_spec (ks hdr : List Str) (st : St) (lines : List Line) (st' : St)
    (stats : Stats) (h : importLines false true ks hdr st lines = (st', some stats)) :
    mergeSpec ks hdr st lines = some st' := by
  unfold mergeSpec
  rw [import_ok_eq_mergeSpec false ks hdr st lines st' stats h]

/-- **Failure half, no dedup keys**: for every well-formed store (node ids below the allocation
counter, relationships between existing nodes) and **every** line sequence — every truncation
point, every corruption — if the import fails, the store it leaves has the same logical graph
(nodes in order with labels and merged properties, relationships, hierarchy declarations) as
before.  `_partial`: without dedup keys, and without the label-index clause. -/
theorem C13_failed_import_without_dedup_restores_partial (hdr : List Str) (st : St)
    (lines : List Line) (hwf : StoreWF st)
    (hfail : (importLines false true [] hdr st lines).2 = none) :
    logical (importLines false true [] hdr st lines).1 = logical st := by
  have hinv := ndinv_fold (st0 := st) lines { st := st, dedup := [] } (ndinv_init st)
  unfold importLines at hfail ⊢
  simp only [List.isEmpty_nil, ↓reduceIte] at hfail ⊢
  cases hf : foldLines false true [] { st := st, dedup := [] } lines with
  | mk s ok =>
    rw [hf] at hinv hfail
    cases ok with
    | true => exact absurd hfail (by intro h; cases h)
    | false => exact rollback_no_dedup hwf hinv

/-- **Failure half, any dedup keys — the store itself**: for every store satisfying
`StoreWF2` (distinct node ids below the node counter, relationship ids below the relationship
counter, relationships between existing nodes), every list of dedup keys and header labels and
**every** line sequence: if the import fails, the node list (ids, labels, row maps, column
maps), the relationship list and the hierarchy declarations of the store it leaves are
*equal* to those before — every property, label and relationship the merge path added to a
pre-existing node has been taken back, and every created node is gone.
`_partial`: the label-index clause is not covered (see the header). -/
theorem C13_failed_import_restores_store_partial (ks hdr : List Str) (st : St) (lines : List Line)
    (hwf : StoreWF2 st) (hfail : (importLines false true ks hdr st lines).2 = none) :
    (importLines false true ks hdr st lines).1.nodes = st.nodes
    ∧ (importLines false true ks hdr st lines).1.edges = st.edges
    ∧ (importLines false true ks hdr st lines).1.hier = st.hier :=
  failed_import_restores ks hdr st lines hwf hfail

/-- … hence the same logical graph (the statement of the property's failure half, minus the
label-index clause): nodes in order with labels and merged properties, relationships by
endpoint rank with type and properties, hierarchy declarations. -/
theorem C13_failed_import_restores_logical_graph_partial (ks hdr : List Str) (st : St)
    (lines : List Line) (hwf : StoreWF2 st)
    (hfail : (importLines false true ks hdr st lines).2 = none) :
    logical (importLines false true ks hdr st lines).1 = logical st := by
  obtain ⟨a, b, c⟩ := failed_import_restores ks hdr st lines hwf hfail
  unfold logical nodeIds
  rw [a, b, c]

/-- **Label-index clause of the failure half**: if the index was exact before
(`LidxExact st`), then after a failed import — any dedup keys, any line sequence — it is exact
again, extensionally and as the executable `lidxOk`. -/
theorem C13_failed_import_label_index_exact (ks hdr : List Str) (st : St) (lines : List Line)
    (hwf : StoreWF2 st) (hix : LidxExact st)
    (hfail : (importLines false true ks hdr st lines).2 = none) :
    LidxExact (importLines false true ks hdr st lines).1
    ∧ lidxOk (importLines false true ks hdr st lines).1 = true :=
  failed_import_lidx ks hdr st lines hwf hix hfail

/-- **The failure half of C13, in full**: for every well-formed store with an exact label
index, every list of dedup keys and header labels and every line sequence, a failed import
leaves the same logical graph and an exact label index — exactly the `(st', none)` branch of
the statement in the header. -/
theorem C13_failed_import_restores_logical_graph (ks hdr : List Str) (st : St) (lines : List Line)
    (hwf : StoreWF2 st) (hix : LidxExact st)
    (hfail : (importLines false true ks hdr st lines).2 = none) :
    logical (importLines false true ks hdr st lines).1 = logical st
    ∧ lidxOk (importLines false true ks hdr st lines).1 = true :=
  ⟨C13_failed_import_restores_logical_graph_partial ks hdr st lines hwf hfail,
    (failed_import_lidx ks hdr st lines hwf hix hfail).2⟩

/-- … i.e. the model satisfies the executable specification the harness evaluates on the real
store after an `Err` (`specImport … false post`). -/
theorem C13_failed_import_satisfies_spec (ks hdr : List Str) (st : St) (lines : List Line)
    (hwf : StoreWF2 st) (hix : LidxExact st)
    (hfail : (importLines false true ks hdr st lines).2 = none) :
    specImport ks hdr st lines false (importLines false true ks hdr st lines).1 = true :=
  failed_import_spec ks hdr st lines hwf hix hfail

/-- The journal entries a merge pushes are exactly the inverse of what it changed: undoing
them (newest first) on the node list after the merge gives the node list before it
(`Undoes`); stated for the property fold of one merged record. -/
theorem C13_merge_journal_undoes_merge (eid : Nat) (pvs : List (Str × PV)) (st : St)
    (j : List Undo) (hnd : (nodeIds st).Nodup) :
    Undoes st j (pvs.foldl (mergeProp true eid) (st, j)).1 (pvs.foldl (mergeProp true eid) (st, j)).2 :=
  undoes_foldl_mergeProp eid pvs st j hnd

/-- The import fails exactly when some line cannot be applied (unreadable line, ill-typed
record, relationship to an unknown node id); what is returned then is the rolled-back store. -/
theorem C13_failure_is_rollback (ks hdr : List Str) (st : St) (lines : List Line) :
    let s0 : Imp := { st := st, dedup := if ks.isEmpty then [] else prepopulate ks hdr st }
    (foldLines false true ks s0 lines).2 = false →
    importLines false true ks hdr st lines = (rollback (foldLines false true ks s0 lines).1, none) := by
  intro s0 h
  unfold importLines
  show (match foldLines false true ks s0 lines with
        | (s, true) => _
        | (s, false) => (rollback s, none)) = _
  cases hf : foldLines false true ks s0 lines with
  | mk s ok =>
    rw [hf] at h
    simp only at h
    subst h
    rfl

/-- A line that cannot be applied stops the import: nothing after it is looked at
(`∀ rest`), so a truncation point inside line `k` behaves like the prefix of `k` lines
followed by one bad line. -/
theorem C13_bad_line_stops (ks hdr : List Str) (st : St) (pre rest : List Line) :
    importLines false true ks hdr st (pre ++ Line.bad :: rest)
      = importLines false true ks hdr st (pre ++ [Line.bad]) := by
  unfold importLines
  simp only [foldLines_append]
  cases foldLines false true ks
      { st := st, dedup := if ks.isEmpty then [] else prepopulate ks hdr st } pre with
  | mk s ok => cases ok <;> rfl

/-- The model satisfies the logical half of the executable specification on success
(`_partial`: the label-index half `lidxOk` of `specImport` is proved only for imports into the
empty store — `C12_label_index_complete` — and otherwise checked differentially). -/
theorem C13_model_refines_spec_ok_partial (ks hdr : List Str) (st : St) (lines : List Line)
    (st' : St) (stats : Stats) (h : importLines false true ks hdr st lines = (st', some stats)) :
    ∃ want, mergeSpec ks hdr st lines = some want ∧ lgEqv (logical want) (logical st') = true :=
  ⟨st', C13_success_is_merge_spec ks hdr st lines st' stats h, lgEqv_refl _⟩

/-! ### The pinned tree violated the property (witness replayed by `corpus/C13`) -/

def sName : Str := [110, 97, 109, 101]
def sExtra : Str := [101, 120, 116, 114, 97]

/-- the store `{(:C {name: "x"})}` -/
def preC : St :=
  { nodes := [{ id := 0, labels := [[67]], row := [(sName, .str [120])], col := [(sName, .str [120])] }],
    lidx := [([67], [0])], nextNode := 1 }

/-- snapshot body: a node `:C:D {name:"x", extra:1}` (merges into the existing node on
`name`), a relationship from it to itself, a relationship to an unknown node id -/
def dangling : List Line :=
  [ .node 7 [[67], [68]] [(sName, .str [120]), (sExtra, .int 1)],
    .edge 0 7 7 [82] [],
    .edge 1 7 99 [82] [] ]

/-- pinned tree (no journal): the import fails, and the pre-existing node keeps `extra: 1`,
the label `D` and the new relationship -/
theorem C13_counterexample_merge_path :
    (importLines true false [sName] [[67], [68]] preC dangling).2 = none
    ∧ lgEqv (logical preC) (logical (importLines true false [sName] [[67], [68]] preC dangling).1) = false
    ∧ (importLines true false [sName] [[67], [68]] preC dangling).1.edges.length = 1 := by
  decide +kernel

/-- the repaired model on the same input: fails and restores the store, label index included -/
theorem C13_witness_restored :
    (importLines false true [sName] [[67], [68]] preC dangling).2 = none
    ∧ specImport [sName] [[67], [68]] preC dangling false
        (importLines false true [sName] [[67], [68]] preC dangling).1 = true := by
  decide +kernel

/-! ### Non-vacuity -/

/-- without the dangling relationship the same snapshot merges: one record merged, one
relationship, nothing created -/
example : (importLines false true [sName] [[67], [68]] preC (dangling.take 2)).2
    = some { nodes := 0, edges := 1, merged := 1, hier := 0 } := by decide +kernel

example : specImport [sName] [[67], [68]] preC (dangling.take 2) true
    (importLines false true [sName] [[67], [68]] preC (dangling.take 2)).1 = true := by
  decide +kernel

/-- a truncated stream: the second record is cut (`Line.bad`), a *created* node is rolled back -/
example : specImport [] [] preC [.node 3 [[65]] [(sExtra, .arr [.int 1])], .bad] false
    (importLines false true [] [] preC [.node 3 [[65]] [(sExtra, .arr [.int 1])], .bad]).1 = true := by
  decide +kernel

end SgModel.SnapJson
