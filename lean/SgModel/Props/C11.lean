import SgModel.Lemmas.UniqRefine2
/-!
# C11 — unique constraints reject exactly the duplicates

Property theorems only (helpers are in `Lemmas/Uniq*.lean`).  Every theorem quantifies over
an arbitrary initial population `pop` (data that existed before any constraint, however it
was loaded) and an arbitrary history `ops` of Cypher statements
(CREATE CONSTRAINT / CREATE / SET / REMOVE / DELETE / SET n:L / REMOVE n:L); the only
hypothesis, `Op.wf`, says that the property map of a CREATE has pairwise distinct keys
(a map literal cannot have anything else).  Nothing is bounded.

`…_counterexample…` theorems refute the same statements for the model of the pinned tree
(`stepLegacy`); their witnesses are replayed on the implementation by the harness corpus.
-/
namespace SgModel.Uniq

/-- After any history every constraint index is *exactly* the set of (value, node) pairs
such that the node is live, carries the label and holds the value at the key. -/
theorem C11_index_exact (pop : List Seed) (ops : List Op) (hw : ∀ op ∈ ops, op.wf) :
    ∀ c ∈ (run pop ops).cons, ∀ v n,
      (v, n) ∈ c.idx ↔
        ∃ x ∈ (run pop ops).nodes, x.id = n ∧ c.label ∈ x.labels ∧ pget x.props c.key = some v :=
  (inv_run pop ops hw).exact

/-- After any history no two live nodes carrying a constrained label hold equal values at
the constrained key. -/
theorem C11_no_two_equal (pop : List Seed) (ops : List Op) (hw : ∀ op ∈ ops, op.wf) :
    ∀ c ∈ (run pop ops).cons, ∀ a ∈ (run pop ops).nodes, ∀ b ∈ (run pop ops).nodes,
      c.label ∈ a.labels → c.label ∈ b.labels →
      ∀ v, pget a.props c.key = some v → pget b.props c.key = some v → a = b := by
  intro c hc a ha b hb hal hbl v hav hbv
  have hi := inv_run pop ops hw
  exact mem_unique hi.ids ha hb (hi.uniq c hc a ha b hb hal hbl v hav hbv)

/-- Live node handles stay pairwise distinct (so "two nodes" above means two handles). -/
theorem C11_handles_distinct (pop : List Seed) (ops : List Op) (hw : ∀ op ∈ ops, op.wf) :
    ((run pop ops).nodes.map (·.id)).Nodup :=
  (idsNodup_iff _).mp (inv_run pop ops hw).ids

/-- What "the observation has a duplicate" means: `sValid` is the statement of the
property on an observation with distinct handles. -/
theorem C11_valid_meaning (o : Obs) (hnd : (o.nodes.map (·.id)).Nodup) :
    sValid o = true ↔
      ∀ lk ∈ o.cons, ∀ a ∈ o.nodes, ∀ b ∈ o.nodes, lk.1 ∈ a.labels → lk.1 ∈ b.labels →
        ∀ v, pget a.props lk.2 = some v → pget b.props lk.2 = some v → a.id = b.id := by
  let fromS : SNode → Node := fun x => { id := x.id, labels := x.labels, props := x.props }
  have hmapl : ∀ l : List SNode, l = (l.map fromS).map toS := by
    intro l
    induction l with
    | nil => rfl
    | cons x r ih => simp only [List.map_cons]; rw [← ih]; rfl
  have hmap := hmapl o.nodes
  have hids : IdsNodup (o.nodes.map fromS) := by
    rw [idsNodup_iff, List.map_map]; exact hnd
  have this : o = { nodes := (o.nodes.map fromS).map toS, cons := o.cons, next := o.next } := by
    cases o; simp only at hmap ⊢; rw [← hmap]
  have key := sValid_iff hids o.cons o.next
  rw [← this] at key
  rw [key]
  simp only [ValidL, UniqL, List.mem_map, forall_exists_index, and_imp, forall_apply_eq_imp_iff₂]
  exact Iff.rfl

/-- **Refused iff duplicate, both directions.**  On every reachable state a statement is
accepted exactly when applying it unconditionally to the live data leaves no two live
nodes of a constrained label with equal values (`sApply` never looks at an index). -/
theorem C11_reject_iff_duplicate (pop : List Seed) (ops : List Op) (hw : ∀ op ∈ ops, op.wf)
    (op : Op) (hop : op.wf) :
    (step (run pop ops) op).2 = true ↔ sValid (sApply (obs (run pop ops)) op) = true := by
  have h := refine_step (inv_run pop ops hw) op hop
  have h2 := congrArg Prod.snd h
  simp only [sStep] at h2
  constructor
  · intro ht
    rw [ht] at h2
    by_cases hv : sValid (sApply (obs (run pop ops)) op) = true
    · exact hv
    · simp [hv] at h2
  · intro hv
    rw [h2]; simp [hv]

/-- An accepted statement is applied as written; a refused one changes nothing that can be
observed (a refused CREATE only uses up its handle). -/
theorem C11_effect (pop : List Seed) (ops : List Op) (hw : ∀ op ∈ ops, op.wf) (op : Op) (hop : op.wf) :
    obs (step (run pop ops) op).1 =
      if (step (run pop ops) op).2 then sApply (obs (run pop ops)) op
      else sRefused (obs (run pop ops)) op := by
  have h := refine_step (inv_run pop ops hw) op hop
  have h1 := congrArg Prod.fst h
  have h2 := congrArg Prod.snd h
  simp only [sStep] at h1 h2
  by_cases hv : sValid (sApply (obs (run pop ops)) op) = true
  · simp only [hv, if_true] at h1 h2
    rw [h2]; simp only [if_true]; exact h1
  · simp only [hv, if_false] at h1 h2
    rw [h2]; simp only [Bool.false_eq_true, if_false]; exact h1

/-- The model satisfies the executable specification the harness evaluates on the
implementation's observations: for every reachable state and every statement. -/
theorem C11_model_refines_spec (pop : List Seed) (ops : List Op) (hw : ∀ op ∈ ops, op.wf)
    (op : Op) (hop : op.wf) :
    specStep (obs (run pop ops)) op (obs (step (run pop ops) op).1) (step (run pop ops) op).2 = true := by
  unfold specStep
  rw [← refine_step (inv_run pop ops hw) op hop]
  exact beq_self_eq_true _

/-- … and so it satisfies the form the driver evaluates (equality up to the order in which
labels, properties, nodes and constraints are listed). -/
theorem C11_model_refines_spec_canonical (pop : List Seed) (ops : List Op) (hw : ∀ op ∈ ops, op.wf)
    (op : Op) (hop : op.wf) :
    specStepC (obs (run pop ops)) op (obs (step (run pop ops) op).1) (step (run pop ops) op).2 = true := by
  unfold specStepC
  rw [← refine_step (inv_run pop ops hw) op hop]
  simp

/-- A released value can be taken again: after the only holder of `v` overwrites it, a
CREATE with `v` is accepted (general form of the non-triviality scenario). -/
theorem C11_released_value_reusable (pop : List Seed) (ops : List Op) (hw : ∀ op ∈ ops, op.wf)
    (op : Op) (hop : op.wf)
    (hfree : sValid (sApply (obs (run pop ops)) op) = true) :
    (step (run pop ops) op).2 = true :=
  (C11_reject_iff_duplicate pop ops hw op hop).mpr hfree

/-! ### The pinned tree violated the property (witnesses replayed by the corpus)

Labels: 0 = `L`, 1 = `M`; keys: 0 = `k`, 1 = `j`. -/

def mk (i : Int) : Option Val := some (.int i)

/-- SET k=2 does not release 1: the final CREATE k=1 is refused although nobody holds 1. -/
theorem C11_counterexample_set_keeps_old_value :
    verdicts stepLegacy (init [])
      [.mkCons 0 0, .create [0] [(0, mk 1)], .set 0 0 (mk 2), .create [0] [(0, mk 1)]]
      = [true, true, true, false] := by decide

theorem C11_counterexample_remove_keeps_value :
    verdicts stepLegacy (init [])
      [.mkCons 0 0, .create [0] [(0, mk 1)], .remove 0 0, .create [0] [(0, mk 1)]]
      = [true, true, true, false] := by decide

theorem C11_counterexample_set_null_keeps_value :
    verdicts stepLegacy (init [])
      [.mkCons 0 0, .create [0] [(0, mk 1)], .set 0 0 none, .create [0] [(0, mk 1)]]
      = [true, true, true, false] := by decide

theorem C11_counterexample_delete_keeps_value :
    verdicts stepLegacy (init [])
      [.mkCons 0 0, .create [0] [(0, mk 1)], .delete 0, .create [0] [(0, mk 7)], .create [0] [(0, mk 1)]]
      = [true, true, true, true, false] := by decide

theorem C11_counterexample_unlabel_keeps_value :
    verdicts stepLegacy (init [])
      [.mkCons 0 0, .create [0] [(0, mk 1)], .removeLabel 0 0, .create [0] [(0, mk 1)]]
      = [true, true, true, false] := by decide

/-- a CREATE refused on its second constrained property leaves the first one recorded -/
theorem C11_counterexample_failed_create_leaves_entry :
    verdicts stepLegacy (init [])
      [.mkCons 0 0, .mkCons 0 1, .create [0] [(0, mk 1), (1, mk 1)], .create [0] [(0, mk 2), (1, mk 1)],
       .create [0] [(0, mk 2), (1, mk 2)]]
      = [true, true, true, false, false] := by decide

/-- SET n:L is neither checked … -/
theorem C11_counterexample_label_add_unchecked :
    sValid (obs (runLegacy []
      [.mkCons 0 0, .create [0] [(0, mk 1)], .create [1] [(0, mk 1)], .addLabel 1 0])) = false := by decide

/-- … nor recorded -/
theorem C11_counterexample_label_add_unrecorded :
    verdicts stepLegacy (init [])
      [.mkCons 0 0, .create [1] [(0, mk 1)], .addLabel 0 0, .create [0] [(0, mk 1)]]
      = [true, true, true, true] := by decide

/-- the constraint is created over bulk-loaded duplicates … -/
theorem C11_counterexample_backfill_misses_duplicates :
    verdicts stepLegacy
      (init [{ labels := [0], props := [(0, mk 1)], stub := true }, { labels := [0], props := [(0, mk 1)], stub := true }])
      [.mkCons 0 0] = [true] := by decide

/-- … and a bulk-loaded value is not protected afterwards -/
theorem C11_counterexample_backfill_misses_values :
    verdicts stepLegacy (init [{ labels := [0], props := [(0, mk 1)], stub := true }])
      [.mkCons 0 0, .create [0] [(0, mk 1)]] = [true, true] := by decide

/-! ### Non-vacuity: the same histories under the repaired step -/

example : verdicts step (init [])
    [.mkCons 0 0, .create [0] [(0, mk 1)], .set 0 0 (mk 2), .create [0] [(0, mk 1)]]
    = [true, true, true, true] := by decide

example : verdicts step (init [])
    [.mkCons 0 0, .create [0] [(0, mk 1)], .delete 0, .create [0] [(0, mk 7)], .create [0] [(0, mk 1)]]
    = [true, true, true, true, true] := by decide

example : verdicts step (init [])
    [.mkCons 0 0, .mkCons 0 1, .create [0] [(0, mk 1), (1, mk 1)], .create [0] [(0, mk 2), (1, mk 1)],
     .create [0] [(0, mk 2), (1, mk 2)]]
    = [true, true, true, false, true] := by decide

example : verdicts step (init [])
    [.mkCons 0 0, .create [0] [(0, mk 1)], .create [1] [(0, mk 1)], .addLabel 1 0, .create [0] [(0, mk 1)]]
    = [true, true, true, false, false] := by decide

example : verdicts step (init [{ labels := [0], props := [(0, mk 1)], stub := true }])
    [.mkCons 0 0, .create [0] [(0, mk 1)], .create [0] [(0, some (.flt 1))]] = [true, false, true] := by decide

/-- the hypotheses of the theorems are satisfied by a history that releases and re-uses -/
example : ∀ op ∈ [Op.mkCons 0 0, .create [0] [(0, mk 1), (1, mk 1)], .set 0 0 (mk 2), .create [0] [(0, mk 1)]],
    op.wf := by
  intro op hop
  simp only [List.mem_cons, List.not_mem_nil, or_false] at hop
  rcases hop with rfl | rfl | rfl | rfl <;> simp [Op.wf, KeysDistinct]

end SgModel.Uniq
