import SgModel.Lemmas.Quota
import SgModel.Lemmas.QuotaKeys
/-!
# C18 — tenant quotas hold under every interleaving of writers

Property theorems only (helpers in `Lemmas/Quota.lean`, `Lemmas/PersistMap.lean`).  The
theorems quantify over **every number of threads, every program** (list of create / delete /
update calls **and `recover` calls** per thread — `recover` writes the usage counters, so it
is a thread program like the others: micro-steps lock, scan, count, in the order of the real
hook points), **every schedule** (list of thread indices, one micro-step each,
with the manager's write lock modelled) and every quota; nothing is bounded.  "Accepted"
is what the tenant has persisted: with upserts an accepted creation need not add an entity,
so the quota bounds the number of stored entities, which is what `ResourceQuotas` means.
`…_counterexample…` theorems refute the statements for the model of the pinned tree.
-/
namespace SgModel.Quota
open SgModel.Persist

/-- **Quota.**  In every state reachable by any schedule the tenant holds at most
`max_nodes` nodes and `max_edges` relationships. -/
theorem C18_quota_never_exceeded (cfg : Cfg) (hreg : cfg.registered = true) (progs : List (List Call))
    (sched : List Nat) :
    (∀ m, cfg.maxNodes = some m → (run fixed cfg (init progs) sched).shared.kv.nodes.length ≤ m)
    ∧ (∀ m, cfg.maxEdges = some m → (run fixed cfg (init progs) sched).shared.kv.edges.length ≤ m) :=
  (run_inv cfg hreg sched _ (init_inv cfg progs)).within

/-- **Usage = persisted.**  Whenever no thread is inside a call (in particular when all have
finished) the usage counters equal the number of stored nodes / relationships. -/
theorem C18_usage_eq_persisted_at_quiescence (cfg : Cfg) (hreg : cfg.registered = true)
    (progs : List (List Call)) (sched : List Nat)
    (hq : (run fixed cfg (init progs) sched).quiescent = true) :
    (run fixed cfg (init progs) sched).shared.usageN
        = (run fixed cfg (init progs) sched).shared.kv.nodes.length
    ∧ (run fixed cfg (init progs) sched).shared.usageE
        = (run fixed cfg (init progs) sched).shared.kv.edges.length := by
  have hinv := run_inv cfg hreg sched _ (init_inv cfg progs)
  apply hinv.free
  cases hl : (run fixed cfg (init progs) sched).lock with
  | none => rfl
  | some i =>
    obtain ⟨th, pc, hth, hpc⟩ := hinv.held i hl
    obtain ⟨_, op, rest, _, hm⟩ := hinv.mid i th pc hth hpc
    have hidle : th.idle = true := by
      have := List.all_eq_true.mp hq th (List.mem_of_getElem? hth)
      exact this
    unfold Thread.idle at hidle
    rw [hpc] at hidle
    cases op <;> cases pc <;> simp [MidOK] at hm hidle

/-- … and while a thread is inside a call the counters are off by exactly the entity that
call has written and not yet counted (`MidOK` at `count`), never by more: the invariant. -/
theorem C18_invariant (cfg : Cfg) (hreg : cfg.registered = true) (progs : List (List Call))
    (sched : List Nat) : Inv cfg (run fixed cfg (init progs) sched) :=
  run_inv cfg hreg sched _ (init_inv cfg progs)

/-- **A refused creation leaves nothing behind.**  The only micro-steps of a call that ends
in an error are `lock` and `check`, and neither changes the shared state (store, WAL,
usage): whatever step returns an error returns the state it was given. -/
theorem C18_refused_leaves_nothing (cfg : Cfg) (hreg : cfg.registered = true) (op : Op) (pc : Pc)
    (s s' : State) (l l' : Local) (e : Err) (h : micro cfg op pc s l = (s', l', .error e)) :
    s' = s ∧ pc = .check := by
  cases pc with
  | lock => simp [micro_lock] at h
  | check =>
    rw [micro_check] at h
    cases hq : quotaOf cfg op s <;> simp [hq] at h
    exact ⟨h.1.symm, rfl⟩
  | log => simp [micro_log] at h
  | store => simp [micro_store] at h
  | count => simp [micro_count cfg hreg] at h
  | ret => simp [micro_ret] at h
  | scan => simp [micro] at h
  | done => simp [micro] at h

/-- the step before `check` changes nothing either -/
theorem C18_lock_step_changes_nothing (cfg : Cfg) (op : Op) (s : State) (l : Local) :
    (micro cfg op .lock s l).1 = s := rfl

/-- **Recovery.**  `recover` on the live manager sets the counters to the number of stored
entities, so calling it any number of times leaves them exact (the pinned tree added the
counts on every call). -/
theorem C18_recover_idempotent_usage (cfg : Cfg) (hreg : cfg.registered = true) (s : State) :
    ∃ s1, recoverUsage fixed cfg s = some s1
      ∧ s1.usageN = s.kv.nodes.length ∧ s1.usageE = s.kv.edges.length ∧ s1.kv = s.kv
      ∧ recoverUsage fixed cfg s1 = some s1 := by
  refine ⟨{ s with usageN := s.kv.nodes.length, usageE := s.kv.edges.length }, ?_, rfl, rfl, rfl, ?_⟩
  · simp [recoverUsage, recover, hreg]
  · simp [recoverUsage, recover, hreg]

/-- **No deadlock.**  As long as some thread has a call left, some thread can move. -/
theorem C18_no_deadlock (cfg : Cfg) (hreg : cfg.registered = true) (progs : List (List Call))
    (sched : List Nat) (hnf : (run fixed cfg (init progs) sched).finished = false) :
    ∃ t, enabled fixed (run fixed cfg (init progs) sched) t = true := by
  have hinv := run_inv cfg hreg sched _ (init_inv cfg progs)
  generalize run fixed cfg (init progs) sched = sys at hinv hnf
  cases hl : sys.lock with
  | none =>
    have : ∃ th ∈ sys.threads, th.prog.isEmpty = false := by
      unfold Sys.finished at hnf
      have := (List.all_eq_false).mp hnf
      obtain ⟨th, hmem, hb⟩ := this
      exact ⟨th, hmem, by simpa using hb⟩
    obtain ⟨th, hmem, hne⟩ := this
    obtain ⟨t, hlt, ht⟩ := List.getElem_of_mem hmem
    refine ⟨t, ?_⟩
    have hth : sys.threads[t]? = some th := by rw [List.getElem?_eq_getElem hlt, ht]
    unfold enabled
    rw [hth]
    cases hp : th.prog with
    | nil => simp [hp] at hne
    | cons op rest => simp [hp, hl]
  | some i =>
    obtain ⟨th, pc, hth, hpc⟩ := hinv.held i hl
    obtain ⟨_, op, rest, hprog, hm⟩ := hinv.mid i th pc hth hpc
    refine ⟨i, ?_⟩
    unfold enabled
    simp only [hth, hprog]
    cases op <;> cases pc <;> simp [MidOK, hpc] at hm ⊢

/-- The model satisfies the executable specification the harness evaluates on the real
manager's observations: for every quota, programs, schedule and drain, once all threads
have returned. -/
theorem C18_model_refines_spec (cfg : Cfg) (progs : List (List Call)) (sched : List Nat) (fuel : Nat)
    (o : Obs)
    (hfin : (drain fixed cfg fuel (run fixed cfg (init progs) sched)).finished = true)
    (ho : obsOf fixed cfg (drain fixed cfg fuel (run fixed cfg (init progs) sched)) = some o) :
    specQuota cfg progs o = true := by
  have hreg : cfg.registered = true := by
    cases hr : cfg.registered with
    | true => rfl
    | false => simp [obsOf, recoverUsage, recover, hr] at ho
  have hinv := drain_inv cfg hreg fuel _ (run_inv cfg hreg sched _ (init_inv cfg progs))
  have hshape := drain_shape fixed cfg progs fuel _ (run_shape fixed cfg progs sched _ (init_shape progs))
  generalize drain fixed cfg fuel (run fixed cfg (init progs) sched) = sys at hinv hshape hfin ho
  -- all threads have finished, so nobody is inside a call and the lock is free
  have hprog : ∀ th ∈ sys.threads, th.prog = [] := by
    intro th hmem
    have := List.all_eq_true.mp hfin th hmem
    simpa using this
  have hlock : sys.lock = none := by
    cases hl : sys.lock with
    | none => rfl
    | some i =>
      obtain ⟨th, pc, hth, hpc⟩ := hinv.held i hl
      obtain ⟨_, op, rest, hp, _⟩ := hinv.mid i th pc hth hpc
      rw [hprog th (List.mem_of_getElem? hth)] at hp
      simp at hp
  have hc := hinv.free hlock
  have hseq := seq_call cfg hreg probeOp sys.shared hinv.wf hc hinv.within
  have hpe := probe_edges cfg hreg sys.shared
  simp only [obsOf, recoverUsage, fixed_recover, recover, hreg, Bool.not_true, Bool.false_eq_true,
    if_false, Option.some.injEq] at ho
  subst ho
  have hres : (sys.threads.map (fun th => th.done.map (·.2))).map List.length = progs.map List.length := by
    apply List.ext_getElem?
    intro i
    simp only [List.getElem?_map]
    cases hth : sys.threads[i]? with
    | none =>
      have : progs.length ≤ i := by
        rw [← hshape.1]; exact List.getElem?_eq_none_iff.mp hth
      simp [List.getElem?_eq_none_iff.mpr this]
    | some th =>
      have := hshape.2 i th hth
      rw [hprog th (List.mem_of_getElem? hth)] at this
      simp [this]
  have hwithin : ∀ (max : Option Nat) (n : Nat), (∀ m, max = some m → n ≤ m) → within max n = true := by
    intro max n h
    unfold within
    cases hm : max with
    | none => rfl
    | some m => simpa using h m hm
  simp only [specQuota, Bool.and_eq_true, beq_iff_eq, List.length_map, Bool.or_eq_true,
    Bool.not_eq_true']
  refine ⟨⟨⟨⟨⟨⟨⟨⟨?_, ?_⟩, ?_⟩, ?_⟩, ?_⟩, ?_⟩, ?_⟩, ?_⟩, hres⟩
  · exact hwithin _ _ hinv.within.1
  · exact hwithin _ _ hinv.within.2
  · rw [hc.1, hc.2]
  · cases hen : cfg.enabled with
    | false => exact Or.inl rfl
    | true =>
      refine Or.inr ?_
      rw [hseq.2.2.2 rfl, quotaOf_probe cfg hreg hen sys.shared hc]
  · exact hwithin _ _ hseq.2.2.1.1
  · rw [hseq.2.1.1, hseq.2.1.2, hpe]
  · rw [hpe]
  · rw [hpe]

/-- **Every stored node was accepted** (so a refused creation left nothing behind), in the
form the harness evaluates on observations: once all threads have returned, every node id
found in the store has a creation call that returned `Ok`. -/
theorem C18_model_refines_spec_refused (cfg : Cfg) (progs : List (List Call)) (sched : List Nat)
    (fuel : Nat) (o : Obs)
    (hfin : (drain fixed cfg fuel (run fixed cfg (init progs) sched)).finished = true)
    (ho : obsOf fixed cfg (drain fixed cfg fuel (run fixed cfg (init progs) sched)) = some o) :
    specRefused progs o = true := by
  have hreg : cfg.registered = true := by
    cases hr : cfg.registered with
    | true => rfl
    | false => simp [obsOf, recoverUsage, recover, hr] at ho
  have hkeys := drain_keys cfg hreg fuel _ (run_keys cfg hreg sched _ (init_keys progs))
  have hshape := drain_shape fixed cfg progs fuel _ (run_shape fixed cfg progs sched _ (init_shape progs))
  generalize drain fixed cfg fuel (run fixed cfg (init progs) sched) = sys at hkeys hshape hfin ho
  have hprog : ∀ th ∈ sys.threads, th.prog = [] := by
    intro th hmem
    have := List.all_eq_true.mp hfin th hmem
    simpa using this
  simp only [obsOf, recoverUsage, fixed_recover, recover, hreg, Bool.not_true, Bool.false_eq_true,
    if_false, Option.some.injEq] at ho
  subst ho
  simp only [specRefused, List.all_eq_true, decide_eq_true_eq]
  intro id hid
  exact accepted_of_keys progs sys hshape hkeys hprog id hid

/-! ### The pinned tree violated the property (witnesses replayed by the corpus) -/

/-- #22 check-then-act: two writers, quota 1, both pass the check before either counts:
two nodes are stored. -/
theorem C18_counterexample_race :
    (run legacy { maxNodes := some 1 } (init [[.op (.createNode 1 [] [])], [.op (.createNode 2 [] [])]])
        [0, 1, 0, 1, 0, 1, 0, 1, 0, 1]).shared.kv.nodes.length = 2
    ∧ ((run legacy { maxNodes := some 1 } (init [[.op (.createNode 1 [] [])], [.op (.createNode 2 [] [])]])
        [0, 1, 0, 1, 0, 1, 0, 1, 0, 1]).threads.map (fun th => th.done.map (·.2)))
        = [[.ok], [.ok]] := by decide

/-- #23 `recover` adds the counts on every call: one node stored (two after the probe
creation, usage 2), usage 4 after `recover`, 6 after a second one. -/
theorem C18_counterexample_recover_adds :
    (obsOf legacy {} (run legacy {} (init [[.op (.createNode 1 [] [])]]) [0, 0, 0, 0, 0])).map
        (fun o => (o.nodes, o.usage0, o.usage1, o.usage2))
      = some ([1], (1, 0), (4, 0), (6, 0)) := by decide

/-- #24 writing an existing id again counts it again … -/
theorem C18_counterexample_reput :
    (obsOf legacy {} (run legacy {} (init [[.op (.createNode 1 [] []), .op (.createNode 1 [] [])]])
        [0, 0, 0, 0, 0, 0, 0, 0, 0, 0])).map (fun o => (o.nodes, o.usage0))
      = some ([1], (2, 0)) := by decide

/-- … and deleting an absent id discounts a stored one. -/
theorem C18_counterexample_delete_absent :
    (obsOf legacy {} (run legacy {} (init [[.op (.createNode 1 [] []), .op (.deleteNode 2)]])
        [0, 0, 0, 0, 0, 0, 0, 0, 0])).map (fun o => (o.nodes, o.usage0))
      = some ([1], (0, 0)) := by decide

/-- Why `recover` must scan **under** the write lock (a variant of the repaired code that
scans first and locks only around `set_usage`; not the pinned tree): quota 2, thread 0
persists node 1; thread 1 = `recover` scans (1 node); thread 2 creates node 2 (usage 2);
`recover` resumes and sets the usage to 1; thread 3's creation is then accepted: 3 nodes. -/
theorem C18_counterexample_recover_scan_outside_lock :
    (run scanFirst { maxNodes := some 2 }
        (init [[.op (.createNode 1 [] [])], [.recover], [.op (.createNode 2 [] [])], [.op (.createNode 3 [] [])]])
        [0, 0, 0, 0, 0, 0, 1, 2, 2, 2, 2, 2, 2, 1, 1, 1, 3, 3, 3, 3, 3, 3]).shared.kv.nodes.length = 3 := by
  decide

/-! ### Non-vacuity: the same programs and schedules on the repaired model -/

/-- the same programs and schedule on the repaired model: `recover` holds the lock from before
its scan, the writer waits, the third creation is refused -/
example :
    ((run fixed { maxNodes := some 2 }
        (init [[.op (.createNode 1 [] [])], [.recover], [.op (.createNode 2 [] [])], [.op (.createNode 3 [] [])]])
        [0, 0, 0, 0, 0, 0, 1, 2, 2, 2, 2, 2, 2, 1, 1, 1, 2, 2, 2, 2, 2, 2, 3, 3, 3, 3, 3, 3]).threads.map
          (fun th => th.done.map (·.2)))
      = [[.ok], [.ok], [.ok], [.err .quota]] := by decide


example : (obsOf fixed { maxNodes := some 1 }
      (drain fixed { maxNodes := some 1 } 50
        (run fixed { maxNodes := some 1 } (init [[.op (.createNode 1 [] [])], [.op (.createNode 2 [] [])]])
          [0, 1, 0, 1, 0, 1, 0, 1, 0, 1]))).map (fun o => (o.results, o.nodes, o.usage0, o.usage2))
    = some ([[.ok], [.err .quota]], [1], (1, 0), (1, 0)) := by decide

/-- thread 1 is refused the lock while thread 0 holds it: its schedule entries are no-ops -/
example : (run fixed {} (init [[.op (.createNode 1 [] [])], [.op (.createNode 2 [] [])]]) [0, 1, 1, 1]).lock = some 0
    ∧ ((run fixed {} (init [[.op (.createNode 1 [] [])], [.op (.createNode 2 [] [])]]) [0, 1, 1, 1]).threads.map
        (fun th => th.pc)) = [some .check, none] := by decide

example : (obsOf fixed {} (run fixed {} (init [[.op (.createNode 1 [] []), .op (.createNode 1 [] []), .op (.deleteNode 2)]])
      (List.replicate 18 0))).map (fun o => (o.results, o.nodes, o.usage0))
    = some ([[.ok, .ok, .ok]], [1], (1, 0)) := by decide

end SgModel.Quota
