import SgModel.Lemmas.Nlq
/-!
# C24 — natural-language translation never returns a mutating statement

Property theorems only.  `text_to_cypher` hands back `extract response` exactly when
`is_safe_query` accepts it.  After the repair `is_safe_query` parses the text and accepts
only statements whose every item — at the top level, in a `CALL { }` subquery, in a `UNION`
branch — is a reading clause or a `CALL` of a procedure on the read-only list.

The theorems are stated for **every parser** (`parse` is a parameter: the pest grammar is not
modelled) and **every effect semantics** `eff` of single items on a store of any type in
which reading clauses and read-only procedures change nothing; write clauses, DDL and other
procedures may do anything.  That assumption about the engine ("a statement without write
clause / DDL / write procedure does not modify the store") is not proved here: it is checked
as ground truth by `harness/src/bin/c24.rs`, which executes every accepted statement on a
copy of a store and compares full dumps and index/constraint lists.
-/
namespace SgModel

open Nlq

/-- A statement accepted by the repaired predicate contains no write clause, no DDL, and only
read-only procedure calls — at any nesting level. -/
theorem C24_safe_implies_no_write_clause (parse : List Char → Option Stmt) (q : List Char)
    (h : isSafe parse q = true) :
    ∃ s, parse q = some s ∧ ∀ it ∈ s.items,
      (∀ k, it ≠ .write k) ∧ (∀ k, it ≠ .ddl k) ∧ (∀ p, it = .call p → readOnlyProc p = true) := by
  unfold isSafe at h
  cases hp : parse q with
  | none => simp [hp] at h
  | some s =>
    simp only [hp] at h
    refine ⟨s, rfl, ?_⟩
    intro it hit
    have hok := items_ok_of_readOnly s h it hit
    refine ⟨?_, ?_, ?_⟩
    · intro k hk; subst hk; simp [itemOk] at hok
    · intro k hk; subst hk; simp [itemOk] at hok
    · intro p hp'; subst hp'; simpa [itemOk] using hok

/-- Executing a statement accepted by the repaired predicate changes no store, under every
effect semantics in which reading clauses and read-only procedures change nothing. -/
theorem C24_safe_implies_no_change {G : Type} (parse : List Char → Option Stmt)
    (eff : Item → G → G)
    (hRead : ∀ g, eff .read g = g)
    (hCall : ∀ p g, readOnlyProc p = true → eff (.call p) g = g)
    (q : List Char) (h : isSafe parse q = true) :
    ∃ s, parse q = some s ∧ ∀ g, exec eff s g = g := by
  unfold isSafe at h
  cases hp : parse q with
  | none => simp [hp] at h
  | some s =>
    simp only [hp] at h
    refine ⟨s, rfl, fun g => exec_readOnly eff ?_ s g h⟩
    intro it g hok
    cases it with
    | read => exact hRead g
    | write k => simp [itemOk] at hok
    | ddl k => simp [itemOk] at hok
    | call p => exact hCall p g (by simpa [itemOk] using hok)

/-- The property on the model: whatever the language model returns, what `text_to_cypher`
hands back is the extracted text, it parses, and executing it changes no store. -/
theorem C24_accepted_never_mutates {G : Type} (parse : List Char → Option Stmt)
    (eff : Item → G → G)
    (hRead : ∀ g, eff .read g = g)
    (hCall : ∀ p g, readOnlyProc p = true → eff (.call p) g = g)
    (response q : List Char) (h : textToCypher parse response = some q) :
    q = extract response ∧ ∃ s, parse q = some s ∧ ∀ g, exec eff s g = g := by
  unfold textToCypher at h
  by_cases hs : isSafe parse (extract response) = true
  · simp only [hs, ↓reduceIte, Option.some.injEq] at h
    subst h
    exact ⟨rfl, C24_safe_implies_no_change parse eff hRead hCall _ hs⟩
  · simp [hs] at h

/-- The model satisfies the executable specification evaluated on the implementation's
observations (accepted ⇒ not mutated), for every response and every store. -/
theorem C24_model_refines_spec {G : Type} [DecidableEq G] (parse : List Char → Option Stmt)
    (eff : Item → G → G)
    (hRead : ∀ g, eff .read g = g)
    (hCall : ∀ p g, readOnlyProc p = true → eff (.call p) g = g)
    (response : List Char) (g : G) :
    specObs (textToCypher parse response).isSome
      (match (textToCypher parse response).bind parse with
       | some s => decide (exec eff s g ≠ g)
       | none => false) = true := by
  cases ht : textToCypher parse response with
  | none => simp [specObs]
  | some q =>
    obtain ⟨_, s, hs, hno⟩ := C24_accepted_never_mutates parse eff hRead hCall response q ht
    simp [specObs, hs, hno g]

/-- Without a fence the result is the line filter (or the stripped text). -/
theorem C24_extract_no_fence (r : List Char) (h : findSub fence (trim r) = none) :
    extract r = extractNoFence (trim r) := by
  unfold extract
  simp [h]

/-- `extract_cypher` on the inputs of the unit tests of src/nlq/mod.rs, and on the statement
whose write clause sits on its own line (the line filter drops it). -/
theorem C24_extract_examples :
    extract ['M', 'A', 'T', 'C', 'H', ' ', '(', 'n', ':', 'P', 'e', 'r', 's', 'o', 'n', ')', ' ', 'R', 'E', 'T', 'U', 'R', 'N', ' ', 'n', '.', 'n', 'a', 'm', 'e'] = ['M', 'A', 'T', 'C', 'H', ' ', '(', 'n', ':', 'P', 'e', 'r', 's', 'o', 'n', ')', ' ', 'R', 'E', 'T', 'U', 'R', 'N', ' ', 'n', '.', 'n', 'a', 'm', 'e'] ∧
    extract ['H', 'e', 'r', 'e', ' ', 'i', 's', ' ', 't', 'h', 'e', ' ', 'q', 'u', 'e', 'r', 'y', ':', '\n', '`', '`', '`', 'c', 'y', 'p', 'h', 'e', 'r', '\n', 'M', 'A', 'T', 'C', 'H', ' ', '(', 'n', ':', 'P', 'e', 'r', 's', 'o', 'n', ')', ' ', 'R', 'E', 'T', 'U', 'R', 'N', ' ', 'n', '.', 'n', 'a', 'm', 'e', '\n', '`', '`', '`', '\n', 'H', 'o', 'p', 'e', ' ', 't', 'h', 'i', 's', ' ', 'h', 'e', 'l', 'p', 's', '!'] = ['M', 'A', 'T', 'C', 'H', ' ', '(', 'n', ':', 'P', 'e', 'r', 's', 'o', 'n', ')', ' ', 'R', 'E', 'T', 'U', 'R', 'N', ' ', 'n', '.', 'n', 'a', 'm', 'e'] ∧
    extract ['`', '`', '`', '\n', 'M', 'A', 'T', 'C', 'H', ' ', '(', 'n', ')', ' ', 'R', 'E', 'T', 'U', 'R', 'N', ' ', 'n', '\n', '`', '`', '`'] = ['M', 'A', 'T', 'C', 'H', ' ', '(', 'n', ')', ' ', 'R', 'E', 'T', 'U', 'R', 'N', ' ', 'n'] ∧
    extract ['T', 'o', ' ', 'f', 'i', 'n', 'd', ' ', 'a', 'l', 'l', ' ', 'p', 'e', 'o', 'p', 'l', 'e', ',', ' ', 'u', 's', 'e', ' ', 't', 'h', 'i', 's', ':', '\n', 'M', 'A', 'T', 'C', 'H', ' ', '(', 'n', ':', 'P', 'e', 'r', 's', 'o', 'n', ')', '\n', 'W', 'H', 'E', 'R', 'E', ' ', 'n', '.', 'a', 'g', 'e', ' ', '>', ' ', '3', '0', '\n', 'R', 'E', 'T', 'U', 'R', 'N', ' ', 'n', '.', 'n', 'a', 'm', 'e', '\n', 'T', 'h', 'i', 's', ' ', 'r', 'e', 't', 'u', 'r', 'n', 's', ' ', 'n', 'a', 'm', 'e', 's', ' ', 'o', 'f', ' ', 'p', 'e', 'o', 'p', 'l', 'e', ' ', 'o', 'v', 'e', 'r', ' ', '3', '0', '.'] = ['M', 'A', 'T', 'C', 'H', ' ', '(', 'n', ':', 'P', 'e', 'r', 's', 'o', 'n', ')', ' ', 'W', 'H', 'E', 'R', 'E', ' ', 'n', '.', 'a', 'g', 'e', ' ', '>', ' ', '3', '0', ' ', 'R', 'E', 'T', 'U', 'R', 'N', ' ', 'n', '.', 'n', 'a', 'm', 'e'] ∧
    extract [' ', ' ', '\n', ' ', ' ', 'M', 'A', 'T', 'C', 'H', ' ', '(', 'n', ')', ' ', 'R', 'E', 'T', 'U', 'R', 'N', ' ', 'n', ' ', ' ', '\n', ' ', ' '] = ['M', 'A', 'T', 'C', 'H', ' ', '(', 'n', ')', ' ', 'R', 'E', 'T', 'U', 'R', 'N', ' ', 'n'] ∧
    extract ['F', 'i', 'r', 's', 't', ' ', 'b', 'l', 'o', 'c', 'k', ':', '\n', '`', '`', '`', 'c', 'y', 'p', 'h', 'e', 'r', '\n', 'M', 'A', 'T', 'C', 'H', ' ', '(', 'a', ')', ' ', 'R', 'E', 'T', 'U', 'R', 'N', ' ', 'a', '\n', '`', '`', '`', '\n', 'S', 'e', 'c', 'o', 'n', 'd', ':', '\n', '`', '`', '`', 'c', 'y', 'p', 'h', 'e', 'r', '\n', 'M', 'A', 'T', 'C', 'H', ' ', '(', 'b', ')', ' ', 'R', 'E', 'T', 'U', 'R', 'N', ' ', 'b', '\n', '`', '`', '`'] = ['M', 'A', 'T', 'C', 'H', ' ', '(', 'a', ')', ' ', 'R', 'E', 'T', 'U', 'R', 'N', ' ', 'a'] ∧
    extract ['H', 'e', 'r', 'e', ':', '\n', '`', '`', '`', 'c', 'y', 'p', 'h', 'e', 'r', '\n', 'M', 'A', 'T', 'C', 'H', ' ', '(', 'n', ')', ' ', 'R', 'E', 'T', 'U', 'R', 'N', ' ', 'n'] = ['M', 'A', 'T', 'C', 'H', ' ', '(', 'n', ')', ' ', 'R', 'E', 'T', 'U', 'R', 'N', ' ', 'n'] ∧
    extract ['I', ' ', 't', 'h', 'i', 'n', 'k', ' ', 'y', 'o', 'u', ' ', 's', 'h', 'o', 'u', 'l', 'd', ' ', 'l', 'o', 'o', 'k', ' ', 'a', 't', ' ', 't', 'h', 'e', ' ', 'd', 'a', 't', 'a', '.'] = ['I', ' ', 't', 'h', 'i', 'n', 'k', ' ', 'y', 'o', 'u', ' ', 's', 'h', 'o', 'u', 'l', 'd', ' ', 'l', 'o', 'o', 'k', ' ', 'a', 't', ' ', 't', 'h', 'e', ' ', 'd', 'a', 't', 'a', '.'] ∧
    extract ['M', 'A', 'T', 'C', 'H', ' ', '(', 'n', ')', '\n', 'D', 'E', 'T', 'A', 'C', 'H', ' ', 'D', 'E', 'L', 'E', 'T', 'E', ' ', 'n'] = ['M', 'A', 'T', 'C', 'H', ' ', '(', 'n', ')'] := by decide +kernel

/-! ### the pinned tree -/

def qDetachDelete : List Char := ['M', 'A', 'T', 'C', 'H', ' ', '(', 'n', ')', ' ', 'D', 'E', 'T', 'A', 'C', 'H', ' ', 'D', 'E', 'L', 'E', 'T', 'E', ' ', 'n']

/-- `is_safe_query("MATCH (n) DETACH DELETE n")` is true in the pinned tree, and
`text_to_cypher` hands the statement back. -/
theorem C24_counterexample :
    isSafeLegacy qDetachDelete = true ∧ textToCypherLegacy qDetachDelete = some qDetachDelete := by
  decide +kernel

/-- … while the repaired predicate refuses it for every parser that reports the DELETE. -/
theorem C24_counterexample_repaired (parse : List Char → Option Stmt)
    (h : parse qDetachDelete = some (.level [.read, .write .delete])) :
    textToCypher parse qDetachDelete = none := by
  have he : extract qDetachDelete = qDetachDelete := by decide +kernel
  simp [textToCypher, he, isSafe, h, isReadOnly, itemOk]

/-- The legacy test looks at the first keyword only: *anything* after `MATCH` is accepted. -/
theorem C24_legacy_accepts_any_suffix (s : List Char) :
    isSafeLegacy ('M' :: 'A' :: 'T' :: 'C' :: 'H' :: s) = true := by
  obtain ⟨s', h⟩ := trim_keeps_prefix ['A', 'T', 'C'] s 'M' 'H' (by decide) (by decide)
  have h' : trim ('M' :: 'A' :: 'T' :: 'C' :: 'H' :: s) = 'M' :: 'A' :: 'T' :: 'C' :: 'H' :: s' := by
    simpa using h
  unfold isSafeLegacy
  rw [h']
  have hu : upperAll ('M' :: 'A' :: 'T' :: 'C' :: 'H' :: s')
      = 'M' :: 'A' :: 'T' :: 'C' :: 'H' :: upperAll s' := by
    simp only [upperAll, List.map_cons]
    have : upper 'M' = 'M' ∧ upper 'A' = 'A' ∧ upper 'T' = 'T' ∧ upper 'C' = 'C' ∧ upper 'H' = 'H' := by
      decide
    simp [this.1, this.2.1, this.2.2.1, this.2.2.2.1, this.2.2.2.2]
  rw [hu]
  simp [startsWith, kwMatch, List.isPrefixOf]

/-- the procedure list: `algo.or.solve` (which writes its solution back) and unknown names are
refused, every spelling of a read-only algorithm is accepted -/
theorem C24_procedure_list :
    readOnlyProc ['a', 'l', 'g', 'o', '.', 'o', 'r', '.', 's', 'o', 'l', 'v', 'e'] = false ∧ readOnlyProc ['s', 'a', 'm', 'y', 'a', 'm', 'a', '.', 'O', 'R', '.', 's', 'o', 'l', 'v', 'e'] = false
      ∧ readOnlyProc ['a', 'p', 'o', 'c', '.', 'c', 'r', 'e', 'a', 't', 'e', '.', 'n', 'o', 'd', 'e'] = false ∧ readOnlyProc ['a', 'l', 'g', 'o', '.', 'p', 'a', 'g', 'e', 'R', 'a', 'n', 'k'] = true
      ∧ readOnlyProc ['g', 'd', 's', '.', 'P', 'a', 'g', 'e', 'R', 'a', 'n', 'k'] = true ∧ readOnlyProc ['d', 'b', '.', 'l', 'a', 'b', 'e', 'l', 's'] = true := by decide +kernel

/-- the hypotheses of `C24_safe_implies_no_change` are satisfiable by a non-trivial semantics:
a store that counts writes -/
example : ∃ (eff : Item → Nat → Nat), (∀ g, eff .read g = g)
    ∧ (∀ p g, readOnlyProc p = true → eff (.call p) g = g)
    ∧ exec eff (.seq (.level [.read, .write .delete]) (.level [.read])) 0 ≠ 0 :=
  ⟨fun it g => match it with | .read => g | .call p => if readOnlyProc p then g else g + 1 | _ => g + 1,
   fun _ => rfl, fun p g h => by simp [h], by decide⟩

end SgModel
