import SgModel.Lemmas.CyW
/-!
# C04 — write statements have exactly their openCypher effect

The reference semantics `exec` (`Model/CyW.lean`) is S: write clauses are a fold over the
input rows in order.  The laws below are proved for every graph, row, pattern and statement
(no bound).  That the *engine* computes `exec` is not proved: it is compared differentially
by `harness/src/bin/c04.rs` (MANIFEST level `translation_validation`).
-/
namespace SgModel.CyW

/-! ### CREATE adds exactly -/

/-- CREATE of one new node: the node list grows by exactly that node (fresh handle, the
pattern's label set, its non-null properties); relationships are untouched. -/
theorem C04_create_adds_exactly (g : G) (ps : Props) (row : Row) (x : Option Nat)
    (ls : List Nat) (props : List (Nat × E)) (vs : Props) (del : G → Bool → Nat → R G)
    (hx : x.bind row.get = none) (hv : evalProps g ps row props = .ok vs) :
    ∃ row', applyWrite del ps (.create [⟨⟨x, ls, props⟩, none⟩]) g row
      = .ok (⟨g.nodes ++ [⟨g.freshN, linsertAll [] ls, psetAll [] vs⟩], g.rels⟩, row')
      ∧ g.hasNode g.freshN = false := by
  cases x with
  | none =>
    exact ⟨row, by simp [applyWrite, foldR, createPath, createNode, hv, bind, Except.bind, pure,
      Except.pure, G.addNode], freshN_not_hasNode g⟩
  | some v =>
    have hx' : row.get v = none := by simpa using hx
    exact ⟨Row.bind row v (.node g.freshN), by simp [applyWrite, foldR, createPath, createNode,
      hv, hx', bind, Except.bind, pure, Except.pure, G.addNode], freshN_not_hasNode g⟩

/-- a variable that is already bound — by an earlier path, an earlier clause, or an earlier
position of the SAME path — is a reference: mentioning it again in a CREATE pattern creates
nothing and denotes the very node it is bound to (one node per distinct variable) -/
theorem C04_create_repeated_variable_is_one_node (g : G) (ps : Props) (row : Row) (x id : Nat)
    (ls : List Nat) (props : List (Nat × E)) (hx : row.get x = some (.node id)) :
    createNode g ps row ⟨some x, ls, props⟩ = .ok (g, row, id) := by
  simp [createNode, hx]

/-! ### DELETE -/

/-- deleting a node that still has relationships, without DETACH, is refused -/
theorem C04_delete_connected_refused (g : G) (id : Nat) (hn : g.hasNode id = true)
    (hd : g.degree id > 0) : g.delNode false id = .error .constraint := by
  simp [G.delNode, hn, hd]

/-- … at clause level, for every row that binds the variable to such a node -/
theorem C04_delete_clause_refuses_connected (g : G) (ps : Props) (row : Row) (x id : Nat)
    (hx : row.get x = some (.node id)) (hn : g.hasNode id = true) (hd : g.degree id > 0) :
    applyWrite G.delNode ps (.delete false [x]) g row = .error .constraint := by
  simp [applyWrite, foldR, applyDel, hx, C04_delete_connected_refused g id hn hd, bind,
    Except.bind]

/-- DETACH DELETE removes the node and exactly the relationships incident to it -/
theorem C04_detach_delete_removes_exactly_incident (g : G) (id : Nat) (hn : g.hasNode id = true) :
    ∃ g', g.delNode true id = .ok g'
      ∧ g'.nodes = g.nodes.filter (·.id ≠ id)
      ∧ (∀ r, r ∈ g'.rels ↔ r ∈ g.rels ∧ r.src ≠ id ∧ r.tgt ≠ id) := by
  refine ⟨⟨g.nodes.filter (·.id ≠ id), g.rels.filter (fun r => !r.touches id)⟩,
    by simp [G.delNode, hn], rfl, ?_⟩
  intro r
  simp [Rel.touches]

/-- plain DELETE of an isolated node removes the node and nothing else -/
theorem C04_delete_isolated (g : G) (id : Nat) (hn : g.hasNode id = true) (hd : g.degree id = 0) :
    ∃ g', g.delNode false id = .ok g' ∧ g'.nodes = g.nodes.filter (·.id ≠ id) ∧ g'.rels = g.rels := by
  refine ⟨⟨g.nodes.filter (·.id ≠ id), g.rels.filter (fun r => !r.touches id)⟩,
    by simp [G.delNode, hn, hd], rfl, ?_⟩
  have : g.rels.filter (·.touches id) = [] := List.eq_nil_of_length_eq_zero hd
  show g.rels.filter (fun r => !r.touches id) = g.rels
  rw [List.filter_eq_self]
  intro r hr
  have h2 := List.filter_eq_nil_iff.mp this r hr
  simpa using h2

/-- relationships are deleted by **identity**: of several parallel (even equal-looking)
relationships exactly the one with the handle goes, every other one stays — in the
relationship list, hence in both adjacency directions of the logical graph -/
theorem C04_delete_rel_by_identity (g : G) (id : Nat) :
    (∀ r ∈ g.rels, r.id ≠ id → r ∈ (g.delRel id).rels)
    ∧ (∀ r ∈ (g.delRel id).rels, r ∈ g.rels ∧ r.id ≠ id)
    ∧ (g.delRel id).nodes = g.nodes := by
  refine ⟨?_, ?_, rfl⟩
  · intro r hr hne
    show r ∈ g.rels.filter (·.id ≠ id)
    simp [List.mem_filter, hr, hne]
  · intro r hr
    have hr' : r ∈ g.rels.filter (·.id ≠ id) := hr
    simpa [List.mem_filter] using hr'

/-! ### SET / REMOVE -/

/-- set-then-read: after `SET x.k = v` on a node, `x.k` reads `v` (and `null` when `v` is
null: the property is gone) -/
theorem C04_set_then_read (g : G) (id k : Nat) (v : V) (hn : (g.node? id).isSome) :
    ∃ g', applySetV g (.prop (some (.node id)) k v) = .ok g'
      ∧ readProp g' (some (.node id)) k = .ok v := by
  refine ⟨_, rfl, ?_⟩
  simp only [readProp, node?_mapNode]
  cases h : g.node? id with
  | none => simp [h] at hn
  | some n => simp [pget_pset_same]

/-- … and every other property of that node is unchanged -/
theorem C04_set_other_keys_unchanged (g : G) (id k j : Nat) (v : V) (hkj : k ≠ j) :
    readProp (g.mapNode id (fun n => { n with props := pset n.props k v })) (some (.node id)) j
      = readProp g (some (.node id)) j := by
  simp only [readProp, node?_mapNode]
  cases h : g.node? id with
  | none => rfl
  | some n => simp [pget_pset_other _ _ _ _ hkj]

/-- remove-then-null -/
theorem C04_remove_then_null (g : G) (row : Row) (x id k : Nat) (hx : row.get x = some (.node id)) :
    ∃ g', applyRem row g (.prop x k) = .ok g' ∧ readProp g' (some (.node id)) k = .ok .null := by
  refine ⟨_, by simp [applyRem, hx]; rfl, ?_⟩
  simp only [readProp, node?_mapNode]
  cases h : g.node? id with
  | none => rfl
  | some n => simp [pget_perase_same]

/-! ### MERGE -/

/-- MERGE never creates a second match: when the pattern already has a match, the graph is
left exactly as it is -/
theorem C04_merge_never_second_match (g : G) (ps : Props) (row : Row) (p : NPat) (req : Props)
    (he : evalProps g ps row p.props = .ok req) (hnn : ∀ kv ∈ req, kv.2 ≠ .null)
    (hm : HasMatch g p.labels req) :
    ∃ row', applyMerge g ps row p [] [] = .ok (g, row') := by
  obtain ⟨row', h⟩ := applyMerge_graph g ps row p req he hnn
  rw [mergeReq_matched g p.labels req hm] at h
  exact ⟨row', h⟩

/-- MERGE adds at most one node, and afterwards the pattern has a match -/
theorem C04_merge_creates_at_most_one (g : G) (ls : List Nat) (req : Props) (hg : GoodReq req) :
    (mergeReq g ls req).nodes.length ≤ g.nodes.length + 1 ∧ HasMatch (mergeReq g ls req) ls req := by
  refine ⟨?_, mergeReq_has_match g ls req hg⟩
  unfold mergeReq
  split
  · exact Nat.le_succ _
  · simp [G.addNode]

/-- every row evaluates the pattern against the graph **as it is now**: when no node of the
current graph matches — e.g. because an earlier row's ON CREATE / ON MATCH SET rewrote the key
the pattern matches on — the row creates a node, whatever earlier rows were bound to -/
theorem C04_merge_creates_when_no_match_now (g : G) (ls : List Nat) (req : Props)
    (h : ¬ HasMatch g ls req) : (mergeReq g ls req).nodes.length = g.nodes.length + 1 := by
  unfold mergeReq
  split
  · rename_i n hsome
    exact absurd ⟨n, List.mem_of_find?_eq_some hsome,
      List.find?_some (p := fun n => nodeMatches n ls req) hsome⟩ h
  · simp [G.addNode]

/-- later rows see earlier creates: two rows asking for the same pattern create one node -/
theorem C04_merge_rows_see_earlier_creates (g : G) (ls : List Nat) (req : Props) (hg : GoodReq req) :
    mergeAll g [(ls, req), (ls, req)] = mergeAll g [(ls, req)] := by
  show mergeReq (mergeReq g ls req) ls req = mergeReq g ls req
  exact mergeReq_matched _ ls req (mergeReq_has_match g ls req hg)

/-- MERGE is idempotent on the graph: running the same requests again changes nothing -/
theorem C04_merge_idempotent (g : G) (reqs : List (List Nat × Props))
    (hg : ∀ r ∈ reqs, GoodReq r.2) :
    mergeAll (mergeAll g reqs) reqs = mergeAll g reqs :=
  mergeAll_fixed _ reqs (mergeAll_all_matched g reqs hg)

/-! ### label sets are sets -/

/-- a node matches a multi-label pattern only if it carries **every** label of the pattern:
a node with a strict subset of the labels (and the same properties) is not a match -/
theorem C04_match_requires_all_labels (n : Node) (ls : List Nat) (req : Props) (l : Nat)
    (hl : l ∈ ls) (hn : l ∉ n.labels) : nodeMatches n ls req = false := by
  simp only [nodeMatches, Bool.and_eq_false_iff]
  left
  simp only [hasLabels, List.all_eq_false, List.contains_iff_mem]
  exact ⟨l, hl, by simpa using hn⟩

/-- the written order of the labels of a pattern is irrelevant for matching -/
theorem C04_label_order_irrelevant_for_match (n : Node) (ls ls' : List Nat) (req : Props)
    (h : ∀ x, x ∈ ls ↔ x ∈ ls') : nodeMatches n ls req = nodeMatches n ls' req := by
  have : hasLabels n ls = hasLabels n ls' := by
    cases h1 : hasLabels n ls <;> cases h2 : hasLabels n ls' <;> try rfl
    · simp only [hasLabels, List.all_eq_true, List.all_eq_false] at h1 h2
      obtain ⟨x, hx, hc⟩ := h1
      exact absurd (h2 x ((h x).mp hx)) hc
    · simp only [hasLabels, List.all_eq_true, List.all_eq_false] at h1 h2
      obtain ⟨x, hx, hc⟩ := h2
      exact absurd (h1 x ((h x).mpr hx)) hc
  simp only [nodeMatches, this]

/-- … and a created node carries exactly the labels of its pattern, whatever their order -/
theorem C04_created_label_set (ls : List Nat) (x : Nat) : x ∈ linsertAll [] ls ↔ x ∈ ls := by
  simp [mem_linsertAll]

/-! ### well-formedness and read-only statements -/

/-- writes preserve well-formedness: unique handles, no dangling relationship — for every
statement of the fragment, every parameter map, every well-formed graph -/
theorem C04_write_preserves_wf (ps : Props) (g g' : G) (q : Stmt) (rows : List (List V))
    (h : g.wf = true) (he : exec ps g q = .ok (g', rows)) : g'.wf = true := by
  rw [wf_iff] at h ⊢
  unfold exec execWith at he
  obtain ⟨⟨g1, rs⟩, h1, he⟩ := bind_ok he
  have w1 : WF g1 :=
    foldR_inv (fun (a : G × List Row) => WF a.1) _
      (fun s c s' hs hc => wf_execClause G.delNode delOK_delNode ps c s s' hs hc)
      q.clauses (g, [[]]) (g1, rs) h h1
  dsimp only at he
  split at he
  · cases he; exact w1
  · obtain ⟨out, _, he⟩ := bind_ok he
    cases he; exact w1

/-- a statement without a write clause leaves the graph unchanged (used by C23, C24) -/
theorem C04_read_only_no_change (del : G → Bool → Nat → R G) (ps : Props) (g g' : G) (q : Stmt)
    (rows : List (List V)) (hq : q.hasWrite = false) (he : execWith del ps g q = .ok (g', rows)) :
    g' = g := by
  unfold execWith at he
  obtain ⟨⟨g1, rs⟩, h1, he⟩ := bind_ok he
  have hall : ∀ c ∈ q.clauses, c.isWrite = false := by
    intro c hc
    have := hq
    simp only [Stmt.hasWrite, List.any_eq_false] at this
    simpa using this c hc
  have key : ∀ (cs : List Clause) (s s' : G × List Row), (∀ c ∈ cs, c.isWrite = false) →
      foldR (fun st c => execClause del ps c st) s cs = .ok s' → s'.1 = s.1 := by
    intro cs
    induction cs with
    | nil => intro s s' _ h; simp only [foldR] at h; cases h; rfl
    | cons c cs ih =>
      intro s s' hc h
      simp only [foldR] at h
      obtain ⟨s1, hs1, h⟩ := bind_ok h
      have e1 := execClause_read del ps c s s1 (hc c (List.mem_cons_self ..)) hs1
      have e2 := ih s1 s' (fun c' h' => hc c' (List.mem_cons_of_mem _ h')) h
      rw [e2, e1]
  have hg1 : g1 = g := key q.clauses (g, [[]]) (g1, rs) hall h1
  dsimp only at he
  split at he
  · cases he; exact hg1
  · obtain ⟨out, _, he⟩ := bind_ok he
    cases he; exact hg1

/-! ### the model satisfies the executable specification -/

def obsOf (g : G) : R (G × List (List V)) → Obs
  | .ok (g', rows) => .ok g' rows
  | .error e => .err e g

/-- S evaluated on the model's own outcome accepts it (identity renaming) — this is the
specification the harness evaluates on the engine's observations -/
theorem C04_model_refines_spec (ps : Props) (g : G) (q : Stmt) :
    specStmt ps g q (obsOf g (exec ps g q)) [] = true := by
  have hren : ∀ v : V, renV [] v = v := by
    intro v; cases v <;> simp [renV, renId]
  have hrows : ∀ rows : List (List V), rows.map (·.map (renV [])) = rows := by
    intro rows
    have : (fun r : List V => r.map (renV [])) = id := by
      funext r
      have h2 : (renV []) = (id : V → V) := funext hren
      rw [h2]; simp
    simp [this]
  unfold specStmt obsOf
  cases h : exec ps g q with
  | error e => simp [bagEq_refl]
  | ok r =>
    obtain ⟨g', rows⟩ := r
    simp [bagEq_refl, hrows]

/-! ### the pinned tree violated the property -/

def gAB : G := ⟨[⟨1, [0], [(0, .int 1)]⟩, ⟨2, [1], [(0, .int 2)]⟩], [⟨1, 1, 2, 0, []⟩]⟩
def qDeleteA : Stmt := ⟨[.matchN 0 [0] [], .delete false [0]], none⟩

/-- `MATCH (a:L0) DELETE a` on `(a:L0)-[:T0]->(b:L1)`: the pinned tree answered OK and the
relationship was gone (silent detach) -/
theorem C04_counterexample_plain_delete_detaches :
    okOf (execLegacy [] gAB qDeleteA) = some (⟨[⟨2, [1], [(0, .int 2)]⟩], []⟩, []) := by decide

/-- … where S (and the repaired engine) refuse -/
theorem C04_plain_delete_refused_on_witness :
    errOf (exec [] gAB qDeleteA) = some .constraint := by decide

/-! ### non-vacuity -/

example : gAB.wf = true := by decide
/-- witnesses of the class C04-d: a cycle `(a)-[:T0]->(b)-[:T1]->(a)` is two nodes and two relationships between
them; a self-loop `(n)-[:T0]->(n)` is one node and one relationship -/
example : (okOf (exec [] G.empty ⟨[.create [⟨⟨some 1, [0], []⟩, some (0, [], true, ⟨some 2, [1], []⟩)⟩,
      ⟨⟨some 2, [], []⟩, some (1, [], true, ⟨some 1, [], []⟩)⟩]], none⟩)).map
    (fun r => (r.1.nodes.length, r.1.rels.map (fun e => (e.src, e.tgt)))) = some (2, [(0, 1), (1, 0)]) := by decide
example : (okOf (exec [] G.empty ⟨[.create [⟨⟨some 1, [2], []⟩, some (0, [], true, ⟨some 1, [], []⟩)⟩]], none⟩)).map
    (fun r => (r.1.nodes.length, r.1.rels.map (fun e => (e.src, e.tgt)))) = some (1, [(0, 0)]) := by decide
/-- three parallel `:T0` relationships with k0 = 1, 2, 3: `MATCH (a:L0)-[r:T0]->(b:L1) WHERE r.k0 = 2 DELETE r`
leaves exactly the other two -/
example : (okOf (exec [] ⟨[⟨1, [0], []⟩, ⟨2, [1], []⟩],
      [⟨1, 1, 2, 0, [(0, .int 1)]⟩, ⟨2, 1, 2, 0, [(0, .int 2)]⟩, ⟨3, 1, 2, 0, [(0, .int 3)]⟩]⟩
    ⟨[.matchR 1 [0] 5 0 2 [1], .filter (.bin .eq (.prop 5 0) (.lit (.int 2))), .delete false [5]], none⟩)).map
      (fun r => r.1.rels.map (·.id)) = some [1, 3] := by decide
/-- the seeded-change witness C04-b: `UNWIND [1,2,3] AS x MERGE (s:L0 {k0: 0}) ON CREATE SET s.k0 = 1,
s.k1 = x RETURN s` creates three nodes and returns three different handles -/
example : (okOf (exec [] G.empty
    ⟨[.unwind (.lcons (.lit (.int 1)) (.lcons (.lit (.int 2)) (.lcons (.lit (.int 3)) .lnil))) 0,
      .merge ⟨some 1, [0], [(0, .lit (.int 0))]⟩ [.prop 1 0 (.lit (.int 1)), .prop 1 1 (.var 0)] []],
     some [.var 1]⟩)).map (fun r => (r.1.nodes.length, r.2))
    = some (3, [[.node 0], [.node 1], [.node 2]]) := by decide
/-- the seeded-change witness: three `:L0` nodes, one `:L1 {k0: 7}`; MERGE (n:L0:L1 {k0: 7}) must create -/
example : (okOf (exec [] ⟨[⟨1, [0], [(0, .int 1)]⟩, ⟨2, [0], [(0, .int 2)]⟩, ⟨3, [0], [(0, .int 3)]⟩,
      ⟨4, [1], [(0, .int 7)]⟩], []⟩
    ⟨[.merge ⟨some 1, [0, 1], [(0, .lit (.int 7))]⟩ [.prop 1 1 (.lit (.int 0))] [.prop 1 1 (.lit (.int 1))]], none⟩)).map
      (fun r => r.1.nodes.drop 3) = some [⟨4, [1], [(0, .int 7)]⟩, ⟨5, [0, 1], [(0, .int 7), (1, .int 0)]⟩] := by
  decide
example : okOf (exec [] gAB ⟨[.matchN 0 [0] [], .delete true [0]], none⟩)
    = some (⟨[⟨2, [1], [(0, .int 2)]⟩], []⟩, []) := by decide
example : GoodReq [(0, .int 1), (1, .str ['a'])] := by
  refine ⟨by decide, ?_⟩
  intro kv h
  simp only [List.mem_cons, List.mem_nil_iff, or_false] at h
  rcases h with h | h <;> subst h <;> decide
example : (okOf (exec [] G.empty ⟨[.unwind (.lcons (.lit (.int 1)) (.lcons (.lit (.int 1)) .lnil)) 0,
      .merge ⟨some 1, [2], [(0, .var 0)]⟩ [] []], none⟩)).map (·.1.nodes.length) = some 1 := by decide

end SgModel.CyW
