import SgModel.Model.PV
namespace SgModel.PV
theorem C10_placeholder : True := trivial
end SgModel.PV
