import SgModel.Lemmas.PV
import SgModel.Lemmas.PVF64
import SgModel.Lemmas.PVCypher
/-!
# C10 — property values are ordered by lawful total orders

Property theorems only (helpers: `Lemmas/PV.lean`, `Lemmas/PVF64.lean`, `Lemmas/PVCypher.lean`).  Every theorem
quantifies over **all** values `a b c : PV` — arbitrarily nested arrays and maps (mutual
structural induction), every float bit pattern, every integer — nothing is bounded.

`cmp` / `cypherOrder` model the code after the `fix:` commit; `cmpLegacy` the pinned tree.
`beq` models the derived `PartialEq` (IEEE on floats and vector lanes), which the repair
does **not** change (Cypher's `=` is evaluated with it): the agreement of `==` with the
order and with `Hash` is therefore proved *exactly* (`C10_beq_iff`: `a == b` iff `a` has no
NaN and the two are bit-identical up to signs of zeros) and, as the property states it,
only on the complementary class (`…_partial`, values without NaN and without `-0.0`).
-/
namespace SgModel.PV

/-- the integer→float conversion of the model (`i64 as f64`, round to nearest even) is
monotone and never NaN — the one piece of float reasoning the order laws rest on -/
theorem C10_cast_ok : CastOK F64.cast := ⟨F64.cast_mono, F64.cast_noNaN⟩

/-! ## the index order is a lawful strict total order -/

/-- reflexive -/
theorem C10_cmp_refl (a : PV) : cmp a a = .eq :=
  (cmpG_eq_iff (numOK_of_castOK C10_cast_ok) a a).2 rfl

/-- `cmp b a` is the mirror image of `cmp a b`: antisymmetric and total -/
theorem C10_cmp_antisymm (a b : PV) : cmp b a = (cmp a b).swap :=
  cmpG_swap (numOK_of_castOK C10_cast_ok) a b

/-- total: any two values are comparable, and exactly one of `<`, `=`, `>` holds -/
theorem C10_cmp_total (a b : PV) : cmp a b = .lt ∨ cmp a b = .eq ∨ cmp b a = .lt := by
  rw [C10_cmp_antisymm a b]; cases cmp a b <;> simp [Ordering.swap]

/-- `Equal` exactly on bit-identical values (in particular `Integer(2)` and `Float(2.0)`,
`0.0` and `-0.0`, two NaNs with different payloads are all distinct keys) -/
theorem C10_cmp_eq_iff_identical (a b : PV) : cmp a b = .eq ↔ a = b :=
  cmpG_eq_iff (numOK_of_castOK C10_cast_ok) a b

/-- transitive (strict part) -/
theorem C10_cmp_trans (a b c : PV) (h1 : cmp a b = .lt) (h2 : cmp b c = .lt) : cmp a c = .lt :=
  cmpG_trans (numOK_of_castOK C10_cast_ok) a b c h1 h2

/-- transitive (non-strict form: `a ≤ b ≤ c → a ≤ c`) -/
theorem C10_cmp_trans_le (a b c : PV) (h1 : cmp a b ≠ .gt) (h2 : cmp b c ≠ .gt) : cmp a c ≠ .gt := by
  rcases hab : cmp a b with _ | _ | _
  · rcases hbc : cmp b c with _ | _ | _
    · rw [C10_cmp_trans a b c hab hbc]; simp
    · rw [← (C10_cmp_eq_iff_identical b c).1 hbc, hab]; simp
    · exact absurd hbc h2
  · rw [(C10_cmp_eq_iff_identical a b).1 hab]; exact h2
  · exact absurd hab h1

/-- the same laws hold for *any* integer→float conversion that is monotone and NaN-free
(the abstract statement that `C10_cmp_trans` instantiates with `F64.cast`) -/
theorem C10_cmp_trans_abstract (cast : Int → Nat) (hc : CastOK cast) (a b c : PV)
    (h1 : cmpC cast a b = .lt) (h2 : cmpC cast b c = .lt) : cmpC cast a c = .lt :=
  cmpG_trans (numOK_of_castOK hc) a b c h1 h2

/-! ## agreement with value equality and with `Hash` -/

/-- exact characterisation of the derived `==`: `a == b` iff `a` contains no NaN and the two
values are bit-identical after replacing every `-0.0` by `+0.0` -/
theorem C10_beq_iff (a b : PV) : beq a b = true ↔ (noNaN a = true ∧ normZero a = normZero b) :=
  beq_iff a b

/-- PARTIAL (class excluded: values containing a NaN or a negative zero — known findings
`eq-ord-nan`, `eq-ord-signed-zero`).  Full statement, false for the code as it stands:
`∀ a b, cmp a b = .eq ↔ beq a b = true`. -/
theorem C10_cmp_eq_iff_beq_partial (a b : PV) (ha : tame a = true) (hb : tame b = true) :
    cmp a b = .eq ↔ beq a b = true := by
  simp only [tame, Bool.and_eq_true, same_iff] at ha hb
  rw [C10_cmp_eq_iff_identical, C10_beq_iff, ha.2, hb.2]
  exact ⟨fun h => ⟨ha.1, h⟩, fun h => h.2⟩

/-- equal values feed the same word sequence to the hasher, up to signs of zeros (hence equal
hashes under any hasher once `-0.0` is normalised) -/
theorem C10_beq_hash_normalised (a b : PV) (h : beq a b = true) :
    hashKey (normZero a) = hashKey (normZero b) := by
  rw [((C10_beq_iff a b).1 h).2]

/-- PARTIAL (class excluded: values containing a negative zero — known finding
`eq-hash-signed-zero`).  Full statement, false for the code as it stands:
`∀ a b, beq a b = true → hashKey a = hashKey b`. -/
theorem C10_beq_hash_partial (a b : PV) (ha : tame a = true) (hb : tame b = true)
    (h : beq a b = true) : hashKey a = hashKey b := by
  simp only [tame, Bool.and_eq_true, same_iff] at ha hb
  have := C10_beq_hash_normalised a b h
  rwa [ha.2, hb.2] at this

/-- values the order identifies hash identically (no exception) -/
theorem C10_cmp_eq_hash (a b : PV) (h : cmp a b = .eq) : hashKey a = hashKey b := by
  rw [(C10_cmp_eq_iff_identical a b).1 h]

/-! ## the ORDER BY order (`cypher_order`) is a total preorder -/

/-- reflexive -/
theorem C10_cypher_refl (a : PV) : cypherOrder a a = .eq :=
  cy_refl (numOK_of_castOK C10_cast_ok) a

/-- `cypher_order(b, a)` is the mirror image of `cypher_order(a, b)`: total, and ties are symmetric -/
theorem C10_cypher_antisymm (a b : PV) : cypherOrder b a = (cypherOrder a b).swap :=
  cy_swap (numOK_of_castOK C10_cast_ok) a b

/-- total -/
theorem C10_cypher_total (a b : PV) : cypherOrder a b ≠ .gt ∨ cypherOrder b a ≠ .gt := by
  rw [C10_cypher_antisymm a b]; cases cypherOrder a b <;> simp [Ordering.swap]

/-- transitive, with ties: `<`/`<`, `<`/`=`, `=`/`<` compose to `<`, and `=`/`=` to `=`
(so "sorts equal" is an equivalence compatible with the order) -/
theorem C10_cypher_trans_cases (a b c : PV) :
    (cypherOrder a b = .lt → cypherOrder b c = .lt → cypherOrder a c = .lt) ∧
    (cypherOrder a b = .lt → cypherOrder b c = .eq → cypherOrder a c = .lt) ∧
    (cypherOrder a b = .eq → cypherOrder b c = .lt → cypherOrder a c = .lt) ∧
    (cypherOrder a b = .eq → cypherOrder b c = .eq → cypherOrder a c = .eq) :=
  cy_T4 (numOK_of_castOK C10_cast_ok) a b c

/-- transitive (`a ≤ b ≤ c → a ≤ c`) -/
theorem C10_cypher_trans_le (a b c : PV) (h1 : cypherOrder a b ≠ .gt) (h2 : cypherOrder b c ≠ .gt) :
    cypherOrder a c ≠ .gt := by
  obtain ⟨t1, t2, t3, t4⟩ := C10_cypher_trans_cases a b c
  cases hab : cypherOrder a b <;> cases hbc : cypherOrder b c <;> simp_all

/-- `cypher_order` is a total preorder -/
theorem C10_cypher_total_preorder :
    (∀ a, cypherOrder a a ≠ .gt) ∧
    (∀ a b, cypherOrder a b ≠ .gt ∨ cypherOrder b a ≠ .gt) ∧
    (∀ a b c, cypherOrder a b ≠ .gt → cypherOrder b c ≠ .gt → cypherOrder a c ≠ .gt) :=
  ⟨fun a => by rw [C10_cypher_refl]; simp, C10_cypher_total, C10_cypher_trans_le⟩

/-- every NaN sorts after every other number, whatever its sign, and all NaNs tie -/
example : cypherOrder (.int 0) (.flt 0xFFF8000000000000) = .lt
    ∧ cypherOrder (.flt 0x7FF0000000000000) (.flt 0xFFF8000000000000) = .lt
    ∧ cypherOrder (.flt 0x7FF8000000000000) (.flt 0xFFF0000000000001) = .eq
    ∧ cypherOrder (.flt 0xFFF8000000000000) (.dt 0) = .lt := by decide

/-! ## the model satisfies the executable specification the harness evaluates on the code -/

/-- order laws, for every triple of values (no exception): these are the checks the harness
applies to the real `cmp` / `cypher_order` results -/
theorem C10_model_refines_spec (a b c : PV) :
    lawRefl (cmp a a) = true ∧ lawSwap (cmp a b) (cmp b a) = true
    ∧ lawTrans (cmp a b) (cmp b c) (cmp a c) = true
    ∧ lawRefl (cypherOrder a a) = true ∧ lawSwap (cypherOrder a b) (cypherOrder b a) = true
    ∧ lawTrans (cypherOrder a b) (cypherOrder b c) (cypherOrder a c) = true := by
  refine ⟨?_, ?_, ?_, ?_, ?_, ?_⟩
  · simp [lawRefl, C10_cmp_refl]
  · simp [lawSwap, C10_cmp_antisymm a b]
  · exact lawTrans_of_T4 (T4_cmpG (numOK_of_castOK C10_cast_ok) a b c)
  · simp [lawRefl, C10_cypher_refl]
  · simp [lawSwap, C10_cypher_antisymm a b]
  · exact lawTrans_of_T4 (C10_cypher_trans_cases a b c)

/-- PARTIAL (same excluded class as above): the equality/hash laws of the specification, on
values without NaN and without negative zero. -/
theorem C10_model_refines_spec_eq_partial (a b : PV) (ha : tame a = true) (hb : tame b = true) :
    lawEqOrd (cmp a b) (beq a b) = true
    ∧ lawEqHash (beq a b) (decide (hashKey a = hashKey b)) = true := by
  constructor
  · have := C10_cmp_eq_iff_beq_partial a b ha hb
    cases h1 : cmp a b <;> cases h2 : beq a b <;> simp_all [lawEqOrd]
  · cases h2 : beq a b
    · simp [lawEqHash]
    · simp [lawEqHash, C10_beq_hash_partial a b ha hb h2]

/-- identity laws of the specification, for every pair (no exception): the order calls two values
`Equal` only if they are the same value — whatever coarser equivalence one may have in mind
(durations of equal length, numbers of equal value, arrays/vectors with equal components, maps
with equal keys) — and then they feed the hasher the same words -/
theorem C10_model_refines_spec_ident (a b : PV) :
    lawOrdIdent (cmp a b) (same a b) = true
    ∧ lawOrdHash (cmp a b) (decide (hashKey a = hashKey b)) = true := by
  constructor
  · by_cases h : a = b
    · subst h; simp [lawOrdIdent, C10_cmp_refl, (same_iff a a).2 rfl]
    · have h1 : cmp a b ≠ .eq := fun e => h ((C10_cmp_eq_iff_identical a b).1 e)
      have h2 : same a b = false := by
        cases hs : same a b
        · rfl
        · exact absurd ((same_iff a b).1 hs) h
      cases hc : cmp a b <;> simp_all [lawOrdIdent]
  · cases hc : cmp a b <;> simp [lawOrdHash]
    exact C10_cmp_eq_hash a b hc

/-- durations are compared field by field, so splits of one length stay distinct keys:
`{seconds:1, nanos:-500000000}` vs `{seconds:0, nanos:500000000}`, `P1D` vs `PT86400S`,
`P1M` vs `PT2629746S` -/
example : cmp (.dur 0 0 1 (-500000000)) (.dur 0 0 0 500000000) = .gt
    ∧ cmp (.dur 0 0 1 0) (.dur 0 0 0 1000000000) = .gt
    ∧ cmp (.dur 0 1 0 0) (.dur 0 0 86400 0) = .gt
    ∧ cmp (.dur 1 0 0 0) (.dur 0 0 2629746 0) = .gt
    ∧ beq (.dur 0 0 1 (-500000000)) (.dur 0 0 0 500000000) = false := by decide

/-- the pinned `cypher_order` inherited the cycle wherever it falls back to the index order
(maps): `{a:-NaN} < {a:-1.0} < {a:0} < {a:-NaN}` -/
theorem C10_counterexample_cypher_trans :
    cypherOrderLegacy (.map (.cons [97] (.flt 0xFFF8000000000000) .nil)) (.map (.cons [97] (.flt 0xBFF0000000000000) .nil)) = .lt
    ∧ cypherOrderLegacy (.map (.cons [97] (.flt 0xBFF0000000000000) .nil)) (.map (.cons [97] (.int 0) .nil)) = .lt
    ∧ cypherOrderLegacy (.map (.cons [97] (.int 0) .nil)) (.map (.cons [97] (.flt 0xFFF8000000000000) .nil)) = .lt := by
  decide

/-! ## defects of the pinned tree (witnesses replayed on the real code by `corpus/C10`) -/

/-- `-NaN < -1.0 < 0 < -NaN` -/
theorem C10_counterexample_trans :
    cmpLegacy (.flt 0xFFF8000000000000) (.flt 0xBFF0000000000000) = .lt
    ∧ cmpLegacy (.flt 0xBFF0000000000000) (.int 0) = .lt
    ∧ cmpLegacy (.int 0) (.flt 0xFFF8000000000000) = .lt := by decide

/-- the repaired order on the same triple -/
example : cmp (.flt 0xFFF8000000000000) (.flt 0xBFF0000000000000) = .lt
    ∧ cmp (.flt 0xBFF0000000000000) (.int 0) = .lt
    ∧ cmp (.flt 0xFFF8000000000000) (.int 0) = .lt := by decide

/-- NaN is not `==` to itself although the order says `Equal` (still the case: known finding) -/
theorem C10_counterexample_eq_nan :
    cmp (.flt 0x7FF8000000000000) (.flt 0x7FF8000000000000) = .eq
    ∧ beq (.flt 0x7FF8000000000000) (.flt 0x7FF8000000000000) = false
    ∧ beq (.vec [0x7FC00000]) (.vec [0x7FC00000]) = false := by decide

/-- `0.0 == -0.0` although the order separates them (known finding) -/
theorem C10_counterexample_eq_zero :
    beq (.flt 0) (.flt 0x8000000000000000) = true ∧ cmp (.flt 0) (.flt 0x8000000000000000) = .gt
    ∧ beq (.vec [0]) (.vec [0x80000000]) = true ∧ cmp (.vec [0]) (.vec [0x80000000]) = .lt := by
  decide

/-- `0.0 == -0.0` but they feed different words to the hasher (known finding) -/
theorem C10_counterexample_hash_zero :
    beq (.flt 0) (.flt 0x8000000000000000) = true
    ∧ hashKey (.flt 0) ≠ hashKey (.flt 0x8000000000000000) := by decide

/-- the hypotheses of the `_partial` theorems are satisfiable by non-trivial values -/
example : tame (.arr (.cons (.flt 0x3FF0000000000000)
    (.cons (.map (.cons [97] (.vec [0x3F800000]) .nil)) .nil))) = true := by decide

/-- 2^53 boundary: `Integer(2^53+1)` rounds to `Float(2^53)` and ties break toward the integer -/
example : cmp (.int 9007199254740993) (.flt 0x4340000000000000) = .lt
    ∧ cmp (.flt 0x4340000000000000) (.int 9007199254740993) = .gt
    ∧ cmp (.int 9007199254740992) (.int 9007199254740993) = .lt := by decide

end SgModel.PV
