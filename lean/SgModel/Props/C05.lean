import SgModel.Lemmas.CyWParam
/-!
# C05 — a write statement that fails changes nothing

The full statement (for every statement `q` and graph `g`: if the engine answers an error,
graph, indexes and constraints are as before) is **false of the code**: rows stream through
the write operators and nothing is undone (`execute_plan_mut`, `executor/mod.rs:585`).  It is
a known finding (statement-level undo over `GraphStore` is not a small patch).  Here:

* `C05_spec_atomic`            — S (`execAtomic`) is atomic; this is what a repaired engine must refine;
* `C05_stream_same_outcome`    — the streaming execution answers exactly like S (same success,
                                 same error) — only what is left behind differs;
* `C05_partial_*`              — the part of the property that does hold for the streaming
                                 execution: a failure on the first row, a single-row statement,
                                 a statement whose only fallible evaluation precedes the first write;
* `C05_counterexample*`        — the refutation on the concrete witness, by `decide`.
-/
namespace SgModel.CyW

/-- S is atomic: an error leaves the graph exactly as it was -/
theorem C05_spec_atomic (ps : Props) (g : G) (q : Stmt) (e : Err)
    (h : (execAtomic ps g q).2 = some e) : (execAtomic ps g q).1 = g := by
  unfold execAtomic at h ⊢
  cases hx : exec ps g q with
  | ok r => rw [hx] at h; cases h
  | error e' => rfl

/-- the streaming execution and the row fold of S succeed together, with the same graph … -/
theorem C05_stream_same_outcome_ok {α : Type} (act : G → α → R G) (rows : List α) (g g' : G) :
    streamRows act g rows = (g', none) ↔ foldR act g rows = .ok g' := by
  induction rows generalizing g with
  | nil => simp [streamRows, foldR]
  | cons r rs ih =>
    simp only [streamRows, foldR]
    cases h : act g r with
    | ok g1 => simp only [bind, Except.bind]; exact ih g1
    | error e => simp [bind, Except.bind]

/-- … and fail together, with the same error -/
theorem C05_stream_same_outcome_err {α : Type} (act : G → α → R G) (rows : List α) (g : G) (e : Err) :
    (∃ g', streamRows act g rows = (g', some e)) ↔ foldR act g rows = .error e := by
  induction rows generalizing g with
  | nil => simp [streamRows, foldR]
  | cons r rs ih =>
    simp only [streamRows, foldR]
    cases h : act g r with
    | ok g1 => simp only [bind, Except.bind]; exact ih g1
    | error e' =>
      simp only [bind, Except.bind]
      constructor
      · rintro ⟨g', hg⟩; cases hg; rfl
      · intro hh; cases hh; exact ⟨g, rfl⟩

/-
Full statement (FALSE for the streaming execution, see the counterexample):
  theorem C05 : streamRows act g rows = (g', some e) → g' = g
-/

/-- partial: a failure on the first row leaves nothing behind (each row's write is
evaluate-then-mutate) -/
theorem C05_partial_first_row {α : Type} (act : G → α → R G) (g : G) (r : α) (rs : List α) (e : Err)
    (h : act g r = .error e) : streamRows act g (r :: rs) = (g, some e) := by
  simp [streamRows, h]

/-- partial: a statement with at most one input row is atomic -/
theorem C05_partial_single_row {α : Type} (act : G → α → R G) (g g' : G) (rows : List α) (e : Err)
    (hl : rows.length ≤ 1) (h : streamRows act g rows = (g', some e)) : g' = g := by
  match rows, hl with
  | [], _ => simp [streamRows] at h
  | [r], _ =>
    simp only [streamRows] at h
    cases hr : act g r with
    | ok g1 => rw [hr] at h; simp [streamRows] at h
    | error e' => rw [hr] at h; cases h; rfl

/-- partial: when the only fallible evaluation precedes the first write — the reading
clauses may fail, the write clause (syntactically: CREATE of new nodes with literal
properties) cannot — a failed statement leaves the graph unchanged -/
theorem C05_partial_fails_before_writes (ps : Props) (g g' : G) (src : List Clause) (c : Clause)
    (e : Err) (hc : litCreate c = true) (h : execStream ps g src c = (g', some e)) : g' = g := by
  unfold execStream at h
  split at h
  · cases h; rfl
  · rename_i g0 rows _
    have hinf := streamRows_infallible
      (fun g row => (applyWrite G.delNode ps c g row).map (·.1))
      (fun g r => by
        obtain ⟨out, ho⟩ := litCreate_infallible G.delNode ps c hc g r
        exact ⟨out.1, by simp [ho, Except.map]⟩) rows g
    rw [h] at hinf
    cases hinf

/-- a multi-item SET (also ON CREATE SET / ON MATCH SET, which go through `applySet`)
evaluates every right-hand side of the row before it writes anything: if the evaluation of
any item fails — whatever its position — the row fails and there is no graph to leave behind
(class of the seeded change C05-a, which wrote item by item) -/
theorem C05_set_items_evaluated_before_any_write (g : G) (ps : Props) (row : Row)
    (items : List SetItem) (e : Err) (h : mapR (evalSetItem g ps row) items = .error e) :
    applySet g ps row items = .error e := by
  simp [applySet, h, bind, Except.bind]

/-- … hence, in the streaming execution, a SET that fails on its first row leaves the graph
exactly as it was, for any number of items and any failing item -/
theorem C05_partial_set_first_row (ps : Props) (g : G) (row : Row) (rows : List Row)
    (items : List SetItem) (e : Err) (h : mapR (evalSetItem g ps row) items = .error e) :
    streamRows (fun g row => (applyWrite G.delNode ps (.set items) g row).map (·.1)) g (row :: rows)
      = (g, some e) := by
  apply C05_partial_first_row
  simp [applyWrite, C05_set_items_evaluated_before_any_write g ps row items e h, bind, Except.bind,
    Except.map]

/-- whatever a failing row had already made — nodes, relationships between nodes that existed
before, the first of several relationships — is not part of what is left: for **every** write
clause, a failure on the first row leaves the graph exactly as it was (class of the seeded
change C05-b, where a relationship whose own property failed was not taken back) -/
theorem C05_partial_any_clause_first_row (ps : Props) (c : Clause) (g : G) (row : Row)
    (rows : List Row) (e : Err) (h : applyWrite G.delNode ps c g row = .error e) :
    streamRows (fun g row => (applyWrite G.delNode ps c g row).map (·.1)) g (row :: rows)
      = (g, some e) := by
  apply C05_partial_first_row
  simp [h, Except.map]

/-- the executable specification evaluated by the harness, satisfied by S -/
theorem C05_model_refines_spec (ps : Props) (g : G) (q : Stmt) :
    specAtomic g (match execAtomic ps g q with
      | (g', none) => .ok g' []
      | (g', some e) => .err e g') = true := by
  cases h : execAtomic ps g q with
  | mk g' oe =>
    cases oe with
    | none => rfl
    | some e =>
      have := C05_spec_atomic ps g q e (by rw [h])
      rw [h] at this
      simp only at this
      subst this
      simp [specAtomic, bagEq_refl]

/-! ### refutation on the witness `UNWIND [1,0] AS x CREATE (:L0 {k0: 1/x})` on the empty graph -/

def witnessSrc : List Clause := [.unwind (.lcons (.lit (.int 1)) (.lcons (.lit (.int 0)) .lnil)) 0]
def witnessPat : NPat := ⟨none, [0], [(0, .bin .div (.lit (.int 1)) (.var 0))]⟩

/-- the pinned tree: "Division by zero", and **two** nodes stay behind (row 1's node, and
row 2's node, created before its property was evaluated) -/
theorem C05_counterexample :
    execStreamLegacyCreate [] G.empty witnessSrc witnessPat
      = (⟨[⟨0, [0], [(0, .int 1)]⟩, ⟨1, [0], []⟩], []⟩, some .div0) := by decide

/-- after the row-level repair (agent-cywrite `fix:` 90dde49) row 2 leaves nothing, but row 1's node is
still there: the statement is not atomic -/
theorem C05_counterexample_no_undo :
    execStream [] G.empty witnessSrc (.create [⟨witnessPat, none⟩])
      = (⟨[⟨0, [0], [(0, .int 1)]⟩], []⟩, some .div0) := by decide

/-- S on the same statement: the error, and the empty graph -/
theorem C05_spec_on_witness :
    execAtomic [] G.empty ⟨witnessSrc ++ [.create [⟨witnessPat, none⟩]], none⟩ = (G.empty, some .div0) := by
  decide

/-- witness of the class C05-b: `(a:L0 {k5: 0})-[:T0]->(b:L1)`, then
`MATCH (a:L0)-[:T0]->(b:L1) CREATE (a)-[:T1 {k0: 3, k1: 12 / a.k5}]->(b)`: the error, and no second relationship -/
theorem C05_failed_relationship_is_taken_back :
    execStream [] ⟨[⟨1, [0], [(5, .int 0)]⟩, ⟨2, [1], []⟩], [⟨1, 1, 2, 0, []⟩]⟩
      [.matchR 1 [0] 5 0 2 [1]]
      (.create [⟨⟨some 1, [], []⟩, some (1, [(0, .lit (.int 3)), (1, .bin .div (.lit (.int 12)) (.prop 1 5))], true,
        ⟨some 2, [], []⟩)⟩])
      = (⟨[⟨1, [0], [(5, .int 0)]⟩, ⟨2, [1], []⟩], [⟨1, 1, 2, 0, []⟩]⟩, some .div0) := by decide

/-! ### non-vacuity -/

example : litCreate (.create [⟨⟨none, [0], [(0, .lit (.int 1))]⟩, none⟩]) = true := by decide
example : execStream [] G.empty [.unwind (.bin .div (.lit (.int 1)) (.lit (.int 0))) 0]
    (.create [⟨⟨none, [0], [(0, .lit (.int 1))]⟩, none⟩]) = (G.empty, some .div0) := by decide

end SgModel.CyW
