import SgModel.Lemmas.TenantKVSpec
/-!
# C17 — persistent storage never mixes tenants

Property theorems only (helpers: `Lemmas/TenantKV*.lean`).  RocksDB is modelled by its
contract: each column family is a map ordered by the bytewise comparator; `seek(p)` positions
at the first key ≥ p; iteration is in key order.  On that ordered-map model the theorems hold
for **all** operation histories, all tenant names the repaired code accepts (non-empty, no
':'), all ids below 2^64 — nothing is bounded.  The `…counterexample…` theorems refute the
property for the model of the pinned tree; their witnesses are replayed on the real
RocksDB-backed implementation by the harness corpus.
-/
namespace SgModel.TenantKV

/-- Key injectivity: a key determines tenant and id (both kinds). -/
theorem C17_key_inj (kind : Nat) (t₁ t₂ : Bytes) (i j : Nat) (hi : i < 2 ^ 64) (hj : j < 2 ^ 64)
    (h : mkKey kind t₁ i = mkKey kind t₂ j) : t₁ = t₂ ∧ i = j :=
  mkKey_inj hi hj h

/-- No normalisation: keys are built from the bytes of the name as given, so two *different*
accepted names — however similar (`acme` / `acme␠` / `Acme` / NFC vs NFD / `acme/`) — never
share a key, and the scan prefix of one never matches a key of the other. -/
theorem C17_distinct_names_disjoint_keys (kind : Nat) (t₁ t₂ : Bytes) (i j : Nat)
    (h₁ : accepts t₁ = true) (h₂ : accepts t₂ = true) (hne : t₁ ≠ t₂)
    (hi : i < 2 ^ 64) (hj : j < 2 ^ 64) :
    mkKey kind t₁ i ≠ mkKey kind t₂ j ∧ hasPrefix (scanPrefix t₁) (mkKey kind t₂ j) = false := by
  refine ⟨fun h => hne (mkKey_inj hi hj h).1, ?_⟩
  cases hp : hasPrefix (scanPrefix t₁) (mkKey kind t₂ j)
  · rfl
  · exact absurd (prefix_sep (accepts_iff.mp h₁).2 (accepts_iff.mp h₂).2 hp) hne

/-- Prefix separation: the scan prefix `t₁:` of an accepted name is a prefix of a key of an
accepted name `t₂` only if `t₁ = t₂` (first-separator argument) — and it always is one of
its own keys. -/
theorem C17_prefix_sep (kind : Nat) (t₁ t₂ : Bytes) (i : Nat) (h₁ : accepts t₁ = true)
    (h₂ : accepts t₂ = true) :
    hasPrefix (scanPrefix t₁) (mkKey kind t₂ i) = true ↔ t₁ = t₂ := by
  constructor
  · exact prefix_sep (accepts_iff.mp h₁).2 (accepts_iff.mp h₂).2
  · rintro rfl; exact hasPrefix_own kind t₁ i

/-- The iterator contract suffices: on any map sorted by the bytewise order, "seek to the
prefix, take while the key carries the prefix" returns exactly the entries whose key carries
the prefix (the keys with a given prefix are contiguous). -/
theorem C17_scan_is_prefix_filter (m : KV) (h : Sorted m) (p : Bytes) :
    scanKV m p = (m.filter (fun e => hasPrefix p e.1)).map (·.2) := by
  unfold scanKV; rw [scan_eq_filter h]

/-- After any history both column families are sorted, hold only keys of accepted tenants, and
agree with the reference map of the writes made under accepted names. -/
theorem C17_store_invariant (ops : List Op) (hops : ∀ op ∈ ops, op.ident < 2 ^ 64) :
    Good (run ops) (refRun ops) :=
  good_run ops hops

/-- Scan exactness (nodes and relationships): for an accepted tenant the scan returns exactly
the entities put under that tenant and not deleted since, each once; for any other name
the call is rejected. -/
theorem C17_scan_exact (ops : List Op) (hops : ∀ op ∈ ops, op.ident < 2 ^ 64) (t : Bytes) :
    (accepts t = false → scanNodes (run ops) t = none ∧ scanEdges (run ops) t = none)
    ∧ (accepts t = true →
        ∃ ln le, scanNodes (run ops) t = some ln ∧ scanEdges (run ops) t = some le
          ∧ (∀ v, v ∈ ln ↔ v.id < 2 ^ 64 ∧ (refRun ops).get chN t v.id = some v.tag)
          ∧ (∀ v, v ∈ le ↔ v.id < 2 ^ 64 ∧ (refRun ops).get chE t v.id = some v.tag)
          ∧ nodupIds ln = true ∧ nodupIds le = true) := by
  have g := good_run ops hops
  constructor
  · intro h; simp [scanNodes, scanEdges, h]
  · intro h
    refine ⟨scanKV (run ops).nodes (scanPrefix t), scanKV (run ops).edges (scanPrefix t),
      by simp [scanNodes, h], by simp [scanEdges, h], ?_, ?_, ?_, ?_⟩
    · exact fun v => mem_scan_iff g.invN g.agrN h v
    · exact fun v => mem_scan_iff g.invE g.agrE h v
    · exact nodupIds_scan g.invN h
    · exact nodupIds_scan g.invE h

/-- Point reads are exact. -/
theorem C17_get_exact (ops : List Op) (hops : ∀ op ∈ ops, op.ident < 2 ^ 64) (t : Bytes) (id : Nat)
    (ht : accepts t = true) (hi : id < 2 ^ 64) :
    getNode (run ops) t id = some (((refRun ops).get chN t id).map (fun g => ⟨id, g⟩))
    ∧ getEdge (run ops) t id = some (((refRun ops).get chE t id).map (fun g => ⟨id, g⟩)) := by
  have g := good_run ops hops
  simp only [getNode, getEdge, ht, if_true]
  exact ⟨by rw [← g.agrN t id ht hi]; rfl, by rw [← g.agrE t id ht hi]; rfl⟩

/-- Tenant isolation in the property's own words: what a tenant's scans and reads return is
determined by the writes made under that tenant alone — writes under any other name (accepted
or not) cannot add, change or remove anything it sees. -/
theorem C17_tenant_isolation (ops : List Op) (t : Bytes) (kind id : Nat) :
    (refRun ops).get kind t id = (refRun (ops.filter (fun op => op.tenant == t))).get kind t id :=
  refRun_isolated_foldl t ops (fun _ _ => rfl) kind id

/-- Tenant listing is exact: a name is listed iff it currently holds a node. -/
theorem C17_list_tenants_exact (ops : List Op) (hops : ∀ op ∈ ops, op.ident < 2 ^ 64) (t : Bytes) :
    t ∈ listTenants (run ops) ↔ ∃ id, ((refRun ops).get chN t id).isSome = true :=
  mem_listTenants (good_run ops hops) t

/-- Names that are empty or contain the separator are rejected: the write changes nothing. -/
theorem C17_unaccepted_rejected (s : State) (op : Op) (h : accepts op.tenant = false) :
    stepWith accepts s op = (s, false) := by
  simp [stepWith, h]

/-- The model satisfies the executable specification evaluated by the harness on the
implementation's observations: after every history, for every set of probes. -/
theorem C17_model_refines_spec (ops : List Op) (hops : ∀ op ∈ ops, op.ident < 2 ^ 64)
    (p : Probes) (hp : ∀ i ∈ p.ids, i < 2 ^ 64) (ok : Bool) :
    specObs (refRun ops) p (obs (run ops) p ok) = true := by
  have g := good_run ops hops
  have hcells : ∀ c ∈ cells p, idOk c.2 := by
    intro c hc
    unfold cells at hc
    rw [List.mem_flatMap] at hc
    obtain ⟨t, _, hc⟩ := hc
    rw [List.mem_map] at hc
    obtain ⟨i, hi, rfl⟩ := hc
    exact hp i hi
  simp only [specObs, obs, obsWith, Bool.and_eq_true]
  refine ⟨⟨⟨⟨?_, ?_⟩, ?_⟩, ?_⟩, listOk_of_good g⟩
  · exact zipAll_map _ _ _ (fun t _ => scanOk_of_good g.invN g.agrN g.refI g.refN t)
  · exact zipAll_map _ _ _ (fun t _ => scanOk_of_good g.invE g.agrE g.refI g.refN t)
  · exact zipAll_map _ _ _ (fun c hc => getOk_of_good g.agrN c.1 (hcells c hc))
  · exact zipAll_map _ _ _ (fun c hc => getOk_of_good g.agrE c.1 (hcells c hc))

/-! ### The pinned tree violated the property (witnesses replayed by the corpus) -/

/-- tenants "a" and "b": the pinned scan of "a" runs on into b's node -/
theorem C17_counterexample_scan_overrun :
    scanNodesLegacy (runLegacy [.putNode [97] 1 10, .putNode [98] 2 20]) [97]
      = some [⟨1, 10⟩, ⟨2, 20⟩]
    ∧ scanNodes (run [.putNode [97] 1 10, .putNode [98] 2 20]) [97] = some [⟨1, 10⟩] := by
  decide

/-- tenants "a" and "a:n": without validation each one's scan returns the other's node and
the listing reports "a" for data written under "a:n" -/
theorem C17_counterexample_separator_collision :
    scanKV (runLegacy [.putNode [97] 1 10, .putNode [97, 58, 110] 3 30]).nodes (scanPrefix [97])
      = [⟨1, 10⟩, ⟨3, 30⟩]
    ∧ scanKV (runLegacy [.putNode [97] 1 10, .putNode [97, 58, 110] 3 30]).nodes (scanPrefix [97, 58, 110])
      = [⟨1, 10⟩, ⟨3, 30⟩]
    ∧ listTenants (runLegacy [.putNode [97, 58, 110] 3 30]) = [[97]]
    ∧ accepts [97, 58, 110] = false ∧ accepts [] = false := by
  decide

/-! ### Non-vacuity -/

example : (run [.putNode [97] 1 10, .putNode [98] 2 20, .putNode [97, 58, 110] 3 30,
    .putNode [97, 98] 1 40, .delNode [98] 2]).nodes.map (·.2) = [⟨1, 10⟩, ⟨1, 40⟩] := by decide

example : nodeKey [97] 255 = [97, 58, 110, 58, 48, 48, 48, 48, 48, 48, 48, 48, 48, 48, 48, 48, 48, 48, 102, 102] := by
  decide

/-- "acme" and "acme " (trailing space) are both accepted and stay apart: same id, own data -/
example : let ops := [Op.putNode [97, 99, 109, 101] 1 10, .putNode [97, 99, 109, 101, 32] 1 20,
                      .delNode [97, 99, 109, 101] 1]
    accepts [97, 99, 109, 101, 32] = true
    ∧ getNode (run ops) [97, 99, 109, 101, 32] 1 = some (some ⟨1, 20⟩)
    ∧ getNode (run ops) [97, 99, 109, 101] 1 = some none
    ∧ (listTenants (run ops)) = [[97, 99, 109, 101, 32]] := by decide

example : scanNodes (run [.putNode [97, 57] 1 1, .putNode [97, 59] 2 2, .putNode [97] 3 3]) [97]
    = some [⟨3, 3⟩] := by decide

end SgModel.TenantKV
