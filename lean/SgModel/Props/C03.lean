import SgModel.Lemmas.Cache
import SgModel.Lemmas.Lex
/-!
# C03 — the parsed-query cache never changes what a query means

Property theorems only.  Two layers:

* generic (`Cache`): for every capacity, every key function and every parser such that equal
  keys imply equal parses, and every history of query strings, `cached_parse` returns what
  `parse` returns; the LRU stays bounded, duplicate-free and every entry is `(key s, parse s)`;
* the key (`Lex`): the repaired cache key `normalize` (whitespace collapsed in the code
  state only) determines the token stream — both the fine one with comments kept
  (`tokens`) and the one the grammar sees with comments skipped (`codeTokens`).

What is **not** proved: that the real pest parser's result depends only on `Lex.tokens`
(the grammar is not modelled).  That link is validated differentially by
`harness/src/bin/c03.rs` and is named in the trusted base.  Moreover the real parser
records the *spelling* of every unaliased RETURN item (`ReturnItem::source_text`, used as
the result column name), which is not a function of the tokens: see the known finding
`colname-spelling` — the theorems below are about the parse modulo that spelling.
-/
namespace SgModel

open Cache Lex

/-- Cache transparency: any capacity (0 is treated as 1, like `with_capacity`), any history,
any next query string. -/
theorem C03_cache_transparent {K V S E : Type} [DecidableEq K]
    (cap : Nat) (key : S → K) (parse : S → Except E V)
    (hk : ∀ a b, key a = key b → parse a = parse b) (hist : List S) (s : S) :
    (cachedParse cap key parse (run cap key parse hist) s).result = parse s :=
  step_result hk (inv_run cap key parse hist) s

/-- After any history the cache holds at most `capacity` entries (capacity ≥ 1). -/
theorem C03_cache_size_le_cap {K V S E : Type} [DecidableEq K]
    (cap : Nat) (key : S → K) (parse : S → Except E V) (hist : List S) :
    (run cap key parse hist).length ≤ effCap cap ∧ 1 ≤ effCap cap ∧ (1 ≤ cap → effCap cap = cap) :=
  ⟨(inv_run cap key parse hist).size, effCap_pos cap, by intro h; unfold effCap; split <;> omega⟩

/-- After any history no key occurs twice. -/
theorem C03_cache_keys_nodup {K V S E : Type} [DecidableEq K]
    (cap : Nat) (key : S → K) (parse : S → Except E V) (hist : List S) :
    ((run cap key parse hist).map Prod.fst).Nodup :=
  (inv_run cap key parse hist).nodup

/-- After any history every entry is `(key s, v)` with `parse s = ok v` for some string `s`
(no entry for a string that failed to parse, no invented value). -/
theorem C03_cache_entries_sound {K V S E : Type} [DecidableEq K]
    (cap : Nat) (key : S → K) (parse : S → Except E V) (hist : List S) :
    ∀ kv ∈ run cap key parse hist, ∃ s, key s = kv.1 ∧ parse s = .ok kv.2 :=
  (inv_run cap key parse hist).sound

/-- A call is counted as a hit exactly when its key is in the cache. -/
theorem C03_hit_iff_key_present {K V S E : Type} [DecidableEq K]
    (cap : Nat) (key : S → K) (parse : S → Except E V) (hist : List S) (s : S) :
    (cachedParse cap key parse (run cap key parse hist) s).hit = true
      ↔ key s ∈ (run cap key parse hist).map Prod.fst :=
  step_hit_iff cap key parse _ s

/-- Re-scanning the repaired key gives the token stream of the original text. -/
theorem C03_tokens_of_normalize (a : List Char) :
    tokens (normalize a) = tokens a ∧ codeTokens (normalize a) = codeTokens a :=
  ⟨tokens_normalize a, codeTokens_normalize a⟩

/-- Soundness of the repaired key: equal keys, equal token streams. -/
theorem C03_normalize_sound (a b : List Char) (h : normalize a = normalize b) :
    tokens a = tokens b ∧ codeTokens a = codeTokens b := by
  constructor
  · rw [← tokens_normalize a, ← tokens_normalize b, h]
  · rw [← codeTokens_normalize a, ← codeTokens_normalize b, h]

/-- The engine instance: with the repaired key, any parser that is a function of the token
stream is cached transparently, for all capacities and histories. -/
theorem C03_engine_transparent {V E : Type} (cap : Nat)
    (P : List (List Char) → Except E V) (hist : List (List Char)) (s : List Char) :
    (cachedParse cap normalize (fun x => P (tokens x))
        (run cap normalize (fun x => P (tokens x)) hist) s).result = P (tokens s) :=
  C03_cache_transparent cap normalize (fun x => P (tokens x))
    (fun a b h => by show P (tokens a) = P (tokens b); rw [(C03_normalize_sound a b h).1]) hist s

/-- The model satisfies the executable specification that the harness evaluates on the
implementation's observations — for every history, from every reachable cache. -/
theorem C03_model_refines_spec {K V S E : Type} [DecidableEq K]
    (cap : Nat) (key : S → K) (parse : S → Except E V) (d : Except E V → Nat)
    (hk : ∀ a b, key a = key b → parse a = parse b) (hist : List S) :
    ∀ (c : LRU K V) (h m : Nat), Inv cap key parse c →
      specTrace cap (h + m) (obsTrace cap key parse d c h m hist) = none := by
  induction hist with
  | nil => intro c h m _; rfl
  | cons s rest ih =>
    intro c h m hinv
    have hres := step_result hk hinv s
    have hinv' := inv_step hinv s
    simp only [obsTrace, specTrace]
    have hsize := hinv'.size
    cases hh : (cachedParse cap key parse c s).hit
    · have hs : specObs cap (h + m)
          { cached := d (cachedParse cap key parse c s).result, fresh := d (parse s), hits := h,
            misses := m + 1, len := (cachedParse cap key parse c s).cache.length } = true := by
        simp [specObs, hres, hsize]; omega
      simp only [Bool.false_eq_true, ↓reduceIte, hs]
      have := ih _ h (m + 1) hinv'
      rwa [show h + (m + 1) = h + m + 1 by omega] at this
    · have hs : specObs cap (h + m)
          { cached := d (cachedParse cap key parse c s).result, fresh := d (parse s), hits := h + 1,
            misses := m, len := (cachedParse cap key parse c s).cache.length } = true := by
        simp [specObs, hres, hsize]; omega
      simp only [↓reduceIte, hs]
      have := ih _ (h + 1) m hinv'
      rwa [show h + 1 + m = h + m + 1 by omega] at this

/-! ### the pinned tree: `split_whitespace().join(" ")` as key -/

def q_ab1 : List Char := ['R', 'E', 'T', 'U', 'R', 'N', ' ', '\'', 'a', ' ', 'b', '\'']
def q_ab2 : List Char := ['R', 'E', 'T', 'U', 'R', 'N', ' ', '\'', 'a', ' ', ' ', 'b', '\'']
def q_lc1 : List Char := ['R', 'E', 'T', 'U', 'R', 'N', ' ', '1', ' ', '/', '/', ' ', 'x', '\n', '+', ' ', '1']
def q_lc2 : List Char := ['R', 'E', 'T', 'U', 'R', 'N', ' ', '1', ' ', '/', '/', ' ', 'x', ' ', '+', ' ', '1']
def q_nb1 : List Char := ['R', 'E', 'T', 'U', 'R', 'N', ' ', '1']
def q_nb2 : List Char := ['R', 'E', 'T', 'U', 'R', 'N', Char.ofNat 160, '1']

/-- `RETURN 'a  b'` and `RETURN 'a b'` share a legacy key but are different statements. -/
theorem C03_counterexample_legacy_key_literal :
    legacyKey q_ab2 = legacyKey q_ab1 ∧ tokens q_ab2 ≠ tokens q_ab1 := by decide +kernel

/-- A newline that ends a `//` comment is collapsed too: the rest of the statement is
swallowed by the comment. -/
theorem C03_counterexample_legacy_key_line_comment :
    legacyKey q_lc1 = legacyKey q_lc2 ∧ codeTokens q_lc1 ≠ codeTokens q_lc2 := by decide +kernel

/-- Unicode blanks that the grammar does not skip are collapsed as well. -/
theorem C03_counterexample_legacy_key_nbsp :
    legacyKey q_nb2 = legacyKey q_nb1 ∧ tokens q_nb2 ≠ tokens q_nb1 := by decide +kernel

/-- With the legacy key the cache is not transparent: after `RETURN 'a b'`, the query
`RETURN 'a  b'` is answered with the other statement's parse. -/
theorem C03_counterexample_cache_not_transparent :
    (match (cachedParse 1024 legacyKey (fun x => (Except.ok (tokens x) : Except Unit _))
        (run 1024 legacyKey (fun x => (Except.ok (tokens x) : Except Unit _)) [q_ab1]) q_ab2).result with
      | .ok v => v == tokens q_ab1 && v != tokens q_ab2
      | .error _ => false) = true := by decide +kernel

/-- The repaired key separates all three pairs … -/
theorem C03_repaired_key_separates :
    normalize q_ab2 ≠ normalize q_ab1 ∧ normalize q_lc1 ≠ normalize q_lc2
      ∧ normalize q_nb2 ≠ normalize q_nb1 := by decide +kernel

/-- … and still collapses whitespace outside quotes (the hit that
`test_cache_hit_miss_tracking` requires). -/
theorem C03_repaired_key_collapses_code_whitespace :
    normalize ['M', 'A', 'T', 'C', 'H', ' ', ' ', '(', 'n', ':', 'P', 'e', 'r', 's', 'o', 'n', ')', ' ', ' ', 'R', 'E', 'T', 'U', 'R', 'N', ' ', ' ', 'n'] = ['M', 'A', 'T', 'C', 'H', ' ', '(', 'n', ':', 'P', 'e', 'r', 's', 'o', 'n', ')', ' ', 'R', 'E', 'T', 'U', 'R', 'N', ' ', 'n']
      ∧ normalize [' ', ' ', 'R', 'E', 'T', 'U', 'R', 'N', '\t', '1', ' ', '\n'] = ['R', 'E', 'T', 'U', 'R', 'N', ' ', '1'] := by decide +kernel

/-- the hypotheses of `C03_cache_transparent` are satisfiable by a non-trivial instance:
capacity 1 forces an eviction in this history and the last call is a hit -/
example :
    let parse := fun x => (Except.ok (tokens x) : Except Unit _)
    let c := run 1 normalize parse [q_ab1, q_ab2, ['R', 'E', 'T', 'U', 'R', 'N', ' ', ' ', '\'', 'a', ' ', ' ', 'b', '\'']]
    c.length = 1 ∧ (cachedParse 1 normalize parse c q_ab2).hit = true
      ∧ (cachedParse 1 normalize parse c q_ab1).hit = false := by decide +kernel

end SgModel
