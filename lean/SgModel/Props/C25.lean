import SgModel.Lemmas.Numeral
/-!
# C25 — the Cypher parser never silently changes numbers (and, at the numeral sites, never panics)

Property theorems only.  `C25_site_faithful` is the statement of the property for every
numeral site of the parser and digit strings of **any length**: the outcome is the written
value when it fits what the site stores, a parse error otherwise — never another value,
never a dropped clause, never a panic.

What is **not** a theorem: panic-freedom of `parse_query` on *arbitrary* strings.  That is a
statement about the pest-generated recogniser and the 4 k-line AST builder, which are not
modelled; it is carried by the mutation run of `harness/src/bin/c25.rs` under
`catch_unwind` only (labelled partial in `props/C25.json`).
-/
namespace SgModel

open Numeral

/-- `parse_integer_literal`, for every sign, radix and digit string. -/
theorem C25_int_literal_faithful (n : Num) :
    parseIntegerLiteral n
      = if i64Min ≤ n.value ∧ n.value ≤ i64Max then .ok n.value else .err := by
  unfold parseIntegerLiteral
  rw [magnitude_checked]
  by_cases hm : n.magnitude ≤ i128Max
  · simp only [hm, ↓reduceIte]; rfl
  · have hbig : ¬ (i64Min ≤ n.value ∧ n.value ≤ i64Max) := by
      unfold Num.value
      simp only [i128Max, i64Min, i64Max] at *
      cases n.neg <;> simp <;> omega
    simp only [hm, ↓reduceIte, hbig]

/-- The property at every numeral site: `ok (value)` iff the value fits, else a parse error. -/
theorem C25_site_faithful (s : Site) (n : Num) :
    parseSite s n = if fits s n then .ok n.value else .err := by
  have hi := C25_int_literal_faithful n
  cases s <;> simp only [parseSite, parseCountLiteral, fits, hi, decide_eq_true_eq]
  all_goals
    by_cases h1 : i64Min ≤ n.value ∧ n.value ≤ i64Max
    · by_cases h0 : 0 ≤ n.value
      · have : 0 ≤ n.value ∧ n.value ≤ i64Max := ⟨h0, h1.2⟩
        simp [h1, h0]
      · have : ¬ (0 ≤ n.value ∧ n.value ≤ i64Max) := fun h => h0 h.1
        simp [h1, h0]
    · have : ¬ (0 ≤ n.value ∧ n.value ≤ i64Max) := by
        intro h; apply h1; refine ⟨?_, h.2⟩
        have : i64Min ≤ 0 := by decide
        omega
      simp [h1, this]

/-- No panic, no silently dropped clause, no other value — at any site, for any numeral. -/
theorem C25_never_panics_never_substitutes (s : Site) (n : Num) :
    parseSite s n ≠ .panic ∧ parseSite s n ≠ .absent
      ∧ (∀ v, parseSite s n = .ok v → v = n.value ∧ fits s n = true) := by
  rw [C25_site_faithful]
  by_cases h : fits s n = true
  · simp [h]
  · simp [h]

/-- The model satisfies the executable specification evaluated on the parser's outcomes. -/
theorem C25_model_refines_spec (s : Site) (n : Num) : specSite s n (parseSite s n) = true := by
  unfold specSite
  rw [C25_site_faithful]
  by_cases h : fits s n = true <;> simp [h]

/-- The checked accumulation of `from_str_radix` is exact for digit strings of any length. -/
theorem C25_accumulate_any_length (n : Num) (bound : Nat) :
    accChecked n.radix.base bound 0 n.digits
      = if n.magnitude ≤ bound then some n.magnitude else none :=
  magnitude_checked n bound

/-- Float literals: after the repair the outcome is never `inf`; it is `finite` exactly when
the written value is below the rounding threshold `2^1024 − 2^970`. -/
theorem C25_float_overflow_refused (f : FloatNum) :
    parseFloatSite f ≠ .inf ∧ (parseFloatSite f = .finite ↔ floatFits f = true)
      ∧ (parseFloatSite f = .err ↔ floatFits f = false) := by
  unfold parseFloatSite
  cases floatFits f <;> simp

theorem C25_float_model_refines_spec (f : FloatNum) : specFloat f (parseFloatSite f) = true := by
  unfold specFloat parseFloatSite
  cases floatFits f <;> simp

/-! ### the pinned tree -/

/-- 2^64 = 18446744073709551616 -/
def n2p64 : Num := ⟨false, .dec, [1,8,4,4,6,7,4,4,0,7,3,7,0,9,5,5,1,6,1,6]⟩
def nMinus1 : Num := ⟨true, .dec, [1]⟩
def nHex10 : Num := ⟨false, .hex, [1, 0]⟩

/-- `[*18446744073709551616..2]` silently means `[*1..2]` … -/
theorem C25_counterexample_min : parseSiteLegacy .varLenMin n2p64 = .ok 1 := by decide +kernel
/-- … and so does `[*-1..2]`. -/
theorem C25_counterexample_min_negative : parseSiteLegacy .varLenMin nMinus1 = .ok 1 := by
  decide +kernel
/-- `[*1..18446744073709551616]` panics. -/
theorem C25_counterexample_max : parseSiteLegacy .varLenMax n2p64 = .panic := by decide +kernel
/-- `[*18446744073709551616]`, `[*0x10]` and `[*-1]` panic. -/
theorem C25_counterexample_exact :
    parseSiteLegacy .varLenExact n2p64 = .panic ∧ parseSiteLegacy .varLenExact nHex10 = .panic
      ∧ parseSiteLegacy .varLenExact nMinus1 = .panic := by decide +kernel
/-- `RETURN 1 LIMIT 18446744073709551616`, `LIMIT -1`, `LIMIT 0x10` silently mean "no limit". -/
theorem C25_counterexample_limit :
    parseSiteLegacy .limit n2p64 = .absent ∧ parseSiteLegacy .limit nMinus1 = .absent
      ∧ parseSiteLegacy .limit nHex10 = .absent ∧ parseSiteLegacy .skip n2p64 = .absent := by
  decide +kernel
/-- `RETURN 1e309` evaluates to infinity. -/
theorem C25_counterexample_float : parseFloatSiteLegacy ⟨1, 309⟩ = .inf := by decide +kernel

/-- The repaired sites on the same witnesses: errors, and `0x10` is 16. -/
theorem C25_repaired_witnesses :
    parseSite .varLenMin n2p64 = .err ∧ parseSite .varLenMin nMinus1 = .err
      ∧ parseSite .varLenMax n2p64 = .err ∧ parseSite .varLenExact nHex10 = .ok 16
      ∧ parseSite .limit n2p64 = .err ∧ parseSite .limit nMinus1 = .err
      ∧ parseSite .limit nHex10 = .ok 16 ∧ parseFloatSite ⟨1, 309⟩ = .err := by decide +kernel

/-- boundary examples: both branches of `C25_site_faithful` are inhabited at every kind of site -/
example : fits .intLit ⟨true, .dec, [9,2,2,3,3,7,2,0,3,6,8,5,4,7,7,5,8,0,8]⟩ = true
    ∧ fits .intLit ⟨false, .dec, [9,2,2,3,3,7,2,0,3,6,8,5,4,7,7,5,8,0,8]⟩ = false
    ∧ fits .limit ⟨false, .hex, [7,15,15,15,15,15,15,15,15,15,15,15,15,15,15,15]⟩ = true
    ∧ fits .limit ⟨false, .hex, [8,0,0,0,0,0,0,0,0,0,0,0,0,0,0,0]⟩ = false
    ∧ fits .skip ⟨true, .dec, [0]⟩ = true
    ∧ floatFits ⟨17976931348623157, 292⟩ = true ∧ floatFits ⟨17976931348623159, 292⟩ = false
    ∧ floatFits ⟨1, -400⟩ = true := by decide +kernel

end SgModel
