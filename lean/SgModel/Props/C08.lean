import SgModel.Lemmas.MvccObs
/-!
# C08 — version garbage collection never changes a read it must preserve

Property theorems only.  `gc w` is `Op.txn (.gc (some w))` (`gc_versions(w)`), `gcAuto` is
`Op.txn (.gc none)` (`gc_auto()`, watermark = `gc_watermark()`).  The statements hold for the
pinned tree as well as for the repaired one (`stepG lg` for both values of `lg`): garbage
collection is not among the defects.
-/
namespace SgModel.Mvcc

open Txn (Iso Status)

/-- the store after `gc_versions(w)` / `gc_auto()` -/
theorem step_gc (lg : Bool) (s : State) (w : Option Nat) :
    (stepG lg s (.txn (.gc w))).1
      = gcStore { s with txn := (Txn.step s.txn (.gc w)).1 } (w.getD (Txn.watermark s.txn.core)) := rfl

theorem cur_gc (lg : Bool) (s : State) (w : Option Nat) :
    (stepG lg s (.txn (.gc w))).1.cur = s.cur := by
  rw [step_gc]
  show (Txn.step s.txn (.gc w)).1.core.cur = s.txn.core.cur
  rw [Txn.step_core]; rfl

/-- **Node reads at or above the watermark survive.**  For *every* state, every node and
every `v ≥ w`: `get_node_at_version(n, v)` is the same before and after `gc_versions(w)`. -/
theorem C08_gc_preserves_node (lg : Bool) (s : State) (w v n : Nat) (h : w ≤ v) :
    getNodeAt (stepG lg s (.txn (.gc (some w)))).1 n v = getNodeAt s n v := by
  rw [step_gc]
  exact chainAt_gc (s.nodes n) w v h

/-- **Relationship reads at or above the watermark survive**, in every branch of
`get_edge_at_version` (logged snapshot, live map, and the fallback when no entry `≤ v`
exists), for every state reached by any history. -/
theorem C08_gc_preserves_edge (lg : Bool) (s : State) (hinv : Inv s) (w v e : Nat) (h : w ≤ v) :
    getEdgeAt (stepG lg s (.txn (.gc (some w)))).1 e v = getEdgeAt s e v := by
  unfold getEdgeAt
  rw [cur_gc, step_gc]
  exact edgeAt_gc (s.edges e) s.cur w v h (hinv.logs e).1

theorem C08_gc_preserves (ops : List Op) (w v : Nat) (h : w ≤ v) (n e : Nat) :
    getNodeAt (step (exec ops) (.txn (.gc (some w)))).1 n v = getNodeAt (exec ops) n v
    ∧ getEdgeAt (step (exec ops) (.txn (.gc (some w)))).1 e v = getEdgeAt (exec ops) e v :=
  ⟨C08_gc_preserves_node false _ w v n h, C08_gc_preserves_edge false _ (inv_exec ops) w v e h⟩

/-- **The fallback branch.**  If a relationship has no log entry `≤ v` (so the read at `v`
falls back to the live map) then no entry is `≤ w` either and `gc w` drains nothing. -/
theorem C08_gc_fallback_drains_nothing (log : List ELog) (w v : Nat) (h : w ≤ v)
    (hnone : log.reverse.find? (fun x => decide (x.version ≤ v)) = none) :
    gcList ELog.version log w = log := by
  unfold gcList
  split
  · rfl
  · cases hr : rpos (fun x => decide (ELog.version x ≤ w)) log with
    | none => rfl
    | some i =>
      obtain ⟨x, rest, h1, h2⟩ := rpos_some _ log i hr
      have hx : x ∈ log := List.mem_of_mem_drop (by rw [h1]; exact List.mem_cons_self)
      have := List.find?_eq_none.mp hnone x (List.mem_reverse.mpr hx)
      simp only [decide_eq_true_eq] at this h2
      omega

/-- `gc_watermark` is at most the start version of every active transaction -/
theorem minList_le : ∀ (l : List Nat) (x : Nat), x ∈ l → ∃ m, Txn.minList l = some m ∧ m ≤ x
  | [], x, h => by simp at h
  | y :: l, x, h => by
    simp only [Txn.minList]
    cases hm : Txn.minList l with
    | none =>
      rcases List.mem_cons.mp h with rfl | h
      · exact ⟨x, rfl, Nat.le_refl _⟩
      · obtain ⟨m, hm', _⟩ := minList_le l x h
        rw [hm] at hm'; cases hm'
    | some m =>
      simp only
      rcases List.mem_cons.mp h with rfl | h
      · refine ⟨_, rfl, ?_⟩
        split <;> omega
      · obtain ⟨m', hm', hle⟩ := minList_le l x h
        rw [hm] at hm'; cases hm'
        refine ⟨_, rfl, ?_⟩
        split <;> omega

theorem watermark_le_start (c : Txn.Core) (x : Txn.Txn) (hx : x ∈ c.txns) (hact : x.status = .active) :
    Txn.watermark c ≤ x.start := by
  unfold Txn.watermark
  have hmem : x.start ∈ (c.txns.filter (fun x => x.status == .active)).map (·.start) := by
    apply List.mem_map.mpr
    exact ⟨x, List.mem_filter.mpr ⟨hx, by simp [hact]⟩, rfl⟩
  obtain ⟨m, hm, hle⟩ := minList_le _ _ hmem
  rw [hm]; exact hle

/-- an active transaction stays in the table across `gc` -/
theorem find_filter_active (l : List Txn.Txn) (w t : Nat) (x : Txn.Txn)
    (hf : l.find? (fun y => y.id == t) = some x) (hact : x.status = .active) :
    (l.filter (fun y => y.status == .active || decide (w ≤ y.start))).find? (fun y => y.id == t) = some x := by
  induction l with
  | nil => simp at hf
  | cons y l ih =>
    rw [List.find?_cons] at hf
    by_cases hy : (y.id == t) = true
    · rw [hy] at hf
      cases hf
      rw [List.filter_cons]
      have : (x.status == Status.active || decide (w ≤ x.start)) = true := by simp [hact]
      rw [if_pos this, List.find?_cons, hy]
    · have hy' : (y.id == t) = false := by simpa using hy
      rw [hy'] at hf
      rw [List.filter_cons]
      split
      · rw [List.find?_cons, hy']; exact ih hf
      · exact ih hf

theorem findTxn_gc (c : Txn.Core) (w t : Nat) (x : Txn.Txn) (hf : Txn.findTxn c t = some x)
    (hact : x.status = .active) : Txn.findTxn (Txn.gcTxns c w) t = some x :=
  find_filter_active c.txns w t x hf hact

/-- **Automatic collection never changes what an active transaction reads**, at either
isolation level: SnapshotIsolation reads at `start_version ≥ gc_watermark()`, ReadCommitted at
`current_version ≥ start_version`. -/
theorem C08_gcAuto_preserves_active (lg : Bool) (s : State) (hinv : Inv s) (t n e : Nat) (x : Txn.Txn)
    (hf : Txn.findTxn s.txn.core t = some x) (hact : x.status = .active) :
    getNodeFor (stepG lg s (.txn (.gc none))).1 t n = getNodeFor s t n
    ∧ getEdgeFor (stepG lg s (.txn (.gc none))).1 t e = getEdgeFor s t e := by
  obtain ⟨a, r⟩ := hinv.txn
  have hx := Txn.findTxn_some hf
  have hwm : Txn.watermark s.txn.core ≤ x.start := watermark_le_start _ x hx.1 hact
  have hstart : x.start ≤ s.txn.core.cur := by
    have := (r.split x (by rw [← r.core]; exact hx.1)).2.1
    rw [← r.core] at this; exact this
  have hcore : (Txn.step s.txn (.gc none)).1.core = Txn.gcTxns s.txn.core (Txn.watermark s.txn.core) := by
    rw [Txn.step_core]; rfl
  have hrv : Txn.readVersion (stepG lg s (.txn (.gc none))).1.txn.core t = Txn.readVersion s.txn.core t := by
    rw [step_gc]
    show Txn.readVersion (Txn.step s.txn (.gc none)).1.core t = _
    rw [hcore]
    unfold Txn.readVersion
    rw [findTxn_gc _ _ _ _ hf hact, hf]
    rfl
  have hv : ∃ v, Txn.readVersion s.txn.core t = some v ∧ Txn.watermark s.txn.core ≤ v := by
    unfold Txn.readVersion
    rw [hf]
    cases hiso : x.iso
    · exact ⟨s.txn.core.cur, by simp [hiso], by omega⟩
    · exact ⟨x.start, by simp [hiso], hwm⟩
  obtain ⟨v, hv1, hv2⟩ := hv
  unfold getNodeFor getEdgeFor
  rw [hrv, hv1]
  simp only
  constructor
  · rw [step_gc]
    exact chainAt_gc (s.nodes n) _ v hv2
  · unfold getEdgeAt
    rw [cur_gc, step_gc]
    exact edgeAt_gc (s.edges e) s.cur _ v hv2 (hinv.logs e).1

/-- … after any history -/
theorem C08_gcAuto_preserves_active_reachable (ops : List Op) (t n e : Nat) (x : Txn.Txn)
    (hf : Txn.findTxn (exec ops).txn.core t = some x) (hact : x.status = .active) :
    getNodeFor (step (exec ops) (.txn (.gc none))).1 t n = getNodeFor (exec ops) t n
    ∧ getEdgeFor (step (exec ops) (.txn (.gc none))).1 t e = getEdgeFor (exec ops) t e :=
  C08_gcAuto_preserves_active false _ (inv_exec ops) t n e x hf hact

/-- `gc` keeps at least the newest version of every chain: what is readable now stays readable -/
theorem C08_gc_keeps_current (lg : Bool) (s : State) (w : Option Nat) (n : Nat)
    (h : (w.getD (Txn.watermark s.txn.core)) ≤ s.cur) :
    getNode (stepG lg s (.txn (.gc w))).1 n = getNode s n := by
  unfold getNode getNodeAt
  rw [cur_gc, step_gc]
  exact chainAt_gc (s.nodes n) _ s.cur h

/-- **The model satisfies the executable specification at every gc step** (the `stable`
clause for nodes and relationships at versions at or above the watermark, and the `txn` clause
for `gc_auto`), for every reachable state and both `gc_versions(w)` and `gc_auto()`.  The
harness evaluates the same clauses on the implementation's dumps. -/
theorem C08_model_refines_spec (lg : Bool) (s : State) (hinv : Inv s) (w : Option Nat) (o o' : Out) :
    let s' := (stepG lg s (.txn (.gc w))).1
    stableNodes (obsG lg s o) (.txn (.gc w)) (obsG lg s' o') = []
    ∧ stableEdges (obsG lg s o) (.txn (.gc w)) (obsG lg s' o') = []
    ∧ txnBad (obsG lg s o) (.txn (.gc w)) (obsG lg s' o') = false := by
  intro s'
  have hcur : s'.cur = s.cur := cur_gc lg s w
  have hvs : ∀ v ∈ stableVs (obsG lg s o) (.txn (.gc w)),
      v < s.cur ∧ w.getD (Txn.watermark s.txn.core) ≤ v := by
    intro v hv
    cases w with
    | none =>
      simp only [stableVs, List.mem_filter, List.mem_range, obs_cur, obs_wm] at hv
      exact ⟨hv.1, of_decide_eq_true hv.2⟩
    | some w =>
      simp only [stableVs, List.mem_filter, List.mem_range, decide_eq_true_eq, obs_cur] at hv
      exact ⟨hv.1, hv.2⟩
  refine ⟨?_, ?_, ?_⟩
  · rw [stableNodes, List.filter_eq_nil_iff]
    intro i hi
    simp only [ids, List.mem_range] at hi
    simp only [Bool.not_eq_true, List.any_eq_false, bne_iff_ne, ne_eq, Decidable.not_not]
    intro v hv
    obtain ⟨h1, h2⟩ := hvs v hv
    rw [nodeRead_obs lg s' o' i v hi (by omega), nodeRead_obs lg s o i v hi (by omega)]
    unfold getNodeAt
    show chainAt ((stepG lg s (.txn (.gc w))).1.nodes (i + 1)) v = _
    rw [step_gc]
    exact chainAt_gc _ _ v h2
  · rw [stableEdges, List.filter_eq_nil_iff]
    intro i hi
    simp only [ids, List.mem_range] at hi
    simp only [Bool.not_eq_true, List.any_eq_false, bne_iff_ne, ne_eq, Decidable.not_not]
    intro v hv
    obtain ⟨h1, h2⟩ := hvs v hv
    rw [edgeRead_obs lg s' o' i v hi (by omega), edgeRead_obs lg s o i v hi (by omega)]
    unfold getEdgeAt
    rw [hcur]
    show edgeAt ((stepG lg s (.txn (.gc w))).1.edges (i + 1)) s.cur v = _
    rw [step_gc]
    exact edgeAt_gc _ s.cur _ v h2 (hinv.logs _).1
  · cases w with
    | some w => rfl
    | none =>
      simp only [txnBad, Bool.true_and, List.any_eq_false, List.mem_range]
      intro t ht
      have hpa : (obsG lg s o).active[t]? = some (isActive s (t + 1)) := by
        simp [obsG, ht]
      have hn : ∀ (st : State) (oo : Out), (obsG lg st oo).txnNode[t]? = some (getNodeFor st (t + 1) 1) := by
        intro st oo; simp [obsG, ht]
      have he : ∀ (st : State) (oo : Out), (obsG lg st oo).txnEdge[t]? = some (getEdgeFor st (t + 1) 1) := by
        intro st oo; simp [obsG, ht]
      rw [hpa, hn, hn, he, he]
      by_cases hact : isActive s (t + 1) = true
      · unfold isActive at hact
        cases hf : Txn.findTxn s.txn.core (t + 1) with
        | none => simp [hf] at hact
        | some x =>
          simp only [hf, beq_iff_eq] at hact
          obtain ⟨h1, h2⟩ := C08_gcAuto_preserves_active lg s hinv (t + 1) 1 1 x hf hact
          have h1' : getNodeFor s' (t + 1) 1 = getNodeFor s (t + 1) 1 := h1
          have h2' : getEdgeFor s' (t + 1) 1 = getEdgeFor s (t + 1) 1 := h2
          simp [h1', h2']
      · simp [hact]

/-! ### Non-vacuity: a chain of three versions and a log that starts after creation -/

/-- node 1 has versions 1, 2, 3; `gc 2` prunes version 1 and the reads at 2 and 3 are kept -/
example :
    let s := exec [.createNode 7, .setProp 1 0 10, .txn .bump, .setProp 1 0 20, .txn .bump, .setProp 1 0 30]
    let s' := (step s (.txn (.gc (some 2)))).1
    (s.nodes 1).length = 3 ∧ (s'.nodes 1).length = 2
    ∧ getNodeAt s' 1 2 = getNodeAt s 1 2 ∧ getNodeAt s' 1 3 = getNodeAt s 1 3
    ∧ getNodeAt s' 1 1 ≠ getNodeAt s 1 1 := by decide

/-- a relationship created at version 1 and first written at version 3: the read at 2 uses
the fallback branch before and after `gc 2` -/
example :
    let s := exec [.createNode 7, .createNode 7, .createEdge 1 2 [(0, 5)], .txn .bump, .txn .bump,
                   .setEdgeProp 1 0 6, .txn .bump, .setEdgeProp 1 0 7]
    let s' := (step s (.txn (.gc (some 2)))).1
    getEdgeAt s' 1 2 = getEdgeAt s 1 2 ∧ getEdgeAt s' 1 3 = some (3, [(0, 6)])
    ∧ (s'.edges 1).log.length = 2 := by decide

/-- an active snapshot transaction pins the watermark: `gc_auto` keeps what it reads -/
example :
    let s := exec [.createNode 7, .setProp 1 0 10, .txn (.begin .si), .txn .bump, .setProp 1 0 20,
                   .txn .bump, .setProp 1 0 30]
    let s' := (step s (.txn (.gc none))).1
    getNodeFor s 1 1 = some ⟨1, [7], [(0, 10)]⟩ ∧ getNodeFor s' 1 1 = getNodeFor s 1 1
    ∧ (s'.nodes 1).length = 3 := by decide

end SgModel.Mvcc
