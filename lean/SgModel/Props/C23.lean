import SgModel.Lemmas.Route
/-!
# C23 — RESP and HTTP run every supported statement like the engine does

Property theorems only (helpers in `Lemmas/Route.lean`).

* Routing: after the repair the read/write decision is a function of the statement's *words*
  (outside quoted text, case-folded).  It therefore cannot depend on the leading clause, on
  the case of a keyword, or on what separates the tokens (`C23_route_reads_tokens`,
  `C23_route_ignores_layout`) — for every valid token sequence, no size bound.
* Dispatch: for **every** engine whose two executors agree on non-write plans, a front end
  that routes by the plan's `is_write` gives the engine's own outcome and graph
  (`C23_front_eq_engine`, and `…_text` over all renderings of all token-level statements); with
  **any** routing function a statement routed as a read leaves the graph alone
  (`C23_read_route_never_modifies`); a write plan routed as a read is refused
  (`C23_misroute_refuses`).
* The pinned tree: the substring heuristics route the three witnesses as reads
  (`C23_counterexample_…`, by `decide` on character lists).

Not proved here (trusted, tied by the differential run): that the real pest parser + planner
compute `hasWriteClause` of a statement (`routeNew` idealises them as a word scan), and
`Engine.ReadAgree` for the real `QueryExecutor`/`MutQueryExecutor`.
-/
namespace SgModel.Route

/-- The repaired routing reads the statement's tokens: on every valid token sequence, rendered
with any separators and any letter case, it answers "has a write clause". -/
theorem C23_route_reads_tokens (xs : List (Tok × Sep)) (hv : valid xs = true) :
    routeNew (render xs) = hasWriteClause xs := by
  simp [routeNew, hasWriteClause, scan_render xs hv]

/-- Two renderings with the same words (whatever their separators, quoting, punctuation layout
and keyword case) are routed alike. -/
theorem C23_route_ignores_layout (xs ys : List (Tok × Sep))
    (hx : valid xs = true) (hy : valid ys = true) (h : wordsOf xs = wordsOf ys) :
    routeNew (render xs) = routeNew (render ys) := by
  rw [C23_route_reads_tokens xs hx, C23_route_reads_tokens ys hy]
  simp [hasWriteClause, h]

/-- Case of the letters is irrelevant: the words are compared after `toUpper`. -/
theorem C23_route_ignores_case (w w' : List Char) (s : Sep) (r : List (Tok × Sep))
    (h : up w = up w') (hv : valid ((.word w, s) :: r) = true)
    (hv' : valid ((.word w', s) :: r) = true) :
    routeNew (render ((.word w, s) :: r)) = routeNew (render ((.word w', s) :: r)) :=
  C23_route_ignores_layout _ _ hv hv' (by simp [wordsOf, h])

/-- **front = engine.**  A front end that routes by the plan's `is_write` returns what the
embedded engine returns and leaves the graph the engine leaves — for every engine whose
executors agree on non-write plans, every statement, every graph. -/
theorem C23_front_eq_engine {Q G R : Type} (e : Engine Q G R) (ha : e.ReadAgree)
    (route : Q → Bool) (hr : ∀ q, route q = e.isWritePlan q) (q : Q) (g : G) :
    front e route q g = execMut e q g := by
  unfold front
  cases h : route q with
  | true => simp
  | false =>
    have hw : e.isWritePlan q = false := by rw [← hr q]; exact h
    simp [execRead, execMut, hw, ha q g hw]

/-- The same over statement texts: if the engine's planner recognises the write clauses of
token-level statements, then routing by `routeNew` makes the front end equal to the engine on
**every rendering** (any leading clause, keyword case, separator) of every valid statement. -/
theorem C23_front_eq_engine_text {G R : Type} (e : Engine (List Char) G R) (ha : e.ReadAgree)
    (hp : ∀ xs, valid xs = true → e.isWritePlan (render xs) = hasWriteClause xs)
    (xs : List (Tok × Sep)) (hv : valid xs = true) (g : G) :
    front e routeNew (render xs) g = execMut e (render xs) g := by
  unfold front
  cases h : routeNew (render xs) with
  | true => simp
  | false =>
    have hw : e.isWritePlan (render xs) = false := by
      rw [hp xs hv, ← C23_route_reads_tokens xs hv]; exact h
    simp [execRead, execMut, hw, ha _ g hw]

/-- A statement routed as a read never modifies the graph — whatever the routing function
(this holds for the pinned tree's heuristics too: the read executor only has `&GraphStore`). -/
theorem C23_read_route_never_modifies {Q G R : Type} (e : Engine Q G R) (route : Q → Bool)
    (q : Q) (g : G) (h : route q = false) : (front e route q g).2 = g := by
  simp only [front, h, execRead]
  cases e.isWritePlan q <;> rfl

/-- What goes wrong with a heuristic: a write plan routed as a read is refused and nothing
happens, although the engine runs it. -/
theorem C23_misroute_refuses {Q G R : Type} (e : Engine Q G R) (route : Q → Bool)
    (q : Q) (g : G) (h : route q = false) (hw : e.isWritePlan q = true) :
    front e route q g = (.refused, g) := by
  simp [front, execRead, h, hw]

/-- The model satisfies the executable specification which the harness evaluates on the
implementation's observations: for every engine with agreeing executors, statement and graph. -/
theorem C23_model_refines_spec {Q G R : Type} [DecidableEq G] [DecidableEq R]
    (e : Engine Q G R) (ha : e.ReadAgree) (q : Q) (g : G) :
    specFront (modelObs e e.isWritePlan e.isWritePlan q g) = true := by
  have hf := C23_front_eq_engine e ha e.isWritePlan (fun _ => rfl) q g
  cases hw : e.isWritePlan q with
  | true => simp [specFront, specFrontCode, modelObs, hf, hw]
  | false =>
    have hm := ha q g hw
    simp [specFront, specFrontCode, modelObs, hf, hw, execMut, hm]

/-! ### The pinned tree violated the property (witnesses replayed by the corpus) -/

def w_newline_set : List Char := ['M','A','T','C','H',' ','(','n',')','\n','S','E','T',' ','n','.','x',' ','=',' ','1']
def w_remove : List Char := ['M','A','T','C','H',' ','(','n',')',' ','R','E','M','O','V','E',' ','n','.','x']
def w_unwind_create : List Char := ['U','N','W','I','N','D',' ','[','1',']',' ','A','S',' ','x',' ','C','R','E','A','T','E',' ','(',':','L',')']
def w_tab_noparen : List Char := ['M','A','T','C','H','(','n',')',' ','S','E','T','\t','n','.','x','=','1']
def w_quoted : List Char := ['R','E','T','U','R','N',' ','\'',' ','S','E','T',' ','\'']

/-- RESP, `"MATCH (n)\nSET n.x = 1"`: a write plan, routed as a read by the substring test. -/
theorem C23_counterexample_resp_newline_set :
    routeLegacyResp w_newline_set = false ∧ routeNew w_newline_set = true := by decide

/-- RESP, `"MATCH (n) REMOVE n.x"`: `REMOVE` was not in the list. -/
theorem C23_counterexample_resp_remove :
    routeLegacyResp w_remove = false ∧ routeNew w_remove = true := by decide

/-- HTTP, `"UNWIND [1] AS x CREATE (:L)"`: only statements starting with `MATCH` were searched. -/
theorem C23_counterexample_http_unwind_create :
    routeLegacyHttp w_unwind_create = false ∧ routeNew w_unwind_create = true := by decide

/-- both, `"MATCH(n) SET\tn.x=1"`: keyword followed by a tab. -/
theorem C23_counterexample_tab :
    routeLegacyResp w_tab_noparen = false ∧ routeLegacyHttp w_tab_noparen = false
      ∧ routeNew w_tab_noparen = true := by decide

/-- …and on the toy engine the misrouted statement is refused while the engine runs it; the
executable specification rejects exactly that observation. -/
theorem C23_counterexample_resp_refused :
    front toyEngine routeLegacyResp w_newline_set 0 = (.refused, 0)
      ∧ execMut toyEngine w_newline_set 0 = (.result none, 1)
      ∧ specFront (modelObs toyEngine routeLegacyResp routeNew w_newline_set 0) = false := by
  decide

/-- The heuristic also errs the other way (a read routed to the write path: harmless for the
outcome, it only takes the exclusive lock): `RETURN ' SET '`. -/
theorem C23_legacy_overapproximates :
    routeLegacyResp w_quoted = true ∧ routeNew w_quoted = false := by decide

/-! ### Non-vacuity -/

/-- the toy engine satisfies the hypothesis of the dispatch theorems -/
theorem C23_toy_readAgree : toyEngine.ReadAgree := by
  intro q g h
  have h' : routeNew q = false := h
  simp [toyEngine, h']

/-- `match(n)<CRLF>set<TAB>n.x=1`, lower-case, glued parenthesis: a valid token sequence, it
renders to the expected text, and it is routed as a write. -/
def ex_tokens : List (Tok × Sep) :=
  [(.word ['m','a','t','c','h'], .none), (.sym '(', .none), (.word ['n'], .none), (.sym ')', .crlf),
   (.word ['s','e','t'], .tab), (.word ['n'], .none), (.sym '.', .none), (.word ['x'], .none),
   (.sym '=', .none), (.word ['1'], .none)]

example : valid ex_tokens = true := by decide
example : render ex_tokens
    = ['m','a','t','c','h','(','n',')','\r','\n','s','e','t','\t','n','.','x','=','1'] := by decide
example : routeNew (render ex_tokens) = true ∧ hasWriteClause ex_tokens = true := by decide
example : routeLegacyResp (render ex_tokens) = false := by decide
example : front toyEngine routeNew (render ex_tokens) 3 = execMut toyEngine (render ex_tokens) 3 :=
  C23_front_eq_engine toyEngine C23_toy_readAgree routeNew (fun _ => rfl) _ _

end SgModel.Route
