import SgModel.Lemmas.Route
/-!
# C23 — RESP and HTTP run every supported statement like the engine does

Property theorems only (helpers in `Lemmas/Route.lean`).

* Routing: after the repair the read/write decision is a function of the statement's *words*
  (outside quoted text, case-folded).  It therefore cannot depend on the leading clause, on
  the case of a keyword, or on what separates the tokens (`C23_route_reads_tokens`,
  `C23_route_ignores_layout`) — for every valid token sequence, no size bound.
* Dispatch: for **every** engine whose two executors agree on non-write plans, a front end
  that routes by the plan's `is_write` gives the engine's own outcome and graph
  (`C23_front_eq_engine`, and `…_text` over all renderings of all token-level statements); with
  **any** routing function a statement routed as a read leaves the graph alone
  (`C23_read_route_never_modifies`); a write plan routed as a read is refused
  (`C23_misroute_refuses`).
* The pinned tree: the substring heuristics route the three witnesses as reads
  (`C23_counterexample_…`, by `decide` on character lists).

* Prefixes and wrappers (round 2): the statement model covers everything the grammar allows
  before the first clause — leading whitespace (`renderL`), `//` and `/* */` comments,
  `EXPLAIN` / `PROFILE` in any case — and a trailing `;`.  The plan prefix is read from the
  tokens (`C23_prefix_reads_tokens`); `withPrefix` models what the executors do with it
  (`EXPLAIN` never executes, `PROFILE` of a write does); the reference is `engineRun`
  (`C23_front_eq_engineRun…`, no hypothesis on the engine); a front end that keeps "plan
  requests" off the write path refuses `PROFILE <write>` (`C23_plan_veto_refuses`,
  `C23_counterexample_plan_veto`).

Not proved here (trusted, tied by the differential run): that the real pest parser + planner
compute `hasWriteClause` of a statement (`routeNew` idealises them as a word scan), and
`Engine.ReadAgree` for the real `QueryExecutor`/`MutQueryExecutor`.
-/
namespace SgModel.Route

/-- The repaired routing reads the statement's tokens: on every valid token sequence, rendered
after any leading whitespace, with any separators, comments and letter case, it answers "has a
write clause". -/
theorem C23_route_reads_tokens (lead : List Sep) (xs : List (Tok × Sep)) (hv : valid xs = true) :
    routeNew (renderL lead xs) = hasWriteClause xs := by
  simp [routeNew, hasWriteClause, scan_renderL lead xs hv]

/-- …and so do the plan prefix and "executes a write". -/
theorem C23_prefix_reads_tokens (lead : List Sep) (xs : List (Tok × Sep)) (hv : valid xs = true) :
    planPrefix (renderL lead xs) = prefixTok xs
      ∧ executesWrite (renderL lead xs) = executesWriteTok xs := by
  simp [planPrefix, prefixTok, executesWrite, executesWriteTok, routeNew, hasWriteClause,
    scan_renderL lead xs hv]

/-- Two renderings with the same words (whatever their leading whitespace, separators, comments,
quoting, punctuation layout and keyword case) are routed alike. -/
theorem C23_route_ignores_layout (l1 l2 : List Sep) (xs ys : List (Tok × Sep))
    (hx : valid xs = true) (hy : valid ys = true) (h : wordsOf xs = wordsOf ys) :
    routeNew (renderL l1 xs) = routeNew (renderL l2 ys) := by
  rw [C23_route_reads_tokens l1 xs hx, C23_route_reads_tokens l2 ys hy]
  simp [hasWriteClause, h]

/-- Case of the letters is irrelevant: the words are compared after `toUpper`. -/
theorem C23_route_ignores_case (w w' : List Char) (s : Sep) (r : List (Tok × Sep))
    (h : up w = up w') (hv : valid ((.word w, s) :: r) = true)
    (hv' : valid ((.word w', s) :: r) = true) :
    routeNew (renderL [] ((.word w, s) :: r)) = routeNew (renderL [] ((.word w', s) :: r)) :=
  C23_route_ignores_layout [] [] _ _ hv hv' (by simp [wordsOf, h])

/-- **front = the engine run directly**, with no hypothesis on the engine: a front end that
routes by the plan's `is_write` is the engine's own dispatch. -/
theorem C23_front_eq_engineRun {Q G R : Type} (e : Engine Q G R)
    (route : Q → Bool) (hr : ∀ q, route q = e.isWritePlan q) (q : Q) (g : G) :
    front e route q g = engineRun e q g := by
  simp [front, engineRun, hr q]

/-- The same over statement texts: if the planner recognises the write clauses of token-level
statements, routing by `routeNew` equals the engine on **every rendering** — any leading
whitespace, comments, `EXPLAIN`/`PROFILE` prefix, leading clause, keyword case, separator. -/
theorem C23_front_eq_engineRun_text {G R : Type} (e : Engine (List Char) G R)
    (hp : ∀ lead xs, valid xs = true → e.isWritePlan (renderL lead xs) = hasWriteClause xs)
    (lead : List Sep) (xs : List (Tok × Sep)) (hv : valid xs = true) (g : G) :
    front e routeNew (renderL lead xs) g = engineRun e (renderL lead xs) g := by
  simp [front, engineRun, hp lead xs hv, C23_route_reads_tokens lead xs hv]

/-- **front = engine.**  A front end that routes by the plan's `is_write` returns what the
embedded engine returns and leaves the graph the engine leaves — for every engine whose
executors agree on non-write plans, every statement, every graph. -/
theorem C23_front_eq_engine {Q G R : Type} (e : Engine Q G R) (ha : e.ReadAgree)
    (route : Q → Bool) (hr : ∀ q, route q = e.isWritePlan q) (q : Q) (g : G) :
    front e route q g = execMut e q g := by
  unfold front
  cases h : route q with
  | true => simp
  | false =>
    have hw : e.isWritePlan q = false := by rw [← hr q]; exact h
    simp [execRead, execMut, hw, ha q g hw]

/-- The same over statement texts: if the engine's planner recognises the write clauses of
token-level statements, then routing by `routeNew` makes the front end equal to the engine on
**every rendering** (any leading clause, keyword case, separator) of every valid statement. -/
theorem C23_front_eq_engine_text {G R : Type} (e : Engine (List Char) G R) (ha : e.ReadAgree)
    (hp : ∀ lead xs, valid xs = true → e.isWritePlan (renderL lead xs) = hasWriteClause xs)
    (lead : List Sep) (xs : List (Tok × Sep)) (hv : valid xs = true) (g : G) :
    front e routeNew (renderL lead xs) g = execMut e (renderL lead xs) g := by
  unfold front
  cases h : routeNew (renderL lead xs) with
  | true => simp
  | false =>
    have hw : e.isWritePlan (renderL lead xs) = false := by
      rw [hp lead xs hv, ← C23_route_reads_tokens lead xs hv]; exact h
    simp [execRead, execMut, hw, ha _ g hw]

/-- A statement routed as a read never modifies the graph — whatever the routing function
(this holds for the pinned tree's heuristics too: the read executor only has `&GraphStore`). -/
theorem C23_read_route_never_modifies {Q G R : Type} (e : Engine Q G R) (route : Q → Bool)
    (q : Q) (g : G) (h : route q = false) : (front e route q g).2 = g := by
  simp only [front, h, execRead]
  cases e.isWritePlan q <;> rfl

/-- What goes wrong with a heuristic: a write plan routed as a read is refused and nothing
happens, although the engine runs it. -/
theorem C23_misroute_refuses {Q G R : Type} (e : Engine Q G R) (route : Q → Bool)
    (q : Q) (g : G) (h : route q = false) (hw : e.isWritePlan q = true) :
    front e route q g = (.refused, g) := by
  simp [front, execRead, h, hw]

/-- The model satisfies the executable specification which the harness evaluates on the
implementation's observations: for every engine, every predicate `ex` such that statements
outside it leave the graph alone, every statement and graph. -/
theorem C23_model_refines_spec {Q G R : Type} [DecidableEq G] [DecidableEq R]
    (e : Engine Q G R) (ex : Q → Bool)
    (hex : ∀ q g, ex q = false → (engineRun e q g).2 = g) (q : Q) (g : G) :
    specFront (modelObs e ex e.isWritePlan e.isWritePlan q g) = true := by
  have hf := C23_front_eq_engineRun e e.isWritePlan (fun _ => rfl) q g
  cases hx : ex q with
  | true => simp [specFront, specFrontCode, modelObs, hf, hx]
  | false => simp [specFront, specFrontCode, modelObs, hf, hx, hex q g hx]

/-! ### `EXPLAIN` / `PROFILE` (what the executors do, `withPrefix`) -/

/-- `EXPLAIN` of anything modifies nothing, on either path, whatever the routing. -/
theorem C23_explain_never_modifies {Q G R : Type} (b : Engine Q G R) (route : Prefix × Q → Bool)
    (q : Q) (g : G) : (front (withPrefix b) route (.explain, q) g).2 = g := by
  simp only [front, execMut, execRead, withPrefix]
  by_cases h1 : route (.explain, q) = true <;> by_cases h2 : b.isWritePlan q = true <;> simp [h1, h2]

/-- `PROFILE` of a write plan is **not** a plan-only request: the engine runs the statement. -/
theorem C23_profile_write_runs {Q G R : Type} (b : Engine Q G R) (q : Q) (g : G)
    (hw : b.isWritePlan q = true) :
    engineRun (withPrefix b) (.profile, q) g = (.result (.rows (b.evalMut q g).1), (b.evalMut q g).2) := by
  simp [engineRun, execMut, withPrefix, hw]

/-- A front end that keeps plan requests (`EXPLAIN` **and** `PROFILE`) off the write path
refuses `PROFILE <write>` and leaves the graph alone, while the engine runs it. -/
theorem C23_plan_veto_refuses {Q G R : Type} (b : Engine Q G R) (q : Q) (g : G)
    (hw : b.isWritePlan q = true) :
    front (withPrefix b) (fun pq => pq.1 == Prefix.none && b.isWritePlan pq.2) (.profile, q) g
      = (.refused, g) :=
  C23_misroute_refuses (withPrefix b) _ (.profile, q) g (by simp) (by simpa [withPrefix] using hw)

/-- Statements that do not execute a write leave the graph alone when run on `withPrefix b`,
provided `b`'s write executor does not modify on non-write plans: the hypothesis of
`C23_model_refines_spec` is satisfiable with `ex = (write plan ∧ not EXPLAIN)`. -/
theorem C23_prefix_inert {Q G R : Type} (b : Engine Q G R) (pq : Prefix × Q) (g : G)
    (h : (b.isWritePlan pq.2 && pq.1 != .explain) = false) :
    (engineRun (withPrefix b) pq g).2 = g := by
  obtain ⟨p, q⟩ := pq
  cases hw : b.isWritePlan q with
  | false => simp [engineRun, execRead, withPrefix, hw]
  | true =>
    have hp : p = .explain := by
      cases p <;> simp_all
    subst hp
    simp [engineRun, execMut, withPrefix, hw]

/-! ### The pinned tree violated the property (witnesses replayed by the corpus) -/

def w_newline_set : List Char := ['M','A','T','C','H',' ','(','n',')','\n','S','E','T',' ','n','.','x',' ','=',' ','1']
def w_remove : List Char := ['M','A','T','C','H',' ','(','n',')',' ','R','E','M','O','V','E',' ','n','.','x']
def w_unwind_create : List Char := ['U','N','W','I','N','D',' ','[','1',']',' ','A','S',' ','x',' ','C','R','E','A','T','E',' ','(',':','L',')']
def w_tab_noparen : List Char := ['M','A','T','C','H','(','n',')',' ','S','E','T','\t','n','.','x','=','1']
def w_quoted : List Char := ['R','E','T','U','R','N',' ','\'',' ','S','E','T',' ','\'']

/-- RESP, `"MATCH (n)\nSET n.x = 1"`: a write plan, routed as a read by the substring test. -/
theorem C23_counterexample_resp_newline_set :
    routeLegacyResp w_newline_set = false ∧ routeNew w_newline_set = true := by decide

/-- RESP, `"MATCH (n) REMOVE n.x"`: `REMOVE` was not in the list. -/
theorem C23_counterexample_resp_remove :
    routeLegacyResp w_remove = false ∧ routeNew w_remove = true := by decide

/-- HTTP, `"UNWIND [1] AS x CREATE (:L)"`: only statements starting with `MATCH` were searched. -/
theorem C23_counterexample_http_unwind_create :
    routeLegacyHttp w_unwind_create = false ∧ routeNew w_unwind_create = true := by decide

/-- both, `"MATCH(n) SET\tn.x=1"`: keyword followed by a tab. -/
theorem C23_counterexample_tab :
    routeLegacyResp w_tab_noparen = false ∧ routeLegacyHttp w_tab_noparen = false
      ∧ routeNew w_tab_noparen = true := by decide

/-- …and on the toy engine the misrouted statement is refused while the engine runs it; the
executable specification rejects exactly that observation. -/
theorem C23_counterexample_resp_refused :
    front toyEngine routeLegacyResp w_newline_set 0 = (.refused, 0)
      ∧ execMut toyEngine w_newline_set 0 = (.result none, 1)
      ∧ specFront (modelObs toyEngine routeNew routeLegacyResp routeNew w_newline_set 0) = false := by
  decide

/-- The heuristic also errs the other way (a read routed to the write path: harmless for the
outcome, it only takes the exclusive lock): `RETURN ' SET '`. -/
theorem C23_legacy_overapproximates :
    routeLegacyResp w_quoted = true ∧ routeNew w_quoted = false := by decide

/-! ### The seeded class "an option vetoes the planner in one front end" -/

def w_profile_create : List Char := ['P','R','O','F','I','L','E',' ','C','R','E','A','T','E',' ','(','n',':','T','h','i','n','g',' ','{','v',':',' ','1','}',')']
def w_profile_set : List Char := ['p','r','o','f','i','l','e','\n','M','A','T','C','H',' ','(','n',':','P',' ','{','n','a','m','e',':','\'','a','\'','}',')',' ','S','E','T',' ','n','.','v',' ','=',' ','7',' ','R','E','T','U','R','N',' ','n','.','v']
def w_explain_create : List Char := ['E','X','P','L','A','I','N',' ','C','R','E','A','T','E',' ','(','n',')']
def w_comment_set : List Char := ['/','/',' ','S','E','T','\n','M','A','T','C','H',' ','(','n',')',' ','R','E','T','U','R','N',' ','n']
def w_block_profile : List Char := ['/','*',' ','x',' ','*','/',' ','p','r','o','f','i','l','e',' ','c','r','e','a','t','e',' ','(','n',')']

/-- `PROFILE CREATE (n:Thing {v: 1})` and `profile<LF>MATCH … SET …`: plan prefix, write plan, the
statement executes; the veto routes them as reads. -/
theorem C23_counterexample_plan_veto :
    planPrefix w_profile_create = .profile ∧ executesWrite w_profile_create = true
      ∧ routePlanVeto w_profile_create = false ∧ routeNew w_profile_create = true
      ∧ planPrefix w_profile_set = .profile ∧ executesWrite w_profile_set = true
      ∧ routePlanVeto w_profile_set = false ∧ routeNew w_profile_set = true := by decide

/-- `EXPLAIN CREATE (n)`: a write plan that executes nothing. -/
theorem C23_explain_write_not_executed :
    routeNew w_explain_create = true ∧ executesWrite w_explain_create = false := by decide

/-- comments are not statement text: `// SET<LF>MATCH (n) RETURN n` is a read, and
`/* x */ profile create (n)` has the `PROFILE` prefix. -/
theorem C23_comments_skipped :
    routeNew w_comment_set = false ∧ planPrefix w_block_profile = .profile
      ∧ executesWrite w_block_profile = true := by decide

/-! ### `;` that is text, not a separator (round 6) -/

/-- `CREATE (n:T {t: 'it\'s; x'}) // a; b` + LF + `;` + `/* c; d */`: an escaped delimiter inside
quoted text, `;` inside the literal and inside both kinds of comment, a comment after the
closing `;` — one valid statement, routed as a write whatever the layout. -/
def ex_semis : List (Tok × Sep) :=
  [(.word ['C','R','E','A','T','E'], .sp), (.sym '(', .none), (.word ['n'], .none), (.sym ':', .none),
   (.word ['T'], .sp), (.sym '{', .none), (.word ['t'], .none), (.sym ':', .sp),
   (.strEsc '\'' [['i','t']] ['s',';',' ','x'], .none), (.sym '}', .none), (.sym ')', .sp),
   (.lineComment [' ','a',';',' ','b'], .none), (.sym ';', .sp),
   (.blockComment [' ','c',';',' ','d',' '], .none)]

example : valid ex_semis = true := by decide
example : (Tok.strEsc '\'' [['i','t']] ['s',';',' ','x']).chars
    = ['\'','i','t','\\','\'','s',';',' ','x','\''] := by decide
example : wordsOf ex_semis = [kCREATE, ['N'], ['T'], ['T']] ∧ hasWriteClause ex_semis = true := by decide
example : routeNew (renderL [.lf] ex_semis) = true :=
  (C23_route_reads_tokens [.lf] ex_semis (by decide)).trans (by decide)

/-! ### Non-vacuity -/

/-- the toy engine satisfies the hypothesis of the dispatch theorems -/
theorem C23_toy_readAgree : toyEngine.ReadAgree := by
  intro q g h
  have h' : routeNew q = false := h
  simp [toyEngine, h']

/-- `match(n)<CRLF>set<TAB>n.x=1`, lower-case, glued parenthesis: a valid token sequence, it
renders to the expected text, and it is routed as a write. -/
def ex_tokens : List (Tok × Sep) :=
  [(.word ['m','a','t','c','h'], .none), (.sym '(', .none), (.word ['n'], .none), (.sym ')', .crlf),
   (.word ['s','e','t'], .tab), (.word ['n'], .none), (.sym '.', .none), (.word ['x'], .none),
   (.sym '=', .none), (.word ['1'], .none)]

example : valid ex_tokens = true := by decide
example : render ex_tokens
    = ['m','a','t','c','h','(','n',')','\r','\n','s','e','t','\t','n','.','x','=','1'] := by decide
example : routeNew (render ex_tokens) = true ∧ hasWriteClause ex_tokens = true := by decide
example : routeLegacyResp (render ex_tokens) = false := by decide
example : front toyEngine routeNew (render ex_tokens) 3 = execMut toyEngine (render ex_tokens) 3 :=
  C23_front_eq_engine toyEngine C23_toy_readAgree routeNew (fun _ => rfl) _ _

/-- leading newline, block comment, `Profile`, glued parenthesis, trailing `;` -/
def ex_prefixed : List (Tok × Sep) :=
  [(.blockComment ['S','E','T'], .sp), (.word ['P','r','o','f','i','l','e'], .lf),
   (.word ['c','r','e','a','t','e'], .none), (.sym '(', .none), (.word ['n'], .none), (.sym ')', .none),
   (.sym ';', .none)]

example : valid ex_prefixed = true := by decide
example : renderL [.lf, .sp] ex_prefixed
    = ['\n',' ','/','*','S','E','T','*','/',' ','P','r','o','f','i','l','e','\n','c','r','e','a','t','e','(','n',')',';'] := by
  decide
example : prefixTok ex_prefixed = .profile ∧ executesWriteTok ex_prefixed = true
    ∧ routePlanVeto (renderL [.lf, .sp] ex_prefixed) = false := by decide

end SgModel.Route
