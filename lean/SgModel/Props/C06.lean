import SgModel.Lemmas.StoreSpecStepC
import SgModel.Lemmas.StoreSpecAll
/-!
# C06 — graph store read views always agree with the graph that was built

Property theorems only (helpers: `Lemmas/Store*.lean`).  `run ops` is the store after an
arbitrary history of node / relationship creations (plain, with properties, stub), deletions,
label and property changes, `compact_adjacency`, `finish_bulk_load` and `clear`; every theorem
quantifies over **all** histories (the invariant `Inv` is proved by induction over them) and
over all ids.  "Relationship `e` exists" is `endpOf s e ≠ (0,0)` (the store's own sentinel),
"node `n` exists" is `getNode s n ≠ none`.

Proved at full strength: the adjacency / tier / count core (each existing relationship exactly
once per direction in frozen+buffer rows, nothing else there; `edge_count`; `all_edges`;
typed and untyped neighbour reads and degrees; no dangling relationship; dead ids hold nothing,
so a reused id inherits nothing; ids handed out are dead), the label index (I5,
`C06_by_label_eq`), the edge-type index (I6: always sound, exact when no stub is pending,
re-established by `finish_bulk_load`; `C06_by_type_eq`), the sortedness of every frozen row and
(when no stub is pending) every buffer row (I6b/I7, `C06_rows_sorted`), and `edges_between`
for the **binary-search code path** (`C06_between`: transcription of Rust's
`binary_search_by` + walk-back + scan, one search per frozen segment and one in the buffer,
equals the filter formulation and is exact), and the step relation on the logical graph
(`C06_refines_step`: for every reachable state and every operation inside the API
preconditions, `get_node` / `get_edge` after the step are those before it transformed as the
API contract says — new ids were not in use, a new entity carries exactly what it was given,
deletes remove exactly the entity and, for a node, exactly its incident relationships, label /
property writes touch exactly one entity — which is `specStep`, the relation the harness
evaluates on the implementation's observations).

Together: `C06_model_refines_spec` — the model's observation satisfies the **whole**
executable specification `specObs` (counts incl. `node_count`, `get_edge`, untyped and typed
neighbour reads, degrees, `edges_between`, label and type indexes, and the column stores
mirroring the row properties: `C06_columns_mirror`) in every reachable state, and
`C06_refines_step` gives the step clause; `C06_model_refines_spec_along` states both as the
harness evaluates them along a history.  Nothing the harness checks on the implementation is
left unproved of the model; what remains trusted is the model itself (see props/C06.json).
-/
namespace SgModel.Store

/-- The representation invariant holds after every history: I1-I4, I8, I9 (`Inv`), the label
index I5 (`LblInv`), the edge-type index I6 (`TyInv`), sortedness I6b/I7 (`SortInv`), and the
column stores mirroring the row properties (`ColInv`). -/
theorem C06_invariant (ops : List Op) :
    Inv (run ops) ∧ LblInv (run ops) ∧ TyInv (run ops) ∧ SortInv (run ops) ∧ ColInv (run ops) :=
  ⟨inv_run ops, lblInv_run ops, tyInv_run ops, sortInv_run ops, colInv_run ops⟩

/-- Outgoing neighbours (`for_each_outgoing_neighbor(n, None)`): every existing relationship
with source `n` exactly once, and nothing else — in particular nothing deleted. -/
theorem C06_outgoing_once (ops : List Op) (n : Nat) :
    let s := run ops
    ((neighbours s s.outT n none).map (·.2)).Nodup
    ∧ ∀ t e, (t, e) ∈ neighbours s s.outT n none ↔ (endpOf s e = (n, t) ∧ endpOf s e ≠ (0, 0)) := by
  intro s
  have h := inv_run ops
  rw [neighbours_none_out h]
  refine ⟨h.out.nodup n, fun t e => ?_⟩
  constructor
  · intro hm; exact keyOut_some.mp (h.out.sound n t e hm)
  · intro hk; exact h.out.complete e n t (keyOut_some.mpr hk)

/-- Incoming neighbours, symmetrically. -/
theorem C06_incoming_once (ops : List Op) (n : Nat) :
    let s := run ops
    ((neighbours s s.inT n none).map (·.2)).Nodup
    ∧ ∀ t e, (t, e) ∈ neighbours s s.inT n none ↔ (endpOf s e = (t, n) ∧ endpOf s e ≠ (0, 0)) := by
  intro s
  have h := inv_run ops
  rw [neighbours_none_in h]
  refine ⟨h.inn.nodup n, fun t e => ?_⟩
  constructor
  · intro hm; exact keyIn_some.mp (h.inn.sound n t e hm)
  · intro hk; exact h.inn.complete e n t (keyIn_some.mpr hk)

/-- `get_outgoing_edges` / `get_incoming_edges` return exactly the existing relationships
leaving / entering `n`, each once. -/
theorem C06_edge_lists_exact (ops : List Op) (n : Nat) :
    let s := run ops
    (edgesOf s s.outT n).Nodup ∧ (edgesOf s s.inT n).Nodup
    ∧ (∀ e, e ∈ edgesOf s s.outT n ↔ (endpOf s e ≠ (0, 0) ∧ (endpOf s e).1 = n))
    ∧ (∀ e, e ∈ edgesOf s s.inT n ↔ (endpOf s e ≠ (0, 0) ∧ (endpOf s e).2 = n)) := by
  intro s
  have h := inv_run ops
  rw [edgesOf_out h, edgesOf_in h]
  refine ⟨h.out.nodup n, h.inn.nodup n, fun e => ?_, fun e => ?_⟩
  · constructor
    · intro hm
      obtain ⟨p, hp, rfl⟩ := List.mem_map.mp hm
      have hk := keyOut_some.mp (h.out.sound n p.1 p.2 hp)
      exact ⟨hk.2, by rw [hk.1]⟩
    · rintro ⟨hl, hs⟩
      have : (((endpOf s e).2, e) : Nat × Nat) ∈ s.outT.row n :=
        h.out.complete e n _ (keyOut_some.mpr ⟨by rw [← hs], hl⟩)
      exact List.mem_map.mpr ⟨_, this, rfl⟩
  · constructor
    · intro hm
      obtain ⟨p, hp, rfl⟩ := List.mem_map.mp hm
      have hk := keyIn_some.mp (h.inn.sound n p.1 p.2 hp)
      exact ⟨hk.2, by rw [hk.1]⟩
    · rintro ⟨hl, hs⟩
      have : (((endpOf s e).1, e) : Nat × Nat) ∈ s.inT.row n :=
        h.inn.complete e n _ (keyIn_some.mpr ⟨by rw [← hs], hl⟩)
      exact List.mem_map.mpr ⟨_, this, rfl⟩

/-- Typed reads (`for_each_*_neighbor(n, Some([id of ty]))`, `*_degree_for_type(n, ty)`): the
typed visitor sees exactly the existing relationships of `n` whose type is `ty`, each once, and
the degree is their number — in both directions; a type the store never interned gives 0. -/
theorem C06_typed_neighbours_and_degree (ops : List Op) (n ty : Nat) :
    let s := run ops
    ((neighbours s s.outT n (typeFilter s ty)).map (·.2)).Nodup
    ∧ ((neighbours s s.inT n (typeFilter s ty)).map (·.2)).Nodup
    ∧ (∀ t e, (t, e) ∈ neighbours s s.outT n (typeFilter s ty) ↔
        (endpOf s e = (n, t) ∧ endpOf s e ≠ (0, 0) ∧ edgeTypeOf s e = some ty))
    ∧ (∀ t e, (t, e) ∈ neighbours s s.inT n (typeFilter s ty) ↔
        (endpOf s e = (t, n) ∧ endpOf s e ≠ (0, 0) ∧ edgeTypeOf s e = some ty))
    ∧ degreeForType s s.outT n ty = (neighbours s s.outT n (typeFilter s ty)).length
    ∧ degreeForType s s.inT n ty = (neighbours s s.inT n (typeFilter s ty)).length := by
  intro s
  have h := inv_run ops
  refine ⟨?_, ?_, ?_, ?_, degree_eq_typed_length s s.outT n ty, degree_eq_typed_length s s.inT n ty⟩
  · exact List.Nodup.sublist (List.Sublist.map _ List.filter_sublist) (h.out.nodup n)
  · exact List.Nodup.sublist (List.Sublist.map _ List.filter_sublist) (h.inn.nodup n)
  · intro t e
    simp only [neighbours, List.mem_filter]
    constructor
    · rintro ⟨hm, hf⟩
      have hk := keyOut_some.mp (h.out.sound n t e hm)
      exact ⟨hk.1, hk.2, (typeId_iff h.toInvE hk.2 ty).mp ((typeMatches_filter s e ty).mp hf)⟩
    · rintro ⟨he, hl, hty⟩
      exact ⟨h.out.complete e n t (keyOut_some.mpr ⟨he, hl⟩),
        (typeMatches_filter s e ty).mpr ((typeId_iff h.toInvE hl ty).mpr hty)⟩
  · intro t e
    simp only [neighbours, List.mem_filter]
    constructor
    · rintro ⟨hm, hf⟩
      have hk := keyIn_some.mp (h.inn.sound n t e hm)
      exact ⟨hk.1, hk.2, (typeId_iff h.toInvE hk.2 ty).mp ((typeMatches_filter s e ty).mp hf)⟩
    · rintro ⟨he, hl, hty⟩
      exact ⟨h.inn.complete e n t (keyIn_some.mpr ⟨he, hl⟩),
        (typeMatches_filter s e ty).mpr ((typeId_iff h.toInvE hl ty).mpr hty)⟩

/-- No relationship ever dangles from a missing node. -/
theorem C06_no_dangling (ops : List Op) (e : Nat) :
    let s := run ops
    endpOf s e ≠ (0, 0) → getNode s (endpOf s e).1 ≠ none ∧ getNode s (endpOf s e).2 ≠ none :=
  fun hl => (inv_run ops).ends e hl

/-- `all_edges` lists exactly the existing relationships, each once, and `get_edge` resolves
exactly those. -/
theorem C06_all_edges_exact (ops : List Op) :
    let s := run ops
    (allEdges s).Nodup ∧ (∀ e, e ∈ allEdges s ↔ endpOf s e ≠ (0, 0))
    ∧ (∀ e, (getEdge s e).isSome = true ↔ endpOf s e ≠ (0, 0)) := by
  intro s
  have h := inv_run ops
  refine ⟨allEdges_nodup s, mem_allEdges h.toInvE, fun e => ?_⟩
  constructor
  · intro hs hz
    cases hg : getEdge s e with
    | none => rw [hg] at hs; cases hs
    | some q =>
      obtain ⟨a, b, ty, ps⟩ := q
      exact (getEdge_some hg).2 hz
  · intro hl
    obtain ⟨ty, hg, _⟩ := getEdge_of_live h.toInvE hl
    rw [hg]; rfl

/-- `edge_count()` (cached frozen total + write-buffer length) is the number of existing
relationships — across compactions, deletions from the frozen tier, and id reuse. -/
theorem C06_edge_count_eq (ops : List Op) :
    edgeCount (run ops) = (allEdges (run ops)).length := edgeCount_eq (inv_run ops)

/-- Relationships between two nodes, filter formulation (the specification-level read). -/
theorem C06_between_filter (ops : List Op) (a b : Nat) (ty : Option Nat) (e : Nat) :
    let s := run ops
    e ∈ edgesBetweenF s a b ty ↔
      (endpOf s e = (a, b) ∧ endpOf s e ≠ (0, 0) ∧ ∀ want, ty = some want → edgeTypeOf s e = some want) := by
  intro s
  have h := inv_run ops
  simp only [edgesBetweenF, List.mem_map, List.mem_filter, Bool.and_eq_true, beq_iff_eq]
  constructor
  · rintro ⟨p, ⟨hp, hb, hc⟩, rfl⟩
    have hk := keyOut_some.mp (h.out.sound a p.1 p.2 hp)
    obtain ⟨ty', hg, hty⟩ := getEdge_of_live h.toInvE hk.2
    refine ⟨by rw [hk.1, hb], hk.2, ?_⟩
    intro want hw
    subst hw
    rw [hg] at hc
    simp only [beq_iff_eq] at hc
    rw [hty, hc]
  · rintro ⟨he, hl, hty⟩
    refine ⟨(b, e), ⟨h.out.complete e a b (keyOut_some.mpr ⟨he, hl⟩), rfl, ?_⟩, rfl⟩
    obtain ⟨ty', hg, hty'⟩ := getEdge_of_live h.toInvE hl
    rw [hg]
    cases ty with
    | none => rfl
    | some want =>
      have := hty want rfl
      rw [hty'] at this
      simp only [Option.some.injEq] at this
      simp [this]

/-- Every frozen row is sorted by neighbour id, in both directions; every write-buffer row is
sorted while no edge stub is pending (stub inserts append unsorted; `compact_adjacency` /
`finish_bulk_load` sort them into a segment). -/
theorem C06_rows_sorted (ops : List Op) :
    let s := run ops
    (∀ seg ∈ s.outT.segs, ∀ n, SortedK (seg.getD n []))
    ∧ (∀ seg ∈ s.inT.segs, ∀ n, SortedK (seg.getD n []))
    ∧ (s.stubPending = false → ∀ n, SortedK (s.outT.buf.getD n []) ∧ SortedK (s.inT.buf.getD n [])) := by
  intro s
  have h := sortInv_run ops
  exact ⟨h.out.segs, h.inn.segs, fun hp n => ⟨h.out.buf hp n, h.inn.buf hp n⟩⟩

/-- `edges_between` — the code path: binary search (Rust's `binary_search_by`), walk back to
the start of the run, scan the run; once per frozen segment and once in the write buffer.
Whenever no stub is pending it returns exactly the existing relationships from `a` to `b` (of
the requested type), each once. -/
theorem C06_between (ops : List Op) (a b : Nat) (ty : Option Nat)
    (hp : (run ops).stubPending = false) :
    let s := run ops
    edgesBetween s a b ty = edgesBetweenF s a b ty
    ∧ (edgesBetween s a b ty).Nodup
    ∧ ∀ e, e ∈ edgesBetween s a b ty ↔
        (endpOf s e = (a, b) ∧ endpOf s e ≠ (0, 0) ∧ ∀ want, ty = some want → edgeTypeOf s e = some want) := by
  intro s
  have h := inv_run ops
  have heq := edgesBetween_eq_filter h (sortInv_run ops) hp a b ty
  refine ⟨heq, ?_, fun e => ?_⟩
  · rw [heq]
    exact List.Nodup.sublist (List.Sublist.map _ List.filter_sublist) (h.out.nodup a)
  · rw [heq]; exact C06_between_filter ops a b ty e

/-- Nodes by label (`get_nodes_by_label`): exactly the existing nodes carrying the label, each
once; and the index itself holds exactly those ids (I5). -/
theorem C06_by_label_eq (ops : List Op) (l : Nat) :
    let s := run ops
    (nodesByLabel s l).Nodup
    ∧ (∀ n, n ∈ nodesByLabel s l ↔ ∃ r, getNode s n = some r ∧ l ∈ r.labels)
    ∧ (∀ n, n ∈ idxGet s.labelIdx l ↔ ∃ r, getNode s n = some r ∧ l ∈ r.labels) := by
  intro s
  have h := lblInv_run ops
  refine ⟨(h.nodup l).filter _, fun n => ?_, h.exact l⟩
  show n ∈ (idxGet s.labelIdx l).filter (liveN s) ↔ _
  rw [List.mem_filter, h.exact l n]
  constructor
  · exact fun hh => hh.1
  · rintro ⟨r, hr, hl⟩
    exact ⟨⟨r, hr, hl⟩, by simp [liveN, hr]⟩

/-- Relationships by type (`get_edges_by_type`): always only existing relationships of that
type, each once; exactly all of them whenever no stub is waiting for `finish_bulk_load` (I6) —
in particular right after `finish_bulk_load`, whatever ids the stubs reused. -/
theorem C06_by_type_eq (ops : List Op) (ty : Nat) :
    let s := run ops
    (edgesByType s ty).Nodup
    ∧ (∀ e, e ∈ edgesByType s ty → endpOf s e ≠ (0, 0) ∧ edgeTypeOf s e = some ty)
    ∧ (s.stubPending = false →
        ∀ e, e ∈ edgesByType s ty ↔ (endpOf s e ≠ (0, 0) ∧ edgeTypeOf s e = some ty)) := by
  intro s
  have hI := inv_run ops
  have h := tyInv_run ops
  have hmem : ∀ e, e ∈ edgesByType s ty ↔ e ∈ idxGet s.typeIdx ty := by
    intro e
    show e ∈ (idxGet s.typeIdx ty).filter _ ↔ _
    rw [List.mem_filter]
    constructor
    · exact fun hh => hh.1
    · intro hm
      obtain ⟨t, hg, _⟩ := getEdge_of_live hI.toInvE (h.sound ty e hm).1
      exact ⟨hm, by rw [hg]; rfl⟩
  refine ⟨(h.nodup ty).filter _, fun e hm => h.sound ty e ((hmem e).mp hm), fun hp e => ?_⟩
  rw [hmem]
  exact ⟨h.sound ty e, fun hh => h.complete hp ty e hh.1 hh.2⟩

/-- `finish_bulk_load` always leaves no stub pending, so after it both reads that depend on
the bulk-load step are exact. -/
theorem C06_finish_clears_pending (ops : List Op) :
    (run (ops ++ [.finish])).stubPending = false := by
  simp [run, List.foldl_append, step, stepWith, finish]


/-- An id that is not in use holds nothing: a dead node id has empty rows in **both** tiers
(frozen segments included) and an empty column row; a dead relationship id is in no row of
either tier, is untyped, and has no sparse properties and no column row.  Hence whatever is
created under a reused id starts from nothing of its previous owner. -/
theorem C06_dead_ids_hold_nothing (ops : List Op) :
    let s := run ops
    (∀ n, getNode s n = none →
        s.outT.row n = [] ∧ s.inT.row n = [] ∧ ∀ k, colGet s.ncols n k = none)
    ∧ (∀ e, endpOf s e = (0, 0) →
        (∀ n x, (x, e) ∉ s.outT.row n ∧ (x, e) ∉ s.inT.row n)
        ∧ typeIdOf s e = none ∧ assocGet s.eprops e = none ∧ ∀ k, colGet s.ecols e k = none) := by
  intro s
  have h := inv_run ops
  constructor
  · intro n hn
    refine ⟨?_, ?_, fun k => colGet_none (fun p hp hpn => h.ncols_live p hp (by rw [hpn]; exact hn))⟩
    · apply List.eq_nil_iff_forall_not_mem.mpr
      intro p hp
      have hk := keyOut_some.mp (h.out.sound n p.1 p.2 hp)
      have := (h.ends p.2 hk.2).1
      rw [hk.1] at this
      exact this hn
    · apply List.eq_nil_iff_forall_not_mem.mpr
      intro p hp
      have hk := keyIn_some.mp (h.inn.sound n p.1 p.2 hp)
      have := (h.ends p.2 hk.2).2
      rw [hk.1] at this
      exact this hn
  · intro e he
    refine ⟨fun n x => ⟨?_, ?_⟩, h.untyped e he,
      assocGet_none (fun p hp hpe => h.eprops_live p hp (by rw [hpe]; exact he)),
      fun k => colGet_none (fun p hp hpe => h.ecols_live p hp (by rw [hpe]; exact he))⟩
    · intro hm; exact (keyOut_some.mp (h.out.sound n x e hm)).2 he
    · intro hm; exact (keyIn_some.mp (h.inn.sound n x e hm)).2 he

/-- The ids the store hands out (free-list pop, else the counter) are not in use, node id 0 is
never used, and everything on a free list or at/above a counter is dead. -/
theorem C06_fresh_ids_are_dead (ops : List Op) :
    let s := run ops
    getNode s (allocN s).1 = none ∧ endpOf s (allocE s).1 = (0, 0) ∧ getNode s 0 = none
    ∧ (∀ n ∈ s.freeN, getNode s n = none) ∧ (∀ e ∈ s.freeE, endpOf s e = (0, 0))
    ∧ s.freeN.Nodup ∧ s.freeE.Nodup := by
  intro s
  have h := inv_run ops
  exact ⟨(allocN_spec h).1, (allocE_spec h.toInvE).1, h.node0, h.freeN_dead, h.freeE_dead,
    h.freeN_nodup, h.freeE_nodup⟩

/-- A node created after any history — possibly under a reused id — was not in use before,
has exactly the label it was given and no properties, no neighbour in either direction and
either tier, and an empty column row. -/
theorem C06_reuse_clean (ops : List Op) (l : Nat) :
    let s := run ops
    let r := step s (.mkN l)
    ∃ i, r.2 = .id i ∧ getNode s i = none
      ∧ getNode r.1 i = some { labels := [l], props := [] }
      ∧ r.1.outT.row i = [] ∧ r.1.inT.row i = []
      ∧ neighbours r.1 r.1.outT i none = [] ∧ neighbours r.1 r.1.inT i none = []
      ∧ ∀ k, colGet r.1.ncols i k = none := by
  intro s r
  have h := inv_run ops
  have h' : Inv r.1 := inv_step h (.mkN l)
  obtain ⟨hg, hret, hendp⟩ := createNode_reads s l []
  have hdead := (allocN_spec h).1
  refine ⟨(allocN s).1, hret, hdead, by rw [show r.1 = (createNode s l []).1 from rfl, hg]; simp, ?_⟩
  have hout : r.1.outT.row (allocN s).1 = [] := by
    apply List.eq_nil_iff_forall_not_mem.mpr
    intro p hp
    have hk := keyOut_some.mp (h'.out.sound _ p.1 p.2 hp)
    have he : endpOf r.1 p.2 = endpOf s p.2 := hendp p.2
    rw [he] at hk
    have := (h.ends p.2 hk.2).1
    rw [hk.1] at this
    exact this hdead
  have hin : r.1.inT.row (allocN s).1 = [] := by
    apply List.eq_nil_iff_forall_not_mem.mpr
    intro p hp
    have hk := keyIn_some.mp (h'.inn.sound _ p.1 p.2 hp)
    have he : endpOf r.1 p.2 = endpOf s p.2 := hendp p.2
    rw [he] at hk
    have := (h.ends p.2 hk.2).2
    rw [hk.1] at this
    exact this hdead
  refine ⟨hout, hin, by rw [neighbours_none_out h', hout], by rw [neighbours_none_in h', hin], ?_⟩
  intro k
  apply colGet_none
  intro p hp hpn
  have hnc : r.1.ncols = s.ncols := by
    show (createNode s l []).1.ncols = s.ncols
    unfold createNode allocN
    cases s.freeN <;> rfl
  rw [hnc] at hp
  exact h.ncols_live p hp (by rw [hpn]; exact hdead)

/-- The model satisfies the core of the executable specification that the harness evaluates on
the implementation's observations — for every history and every probe list that covers the
node ids in use: `edge_count` = number of observed relationships (ids distinct), outgoing and
incoming neighbour reads and edge-list reads list each observed relationship of that node
exactly once and nothing else, and no observed relationship dangles. -/
theorem C06_model_refines_spec_core (ops : List Op) (p : Probe)
    (hcover : ∀ n, getNode (run ops) n ≠ none → n ∈ p.ids) :
    specCore p (obs (run ops) p) = true := by
  have h := inv_run ops
  have hedges : (obs (run ops) p).edges = obsEdges (run ops) := rfl
  simp only [specCore, Bool.and_eq_true]
  refine ⟨⟨⟨⟨⟨?_, ?_⟩, ?_⟩, ?_⟩, ?_⟩, ?_⟩
  · -- counts
    simp only [specCount, Bool.and_eq_true, beq_iff_eq]
    refine ⟨?_, ?_⟩
    · show edgeCount (run ops) = (obsEdges (run ops)).length
      rw [obsEdges_length, edgeCount_eq h]
    · rw [hedges, nodupB_iff, obsEdges_ids]; exact allEdges_nodup _
  · -- outgoing neighbours
    simp only [specOutN, hedges]
    show ((p.ids.zip (p.ids.map _)).all _) = true
    rw [zip_map_self, List.all_eq_true]
    intro x hx
    obtain ⟨n, _, rfl⟩ := List.mem_map.mp hx
    simp only
    rw [neighbours_none_out h]
    exact sameOnce_of _ _ (nodup_of_map_snd (h.out.nodup n)) (row_out_iff h n)
  · simp only [specInN, hedges]
    show ((p.ids.zip (p.ids.map _)).all _) = true
    rw [zip_map_self, List.all_eq_true]
    intro x hx
    obtain ⟨n, _, rfl⟩ := List.mem_map.mp hx
    simp only
    rw [neighbours_none_in h]
    exact sameOnce_of _ _ (nodup_of_map_snd (h.inn.nodup n)) (row_in_iff h n)
  · simp only [specOutE, hedges]
    show ((p.ids.zip (p.ids.map _)).all _) = true
    rw [zip_map_self, List.all_eq_true]
    intro x hx
    obtain ⟨n, _, rfl⟩ := List.mem_map.mp hx
    simp only
    rw [edgesOf_out h]
    apply sameOnce_of _ _ (h.out.nodup n)
    intro e
    simp only [List.mem_map, List.mem_filter, beq_iff_eq]
    constructor
    · rintro ⟨q, hq, rfl⟩
      obtain ⟨y, hy, rfl⟩ := List.mem_map.mp ((row_out_iff h n q).mp hq)
      exact ⟨y, List.mem_filter.mp hy |>.imp id (by simp), rfl⟩
    · rintro ⟨y, ⟨hy, hs⟩, rfl⟩
      refine ⟨(eTgt y, eId y), (row_out_iff h n _).mpr ?_, rfl⟩
      exact List.mem_map.mpr ⟨y, List.mem_filter.mpr ⟨hy, by simp [hs]⟩, rfl⟩
  · simp only [specInE, hedges]
    show ((p.ids.zip (p.ids.map _)).all _) = true
    rw [zip_map_self, List.all_eq_true]
    intro x hx
    obtain ⟨n, _, rfl⟩ := List.mem_map.mp hx
    simp only
    rw [edgesOf_in h]
    apply sameOnce_of _ _ (h.inn.nodup n)
    intro e
    simp only [List.mem_map, List.mem_filter, beq_iff_eq]
    constructor
    · rintro ⟨q, hq, rfl⟩
      obtain ⟨y, hy, rfl⟩ := List.mem_map.mp ((row_in_iff h n q).mp hq)
      exact ⟨y, List.mem_filter.mp hy |>.imp id (by simp), rfl⟩
    · rintro ⟨y, ⟨hy, hs⟩, rfl⟩
      refine ⟨(eSrc y, eId y), (row_in_iff h n _).mpr ?_, rfl⟩
      exact List.mem_map.mpr ⟨y, List.mem_filter.mpr ⟨hy, by simp [hs]⟩, rfl⟩
  · -- no dangling
    simp only [specEnds, hedges, List.all_eq_true, Bool.and_eq_true, List.contains_iff_mem]
    intro x hx
    obtain ⟨he, hl⟩ := obsEdges_sound hx
    have hends := h.ends (eId x) hl
    rw [he] at hends
    have memNodes : ∀ n, getNode (run ops) n ≠ none → n ∈ (obs (run ops) p).nodes.map (·.1) := by
      intro n hn
      cases hg : getNode (run ops) n with
      | none => exact absurd hg hn
      | some r =>
        apply List.mem_map.mpr
        refine ⟨(n, r.labels, r.props), ?_, rfl⟩
        show _ ∈ p.ids.filterMap _
        exact List.mem_filterMap.mpr ⟨n, hcover n hn, by simp [hg]⟩
    exact ⟨memNodes _ hends.1, memNodes _ hends.2⟩

/-- The column stores mirror the row properties: `node_columns[n][k]` is node `n`'s property
`k` if `n` exists and nothing otherwise; `edge_columns[e][k]` likewise for relationships — so a
column read can never show a value of an earlier owner of the id. -/
theorem C06_columns_mirror (ops : List Op) (i k : Nat) :
    let s := run ops
    colGet s.ncols i k = (getNode s i).bind (fun r => assocGet r.props k)
    ∧ colGet s.ecols i k = (getEdge s i).bind (fun q => assocGet q.2.2.2 k) :=
  ⟨(colInv_run ops).ncol i k, (colInv_run ops).ecol i k⟩

/-- **The model satisfies the whole executable specification** that the harness evaluates on
the implementation's observations (`specObs`: every read view of the `observe_at` list is the
corresponding function of the logical graph read off `get_node` / `all_edges`) — for every
history and every duplicate-free probe list covering the node ids in use. -/
theorem C06_model_refines_spec (ops : List Op) (p : Probe) (hnd : p.ids.Nodup)
    (hcov : ∀ n, getNode (run ops) n ≠ none → n ∈ p.ids) :
    specObs p (obs (run ops) p) = true :=
  specObs_holds (inv_run ops) (lblInv_run ops) (tyInv_run ops) (sortInv_run ops) (colInv_run ops)
    p hnd hcov (C06_model_refines_spec_core ops p hcov)

/-- **Refinement of the logical graph, step by step.**  For every reachable state, every
operation inside the API preconditions (`Pre`: `create_edge_stub` only between existing nodes)
and every probe list covering the node ids in use before and after: the observations before
and after the step satisfy the step relation `specStep` of the executable specification, with
the result the model returns.  (Ids are chosen by the store; the relation only demands that a
new id was not in use.) -/
theorem C06_refines_step (ops : List Op) (op : Op) (p : Probe)
    (hcov : ∀ n, getNode (run ops) n ≠ none → n ∈ p.ids)
    (hcov' : ∀ n, getNode (step (run ops) op).1 n ≠ none → n ∈ p.ids)
    (hpre : Pre (run ops) op) :
    specStep (obs (run ops) p) op (step (run ops) op).2 (obs (step (run ops) op).1 p) = true :=
  specStep_holds (inv_run ops) p op hcov hcov' hpre

/-- Both halves together, as the harness evaluates them along a history: the state clause on
the observation after the step and the step clause between the two observations. -/
theorem C06_model_refines_spec_along (ops : List Op) (op : Op) (p : Probe) (hnd : p.ids.Nodup)
    (hcov : ∀ n, getNode (run ops) n ≠ none → n ∈ p.ids)
    (hcov' : ∀ n, getNode (run (ops ++ [op])) n ≠ none → n ∈ p.ids)
    (hpre : Pre (run ops) op) :
    specObs p (obs (run (ops ++ [op])) p) = true
    ∧ specStep (obs (run ops) p) op (step (run ops) op).2 (obs (run (ops ++ [op])) p) = true := by
  have hrun : run (ops ++ [op]) = (step (run ops) op).1 := by
    simp [run, List.foldl_append]
  refine ⟨C06_model_refines_spec (ops ++ [op]) p hnd hcov', ?_⟩
  rw [hrun] at hcov' ⊢
  exact C06_refines_step ops op p hcov hcov' hpre

/-! ### The pinned tree violated the property (witnesses replayed by `corpus/C06`) -/

def w27 : List Op := [.mkN 0, .mkN 0, .mkE 1 2 0, .compact, .delE 1, .mkE 2 1 0]

/-- #27: compact; delete; re-create under the reused id ⇒ `edge_count` = 2 with one relationship -/
theorem C06_counterexample_edge_count :
    edgeCount (runLegacy w27) = 2 ∧ (allEdges (runLegacy w27)).length = 1 := by decide

/-- #27: … and node 1 sees the new relationship 2→1 as an *outgoing* neighbour -/
theorem C06_counterexample_phantom_neighbour :
    neighbours (runLegacy w27) (runLegacy w27).outT 1 none = [(2, 1)]
      ∧ endpOf (runLegacy w27) 1 = (2, 1) := by decide

/-- #27 without reuse: the deleted relationship is still counted and `edges_between` lists it -/
theorem C06_counterexample_count_after_delete :
    edgeCount (runLegacy [.mkN 0, .mkN 0, .mkE 1 2 0, .compact, .delE 1]) = 1
    ∧ edgesBetweenLegacy (runLegacy [.mkN 0, .mkN 0, .mkE 1 2 0, .compact, .delE 1]) 1 2 none = [1] := by
  decide

/-- #28: a node created under the id of a deleted node inherits its frozen row -/
theorem C06_counterexample_node_inherits_rows :
    (runLegacy [.mkN 0, .mkN 0, .mkE 1 2 0, .compact, .delN 1, .mkN 1]).outT.row 1 = [(2, 1)] := by
  decide

/-- #29: the `edge_columns` row survives `delete_edge` and is read under the reused id -/
theorem C06_counterexample_edge_column_inherited :
    colGet (runLegacy [.mkN 0, .mkN 0, .mkE 1 2 0, .setEP 1 0 5, .delE 1, .mkE 1 2 0]).ecols 1 0
      = some 5 := by decide

def w2seg : List Op := [.mkN 0, .mkN 0, .mkN 0, .mkE 1 3 0, .compact, .mkE 1 2 0, .compact]

/-- new: with two frozen segments `edges_between` binary-searched their (unsorted)
concatenation and missed an existing relationship -/
theorem C06_counterexample_between_two_segments :
    edgesBetweenLegacy (run w2seg) 1 3 none = [] ∧ endpOf (run w2seg) 1 = (1, 3) := by decide

/-! ### Non-vacuity: the same histories under the repaired step -/

example : edgeCount (run w27) = 1 ∧ neighbours (run w27) (run w27).outT 1 none = []
    ∧ neighbours (run w27) (run w27).outT 2 none = [(1, 1)] := by decide

example : (run [.mkN 0, .mkN 0, .mkE 1 2 0, .compact, .delN 1, .mkN 1]).outT.row 1 = [] := by decide

example : colGet (run [.mkN 0, .mkN 0, .mkE 1 2 0, .setEP 1 0 5, .delE 1, .mkE 1 2 0]).ecols 1 0
    = none := by decide

example : edgesBetween (run w2seg) 1 3 none = [1] ∧ edgesBetween (run w2seg) 1 2 none = [2] := by
  decide

/-- the probed history has a compaction, a frozen delete and a re-create, and the spec core
holds on its observation (hypotheses of `C06_model_refines_spec` satisfied by ids 0..3) -/
example : specCore ⟨[0, 1, 2, 3], [0, 1], [0, 1], [0, 1]⟩ (obs (run w27) ⟨[0, 1, 2, 3], [0, 1], [0, 1], [0, 1]⟩)
    = true := by decide

/-- … and so do the whole `specObs` and the step clause for the re-create under the reused id
(hypotheses of `C06_model_refines_spec` / `C06_refines_step` are satisfiable) -/
example : specObs ⟨[0, 1, 2, 3], [0, 1], [0, 1], [0, 1]⟩ (obs (run w27) ⟨[0, 1, 2, 3], [0, 1], [0, 1], [0, 1]⟩)
    = true := by decide

example : specStep (obs (run [.mkN 0, .mkN 0, .mkE 1 2 0, .compact, .delE 1]) ⟨[0, 1, 2, 3], [0, 1], [0, 1], [0, 1]⟩)
    (.mkE 2 1 0) (step (run [.mkN 0, .mkN 0, .mkE 1 2 0, .compact, .delE 1]) (.mkE 2 1 0)).2
    (obs (run w27) ⟨[0, 1, 2, 3], [0, 1], [0, 1], [0, 1]⟩) = true := by decide

example : Pre (run [.mkN 0, .mkN 0]) (.mkES 1 2 0) :=
  show liveN _ 1 = true ∧ liveN _ 2 = true by decide

end SgModel.Store
