import SgModel.Lemmas.RespFeed
import SgModel.Lemmas.RespLocal
/-!
# C22 — every server reply is exactly one well-formed RESP frame

Property theorems only.  The model is `SgModel.Resp.encode` (`RespValue::encode` after the
`fix:` commit that writes CR/LF inside simple strings and errors as spaces) read back by
`SgModel.Resp.decode`.  The theorems quantify over **every** reply value the Rust type can
hold — no cleanliness hypothesis on the text, that is the point; `sound` only states the
invariants of the Rust types (`String` is UTF-8, `i64`, lengths fit the machine word) and the
decoder's nesting limit.  `encodeLegacy` is the pinned encoder.
-/
namespace SgModel.Resp

/-- Whatever the reply value — including status lines that echo CR/LF supplied by the client —
its encoding decodes as exactly one frame with nothing left over, and the frame is the reply
with CR/LF of status lines replaced by spaces. -/
theorem C22_encode_one_frame (v : RV) (hs : v.sound = true) (hd : v.depth ≤ MAX_DEPTH) :
    (decode (encode v)).out = .val (sanitize v) ∧ (decode (encode v)).rest = [] := by
  have h := decodeD_encode MAX_DEPTH v hd hs []
  simp only [List.append_nil] at h
  exact decode_of_val h.1 h.2

/-- The reply stays one frame inside a pipelined reply stream: whatever bytes follow it are
left for the next reply, and no strict prefix of it is taken for a frame. -/
theorem C22_reply_is_framed (v : RV) (hs : v.sound = true) (hd : v.depth ≤ MAX_DEPTH) :
    Framed (encode v) (sanitize v) :=
  ⟨encode_ne_nil v,
   fun rest => let h := decodeD_encode MAX_DEPTH v hd hs rest; decode_of_val h.1 h.2,
   fun p t ht he => decode_of_needsMore (decodeD_prefix MAX_DEPTH v hd hs p t ht he)⟩

/-- A client reading the replies to `n` commands over any TCP chunking sees exactly `n`
frames: the `i`-th is the `i`-th reply (sanitised), and nothing is left over. -/
theorem C22_reply_stream (vs : List RV) (h : ∀ v ∈ vs, v.sound = true ∧ v.depth ≤ MAX_DEPTH)
    (cs : List Bytes) (hcs : cs.flatten = (vs.map encode).flatten) :
    (feedAll cs).out = vs.map (fun v => Event.cmd (sanitize v)) ∧ (feedAll cs).buf = [] := by
  have := feedAll_items (vs.map (fun v => (encode v, sanitize v)))
    (by
      intro g hg
      simp only [List.mem_map] at hg
      obtain ⟨v, hv, rfl⟩ := hg
      exact C22_reply_is_framed v (h v hv).1 (h v hv).2)
    cs (by
      have e : stream (vs.map (fun v => (encode v, sanitize v))) = (vs.map encode).flatten := by
        simp only [stream, List.map_map]; rfl
      rw [e]; exact hcs)
  have e2 : evs (vs.map (fun v => (encode v, sanitize v)))
      = vs.map (fun v => Event.cmd (sanitize v)) := by
    simp only [evs, List.map_map]; rfl
  rw [e2] at this
  exact this

/-- The repair changes nothing for replies whose status lines are already free of CR/LF … -/
theorem C22_sanitize_id (v : RV) (h : v.clean = true) : sanitize v = v := sanitize_id v h

/-- … what the client reads is always free of CR/LF in status lines … -/
theorem C22_sanitize_clean (v : RV) : (sanitize v).clean = true := sanitize_clean v

/-- … and only CR and LF bytes are touched (each becomes one space). -/
theorem C22_sanit_spec (b : UInt8) : sanit b = if b = CR ∨ b = LF then 32 else b := rfl

/-- The model satisfies the executable specification the harness evaluates on the reply bytes
of the implementation. -/
theorem C22_model_refines_spec (v : RV) (hs : v.sound = true) (hd : v.depth ≤ MAX_DEPTH) :
    specOneFrame (encode v) = true := by
  have h := C22_encode_one_frame v hs hd
  simp [specOneFrame, h.1, h.2]

/-! ### The pinned tree violated the property -/

/-- `-ERR unknown command 'X\r\n+OK'\r\n` as written by the pinned encoder: the client reads an
error frame followed by a forged `+OK'` frame. -/
theorem C22_counterexample_crlf_echo :
    specOneFrame (encodeLegacy (.error [69, 82, 82, 32, 39, 88, 13, 10, 43, 79, 75, 39])) = false
    ∧ (drain (encodeLegacy (.error [69, 82, 82, 32, 39, 88, 13, 10, 43, 79, 75, 39]))).1
      = [.cmd (.error [69, 82, 82, 32, 39, 88]), .cmd (.simple [79, 75, 39])] := by decide

/-- The forwarding branch (sharding): whatever way the remote node's reply `encode v` — possibly
followed by further bytes — is cut into reads, the proxy relays exactly `encode v` to the
client, i.e. (by `C22_encode_one_frame`) exactly one frame. -/
theorem C22_forward_relays_one_frame (v : RV) (hs : v.sound = true) (hd : v.depth ≤ MAX_DEPTH)
    (extra : Bytes) (cs : List Bytes) (hcs : cs.flatten = encode v ++ extra) :
    relay cs = some (encode v) ∧ specOneFrame (encode v) = true :=
  ⟨relay_framed (encode v) (sanitize v) (C22_reply_is_framed v hs hd) extra cs hcs,
   C22_model_refines_spec v hs hd⟩

/-- The forwarding branch against **any** owning node: whatever bytes it sends in whatever
reads (or none at all), what `handle_connection` writes to the client for the forwarded command
is exactly one frame — the relayed one, or the `-ERR routing failed` error. -/
theorem C22_forward_any_remote (cs : List Bytes) (errMsg : Bytes) (hu : validUtf8 errMsg = true) :
    specOneFrame (forwardReply cs errMsg) = true := by
  unfold forwardReply
  cases h : relay cs with
  | some b => exact relayFrom_one_frame cs [] b h
  | none => exact C22_model_refines_spec (.error errMsg) (by simpa [RV.sound] using hu) (by simp [RV.depth])

/-- The pinned proxy relayed the first `read` only: a reply arriving in two segments
(`"$5\r\nhel"`, `"lo\r\n"`) reached the client as the torn `"$5\r\nhel"`, which is not a frame. -/
theorem C22_counterexample_forward_truncates :
    relayLegacy [[36, 53, 13, 10, 104, 101, 108], [108, 111, 13, 10]]
      = some [36, 53, 13, 10, 104, 101, 108]
    ∧ specOneFrame [36, 53, 13, 10, 104, 101, 108] = false
    ∧ relay [[36, 53, 13, 10, 104, 101, 108], [108, 111, 13, 10]]
      = some [36, 53, 13, 10, 104, 101, 108, 108, 111, 13, 10] := by decide

/-! ### Non-vacuity -/

example : (decode (encode (.error [69, 82, 82, 32, 39, 88, 13, 10, 43, 79, 75, 39]))).out
    = .val (.error [69, 82, 82, 32, 39, 88, 32, 32, 43, 79, 75, 39]) := by decide

example : (RV.array [.error [13, 10], .simple [10], .bulk (some [13, 10])]).sound = true := by decide

end SgModel.Resp
