import SgModel.Lemmas.RaftLog
/-!
# C31 — Raft log storage keeps one entry per index and never loses the tail

Property theorems only (helpers are in `Lemmas/RaftLog.lean`).  Every theorem quantifies
over all operation histories / all states satisfying the (proved) invariant; nothing is
bounded.  `…_counterexample…` theorems refute the same statements for the model of the
pinned tree (`stepLegacy`); their witnesses are replayed on the implementation by the
harness corpus.
-/
namespace SgModel.RaftLog

/-- After any history the log is strictly increasing in index. -/
theorem C31_sorted (ops : List Op) : Sorted (run ops).log := sorted_run ops

/-- After any history no two retained entries share an index. -/
theorem C31_one_entry_per_index (ops : List Op) : ((run ops).log.map (·.index)).Nodup :=
  sorted_nodup_index (sorted_run ops)

/-- An append at index `i` replaces the entry at `i` and every later one: afterwards the
entry at `i` is the appended one, everything strictly below is kept, nothing else is there. -/
theorem C31_append_replaces_suffix (ops : List Op) (e : Entry) :
    let s := run ops
    let s' := step s (.append [e])
    getEntry s' e.index = some e
    ∧ (∀ x ∈ s.log, x.index < e.index → x ∈ s'.log)
    ∧ (∀ x ∈ s'.log, x = e ∨ (x ∈ s.log ∧ x.index < e.index)) := by
  intro s s'
  have hs : Sorted s.log := sorted_run ops
  refine ⟨?_, ?_, ?_⟩
  · show (List.filter (fun x => decide (x.index < e.index)) s.log ++ [e]).find?
        (fun x => x.index == e.index) = some e
    rw [List.find?_append]
    have : (List.filter (fun x => decide (x.index < e.index)) s.log).find?
        (fun x => x.index == e.index) = none := by
      rw [List.find?_eq_none]
      intro x hx
      simp only [List.mem_filter, decide_eq_true_eq] at hx
      simp only [beq_iff_eq]; exact Nat.ne_of_lt hx.2
    simp [this]
  · intro x hx hlt
    show x ∈ List.filter (fun x => decide (x.index < e.index)) s.log ++ [e]
    simp [List.mem_append, List.mem_filter, hx, hlt]
  · intro x hx
    have hx' : x ∈ List.filter (fun x => decide (x.index < e.index)) s.log ++ [e] := hx
    simp only [List.mem_append, List.mem_filter, decide_eq_true_eq, List.mem_singleton] at hx'
    rcases hx' with h | h
    · exact Or.inr h
    · exact Or.inl h

/-- A snapshot at `i` keeps every entry above `i` … -/
theorem C31_snapshot_keeps_tail (ops : List Op) (i t : Nat) :
    ∀ x ∈ (run ops).log, i < x.index → x ∈ (step (run ops) (.snapshot i t)).log := by
  intro x hx hlt
  show x ∈ List.filter (fun x => decide (i < x.index)) (run ops).log
  simp [List.mem_filter, hx, hlt]

/-- … and removes only entries at or below `i` (and invents none). -/
theorem C31_snapshot_removes_only_le (ops : List Op) (i t : Nat) :
    (∀ x ∈ (run ops).log, x ∉ (step (run ops) (.snapshot i t)).log → x.index ≤ i)
    ∧ (∀ x ∈ (step (run ops) (.snapshot i t)).log, x ∈ (run ops).log) := by
  constructor
  · intro x hx hnot
    apply Nat.le_of_not_lt
    intro hlt
    exact hnot (C31_snapshot_keeps_tail ops i t x hx hlt)
  · intro x hx
    have hx' : x ∈ List.filter (fun x => decide (i < x.index)) (run ops).log := hx
    exact (List.mem_filter.mp hx').1

/-- The reported last (index, term) is that of the newest retained entry — which is also the
one with the highest index — or the snapshot's when the log is empty, or (0,0). -/
theorem C31_last_correct (ops : List Op) :
    let s := run ops
    (s.log = [] → last s = (match s.snap with | some p => p | none => (0, 0)))
    ∧ (∀ m, s.log.getLast? = some m →
          last s = (m.index, m.term) ∧ ∀ e ∈ s.log, e.index ≤ m.index) := by
  intro s
  constructor
  · intro h; simp only [last, h, List.getLast?_nil]; rfl
  · intro m hm
    exact ⟨by simp [last, hm], sorted_le_getLast (sorted_run ops) hm⟩

/-- The model satisfies the executable specification that the harness evaluates on the
implementation's observations: for every reachable state and every single operation. -/
theorem C31_model_refines_spec (ops : List Op) (op : Op) :
    specStep (obs (run ops)) op (obs (step (run ops) op)) = true := by
  have hs : Sorted (run ops).log := sorted_run ops
  have hs' : Sorted (step (run ops) op).log := sorted_step _ op hs
  have hnd : nodupIdx (obs (step (run ops) op)).dump = true := nodupIdx_of_sorted hs'
  have hlast : specLast (obs (step (run ops) op)) = true := by
    unfold specLast
    simp only [obs]
    rw [maxIdxEntry_sorted hs']
    unfold last
    cases (step (run ops) op).log.getLast? with
    | some m => simp
    | none => cases (step (run ops) op).snap <;> simp
  have hreads : specReads (obs (step (run ops) op)) = true := by
    simp [specReads, obs, getEntry, getEntries]
  simp only [specStep, hnd, hlast, hreads, Bool.true_and]
  simp only [obs]
  cases op with
  | append es =>
    match es with
    | [] => rfl
    | [e] =>
      simp only [step, List.foldl, append1, specAppend1, Bool.and_eq_true, List.all_eq_true,
        List.contains_iff_mem, beq_self_eq_true, and_true, List.mem_filter, decide_eq_true_eq,
        List.mem_append, List.mem_singleton, Bool.or_eq_true, beq_iff_eq]
      refine ⟨⟨Or.inr trivial, fun x hx => Or.inl hx⟩, ?_⟩
      intro x hx
      rcases hx with h | h
      · exact Or.inr h
      · exact Or.inl h
    | _ :: _ :: _ => rfl
  | truncate i =>
    simp only [step, truncate, subsetOf, Bool.and_eq_true, List.all_eq_true,
      List.contains_iff_mem, List.mem_filter, decide_eq_true_eq, beq_self_eq_true, and_true]
    exact ⟨⟨fun x hx => hx.1, fun x hx => hx⟩, fun x hx => hx.2⟩
  | snapshot i t =>
    simp only [step, snapshot, subsetOf, Bool.and_eq_true, List.all_eq_true,
      List.contains_iff_mem, List.mem_filter, decide_eq_true_eq, beq_self_eq_true, and_true]
    exact ⟨fun x hx => hx.1, fun x hx => hx⟩

/-- A batch append is the composition of its single appends (so the single-append
specification covers `append_entries(vec)`). -/
theorem C31_batch_is_composition (s : State) (es : List Entry) :
    step s (.append es) = es.foldl (fun acc e => step acc (.append [e])) s := by
  simp [step]

/-! ### The pinned tree violated the property (witnesses replayed by the corpus) -/

theorem C31_counterexample_append_dup :
    ¬ ((runLegacy [.append [⟨1,1,0⟩, ⟨2,1,1⟩, ⟨3,1,2⟩], .append [⟨2,2,3⟩]]).log.map
        (·.index)).Nodup := by decide

theorem C31_counterexample_snapshot_drops_tail :
    (⟨3,1,2⟩ : Entry) ∉
      (runLegacy [.append [⟨1,1,0⟩, ⟨2,1,1⟩, ⟨3,1,2⟩], .snapshot 1 1]).log := by decide

/-! ### Non-vacuity: the same histories under the repaired step -/

example : (run [.append [⟨1,1,0⟩, ⟨2,1,1⟩, ⟨3,1,2⟩], .append [⟨2,2,3⟩]]).log
    = [⟨1,1,0⟩, ⟨2,2,3⟩] := by decide

example : (run [.append [⟨1,1,0⟩, ⟨2,1,1⟩, ⟨3,1,2⟩], .snapshot 1 1]).log
    = [⟨2,1,1⟩, ⟨3,1,2⟩] := by decide

example : last (run [.append [⟨1,1,0⟩], .snapshot 4 2]) = (4, 2) := by decide

end SgModel.RaftLog
