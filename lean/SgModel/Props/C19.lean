import SgModel.Lemmas.AckDurable
/-!
# C19 — writes acknowledged by the server survive a restart

The full statement

    theorem C19_ack_durable (rs : List Req) (id : Nat) :
        recNode (run rs) id = (run rs).mem.nodes.get id ∧ recEdge (run rs) id = (run rs).mem.edges.get id

("after any history of acknowledged requests the graph served after a restart is the
pre-restart graph") is **false of the code**: `C19_counterexample_…` below refute it on the
model, one per cause; the harness reproduces every one of them on the real server code
(known findings).  What is proved instead:

* `C19_partial`: over RESP, histories in which every statement only creates or changes
  entities and returns every one of them (in particular every `CREATE` that returns every
  entity it creates) are durable: the recovered graph is the in-memory graph, entity by entity.
* `C19_blame_complete_…`: for **every** history, an entity whose recovered state differs from
  memory carries a blame, i.e. one of the listed causes.  This is what makes the check's
  classifier exhaustive on the model: a loss of the real server that the model does not
  predict has no cause in the list and is reported as a violation.
* `C19_returned_stored_final`, `C19_last_write_wins`: the durable image of a returned whole
  entity is the state it has when the statement ends, however many rows return it (the handler
  stores every occurrence in row order, the last write wins); storing the first occurrence only
  is refuted (`C19_counterexample_first_occurrence`).
* `C19_model_refines_spec`: on the histories of `C19_partial` the model satisfies the
  executable specification which the harness evaluates on the real server's observations.

Missing for the full statement: the server would have to derive a persistence change-set
(created / changed / deleted entities) from every write statement on both front ends.
-/
namespace SgModel.AckDurable

/-- every node that differs after the restart has a cause, for every history -/
theorem C19_blame_complete_nodes (rs : List Req) (id : Nat)
    (h : recNode (run rs) id ≠ (run rs).mem.nodes.get id) : finalBlameN (run rs) id ≠ none := by
  intro hb
  exact h ((inv_run rs).1 id hb)

/-- every relationship that differs after the restart has a cause, for every history -/
theorem C19_blame_complete_edges (rs : List Req) (id : Nat)
    (h : recEdge (run rs) id ≠ (run rs).mem.edges.get id) : finalBlameE (run rs) id ≠ none := by
  intro hb
  apply h
  unfold finalBlameE at hb
  cases hbe : (run rs).blameE.get id with
  | some c => simp [hbe] at hb
  | none =>
    have hd := (inv_run rs).2 id hbe
    simp only [hbe] at hb
    unfold recEdge
    cases hde : (run rs).disk.edges.get id with
    | none => rw [← hd, hde]
    | some e =>
      simp only [hde] at hb
      by_cases hc : ((run rs).disk.nodes.get e.src).isSome && ((run rs).disk.nodes.get e.tgt).isSome
      · simp only [hc, if_true]; rw [← hd, hde]
      · simp [hc] at hb

/-- **Durability of histories that return what they write.**  Over RESP, if every statement
only creates or changes entities and returns every one of them, then after a restart every
node and every relationship is exactly as it was in memory.  (`hwf`: relationships in memory
have their endpoints in memory — what `GraphStore::create_edge` enforces.) -/
theorem C19_partial (rs : List Req) (hr : ∀ r ∈ rs, r.returnsAll = true)
    (hwf : (run rs).mem.wf) (id : Nat) :
    recNode (run rs) id = (run rs).mem.nodes.get id
      ∧ recEdge (run rs) id = (run rs).mem.edges.get id := by
  have hnb : NoBlame (run rs) := noBlame_foldl rs hr {} ⟨fun _ => rfl, fun _ => rfl⟩
  have hinv := inv_run rs
  constructor
  · exact hinv.1 id (hnb.1 id)
  · have hd := hinv.2 id (hnb.2 id)
    unfold recEdge
    cases hde : (run rs).disk.edges.get id with
    | none => rw [← hd, hde]
    | some e =>
      have hm : (run rs).mem.edges.get id = some e := by rw [← hd, hde]
      obtain ⟨h1, h2⟩ := hwf id e hm
      rw [← hinv.1 e.src (hnb.1 e.src)] at h1
      rw [← hinv.1 e.tgt (hnb.1 e.tgt)] at h2
      simp [h1, h2, hm]

/-- **The durable image of a returned entity is its final state.**  After a RESP statement,
every whole entity the reply returns (in one row or many, once or several times) and that is in
memory is stored exactly as memory holds it when the statement ends. -/
theorem C19_returned_stored_final (st : State) (s : Stmt) (hf : s.front = .resp) (id : Nat) :
    (id ∈ s.retN → ((stepQuery st s).mem.nodes.get id).isSome = true →
        (stepQuery st s).disk.nodes.get id = (stepQuery st s).mem.nodes.get id)
    ∧ (id ∈ s.retE → ((stepQuery st s).mem.edges.get id).isSome = true →
        (stepQuery st s).disk.edges.get id = (stepQuery st s).mem.edges.get id) := by
  constructor
  · intro h1 h2
    simp only [stepQuery, hf, persistReturned] at h2 ⊢
    rw [persistEdge_nodes, persistNode_nodes]
    simp [h1, h2]
  · intro h1 h2
    simp only [stepQuery, hf, persistReturned] at h2 ⊢
    rw [persistEdge_edges, persistNode_edges]
    simp [h1, h2]

/-- Row by row the handler stores every occurrence in order and **the last write wins**: if the
last row that returns the entity carries snapshot `d`, `d` is what is stored; so when that row is
also the last one that changes it, the stored image is the final state. -/
theorem C19_last_write_wins (occ post : List (Nat × Nat)) (t : Tab Nat) (id d : Nat)
    (hpost : ∀ p ∈ post, p.1 ≠ id) :
    (persistOcc t (occ ++ (id, d) :: post)).get id = some d :=
  persistOcc_last occ post t id d hpost

/-- "Persisted once per statement, first occurrence wins" is wrong: the hub returned by three
rows with `visits` = 1, 2, 3 (snapshots 11, 12, 13) next to three leaves. -/
theorem C19_counterexample_first_occurrence :
    (persistOcc [] [(1, 11), (5, 50), (1, 12), (6, 60), (1, 13), (7, 70)]).get 1 = some 13
      ∧ (persistOccFirst [] [(1, 11), (5, 50), (1, 12), (6, 60), (1, 13), (7, 70)]).get 1 = some 11 := by
  decide

theorem specDurableAt_map {α : Type} [DecidableEq α] (ids : List Nat) (f g : Nat → Option α)
    (h : ∀ id, f id = g id) (k : Nat) :
    specDurableAt (ids.map (fun id => (g id, f id))) k = none := by
  induction ids generalizing k with
  | nil => rfl
  | cons a r ih => simp [specDurableAt, h a, ih]

/-- On the histories of `C19_partial` the model satisfies the executable specification, for
every set of probed ids. -/
theorem C19_model_refines_spec (rs : List Req) (hr : ∀ r ∈ rs, r.returnsAll = true)
    (hwf : (run rs).mem.wf) (ids : List Nat) :
    specDurable (probeN (run rs) ids) = true ∧ specDurable (probeE (run rs) ids) = true := by
  constructor
  · simp only [specDurable, probeN]
    rw [specDurableAt_map ids (recNode (run rs)) (fun id => (run rs).mem.nodes.get id)
      (fun id => (C19_partial rs hr hwf id).1)]
    rfl
  · simp only [specDurable, probeE]
    rw [specDurableAt_map ids (recEdge (run rs)) (fun id => (run rs).mem.edges.get id)
      (fun id => (C19_partial rs hr hwf id).2)]
    rfl

/-! ### The full statement is false: one counter-example per cause

Entity contents are codes: node 1 is created with content `10`; `11` is the content after a
change.  Each theorem states what memory holds, what the restart serves, and the blame. -/

def q (f : Front) (k : Kind) (muts : List Mut) (retN retE : List Nat) : Req :=
  .query { front := f, kind := k, muts := muts, retN := retN, retE := retE }

/-- `CREATE (n:L)` (no RETURN) over RESP: nothing is stored -/
theorem C19_counterexample_create_no_return :
    let st := run [q .resp .create [.putNode 1 10] [] []]
    st.mem.nodes.get 1 = some 10 ∧ recNode st 1 = none
      ∧ finalBlameN st 1 = some (.notReturned .resp .create) := by decide

/-- `CREATE (n:L) RETURN n` then `MATCH (n) SET n.x = 1` over RESP: the old state is served -/
theorem C19_counterexample_set :
    let st := run [q .resp .create [.putNode 1 10] [1] [], q .resp .set [.putNode 1 11] [] []]
    st.mem.nodes.get 1 = some 11 ∧ recNode st 1 = some 10
      ∧ finalBlameN st 1 = some (.notReturned .resp .set) := by decide

theorem C19_counterexample_remove :
    let st := run [q .resp .create [.putNode 1 11] [1] [], q .resp .remove [.putNode 1 10] [] []]
    st.mem.nodes.get 1 = some 10 ∧ recNode st 1 = some 11
      ∧ finalBlameN st 1 = some (.notReturned .resp .remove) := by decide

theorem C19_counterexample_label :
    let st := run [q .resp .create [.putNode 1 10] [1] [], q .resp .label [.putNode 1 12] [] []]
    st.mem.nodes.get 1 = some 12 ∧ recNode st 1 = some 10
      ∧ finalBlameN st 1 = some (.notReturned .resp .label) := by decide

/-- `MATCH (n) DETACH DELETE n` over RESP: the node and its relationship come back -/
theorem C19_counterexample_delete :
    let st := run [q .resp .create [.putNode 1 10, .putNode 2 20, .putEdge 0 ⟨1, 2, 30⟩] [1, 2] [0],
                   q .resp .delete [.delEdge 0, .delNode 1] [] []]
    st.mem.nodes.get 1 = none ∧ recNode st 1 = some 10
      ∧ st.mem.edges.get 0 = none ∧ recEdge st 0 = some ⟨1, 2, 30⟩
      ∧ finalBlameN st 1 = some (.deleted .resp) ∧ finalBlameE st 0 = some (.deleted .resp) := by
  decide

/-- `MERGE (n:L {k: 1})` (creating, no RETURN) over RESP -/
theorem C19_counterexample_merge :
    let st := run [q .resp .merge [.putNode 1 10] [] []]
    st.mem.nodes.get 1 = some 10 ∧ recNode st 1 = none
      ∧ finalBlameN st 1 = some (.notReturned .resp .merge) := by decide

/-- `GRAPH.DELETE`: memory is cleared, the data directory is not -/
theorem C19_counterexample_graph_delete :
    let st := run [q .resp .create [.putNode 1 10] [1] [], .graphDelete]
    st.mem.nodes.get 1 = none ∧ recNode st 1 = some 10
      ∧ finalBlameN st 1 = some .graphDelete := by decide

/-- any write over HTTP, even one that returns what it creates -/
theorem C19_counterexample_http :
    let st := run [q .http .create [.putNode 1 10] [1] []]
    st.mem.nodes.get 1 = some 10 ∧ recNode st 1 = none
      ∧ finalBlameN st 1 = some (.notReturned .http .create) := by decide

/-- `CREATE (a)-[r:T]->(b) RETURN r`: the relationship is stored, its endpoints are not, and
recovery refuses it -/
theorem C19_counterexample_endpoint :
    let st := run [q .resp .create [.putNode 1 10, .putNode 2 20, .putEdge 0 ⟨1, 2, 30⟩] [] [0]]
    st.mem.edges.get 0 = some ⟨1, 2, 30⟩ ∧ st.disk.edges.get 0 = some ⟨1, 2, 30⟩ ∧ recEdge st 0 = none
      ∧ finalBlameE st 0 = some .endpointNotDurable := by decide

/-- the executable specification rejects such observations -/
theorem C19_spec_rejects_loss :
    specDurable (probeN (run [q .resp .create [.putNode 1 10] [] []]) [1]) = false := by decide

/-! ### recycled ids: a later acknowledged write replaces the whole stored record -/

/-- the seeded history: `(1)-[KNOWS]->(2)` created and returned (edge 1), node 3 created, the
relationship deleted (not durable), then `(2)-[LIKES {w:7}]->(3)` created and returned — it gets
the recycled id 1 -/
def ex_recycle : List Req :=
  [q .resp .create [.putNode 1 10, .putNode 2 20, .putEdge 1 ⟨1, 2, 30⟩] [1, 2] [1],
   q .resp .create [.putNode 3 40] [3] [],
   q .resp .delete [.delEdge 1] [] [],
   q .resp .create [.putEdge 1 ⟨2, 3, 31⟩] [] [1]]

/-- On the model (and on the code) the record under the recycled id is the new relationship in
every component, endpoints included; nothing of the old holder survives, and there is no blame.
(An instance of `C19_returned_stored_final`: the stored record is the whole entity.) -/
theorem C19_recycled_id_overwritten :
    recEdge (run ex_recycle) 1 = some ⟨2, 3, 31⟩ ∧ (run ex_recycle).mem.edges.get 1 = some ⟨2, 3, 31⟩
      ∧ finalBlameE (run ex_recycle) 1 = none := by decide

/-- "An id already stored is a property update" keeps the old endpoints: `1 -> 2` with the new
content instead of `2 -> 3`. -/
theorem C19_counterexample_keep_endpoints :
    let st := run ex_recycle
    let old : G := { nodes := [(1, 10), (2, 20), (3, 40)], edges := [(1, ⟨1, 2, 30⟩)] }
    (persistEdgeKeepEndpoints st.mem old 1).edges.get 1 = some ⟨1, 2, 31⟩
      ∧ (persistEdge st.mem old 1).edges.get 1 = some ⟨2, 3, 31⟩ := by decide

/-! ### Non-vacuity of `C19_partial` -/

def ex_hist : List Req :=
  [q .resp .create [.putNode 1 10, .putNode 2 20, .putEdge 0 ⟨1, 2, 30⟩] [1, 2] [0],
   q .resp .set [.putNode 2 21] [2] [],
   q .resp .create [.putNode 3 40, .putEdge 1 ⟨2, 3, 31⟩] [3, 2] [1]]

example : ∀ r ∈ ex_hist, r.returnsAll = true := by decide
example : recNode (run ex_hist) 2 = some 21 ∧ recEdge (run ex_hist) 1 = some ⟨2, 3, 31⟩
    ∧ (run ex_hist).mem.nodes.get 2 = some 21 := by decide
example : specDurable (probeN (run ex_hist) [1, 2, 3, 4]) = true
    ∧ specDurable (probeE (run ex_hist) [0, 1, 2]) = true := by decide

end SgModel.AckDurable
