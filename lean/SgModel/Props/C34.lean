import SgModel.Lemmas.Moo
/-!
# C34 — optimisation solvers return consistent, in-bounds, reproducible results

What these theorems are, and are not.  Lean does not model the 29 stochastic floating-point
solvers.  The theorems are about the decision pieces the solvers share (`Model/Moo.lean`),
stated over the linear order `Int` for **every** candidate stream / move generator /
population / insertion sequence:

* clamping lands in the box whenever the box is non-empty (degenerate `lo = hi` included);
* a best-so-far tracker reports `best_fitness = f(best)`, a history that never gets worse, and
  a best point that is the start point or one of the candidates — so it is in bounds when
  they are — whatever the move generator does;
* every front of the non-dominated sort, and the archive after any sequence of insertions,
  is mutually non-dominated (and the archive respects its capacity);
* the child seed is the stated function of (seed, iteration, index), injective in each of
  the last two arguments.

Full statement of the property (NOT proved — it is about each solver's loop, RNG streams and
IEEE arithmetic):  for every solver `S`, problem `p`, configuration `c`, seed `s` and thread
count `k`:  `specSO (S.solve p c s k)` / `specMO (…)` holds and the result does not depend on `k`.
The harness evaluates exactly these executable predicates on every public solver's result
(monitor with a formally stated oracle; MANIFEST level `other`).
-/
namespace SgModel.Moo

/-! ### clamp -/

/-- `f64::clamp` lands in `[lo, hi]` whenever `lo ≤ hi` — including the degenerate `lo = hi`. -/
theorem C34_clamp_in_bounds (lo hi x : Int) (h : lo ≤ hi) :
    lo ≤ clamp lo hi x ∧ clamp lo hi x ≤ hi := clamp_bounds lo hi x h

/-- a point already in the box is left alone -/
theorem C34_clamp_id_in_bounds (lo hi x : Int) (h1 : lo ≤ x) (h2 : x ≤ hi) : clamp lo hi x = x :=
  clamp_id lo hi x h1 h2

/-- component-wise: a clamped vector is in the box -/
theorem C34_clampVec_in_bounds (lo hi x : List Int) (hb : boxOK lo hi = true)
    (hl : x.length = lo.length) : inBounds lo hi (clampVec lo hi x) = true :=
  clampVec_inBounds lo hi x hb hl

/-- inverted bounds: the std assertion fires (the solvers panic; outside the property, which
quantifies over boxes) -/
theorem C34_clamp_inverted_panics (x : Int) : clampChecked 1 0 x = none := by
  simp [clampChecked]

/-! ### best-so-far tracking, for ANY move generator -/

/-- the reported best fitness is the fitness of the reported best point -/
theorem C34_best_fitness_is_f_best {X : Type} (f : X → Int) (gen : Tracker X → Nat → List X)
    (n : Nat) (x0 : X) :
    (runGen f gen n (Tracker.init f x0)).bestFit = f (runGen f gen n (Tracker.init f x0)).best :=
  (tinv_runGen f gen n _ (tinv_init f x0)).fit

/-- the history never gets worse -/
theorem C34_history_antitone {X : Type} (f : X → Int) (gen : Tracker X → Nat → List X)
    (n : Nat) (x0 : X) :
    antitone (runGen f gen n (Tracker.init f x0)).hist = true :=
  (tinv_runGen f gen n _ (tinv_init f x0)).anti

/-- … and the final best fitness is at least as good as the last recorded one -/
theorem C34_best_le_last_history {X : Type} (f : X → Int) (gen : Tracker X → Nat → List X)
    (n : Nat) (x0 : X) (y : Int)
    (h : (runGen f gen n (Tracker.init f x0)).hist.getLast? = some y) :
    (runGen f gen n (Tracker.init f x0)).bestFit ≤ y :=
  (tinv_runGen f gen n _ (tinv_init f x0)).last y h

/-- the best point is in the box as soon as the start point and every generated candidate are
— in particular when the generator clamps its candidates -/
theorem C34_best_in_bounds (f : List Int → Int) (lo hi : List Int)
    (gen : Tracker (List Int) → Nat → List (List Int))
    (hgen : ∀ t n, ∀ c ∈ gen t n, inBounds lo hi c = true)
    (n : Nat) (x0 : List Int) (h0 : inBounds lo hi x0 = true) :
    inBounds lo hi (runGen f gen n (Tracker.init f x0)).best = true :=
  best_runGen f (fun x => inBounds lo hi x = true) gen hgen n _ h0

/-- one history entry per iteration -/
theorem C34_history_length {X : Type} (f : X → Int) (gen : Tracker X → Nat → List X)
    (n : Nat) (x0 : X) : (runGen f gen n (Tracker.init f x0)).hist.length = n := by
  have hfold : ∀ (cs : List X) (t : Tracker X),
      (cs.foldl (consider f) t).hist = t.hist := by
    intro cs
    induction cs with
    | nil => intro t; rfl
    | cons c cs ih =>
      intro t
      rw [List.foldl_cons, ih]
      unfold consider
      split <;> rfl
  induction n with
  | zero => rfl
  | succ n ih =>
    simp only [runGen, iter, hfold, List.length_append, ih, List.length_singleton]

/-! ### fronts and archive -/

/-- no member of a front of the non-dominated sort dominates another member of that front -/
theorem C34_front_mutually_nondominated (pop : List Ind) :
    ∀ F ∈ ndSort pop, ∀ a ∈ F, ∀ b ∈ F, dom a b = false := by
  intro F hF a ha b hb
  have := ndSortFuel_fronts _ _ F hF
  simp only [mutuallyNonDominated, List.all_eq_true, Bool.not_eq_eq_eq_not, Bool.not_true] at this
  exact this a ha b hb

/-- the archive respects its capacity and stays mutually non-dominated after every sequence of
insertions, whichever `capacity` survivors the crowding-distance truncation picks -/
theorem C34_archive_inv (cap : Nat) (pick : List Ind → List Ind) (hp : PickOK cap pick)
    (cands : List Ind) :
    (cands.foldl (archiveInsert cap pick) []).length ≤ cap
    ∧ mutuallyNonDominated (cands.foldl (archiveInsert cap pick) []) = true := by
  have : ∀ (cs : List Ind) (m : List Ind),
      m.length ≤ cap ∧ mutuallyNonDominated m = true →
      (cs.foldl (archiveInsert cap pick) m).length ≤ cap
      ∧ mutuallyNonDominated (cs.foldl (archiveInsert cap pick) m) = true := by
    intro cs
    induction cs with
    | nil => intro m h; exact h
    | cons c cs ih => intro m _; exact ih _ (archiveInsert_inv cap pick hp m c)
  exact this cands [] ⟨Nat.zero_le _, rfl⟩

/-! ### child seed -/

/-- the seed is this function of (seed, iteration, index) and of nothing else -/
theorem C34_child_seed_function (s i j : Nat) :
    childSeed s i j
      = ((s % 2 ^ 64) ^^^ ((i % 2 ^ 64 * 0x9E3779B97F4A7C15) % 2 ^ 64))
          ^^^ ((j % 2 ^ 64 * 0xBF58476D1CE4E5B9) % 2 ^ 64) := rfl

/-- element 0 of iteration 0 gets the solver's own seed (stream reuse, not a reproducibility
problem; recorded because it is visible in the code) -/
theorem C34_child_seed_zero (s : Nat) (h : s < 2 ^ 64) : childSeed s 0 0 = s := by
  simp [childSeed, two64, Nat.mod_eq_of_lt h]

/-- two elements of one iteration never share a stream -/
theorem C34_child_seed_injective_in_index (s it j1 j2 : Nat) (h1 : j1 < 2 ^ 64) (h2 : j2 < 2 ^ 64)
    (h : childSeed s it j1 = childSeed s it j2) : j1 = j2 := by
  unfold childSeed at h
  have h' := xor_cancel_left _ _ _ h
  rw [Nat.mod_eq_of_lt (show j1 < two64 from h1), Nat.mod_eq_of_lt (show j2 < two64 from h2)] at h'
  exact mul_odd_inj indexOdd 0x96de1b173f119089 (by decide) j1 j2 h1 h2 h'

/-- the same element in two iterations never shares a stream -/
theorem C34_child_seed_injective_in_iteration (s j i1 i2 : Nat) (h1 : i1 < 2 ^ 64)
    (h2 : i2 < 2 ^ 64) (h : childSeed s i1 j = childSeed s i2 j) : i1 = i2 := by
  unfold childSeed at h
  rw [Nat.xor_comm _ (j % two64 * indexOdd % two64), Nat.xor_comm _ (j % two64 * indexOdd % two64)] at h
  have h' := xor_cancel_left _ _ _ (xor_cancel_left _ _ _ h)
  rw [Nat.mod_eq_of_lt (show i1 < two64 from h1), Nat.mod_eq_of_lt (show i2 < two64 from h2)] at h'
  exact mul_odd_inj iterOdd 0xf1de83e19937733d (by decide) i1 i2 h1 h2 h'

/-! ### the model satisfies the executable specification -/

/-- A tracker-based solver whose start point and candidates are in the box returns a result
that satisfies `specSO` — the predicate the harness evaluates on the real solvers' results. -/
theorem C34_model_refines_spec (f : List Int → Int) (lo hi : List Int)
    (gen : Tracker (List Int) → Nat → List (List Int))
    (hgen : ∀ t n, ∀ c ∈ gen t n, inBounds lo hi c = true)
    (n : Nat) (x0 : List Int) (h0 : inBounds lo hi x0 = true) :
    let r := runGen f gen n (Tracker.init f x0)
    specSO lo hi r.best r.bestFit (f r.best) r.hist = .ok := by
  intro r
  have hb : inBounds lo hi r.best = true := C34_best_in_bounds f lo hi gen hgen n x0 h0
  have hf : r.bestFit = f r.best := C34_best_fitness_is_f_best f gen n x0
  have ha : antitone r.hist = true := C34_history_antitone f gen n x0
  simp [specSO, hb, hf, ha]

/-- the first front of the sort, taken as a result front, satisfies `specMO` -/
theorem C34_model_refines_spec_mo (lo hi : List Int) (pop : List FrontInd)
    (hb : ∀ m ∈ pop, inBounds lo hi m.vars = true) :
    specMO lo hi (pop.filter (fun m => (ndFilter (pop.map (·.ind))).contains m.ind)) = .ok := by
  have h1 : (pop.filter (fun m => (ndFilter (pop.map (·.ind))).contains m.ind)).all
      (fun m => inBounds lo hi m.vars) = true := by
    simp only [List.all_eq_true, List.mem_filter]
    intro m hm
    exact hb m hm.1
  have h2 : mutuallyNonDominated
      ((pop.filter (fun m => (ndFilter (pop.map (·.ind))).contains m.ind)).map (·.ind)) = true := by
    apply mutuallyNonDominated_sub (ndFilter_nondominated (pop.map (·.ind)))
    intro a ha
    simp only [List.mem_map, List.mem_filter, List.contains_iff_mem] at ha
    obtain ⟨m, ⟨_, hm⟩, rfl⟩ := ha
    exact hm
  unfold specMO
  rw [h1, h2]
  rfl

/-! ### the pinned tree violated the property (witness replayed by the corpus) -/

/-- The defect of the pinned tree was outside these shared pieces: every solver drew its
initial population with `gen_range(lower[i]..upper[i])`, which panics on a degenerate interval
(`lower = upper`) although clamping and tracking handle that box.  On the model side the
degenerate box is an ordinary box: -/
theorem C34_counterexample_degenerate_box_is_a_box :
    boxOK [-14, 10] [41, 10] = true ∧ clampVec [-14, 10] [41, 10] [99, -3] = [41, 10]
    ∧ inBounds [-14, 10] [41, 10] (clampVec [-14, 10] [41, 10] [99, -3]) = true := by
  decide

/-! ### non-vacuity -/

example : (runGen (fun (x : Int) => x * x) (fun t n => [t.best - 1, (n : Int)]) 3
    (Tracker.init (fun (x : Int) => x * x) 5)).hist = [25, 0, 0] := by decide

example : ndSort [⟨[1, 2], 0⟩, ⟨[2, 1], 0⟩, ⟨[2, 2], 0⟩, ⟨[0, 0], 3⟩]
    = [[⟨[1, 2], 0⟩, ⟨[2, 1], 0⟩], [⟨[2, 2], 0⟩], [⟨[0, 0], 3⟩]] := by decide

example : PickOK 2 (fun l => l.take 2) :=
  ⟨fun l a ha => List.mem_of_mem_take ha, fun l h => by simp [List.length_take]; omega⟩

end SgModel.Moo
