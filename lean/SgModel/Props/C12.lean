import SgModel.Lemmas.SnapIso
import SgModel.Lemmas.SnapSpec
/-!
# C12 — snapshot export then import reproduces the graph

Property theorems only (helpers: `Lemmas/SnapJson.lean`, `SnapGraph.lean`, `SnapLidx.lean`,
`SnapIso.lean`, `SnapSpec.lean`).  Every theorem quantifies over all values / all line
records / all well-formed stores — nothing is bounded.  The `…counterexample…` theorems
refute the same statements for the model of the pinned tree (`lg := true` switches); their
witnesses are replayed on the implementation by `corpus/C12`.

The text layers (gzip, serde_json reader/writer, float ↔ decimal text, f32 ↔ f64) are
trusted and not modelled: the model starts at `serde_json::Value`.
-/
namespace SgModel.SnapJson

/-- **Value codec round trip**: `json_to_property (property_to_json v) = v` for every
snapshotable value.  `snapOk` excludes only what the format cannot represent: a user map
whose `__type` is one of the tag strings, a NaN with a payload, an `i32`-overflowing nanos. -/
theorem C12_value_codec_roundtrip (v : PV) (h : snapOk v = true) : dec false (enc false v) = v :=
  dec_enc v h

/-- the same for whole property maps (what a node / relationship record carries) -/
theorem C12_props_codec_roundtrip (kvs : List (Str × PV)) (h : snapOkKV kvs = true) :
    decKV false (encKV false kvs) = kvs :=
  decKV_encKV kvs h

/-- **Line routing and record decode**: whatever a record's property map contains, the line
the exporter writes for it is read back as the same kind of record with the same fields —
the discriminator is the top-level `t` and cannot be confused by property text. -/
theorem C12_line_routing (l : Line) : parseLine (lineToJ l) = l := by
  cases l with
  | node id ls ps => exact parseLine_node id ls ps
  | edge id s t ty ps => exact parseLine_edge id s t ty ps
  | hier h => exact parseLine_hier h
  | skip => rfl
  | bad => rfl

theorem C12_line_kind (l : Line) : (parseLine (lineToJ l)).kind = l.kind := by
  rw [C12_line_routing]

/-- **Export → import isomorphism**: for every well-formed store `g` (distinct node ids,
relationships between existing nodes, snapshotable values, normalised hierarchy declarations
with distinct names — the row and the column copy of a property may differ: the column wins,
as in every read path), importing
what the exporter writes into the empty store succeeds, reports the right counts, and yields
the same logical graph: same nodes in the same order with the same label lists and merged
property maps, same relationships (endpoints by node rank, type, properties, multiplicity,
order), same hierarchy declarations. -/
theorem C12_export_import_iso (g : St) (hdrLabels : List Str) (h : GraphWF g) :
    ∃ st', importLines false true [] hdrLabels {} (exportLines false g)
        = (st', some { nodes := g.nodes.length, edges := g.edges.length, merged := 0,
                       hier := g.hier.length })
      ∧ logical st' = logical g := by
  obtain ⟨st', h1, h2, _⟩ := import_export_iso g hdrLabels h
  exact ⟨st', h1, h2⟩

/-- … and through the JSON layer (`lineToJ` then `parseLine` per line). -/
theorem C12_export_import_iso_json (g : St) (hdrLabels : List Str) (h : GraphWF g) :
    ∃ st' stats, importJ false true [] hdrLabels {} (exportJ false g) = (st', some stats)
      ∧ logical st' = logical g := by
  obtain ⟨st', h1, h2, _⟩ := import_export_iso g hdrLabels h
  refine ⟨st', { nodes := g.nodes.length, edges := g.edges.length, merged := 0,
                 hier := g.hier.length }, ?_, h2⟩
  unfold importJ exportJ
  rw [List.map_map]
  have : (parseLine ∘ lineToJ) = id := by funext l; exact C12_line_routing l
  rw [this, List.map_id]
  exact h1

/-- **Label index**: after the import every label of every node is in the label index and
the index lists nothing else (all labels, not only the first). -/
theorem C12_label_index_complete (g : St) (hdrLabels : List Str) (h : GraphWF g) :
    lidxOk (importLines false true [] hdrLabels {} (exportLines false g)).1 = true := by
  obtain ⟨st', h1, _, h3⟩ := import_export_iso g hdrLabels h
  rw [h1]; exact h3

/-- The model satisfies the executable specification the harness evaluates on the dumps of
the real source and destination stores. -/
theorem C12_model_refines_spec (g : St) (hdrLabels : List Str) (h : GraphWF g) :
    specRoundTrip g (importLines false true [] hdrLabels {} (exportLines false g)).1 = true := by
  obtain ⟨st', h1, h2, h3⟩ := import_export_iso g hdrLabels h
  rw [h1]
  simp only [specRoundTrip, h2, lgEqv_refl, h3, Bool.and_self]

/-- the specification's value comparison is equality -/
theorem C12_spec_value_eq (a b : PV) : PV.beq a b = true ↔ a = b :=
  ⟨PV.eq_of_beq a b, fun h => h ▸ PV.beq_refl a⟩

/-! ### The pinned tree violated the property (witnesses replayed by `corpus/C12`) -/

/-- `" a "` came back as `"a"` -/
theorem C12_counterexample_trim :
    dec true (enc true (.str [32, 97, 32])) = .str [97] := by rfl

/-- NaN came back as `Null` -/
theorem C12_counterexample_nonfinite : dec true (enc true (.flt nanBits)) = .null := by
  rfl

/-- `[1.0, NaN, 2.5]` came back as `[1.0, 2.5]` -/
theorem C12_counterexample_vector :
    dec true (enc true (.vec [0x3ff0000000000000, nanBits, 0x4004000000000000]))
      = .vec [0x3ff0000000000000, 0x4004000000000000] := by rfl

def unlabelledG : St := { nodes := [{ id := 0, labels := [], row := [], col := [] }], nextNode := 1 }

/-- an unlabelled node came back labelled `""` -/
theorem C12_counterexample_unlabelled :
    ((importJ true false [] [] {} (exportJ true unlabelledG)).1.nodes.map (·.labels)) = [[[]]] := by
  decide +kernel

def twoLabelG : St :=
  { nodes := [{ id := 0, labels := [[88], [89]], row := [], col := [] }],
    lidx := [([88], [0]), ([89], [0])], nextNode := 1 }

/-- the second label never reached the label index -/
theorem C12_counterexample_label_index :
    lidxOk (importJ true false [] [] {} (exportJ true twoLabelG)).1 = false := by decide +kernel

def twoVersionG : St :=
  { nodes := [{ id := 0, labels := [[65]], row := [([107], .int 2)], col := [([107], .int 2)],
                hist := [[([107], .int 1)]] }],
    lidx := [([65], [0])], nextNode := 1 }

/-- a node with two MVCC versions came back as two nodes -/
theorem C12_counterexample_versions :
    (importJ true false [] [] {} (exportJ true twoVersionG)).1.nodes.length = 2 := by
  decide +kernel

/-- the line of a relationship carrying `{t: "n"}` contains the text `"t":"n"` and was routed
as a node record (whose typed read then fails: the import of a valid export errors) -/
theorem C12_counterexample_routing :
    classifyLegacy (render (lineToJ (.edge 0 0 1 [82] [([116], .str [110])]))) = .node
    ∧ (Line.edge 0 0 1 [82] [([116], .str [110])]).kind = .edge := by decide +kernel

def reversedH : HierS :=
  { name := [104], types := [[82]], reverse := true, mlabel := some [65], mprop := some [107],
    ops := [sMin] }

/-- a reversed, label-restricted hierarchy was exported as a forward, unrestricted one -/
theorem C12_counterexample_hierarchy :
    hierLineLegacy reversedH = .hier { reversedH with reverse := false, mlabel := none }
    ∧ hierLineLegacy reversedH ≠ hierLine reversedH := by
  constructor
  · rfl
  · simp [hierLineLegacy, hierLine, reversedH]

def clashNode : NodeS := { id := 0, labels := [[65]], row := [([107], .int 1)], col := [([107], .int 2)] }

/-- pinned tree: where the row and the column copy of a property differ, reads resolve the
column (`mergedView` gives 2) but the exporter wrote the row copy (1) -/
theorem C12_counterexample_row_wins :
    exportProps true clashNode.row clashNode.col = [([107], .int 1)]
    ∧ mergedView clashNode = [([107], .int 2)]
    ∧ exportProps false clashNode.row clashNode.col = mergedView clashNode := by
  refine ⟨by rfl, by rfl, by rfl⟩

def tagMap : PV := .map [(kType, .str tDateTime), (kValue, .int 5)]

/-- **known finding** (not repaired: the format has no escape for `__type`): a user map
`{__type: "DateTime", value: 5}` is read back as `DateTime(5)`; it is exactly what `snapOk`
excludes. -/
theorem C12_counterexample_tag_map :
    dec false (enc false tagMap) = .dt 5 ∧ snapOk tagMap = false := ⟨by rfl, by decide +kernel⟩

/-! ### Non-vacuity: a store exercising every clause of `GraphWF` -/

def sampleG : St :=
  { nodes := [ { id := 3, labels := [[65], [66]], row := [([107], .str [32, 97, 32])],
                 col := [([107], .str [32, 97, 32]), ([110], .flt nanBits)] },
               { id := 7, labels := [], row := [([109], .arr [.null, .dt 5])], col := [] } ],
    edges := [ { id := 0, src := 7, tgt := 3, ty := [82], props := [([116], .str [110])] },
               { id := 1, src := 3, tgt := 3, ty := [82], props := [] } ],
    lidx := [([65], [3]), ([66], [3])],
    hier := [ { name := [104], types := [[82]], reverse := true, mlabel := some [65],
                mprop := some [107], ops := [sMin] } ],
    nextNode := 8, nextEdge := 2 }

example : specRoundTrip sampleG (importJ false true [] [] {} (exportJ false sampleG)).1 = true := by
  decide +kernel

example : (importJ false true [] [] {} (exportJ false sampleG)).2
    = some { nodes := 2, edges := 2, merged := 0, hier := 1 } := by decide +kernel

example : snapOk (.map [(kType, .int 1), ([97], .vec [nanBits, infBits])]) = true := by decide +kernel

end SgModel.SnapJson
