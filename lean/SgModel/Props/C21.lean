import SgModel.Lemmas.RespSafe
/-!
# C21 — the RESP decoder is safe on arbitrary bytes

Property theorems only.  The model is `SgModel.Resp.decode` (`RespValue::decode` after the
`fix:` commits: negative bulk lengths rejected, arrays not pre-allocated from the wire
length, nesting limited to `MAX_DEPTH`).  Every theorem is about **every** byte string.
`meter` counts the bytes the Rust asks the allocator for (each `to_vec`, the token vectors,
all (re)allocations of the element vector), `depth` the recursion depth.  What the model
cannot exhibit — the real stack running out — is observed by the harness in a child
process.  `decodeLegacy` is the pinned decoder.
-/
namespace SgModel.Resp

/-- Totality with a meaning: on any bytes the decoder returns a value, asks for more data,
or reports a protocol error; it never panics. -/
theorem C21_decode_never_panics (b : Bytes) : (decode b).out ≠ .panic := decode_not_panic b

theorem C21_outcome_trichotomy (b : Bytes) :
    (∃ v, (decode b).out = .val v) ∨ (decode b).out = .more ∨ (decode b).out = .err := by
  have h := C21_decode_never_panics b
  cases ho : (decode b).out with
  | val v => exact Or.inl ⟨v, rfl⟩
  | more => exact Or.inr (Or.inl rfl)
  | err => exact Or.inr (Or.inr rfl)
  | panic => exact absurd ho h

/-- The decoder allocates at most a constant multiple of the bytes it was given — in
particular nothing that depends on a length field of the input. -/
theorem C21_alloc_bound (b : Bytes) : (decode b).meter ≤ 96 * b.length := by
  have h := (decodeD_safe MAX_DEPTH b).meter_le
  rw [decode_meter]
  omega

/-- The recursion depth never exceeds the nesting limit, whatever the input. -/
theorem C21_depth_bound (b : Bytes) : (decode b).depth ≤ MAX_DEPTH := by
  rw [decode_depth]; exact (decodeD_safe MAX_DEPTH b).depth_le

/-- The buffer never grows, and a decoded value always consumes at least one byte (so the
connection loop terminates). -/
theorem C21_progress (b : Bytes) :
    (decode b).rest.length ≤ b.length
    ∧ (∀ v, (decode b).out = .val v → (decode b).rest.length < b.length) :=
  ⟨decode_rest_le b, decode_val_lt b⟩

/-- The fuel `buf.length + 1` the model's loop is run with is always enough: more fuel never
changes the result. -/
theorem C21_drain_fuel_suffices (b : Bytes) (k : Nat) :
    drainWith decode (b.length + 1 + k) b = drain b := by
  have key : ∀ (n : Nat) (buf : Bytes) (f1 f2 : Nat), buf.length ≤ n → buf.length < f1 →
      buf.length < f2 → drainWith decode f1 buf = drainWith decode f2 buf := by
    intro n
    induction n with
    | zero =>
      intro buf f1 f2 hn h1 h2
      have : buf = [] := List.eq_nil_of_length_eq_zero (by omega)
      subst this
      cases f1 with
      | zero => omega
      | succ f1 =>
        cases f2 with
        | zero => omega
        | succ f2 =>
          have hd : (decode []).out = .more := by decide
          simp [drainWith, hd]
    | succ n ih =>
      intro buf f1 f2 hn h1 h2
      cases f1 with
      | zero => omega
      | succ f1 =>
        cases f2 with
        | zero => omega
        | succ f2 =>
          simp only [drainWith]
          cases ho : (decode buf).out with
          | val v =>
            have hp := (C21_progress buf).2 v ho
            simp only []
            rw [ih (decode buf).rest f1 f2 (by omega) (by omega) (by omega)]
          | _ => rfl
  unfold drain
  exact key b.length b _ _ (Nat.le_refl _) (by omega) (by omega)

/-- The connection task never crashes, whatever bytes arrive in whatever chunks. -/
theorem C21_connection_never_crashes (cs : List Bytes) : Event.crash ∉ (feedAll cs).out := by
  have hdrain : ∀ (f : Nat) (buf : Bytes), Event.crash ∉ (drainWith decode f buf).1 := by
    intro f
    induction f with
    | zero => intro buf; simp [drainWith]
    | succ f ih =>
      intro buf
      simp only [drainWith]
      cases ho : (decode buf).out with
      | val v => simp only []; intro h; simp at h; exact ih _ h
      | more => simp
      | err => simp
      | panic => exact absurd ho (C21_decode_never_panics buf)
  have hfold : ∀ (cs : List Bytes) (c : Conn), Event.crash ∉ c.out →
      Event.crash ∉ (cs.foldl feed c).out := by
    intro cs
    induction cs with
    | nil => intro c h; exact h
    | cons ch cs ih =>
      intro c h
      simp only [List.foldl_cons]
      apply ih
      simp only [feed, drain, List.mem_append, not_or]
      exact ⟨h, hdrain _ _⟩
  exact hfold cs {} (by simp)

/-- The model satisfies the executable specification that the harness evaluates on the
implementation's outcome class and measured peak allocation. -/
theorem C21_model_refines_spec (b : Bytes) :
    specSafe (outcomeClass (decode b).out) (decode b).meter b.length = true := by
  have h1 := C21_decode_never_panics b
  have h2 := C21_alloc_bound b
  have hc : outcomeClass (decode b).out < 3 := by
    cases ho : (decode b).out with
    | panic => exact absurd ho h1
    | _ => simp [outcomeClass]
  have hb : (decode b).meter ≤ allocBound b.length := by
    show (decode b).meter ≤ 96 * b.length + 256
    omega
  simp only [specSafe, Bool.and_eq_true, decide_eq_true_eq]
  exact ⟨hc, hb⟩

/-! ### The pinned tree violated the property (witnesses replayed by the corpus) -/

/-- `$-2\r\n`: `len as usize` then `len + 2` overflows — the connection task panics. -/
theorem C21_counterexample_negative_length :
    (decodeLegacy [36, 45, 50, 13, 10]).out = .panic := by decide

/-- `*9999999999\r\n`: 320 GB asked of the allocator for 13 bytes of input (the process
aborts). -/
theorem C21_counterexample_prealloc :
    (decodeLegacy [42, 57, 57, 57, 57, 57, 57, 57, 57, 57, 57, 13, 10]).meter > 10 ^ 11
    ∧ ¬ (decodeLegacy [42, 57, 57, 57, 57, 57, 57, 57, 57, 57, 57, 13, 10]).meter ≤ allocBound 13 := by
  decide

/-- `*18446744073709551615\r\n`: capacity overflow panic. -/
theorem C21_counterexample_capacity_overflow :
    (decodeLegacy [42, 49, 56, 52, 52, 54, 55, 52, 52, 48, 55, 51, 55, 48, 57, 53, 53, 49, 54,
      49, 53, 13, 10]).out = .panic := by decide

/-- 130 nested `*1\r\n`: the pinned decoder recurses as deep as the input says. -/
theorem C21_counterexample_unbounded_recursion :
    (decodeLegacy (List.replicate 130 [42, 49, 13, 10]).flatten).depth = 130
    ∧ ¬ (decodeLegacy (List.replicate 130 [42, 49, 13, 10]).flatten).depth ≤ MAX_DEPTH := by
  decide +kernel

/-! ### Non-vacuity: the same inputs under the repaired decoder -/

example : (decode [36, 45, 50, 13, 10]).out = .err := by decide
example : (decode [42, 57, 57, 57, 57, 57, 57, 57, 57, 57, 57, 13, 10]).out = .more
    ∧ (decode [42, 57, 57, 57, 57, 57, 57, 57, 57, 57, 57, 13, 10]).meter = 22 := by decide
example : (decode (List.replicate 130 [42, 49, 13, 10]).flatten).out = .err
    ∧ (decode (List.replicate 130 [42, 49, 13, 10]).flatten).depth = 128 := by decide +kernel
example : (decode [42, 50, 13, 10, 95, 13, 10, 97, 32, 98, 13, 10]).out
    = .val (.array [.null, .array [.bulk (some [97]), .bulk (some [98])]]) := by decide

end SgModel.Resp
