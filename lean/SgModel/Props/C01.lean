import SgModel.Lemmas.Cy
import SgModel.Lemmas.CyAnchor
import SgModel.Lemmas.CyIso
import SgModel.Lemmas.CyGroup
/-!
# C01 — read queries return exactly the rows openCypher semantics define

The reference semantics `Cy` (`SgModel/Model/Cy{Value,Graph,Expr,Match,Query}.lean`) is the
specification; `CyPlan.lean` models the engine's physical operators / planner rewrites.
The theorems below are the "every graph, every pattern" facts a sampled test cannot show;
the claim *engine = Cy* itself is differential (`harness/src/bin/c01.rs` evaluates
`specQuery` on the real engine's tables) and is not a theorem.

`…_counterexample_…` theorems refute the same statements for the operator models of the
pinned tree; their witnesses are replayed on the real engine by `corpus/C01`.
-/
namespace SgModel.Cy

/-! ## multi-label scan is the intersection -/

/-- a node satisfies `:L1:…:Lk:M1:…:Mj` iff it satisfies both label lists -/
theorem C01_multi_label_is_intersection (g : Graph) (ls ms : List Name) (n : Node) :
    n ∈ scanSpec g (ls ++ ms) ↔ n ∈ scanSpec g ls ∧ n ∈ scanSpec g ms := by
  simp only [scanSpec, List.mem_filter, Node.hasLabels, List.all_append, Bool.and_eq_true]
  constructor
  · rintro ⟨h, h1, h2⟩; exact ⟨⟨h, h1⟩, ⟨h, h2⟩⟩
  · rintro ⟨⟨h, h1⟩, ⟨_, h2⟩⟩; exact ⟨h, h1, h2⟩

/-- the repaired `NodeScan` (index entry of the first label, filtered by all labels)
returns exactly the nodes the pattern may bind, in the same order, for every graph -/
theorem C01_node_scan_sound (g : Graph) (ls : List Name) : nodeScan g ls = scanSpec g ls := by
  cases ls with
  | nil =>
    simp only [nodeScan, scanSpec, Node.hasLabels, List.all_nil]
    exact (List.filter_eq_self.mpr (fun _ _ => rfl)).symm
  | cons l ls =>
    simp only [nodeScan, scanSpec, labelIndex, List.filter_filter]
    apply List.filter_congr
    intro n _
    simp only [Node.hasLabels, List.all_cons]
    cases n.labels.contains l <;> simp

/-- a single-node pattern binds exactly the scanned nodes that also pass the inline
property map (what `MATCH (x:L1:…:Lk {…})` means) -/
theorem C01_match_single_node (g : Graph) (de : Bool) (x : Name) (ls : List Name)
    (ps : List (Name × Val)) :
    (matchPath g de ⟨⟨some x, ls, ps⟩, []⟩ ⟨[], []⟩).map (·.row)
      = ((scanSpec g ls).filter (fun n => propsOk n.props ps)).map
          (fun n => [(x, Val.node n.id)]) := by
  simp only [matchPath, scanSpec]
  induction g.nodes with
  | nil => rfl
  | cons n ns ih =>
    simp only [List.flatMap_cons, List.map_append, List.filter_cons]
    rw [ih]
    by_cases h1 : n.hasLabels ls = true <;> by_cases h2 : propsOk n.props ps = true <;>
      simp [matchNode, nodeOk, h1, h2, bindVar, Row.get?, walkSteps]

/-- the pinned tree scanned the union: on a two-node graph `(n:A:B)` also returned the
node that only carries `:A` -/
theorem C01_counterexample_multilabel_union :
    let g : Graph := ⟨[⟨0, [65], []⟩, ⟨1, [65, 66], []⟩], []⟩
    (nodeScanLegacy g [65, 66]).map (·.id) = [0, 1] ∧ (scanSpec g [65, 66]).map (·.id) = [1] := by
  decide

/-- …and `MATCH (n:A:B) RETURN count(n)` answered `min(|A|,|B|)` from the label counts -/
theorem C01_counterexample_multilabel_count :
    let g : Graph := ⟨[⟨0, [65], []⟩, ⟨1, [66], []⟩], []⟩
    labelCountLegacy g [65, 66] = 1 ∧ (scanSpec g [65, 66]).length = 0 := by
  decide

/-! ## three-valued WHERE -/

/-- a row is kept iff the predicate evaluates to *true* (false and null both drop it; a
non-boolean is an error, never a silent keep) -/
theorem C01_where_keeps_iff_true (g : Graph) (row : Row) (p : Expr) (b : Bool)
    (h : keeps g row p = .ok b) : b = true ↔ evalExpr g row p = .ok (.bool true) := by
  unfold keeps at h
  cases hv : evalExpr g row p with
  | error e => simp [hv, bind, Except.bind] at h
  | ok v =>
    simp only [hv, bind, Except.bind] at h
    cases v with
    | list l => simp [Val.tv?] at h
    | atom a =>
      cases a with
      | bool c =>
        cases c <;> simp [Val.tv?, pure, Except.pure] at h <;> simp [← h]
      | null => simp [Val.tv?, pure, Except.pure] at h; simp [← h]
      | int i => simp [Val.tv?] at h
      | flt n k => simp [Val.tv?] at h
      | str s => simp [Val.tv?] at h
      | node i => simp [Val.tv?] at h
      | rel i => simp [Val.tv?] at h

/-- `FilterOperator` keeps exactly the rows whose predicate is true, in order -/
theorem C01_filter_sound (g : Graph) (p : Expr) (rows out : List Row)
    (h : filterOp g p rows = .ok out) : out = rows.filter (fun r => evalsTrue g r p) := by
  induction rows generalizing out with
  | nil => simp [filterOp, filterM'] at h; subst h; rfl
  | cons r rs ih =>
    simp only [filterOp, filterM', bind, Except.bind] at h
    cases hk : keeps g r p with
    | error e => simp [hk] at h
    | ok b =>
      simp only [hk] at h
      cases hr : filterM' (fun r => keeps g r p) rs with
      | error e => simp [hr] at h
      | ok rest =>
        simp only [hr, pure, Except.pure] at h
        have hrest := ih rest hr
        have hb := C01_where_keeps_iff_true g r p b hk
        have hev : evalsTrue g r p = b := by
          unfold evalsTrue
          cases b with
          | true => rw [hb.mp rfl]
          | false =>
            have hne : ¬ evalExpr g r p = .ok (.bool true) := fun hh => by simpa using hb.mpr hh
            split
            · rename_i heq; exact absurd heq hne
            · rfl
        injection h with h
        rw [List.filter_cons, hev, ← hrest, ← h]

/-- pushing a filter below an expansion is sound whenever the predicate of an expanded
row is decided by the row it was expanded from -/
theorem C01_filter_pushdown_sound {α β : Type} (l : List α) (f : α → List β)
    (p : β → Bool) (q : α → Bool) (h : ∀ x ∈ l, ∀ y ∈ f x, p y = q x) :
    (l.flatMap f).filter p = (l.filter q).flatMap f := by
  induction l with
  | nil => rfl
  | cons x xs ih =>
    have ih' := ih (fun a ha => h a (List.mem_cons_of_mem _ ha))
    simp only [List.flatMap_cons, List.filter_append, ih', List.filter_cons]
    have hx := h x (List.mem_cons_self ..)
    cases hq : q x with
    | true =>
      simp only [if_true, List.flatMap_cons]
      congr 1
      rw [List.filter_eq_self]
      intro y hy; rw [hx y hy, hq]
    | false =>
      simp only [Bool.false_eq_true, if_false]
      have : (f x).filter p = [] := by
        rw [List.filter_eq_nil_iff]
        intro y hy; rw [hx y hy, hq]; simp
      simp [this]

/-! ## DISTINCT -/

/-- `DISTINCT` is idempotent -/
theorem C01_distinct_idem (l : List Val) : dedupVals (dedupVals l) = dedupVals l :=
  dedupVals_of_nodup (nodup_dedupVals l)

/-- `DISTINCT` keeps exactly the values that occur, each once -/
theorem C01_distinct_sound (l : List Val) :
    (dedupVals l).Nodup ∧ ∀ x, x ∈ dedupVals l ↔ x ∈ l :=
  ⟨nodup_dedupVals l, fun _ => mem_dedupVals⟩

/-! ## ORDER BY / LIMIT -/

/-- Top-N (bounded sorted buffer) is `take k ∘ sort`, for every comparison function -/
theorem C01_topn_eq_take_sort {α : Type} (le : α → α → Bool) (k : Nat) (l : List α) :
    topN le k l = (sortBy le l).take k := by
  induction l with
  | nil => simp [topN, sortBy]
  | cons x xs ih => simp only [topN, sortBy, ih, insertBy_take]

/-- sorting permutes -/
theorem C01_sort_perm {α : Type} (le : α → α → Bool) (l : List α) : (sortBy le l).Perm l :=
  sortBy_perm le l

/-- LIMIT pushed below a row-wise operator (no ORDER BY) yields a sub-bag of the unlimited
result, of the right size -/
theorem C01_limit_pushdown_subbag {α β : Type} (f : α → β) (k : Nat) (rows : List α) :
    (limitPushed f k rows).Sublist (rows.map f)
      ∧ (limitPushed f k rows).length = min k rows.length := by
  constructor
  · exact (List.take_sublist k rows).map f
  · simp [limitPushed]

/-! ## the model satisfies the specification the harness evaluates on the engine -/

/-- For every bag of pre-ORDER-BY rows (plain, DISTINCT, or one row per group of a grouped
aggregation), every key order, every set of `collect` columns, every SKIP/LIMIT: the window
of the stably sorted rows is an admissible result. -/
theorem C01_model_refines_spec (descs cc : List Bool) (skip limit : Option Nat) (P : List PRow) :
    admissible descs cc skip limit P
      ((window skip limit (sortBy (fun a b => keysLe descs a.key b.key) P)).map (·.vals)) = true := by
  unfold admissible admissibleBy
  have hmap : ∀ (xs : List PRow), (window skip limit (xs.map (·.key))) = (window skip limit xs).map (·.key) := by
    intro xs
    unfold window
    cases limit <;> simp [List.map_drop, List.map_take]
  simp only [hmap, List.zip_map', List.length_map, beq_self_eq_true, Bool.true_and,
    List.all_eq_true, List.mem_map, decide_eq_true_eq]
  rintro ⟨c, r⟩ ⟨pr, _, hpr⟩
  rw [List.countP_map]
  have hsub := window_sublist skip limit (sortBy (fun a b => keysLe descs a.key b.key) P)
  have hperm := sortBy_perm (fun a b => keysLe descs a.key b.key) P
  calc List.countP ((fun x => keysEqv descs c x.1 && rowEqv cc x.2 r) ∘ fun a => (a.key, a.vals))
          (window skip limit (sortBy (fun a b => keysLe descs a.key b.key) P))
      ≤ List.countP ((fun x => keysEqv descs c x.1 && rowEqv cc x.2 r) ∘ fun a => (a.key, a.vals))
          (sortBy (fun a b => keysLe descs a.key b.key) P) := hsub.countP_le
    _ = List.countP ((fun x => keysEqv descs c x.1 && rowEqv cc x.2 r) ∘ fun a => (a.key, a.vals)) P :=
          hperm.countP_eq _
    _ = List.countP (fun pr => keysEqv descs c pr.key && rowEqv cc pr.vals r) P := rfl

/-- For every graph and every query of the fragment — grouped aggregation
(`count/sum/avg/min/max/collect`, with or without DISTINCT) included: the table the model
computes satisfies the specification the harness evaluates on the engine's table. -/
theorem C01_model_refines_spec_query (g : Graph) (de : Bool) (q : Query) (t : Table)
    (h : evalQuery g de q = .ok t) : specQuery g de q t = .ok := by
  unfold evalQuery at h
  unfold specQuery specQueryWith
  cases hr : evalClauses g de q.clauses [[]] with
  | error e => simp [hr, bind, Except.bind] at h
  | ok rows =>
    simp only [hr, bind, Except.bind, projOut] at h
    cases hP : rowsIn g q.ret rows with
    | error e => simp [hP] at h
    | ok P =>
      simp only [hP, pure, Except.pure] at h
      injection h with h
      subst h
      have := C01_model_refines_spec q.ret.descs q.ret.collectCols q.ret.skip q.ret.limit P
      simp only [hP, sortPRows, bne_self_eq_false, Bool.false_eq_true, if_false, this, if_true]

/-- without SKIP/LIMIT an admissible result has exactly as many rows as the reference -/
theorem C01_admissible_length (descs cc : List Bool) (P : List PRow) (out : List (List Val))
    (h : admissible descs cc none none P out = true) : out.length = P.length := by
  unfold admissible admissibleBy at h
  simp only [Bool.and_eq_true, beq_iff_eq] at h
  rw [h.1]
  simp [window, (sortBy_perm _ P).length_eq]

/-! ## grouped aggregation -/

/-- Grouping partitions the input rows: the groups have pairwise different key tuples (so
rows with identical keys — null keys included — are *one* group, however many distinct
nodes produced them) and every input row lands in exactly one group. -/
theorem C01_grouping_partitions (keyed : List (List Val × Row)) :
    ((groupBy keyed).map (·.1)).Nodup
      ∧ ((groupBy keyed).map (·.2.length)).sum = keyed.length := by
  have h := foldl_groupStep_inv keyed [] List.nodup_nil
  rw [groupBy_eq_foldl]
  exact ⟨h.1, by simpa [sizes] using h.2⟩

/-- `sum` keeps the integer type while every addend is an integer and is checked; one float
addend makes the result a float (the partial sums of the engine's two-phase grouping must be
merged accordingly): `sum [2, 3] = 5`, `sum [2, 0.5, 3] = 5.5`, not `0.5` -/
theorem C01_sum_type_examples :
    sumVals [.int 2, .int 3] = .ok (.int 5)
      ∧ sumVals [.int 2, .flt 1 1, .int 3] = .ok (.flt 11 1) := by
  constructor <;> rfl

/-! ## matching does not depend on the anchor -/

/-- A one-hop pattern `(a)-[r]-(b)` (any direction, labels, types, inline properties)
enumerated from its left node and from its right node yields the same **bag** of matches,
for every well-formed graph: the planner's anchor choice is sound.

The general statement — for a path of `k` hops and every anchor position `i`,
`matchPathFrom g p i ~ matchPath g p` — is *not* proved here (`…_hop` is the `k = 1` case);
for longer paths the anchor choice is covered by the differential run only. -/
theorem C01_match_anchor_independent_hop (g : Graph) (hwf : g.WF) (pa : NodePat) (rp : RelPat)
    (pb : NodePat) : (hopFromLeft g pa rp pb).Perm (hopFromRight g pa rp pb) := by
  apply (List.perm_ext_iff_of_nodup (nodup_hopFromLeft g hwf pa rp pb)
    (nodup_hopFromRight g hwf pa rp pb)).mpr
  intro t
  rw [mem_hopFromLeft g hwf, mem_hopFromRight g hwf]

/-- both enumerations produce exactly the declaratively described matches, each once -/
theorem C01_hop_matches_exact (g : Graph) (hwf : g.WF) (pa : NodePat) (rp : RelPat) (pb : NodePat) :
    (hopFromLeft g pa rp pb).Nodup ∧ ∀ t, t ∈ hopFromLeft g pa rp pb ↔ HopSat g pa rp pb t :=
  ⟨nodup_hopFromLeft g hwf pa rp pb, mem_hopFromLeft g hwf pa rp pb⟩

/-! ## relationship isomorphism -/

/-- Within one MATCH clause — across all of its comma-separated patterns, fixed- and
variable-length steps alike — no relationship is bound twice: every match the reference
semantics produces uses pairwise distinct relationships. -/
theorem C01_relationship_isomorphism (g : Graph) (de : Bool) (pats : List PathPat) (row : Row) :
    ∀ s ∈ matchPats g de pats ⟨row, []⟩, s.used.Nodup :=
  matchPats_nodup g de pats ⟨row, []⟩ List.nodup_nil

/-- the engine tracks used relationships per path: on a graph with a single relationship
`MATCH (a)-[r1]->(b), (c)-[r2]->(d)` has no match, the engine's evaluation has one
(known finding `comma-pattern-isomorphism`) -/
theorem C01_counterexample_comma_isomorphism :
    let g : Graph := ⟨[⟨0, [], []⟩, ⟨1, [], []⟩], [⟨0, 0, 1, 82, []⟩]⟩
    let hop (a r b : Name) : PathPat :=
      ⟨⟨some a, [], []⟩, [(⟨some r, [], .out, [], none⟩, ⟨some b, [], []⟩)]⟩
    (matchPats g false [hop 1 2 3, hop 4 5 6] ⟨[], []⟩).length = 0
      ∧ (matchPatsLegacy g false [hop 1 2 3, hop 4 5 6] ⟨[], []⟩).length = 1 := by decide

/-- `MATCH (x) OPTIONAL MATCH (y:C)` keeps `x` with `y = null` when nothing carries `:C`;
the engine's cartesian product returns no row (known finding `optional-match-disconnected`) -/
theorem C01_counterexample_optional_disconnected :
    let g : Graph := ⟨[⟨0, [65], []⟩], []⟩
    okLength (evalMatch g false true [⟨⟨some 121, [67], []⟩, []⟩] none [(120, .node 0)]) = some 1
      ∧ (evalMatchOptionalLegacy g false [⟨⟨some 121, [67], []⟩, []⟩] [(120, .node 0)]).length = 0 := by
  decide

/-- `… WITH count(*) AS c …` over no rows is one row `c = 0`; the engine emits none (known
finding `with-aggregate-empty-input`) -/
theorem C01_counterexample_with_aggregate_empty :
    let p : Proj := ⟨false, [.agg .countStar false (.lit .null) 99], [], none, none, none⟩
    okLength (projectRows ⟨[], []⟩ p []) = some 1
      ∧ okLength (withAggRowsLegacy ⟨[], []⟩ p []) = some 0 := by decide

/-! ## equality pushed down into an expansion -/

/-- the three spellings of "the target's property equals a literal" agree for every value:
the inline map `{k: v}`, the pushed-down target predicate, and `WHERE x.k = v` -/
theorem C01_expand_pushdown_sound (g : Graph) (row : Row) (x k : Name) (v : Val) (n : Node)
    (hx : row.get? x = some (.node n.id)) (hn : g.node? n.id = some n) :
    pushedTargetOk n.props k v = propsOk n.props [(k, v)]
      ∧ evalsTrue g row (.cmp .eq (.prop (.var x) k) (.lit v)) = pushedTargetOk n.props k v := by
  constructor
  · simp [pushedTargetOk, propsOk]
  · simp only [evalsTrue, evalExpr, hx, bind, Except.bind, Graph.getProp, hn, evalCmp, pushedTargetOk]
    cases Val.eq3 (lookupProp n.props k) v with
    | none => rfl
    | some b => cases b <;> rfl

/-- the pinned tree's pushed-down comparison was structural: `WHERE b.j = 1.0` behind an
expansion dropped the node with `j = 1` that the same WHERE keeps after a scan -/
theorem C01_counterexample_pushdown_eq :
    pushedTargetOkLegacy [(106, .int 1)] 106 (.flt 1 0) = false
      ∧ pushedTargetOk [(106, .int 1)] 106 (.flt 1 0) = true := by decide

/-! ## ORDER BY: numbers tie across integer and float -/

/-- `1` and `1.0` are a tie for ORDER BY, so the next key decides -/
theorem C01_order_int_float_tie (i : Int) (ds : List Bool) (a b : List Val) :
    cmpKeys (false :: ds) (.int i :: a) (.flt i 0 :: b) = cmpKeys ds a b := by
  have : Atom.ordCmp (.int i) (.flt i 0) = .eq := by
    simp [Atom.ordCmp, Atom.rank, Atom.num?, dyCmp, compare, compareOfLessAndEq]
  simp [cmpKeys, Val.ordCmp, this]

/-- the engine sorts with the index order, which never ties across Integer/Float: for
`ORDER BY n.k DESC, n.j` over `(k = 1.0, j = 0)` and `(k = 1, j = 'a')` the specification
consults `j` (strings before numbers: the `k = 1` row first), the engine's order does not
(known finding `orderby-int-float-secondary-key`) -/
theorem C01_counterexample_order_tie :
    Atom.ordCmpLegacy (.int 1) (.flt 1 0) = .lt ∧ Atom.ordCmp (.int 1) (.flt 1 0) = .eq
      ∧ cmpKeys [true, false] [.flt 1 0, .int 0] [.int 1, .str ['a']] = .gt
      ∧ cmpKeysLegacy [true, false] [.flt 1 0, .int 0] [.int 1, .str ['a']] = .lt := by
  decide

/-! ## variable-length patterns

Three semantics: `stepVar g false` (openCypher: one row per path of distinct relationships),
`stepVarDedup` (one row per distinct end node of those paths) and `stepVar g true` (the
engine: breadth-first over nodes, one row per reachable node at its BFS depth). -/

/-- `stepVarDedup` is exactly the openCypher result with the end nodes de-duplicated -/
theorem C01_varlen_distinct_eq_dedup_endpoints (g : Graph) (rp : RelPat) (np : NodePat)
    (lo : Nat) (hi : Option Nat) (s : MState) (cur : Nat) :
    (stepVarDedup g rp np lo hi s cur).map (·.2)
      = dedupNat ((stepVar g false rp np lo hi s cur).map (·.2)) := by
  have hF := fun (l : List (Nat × List Nat)) =>
    filterMap_map_eq_filter (endStep g np s.row) (·.2) (·.1) (endOk g np s.row)
      (endStep_snd g np s.row) l
  show List.map (·.2) (List.filterMap (endStep g np s.row)
        (List.map (fun t => (t, s.used)) (dedupNat (List.map (·.1) (varLenEnds g rp lo hi cur s.used)))))
      = dedupNat (List.map (·.2) (List.filterMap (endStep g np s.row) (varLenEnds g rp lo hi cur s.used)))
  rw [hF, hF, dedupNat_filter]
  simp [List.map_map, Function.comp_def]

/-- the diamond `0→1→3, 0→2→3` under `*1..2`: two paths end in node 3, so openCypher has 4
rows; the engine's BFS (and the de-duplicated semantics) report node 3 once: 3 rows (known
finding `varlen-distinct-endpoint`) -/
theorem C01_counterexample_varlen_diamond :
    let g : Graph := ⟨[⟨0, [], []⟩, ⟨1, [], []⟩, ⟨2, [], []⟩, ⟨3, [], []⟩],
      [⟨0, 0, 1, 82, []⟩, ⟨1, 0, 2, 82, []⟩, ⟨2, 1, 3, 82, []⟩, ⟨3, 2, 3, 82, []⟩]⟩
    let rp : RelPat := ⟨none, [], .out, [], some (1, some 2)⟩
    ((stepVar g false rp ⟨none, [], []⟩ 1 (some 2) ⟨[], []⟩ 0).map (·.2)).length = 4
      ∧ ((stepVar g true rp ⟨none, [], []⟩ 1 (some 2) ⟨[], []⟩ 0).map (·.2)).length = 3
      ∧ ((stepVarDedup g rp ⟨none, [], []⟩ 1 (some 2) ⟨[], []⟩ 0).map (·.2)).length = 3 := by
  decide

/-- the BFS reports a node only at its *shortest* distance: with two parallel self-loops
`*2..2` has two openCypher paths (and one distinct end node), the engine reports nothing -/
theorem C01_counterexample_varlen_bfs_depth :
    let g : Graph := ⟨[⟨0, [], []⟩], [⟨0, 0, 0, 82, []⟩, ⟨1, 0, 0, 82, []⟩]⟩
    let rp : RelPat := ⟨none, [], .out, [], some (2, some 2)⟩
    ((stepVar g false rp ⟨none, [], []⟩ 2 (some 2) ⟨[], []⟩ 0).map (·.2)).length = 2
      ∧ ((stepVarDedup g rp ⟨none, [], []⟩ 2 (some 2) ⟨[], []⟩ 0).map (·.2)).length = 1
      ∧ ((stepVar g true rp ⟨none, [], []⟩ 2 (some 2) ⟨[], []⟩ 0).map (·.2)).length = 0 := by
  decide

/-! ## count by degree (`adjacency_agg_detector`) -/

/-- expanding an unconstrained, typed, directed hop from node `a` yields exactly
`outDegree` rows — for every well-formed graph — so `count(*)` grouped by the source may be
read off the adjacency list -/
theorem C01_count_by_degree (g : Graph) (hwf : g.WF) (types : List Name) (row : Row) (a : Nat) :
    (stepFrom g ⟨none, types, .out, [], none⟩ ⟨none, [], []⟩ ⟨row, []⟩ a).length
      = outDegree g types a := by
  unfold stepFrom outDegree
  rw [length_filterMap_eq_countP]
  apply List.countP_congr
  intro r hr
  obtain ⟨n, hn, hid⟩ := (hwf.2.2 r hr).2
  have hfind : g.node? r.tgt = some (match g.nodes.find? (·.id == r.tgt) with | some m => m | none => n) := by
    unfold Graph.node?
    cases hf : g.nodes.find? (·.id == r.tgt) with
    | some m => rfl
    | none =>
      exfalso
      rw [List.find?_eq_none] at hf
      exact hf n hn (by simp [hid])
  simp only [List.contains_nil, Bool.false_or, relOk, propsOk, List.all_nil, Bool.and_true,
    relTarget, bindVar, matchNode, nodeOk, Node.hasLabels]
  by_cases h2 : (r.src == a) = true <;> simp [h2, hfind] <;> cases types <;> simp

/-- the pinned tree's adjacency-count rewrite also fired for a relationship property map:
`(a)-[:R {k: 1}]->(m)` has one match from node 0, the degree is 2 -/
theorem C01_counterexample_adjacency_count_props :
    let g : Graph := ⟨[⟨0, [], []⟩, ⟨1, [], []⟩], [⟨0, 0, 1, 82, [(107, .int 1)]⟩, ⟨1, 0, 0, 82, []⟩]⟩
    (stepFrom g ⟨none, [82], .out, [(107, .int 1)], none⟩ ⟨none, [], []⟩ ⟨[], []⟩ 0).length = 1
      ∧ outDegree g [82] 0 = 2 := by decide

/-- the pinned tree's edge-count shortcut answered `MATCH (n)-[:S]->(n) RETURN count(*)`
with the number of `:S` relationships; only self-loops match -/
theorem C01_counterexample_edge_count_selfloop :
    let g : Graph := ⟨[⟨0, [], []⟩, ⟨1, [], []⟩], [⟨0, 0, 1, 83, []⟩, ⟨1, 0, 0, 83, []⟩]⟩
    (matchPath g false ⟨⟨some 110, [], []⟩,
        [(⟨none, [83], .out, [], none⟩, ⟨some 110, [], []⟩)]⟩ ⟨[], []⟩).length = 1
      ∧ edgeCountLegacy g [83] = 2 := by decide

/-! ## `=` and arithmetic: the evaluator copies of the pinned tree -/

/-- `=` is numeric across integer and float (`1 = 1.0`), for all values -/
theorem C01_eq_int_float (i : Int) : Atom.eq3 (.int i) (.flt i 0) = some true := by
  simp [Atom.eq3, Atom.num?, dyCmp, compare, compareOfLessAndEq]

/-- the projection evaluator of the pinned tree used structural equality: `RETURN 1 = 1.0`
was false while `WHERE n.k = 1.0` matched `k = 1` -/
theorem C01_counterexample_eq_int_float :
    Atom.eq3Legacy (.int 1) (.flt 1 0) = some false ∧ Atom.eq3 (.int 1) (.flt 1 0) = some true := by
  decide

/-- integer arithmetic is checked: the result is in range or the query fails -/
theorem C01_int_arith_checked (op : ArithOp) (x y : Int) (v : Val)
    (h : evalArith op (.int x) (.int y) = .ok v) : ∃ i, v = .int i ∧ inI64 i = true := by
  cases op <;> simp only [evalArith, ckInt] at h <;>
    (repeat' split at h) <;> simp_all <;> (subst h; exact ⟨_, rfl, by assumption⟩)

/-- the pinned tree panicked (debug) / wrapped (release) on `9223372036854775807 + 1` -/
theorem C01_counterexample_int_overflow :
    addLegacy 9223372036854775807 1 = none
      ∧ evalArith .add (.int 9223372036854775807) (.int 1) = .error .arith :=
  ⟨by decide, rfl⟩

/-! ## non-vacuity -/

example : (scanSpec ⟨[⟨0, [65], []⟩, ⟨1, [65, 66], []⟩], []⟩ [65, 66]).map (·.id) = [1] := by decide

example :
    let g : Graph := ⟨[⟨0, [], []⟩, ⟨1, [], []⟩], [⟨0, 0, 1, 82, []⟩, ⟨1, 0, 1, 83, []⟩, ⟨2, 1, 0, 82, []⟩]⟩
    outDegree g [82] 0 = 1 ∧ outDegree g [] 0 = 2 := by decide

example : topN (fun (a b : Nat) => decide (a ≤ b)) 2 [3, 1, 2] = [1, 2] := by decide

end SgModel.Cy
