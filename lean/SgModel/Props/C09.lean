import SgModel.Lemmas.TxnHist
/-!
# C09 — transactions commit first-committer-wins with increasing versions

Property theorems only.  A schedule of any number of transactions over any entities is a
`List Op`; every theorem quantifies over all of them.  `I` (`step`, `run`, `exec`) is the
model of the code (`node_last_commit` / `edge_last_commit` compared with `start_version`);
`S` (`astep`, `arun`, `aexec`) is the abstract first-committer-wins machine whose conflict
test looks only at the log entries appended *after the transaction began*.

The pinned tree is expected to satisfy this property; there is no `…Legacy` function and no
counter-example theorem.
-/
namespace SgModel.Txn

/-- **Refinement.**  On every schedule the code-shaped machine and the abstract
first-committer-wins machine produce the same observations (results of every operation,
the current version, the read version of every probed transaction).  The harness evaluates
`spec` (= "equals the observations of `S`") on the implementation's observations. -/
theorem C09_model_refines_spec (ops : List Op) : spec ops (run ops).2 = true := by
  have h := (rel_runFrom rel_init ops).1
  have key : ∀ (k : Nat) (l : List Obs), specFirstViolation.go k l l = none := by
    intro k l
    induction l generalizing k with
    | nil => rfl
    | cons a l ih => simp [specFirstViolation.go, ih]
  unfold spec specFirstViolation run arun
  rw [h]
  simp [key]

/-- the same statement as an equation between the two machines -/
theorem C09_refines_fcw (ops : List Op) : (run ops).2 = (arun ops).2 :=
  (rel_runFrom rel_init ops).1

/-- **Commit succeeds iff no later committer intersects the write set.**  After any
schedule, the result of `commit t` on the code-shaped machine is determined by the abstract
log: unknown transaction → `notFound`; finished → `notActive`; some entry logged since `t`
began hits its write set → `conflict`; otherwise it commits at `current_version + 1`. -/
theorem C09_commit_iff_no_later_committer (ops : List Op) (t : Nat) :
    (step (exec ops) (.commit t)).2 =
      (match findTxn (exec ops).core t with
       | none => .notFound
       | some x =>
         if x.status ≠ .active then .notActive
         else if (since (aexec ops) t).any (fun e => e.hits x) then .conflict
         else .committed ((exec ops).core.cur + 1)) := by
  have r := rel_exec ops
  rw [step_out]
  simp only [coreStep]
  cases hft : findTxn (exec ops).core t with
  | none => rfl
  | some x =>
    have hx := findTxn_some hft
    have hag : conflictI (exec ops) x = conflictS (aexec ops) x :=
      conflict_agree r (by rw [← r.core]; exact hx.1)
    simp only [hag, conflictS, hx.2]
    by_cases hst : x.status = .active
    · simp only [hst, bne_self_eq_false, Bool.false_eq_true, if_false, ne_eq, not_true_eq_false]
      split <;> rfl
    · have : (x.status != .active) = true := by simpa using hst
      simp [this, hst]

/-- In particular: success ⇔ active and disjoint from everything committed since it began. -/
theorem C09_commit_ok_iff (ops : List Op) (t : Nat) :
    (∃ v, (step (exec ops) (.commit t)).2 = .committed v) ↔
      ∃ x, findTxn (exec ops).core t = some x ∧ x.status = .active
        ∧ ∀ e ∈ since (aexec ops) t, e.hits x = false := by
  rw [C09_commit_iff_no_later_committer]
  cases hft : findTxn (exec ops).core t with
  | none => simp
  | some x =>
    by_cases hst : x.status = .active
    · by_cases hc : (since (aexec ops) t).any (fun e => e.hits x) = true
      · simp only [hst, ne_eq, not_true_eq_false, if_false, hc, if_true]
        constructor
        · rintro ⟨v, hv⟩; cases hv
        · rintro ⟨y, hy, _, hall⟩
          cases hy
          rw [List.any_eq_true] at hc
          obtain ⟨e, he, hh⟩ := hc
          rw [hall e he] at hh; cases hh
      · simp only [hst, ne_eq, not_true_eq_false, if_false, hc]
        constructor
        · intro _
          refine ⟨x, rfl, hst, ?_⟩
          intro e he
          cases hh : e.hits x with
          | false => rfl
          | true => exact absurd (List.any_eq_true.mpr ⟨e, he, hh⟩) hc
        · intro _; exact ⟨_, rfl⟩
    · simp only [ne_eq, hst, not_false_eq_true, if_true]
      constructor
      · rintro ⟨v, hv⟩; cases hv
      · rintro ⟨y, hy, hact, _⟩
        cases hy; exact absurd hact hst

/-- **"Since it began" is temporal, not arithmetic.**  For a transaction begun after the
schedule `pre`, the entries `since` selects after any continuation `post` are exactly the
log entries appended during `post` (the log of `pre` is a prefix and is skipped). -/
theorem C09_since_is_after_begin (pre post : List Op) (iso : Iso) :
    let t := (aexec pre).core.nextId
    let a := aexec (pre ++ .begin iso :: post)
    (∃ ext, a.log = (aexec pre).log ++ ext ∧ since a t = ext) := by
  intro t a
  have ha : a = post.foldl (fun s op => (astep s op).1) (astep (aexec pre) (.begin iso)).1 := by
    show aexec (pre ++ .begin iso :: post) = _
    rw [aexec_append]; rfl
  have h1 : (astep (aexec pre) (.begin iso)).1.log = (aexec pre).log := rfl
  have h2 : (astep (aexec pre) (.begin iso)).1.core.nextId = t + 1 := rfl
  have h3 : lookup (astep (aexec pre) (.begin iso)).1.began t = some (aexec pre).log.length := by
    show lookup ((t, (aexec pre).log.length) :: (aexec pre).began) t = _
    exact lookup_cons_self _ _ _
  obtain ⟨⟨ext, hlog⟩, _, hb⟩ := afoldl_grows (astep (aexec pre) (.begin iso)).1 post
  rw [← ha] at hlog hb
  refine ⟨ext, by rw [hlog, h1], ?_⟩
  unfold since
  rw [hb t (by omega), h3, hlog, h1]
  simp

/-- **Commit versions strictly increase** along every schedule (and each is above the
version current when the schedule started). -/
theorem C09_commit_versions_strictIncr (ops : List Op) :
    (commitVersions (run ops).2).Pairwise (· < ·) :=
  (commitVersions_runFrom {} ops).2

/-- a successful commit returns exactly `current_version + 1` and makes it current -/
theorem C09_commit_version_is_next (ops : List Op) (t v : Nat)
    (h : (step (exec ops) (.commit t)).2 = .committed v) :
    v = (exec ops).core.cur + 1 ∧ (step (exec ops) (.commit t)).1.core.cur = v := by
  rw [step_out] at h
  obtain ⟨h1, h2⟩ := coreStep_committed h
  rw [step_core]
  exact ⟨h1, by omega⟩

/-- **A finished transaction cannot finish again (state level).**  If `t` is not an active
transaction of the table, `commit t` and `abort t` return an error and change nothing. -/
theorem C09_finished_cannot_finish_again (s : State) (t : Nat)
    (h : ∀ x, findTxn s.core t = some x → x.status ≠ .active) :
    (step s (.commit t) = (s, .notFound) ∨ step s (.commit t) = (s, .notActive))
    ∧ (step s (.abort t) = (s, .notFound) ∨ step s (.abort t) = (s, .notActive)) := by
  unfold step
  simp only [coreStep]
  cases hft : findTxn s.core t with
  | none => exact ⟨Or.inl rfl, Or.inl rfl⟩
  | some x =>
    have hst := h x hft
    have : (x.status != .active) = true := by simpa using hst
    simp only [this, if_true]
    exact ⟨Or.inr trivial, Or.inr trivial⟩

/-- **… along every schedule.**  Once `commit t` or `abort t` has been issued for a
transaction that had been begun (`t < next_txn_id`) — whether it committed, hit a conflict
(and was thereby aborted), aborted, or was already finished — every later `commit t` and
`abort t`, after any continuation, fails and leaves the state unchanged. -/
theorem C09_no_second_finish (pre mid : List Op) (fin : Op) (t : Nat)
    (hfin : fin = .commit t ∨ fin = .abort t) (hbegun : t < (exec pre).core.nextId) :
    let s := exec (pre ++ fin :: mid)
    (step s (.commit t) = (s, .notFound) ∨ step s (.commit t) = (s, .notActive))
    ∧ (step s (.abort t) = (s, .notFound) ∨ step s (.abort t) = (s, .notActive)) := by
  intro s
  have hwf : WF (exec pre).core := by
    have := (rel_exec pre).wf; rw [← (rel_exec pre).core] at this; exact this
  have hd0 : Dead (step (exec pre) fin).1.core t := by
    rw [step_core]
    rcases hfin with rfl | rfl
    · exact (dead_after_finish hwf hbegun _).1
    · exact (dead_after_finish hwf hbegun _).2
  have hs : s = mid.foldl (fun s op => (step s op).1) (step (exec pre) fin).1 := by
    show exec (pre ++ fin :: mid) = _
    rw [exec_append]; rfl
  have hd : Dead s.core t := by rw [hs]; exact dead_foldl hd0 mid
  apply C09_finished_cannot_finish_again
  intro x hft
  exact hd.2 x (findTxn_some hft).1 (findTxn_some hft).2

/-- **Each transaction reads at the version its isolation level prescribes.**  A
transaction begun right after the schedule `pre`, as long as it is still in the table after
any continuation `post`, reads at the *current* version under ReadCommitted and at the
version that was current when it began under SnapshotIsolation. -/
theorem C09_read_version_by_isolation (pre post : List Op) (iso : Iso) :
    let t := (exec pre).core.nextId
    let s := exec (pre ++ .begin iso :: post)
    readVersion s.core t = none ∨
    readVersion s.core t = some (match iso with | .rc => s.core.cur | .si => (exec pre).core.cur) := by
  intro t s
  have hs : s = post.foldl (fun s op => (step s op).1) (step (exec pre) (.begin iso)).1 := by
    show exec (pre ++ .begin iso :: post) = _
    rw [exec_append]; rfl
  have hwf : WF (exec pre).core := by
    have := (rel_exec pre).wf; rw [← (rel_exec pre).core] at this; exact this
  have h0 : Attr (step (exec pre) (.begin iso)).1.core t iso (exec pre).core.cur := by
    refine ⟨Nat.lt_succ_self _, ?_⟩
    intro x hx hid
    have hx' : x ∈ (exec pre).core.txns ++
        [{ id := (exec pre).core.nextId, iso := iso, status := .active, start := (exec pre).core.cur }] := hx
    rcases List.mem_append.mp hx' with hx' | hx'
    · have := hwf.lt x hx'; omega
    · simp only [List.mem_singleton] at hx'; subst hx'; exact ⟨rfl, rfl⟩
  have h := attr_foldl h0 post
  rw [← hs] at h
  unfold readVersion
  cases hft : findTxn s.core t with
  | none => exact Or.inl rfl
  | some x =>
    right
    obtain ⟨hi, hst⟩ := h.2 x (findTxn_some hft).1 (findTxn_some hft).2
    simp only [Option.map_some, hi, hst]
    cases iso <;> rfl

/-- the read version is never ahead of the current version -/
theorem C09_read_version_le_cur (ops : List Op) (t v : Nat)
    (h : readVersion (exec ops).core t = some v) : v ≤ (exec ops).core.cur := by
  have r := rel_exec ops
  unfold readVersion at h
  cases hft : findTxn (exec ops).core t with
  | none => simp [hft] at h
  | some x =>
    simp only [hft, Option.map_some, Option.some.injEq] at h
    have hx : x ∈ (aexec ops).core.txns := by rw [← r.core]; exact (findTxn_some hft).1
    have := (r.split x hx).2.1
    rw [← r.core] at this
    cases hiso : x.iso <;> simp only [hiso] at h <;> omega

/-! ### Non-vacuity: concrete schedules -/

/-- two overlapping transactions write node 1: the first committer wins -/
example : (run [.begin .si, .begin .rc, .writeNode 1 1, .writeNode 2 1, .commit 2, .commit 1]).2.map (·.out)
    = [.began 1, .began 2, .unit, .unit, .committed 2, .conflict] := by decide

/-- the later beginner does not conflict with a commit that preceded its begin -/
example : (run [.begin .si, .writeNode 1 1, .commit 1, .begin .si, .writeNode 2 1, .commit 2]).2.map (·.out)
    = [.began 1, .unit, .committed 2, .began 2, .unit, .committed 3] := by decide

/-- a node and a relationship with the same numeric id are different entities -/
example : (run [.begin .si, .begin .si, .writeNode 1 1, .writeEdge 2 1, .commit 2, .commit 1]).2.map (·.out)
    = [.began 1, .began 2, .unit, .unit, .committed 2, .committed 3] := by decide

/-- a conflicted transaction is aborted: it can neither commit nor abort again; a finished
one that `gc` collected is reported as not found -/
example : (run [.begin .si, .begin .si, .writeEdge 1 7, .writeEdge 2 7, .commit 1, .commit 2,
                .commit 2, .abort 2, .abort 1, .gc none, .commit 1]).2.map (·.out)
    = [.began 1, .began 2, .unit, .unit, .committed 2, .conflict,
       .notActive, .notActive, .notActive, .unit, .notFound] := by decide

/-- SI reads at its start version, RC at the current one -/
example : ((run [.begin .si, .begin .rc, .bump, .bump]).2.map (·.reads)).getLast?
    = some [some 1, some 3, none, none] := by decide

end SgModel.Txn
