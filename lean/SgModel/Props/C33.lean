import SgModel.Lemmas.Quorum
/-!
# C33 — cluster health claims quorum only with a majority of distinct voters

Property theorems only (helpers are in `Lemmas/Quorum.lean`).  Nothing is bounded: the
theorems hold for every membership list (with or without repeated ids), every active set,
every role map and every operation history.  The `…counterexample…` theorem refutes the
statement for the model of the pinned tree; its witness is replayed on the implementation
by the harness corpus.
-/
namespace SgModel.Quorum

/-- The voters that `health_status` counts are a *set*: no id twice, and exactly the ids
that have a voter entry in the configuration. -/
theorem C33_voter_ids_distinct (ns : List NodeCfg) :
    (voterIds ns).Nodup ∧ ∀ x, x ∈ voterIds ns ↔ ∃ n ∈ ns, n.voter = true ∧ n.id = x :=
  ⟨nodup_dedup _, fun _ => mem_voterIds⟩

/-- `healthy` ⇔ a leader is known ∧ strictly more than half of the distinct voter ids are
active (`active_voters >= voters/2 + 1` is `2·active_voters > voters`). -/
theorem C33_healthy_iff_strict_majority (s : State) :
    (health s).healthy = true ↔
      (hasLeader s = true ∧
        (voterIds s.nodes).length < 2 * ((voterIds s.nodes).filter (fun i => i ∈ s.active)).length) := by
  have hf : (voterIds s.nodes).filter (fun i => decide (i ∈ s.active))
      = activeVoterIds s.nodes s.active := by
    unfold activeVoterIds
    apply List.filter_congr
    intro x _; simp
  simp only [health, Bool.and_eq_true, decide_eq_true_eq, hf]
  constructor
  · rintro ⟨h1, h2⟩; exact ⟨h2, by omega⟩
  · rintro ⟨h1, h2⟩; exact ⟨by omega, h1⟩

/-- Quorum intersection, for configurations of **any** size: two states over the same
membership list that are both reported healthy have an active voter in common. -/
theorem C33_quorum_intersection (s₁ s₂ : State) (hcfg : s₁.nodes = s₂.nodes)
    (h₁ : (health s₁).healthy = true) (h₂ : (health s₂).healthy = true) :
    ∃ n, n ∈ voterIds s₁.nodes ∧ n ∈ s₁.active ∧ n ∈ s₂.active := by
  have a₁ := ((C33_healthy_iff_strict_majority s₁).mp h₁).2
  have a₂ := ((C33_healthy_iff_strict_majority s₂).mp h₂).2
  rw [← hcfg] at a₂
  obtain ⟨x, hx, hp, hq⟩ := exists_mem_of_filter_overlap
    (l := voterIds s₁.nodes) (p := fun i => decide (i ∈ s₁.active))
    (q := fun i => decide (i ∈ s₂.active)) (by omega)
  exact ⟨x, hx, by simpa using hp, by simpa using hq⟩

/-- … and that common member really is a voting member of the configuration. -/
theorem C33_quorum_intersection_member (s₁ s₂ : State) (hcfg : s₁.nodes = s₂.nodes)
    (h₁ : (health s₁).healthy = true) (h₂ : (health s₂).healthy = true) :
    ∃ c ∈ s₁.nodes, c.voter = true ∧ c.id ∈ s₁.active ∧ c.id ∈ s₂.active := by
  obtain ⟨n, hn, ha, hb⟩ := C33_quorum_intersection s₁ s₂ hcfg h₁ h₂
  obtain ⟨c, hc, hv, rfl⟩ := mem_voterIds.mp hn
  exact ⟨c, hc, hv, ha, hb⟩

/-- Membership operations keep node ids distinct: starting from a configuration without a
repeated id, after any history (whose `update_config` arguments are themselves distinct)
no id occurs twice — `add_node` of a present id updates it in place. -/
theorem C33_membership_ops_preserve_distinct (s : State) (ops : List Op)
    (h : Distinct s.nodes) (hops : ∀ ns, Op.updateConfig ns ∈ ops → Distinct ns) :
    Distinct (run s ops).nodes := by
  induction ops generalizing s with
  | nil => exact h
  | cons o ops ih =>
    refine ih (step s o) (distinct_step h o ?_) ?_
    · intro ns e; exact hops ns (e ▸ List.mem_cons_self)
    · intro ns hm; exact hops ns (List.mem_cons_of_mem _ hm)

/-- A configuration built by `ClusterConfig::add_node` alone never repeats an id. -/
theorem C33_add_node_builds_distinct (adds : List (Nat × Bool)) :
    Distinct (adds.foldl (fun ns a => cfgAdd ns a.1 a.2) []) := by
  suffices ∀ ns, Distinct ns → Distinct (adds.foldl (fun ns a => cfgAdd ns a.1 a.2) ns) from
    this [] (by simp [Distinct])
  induction adds with
  | nil => intro ns h; exact h
  | cons a rest ih => intro ns h; exact ih _ (distinct_cfgAdd h a.1 a.2)

/-- On a configuration without repeated ids the repaired count is the old one: distinct
voter ids = voter entries (so the repair changes nothing for well-formed clusters). -/
theorem C33_health_counts_entries_when_distinct (s : State) (h : Distinct s.nodes) :
    health s = healthLegacy s := by
  have hv : voterIds s.nodes = (voters s.nodes).map (·.id) := by
    unfold voterIds
    apply dedup_of_nodup
    exact List.Nodup.sublist (List.Sublist.map _ List.filter_sublist) h
  have hav : (activeVoterIds s.nodes s.active).length
      = ((voters s.nodes).filter (fun n => s.active.contains n.id)).length := by
    unfold activeVoterIds
    rw [hv, List.filter_map, List.length_map]
    rfl
  simp only [health, healthLegacy, hv, hav, List.length_map]

/-- The model satisfies the executable specification evaluated by the harness on the
implementation's observations — in every state whose role map has unique keys within the
probed id range (true of every state reached from `ClusterManager::new`, see
`keysNodup_mk` / `keysNodup_run`; the harness uses ids ≤ `probeMax` only). -/
theorem C33_model_refines_spec (s : State) (ok : Bool) (hk : KeysNodup s.roles)
    (hr : ∀ e ∈ s.roles, e.1 ≤ probeMax) : specObs (obs s ok) = true := by
  unfold specObs
  simp only [obs, obsWith]
  cases hh : (health s).healthy with
  | false => simp
  | true =>
    have ⟨hl, hm⟩ := (C33_healthy_iff_strict_majority s).mp hh
    have hf : (voterIds s.nodes).filter (fun i => s.active.contains i)
        = (voterIds s.nodes).filter (fun i => decide (i ∈ s.active)) := by
      apply List.filter_congr; intro x _; simp
    simp only [Bool.not_true, Bool.false_or, Bool.and_eq_true, decide_eq_true_eq, hf]
    refine ⟨?_, hm⟩
    unfold hasLeader at hl
    rw [List.any_eq_true] at hl
    obtain ⟨e, he, hel⟩ := hl
    rw [List.any_eq_true]
    refine ⟨some Role.leader, ?_, by simp⟩
    rw [List.mem_map]
    refine ⟨e.1, List.mem_range.mpr (Nat.lt_succ_of_le (hr e he)), ?_⟩
    rw [mapGet_of_mem hk he]
    simp only [beq_iff_eq] at hel
    rw [hel]

/-- The step form of the specification (what the harness evaluates on consecutive
observations of the implementation): `specObs` after the operation **and** the reported
configuration is the one the membership operation says (add leaves an `(id, voter)` entry
and touches no other id; remove leaves none; update_config installs the list; the rest
leave it alone). -/
theorem C33_model_refines_spec_step (s : State) (ok₀ : Bool) (op : Op)
    (hk : KeysNodup (step s op).roles) (hr : ∀ e ∈ (step s op).roles, e.1 ≤ probeMax) :
    specStep (obs s ok₀) op (obs (stepWith cfgAdd s op).1 (stepWith cfgAdd s op).2) = true := by
  have hobs := C33_model_refines_spec (step s op) (stepWith cfgAdd s op).2 hk hr
  unfold specStep
  rw [show (stepWith cfgAdd s op).1 = step s op from rfl, hobs, Bool.true_and]
  cases op with
  | add id v =>
    simp only [obs, obsWith, step, stepWith, Bool.not_true, Bool.false_or, Bool.and_eq_true]
    exact ⟨⟨cfgAdd_any s.nodes id v,
      othersKept_of (fun n hn hne => mem_cfgAdd_of_ne hn hne)⟩,
      othersKept_of (fun n hn hne => mem_of_mem_cfgAdd_ne hn hne)⟩
  | remove id =>
    simp only [obs, obsWith, step, stepWith, Bool.not_true, Bool.false_or, Bool.and_eq_true]
    refine ⟨⟨?_, othersKept_of ?_⟩, othersKept_of ?_⟩
    · rw [List.all_eq_true]
      intro n hn
      exact (List.mem_filter.mp hn).2
    · intro n hn hne
      exact List.mem_filter.mpr ⟨hn, by simpa using hne⟩
    · intro n hn _
      exact (List.mem_filter.mp hn).1
  | markActive id => simp [obs, obsWith, step, stepWith]
  | markInactive id => simp [obs, obsWith, step, stepWith]
  | role id r => simp [obs, obsWith, step, stepWith]
  | updateConfig ns =>
    simp only [obs, obsWith, step, stepWith]
    split <;> simp

/-- … in particular after `ClusterManager::new` and any history over probed ids. -/
theorem C33_reachable_roles_unique (ns : List NodeCfg) (rf : Nat) (s : State)
    (h : mk ns rf = some s) (ops : List Op) : KeysNodup (run s ops).roles :=
  keysNodup_run (keysNodup_mk h) ops

/-! ### The pinned tree violated the property (witness replayed by the corpus) -/

/-- configuration `[1,1,2]` (id 1 added twice), only node 1 active and leader: the pinned
`health_status` says healthy although 1 of the 2 distinct voters is active. -/
theorem C33_counterexample_duplicate_voter :
    let s : State := { nodes := [⟨1, true⟩, ⟨1, true⟩, ⟨2, true⟩], active := [1],
                       roles := [(2, .follower), (1, .leader)] }
    (healthLegacy s).healthy = true
    ∧ ¬ ((voterIds s.nodes).length < 2 * ((voterIds s.nodes).filter (fun i => i ∈ s.active)).length)
    ∧ specObs (obsWith healthLegacy s true) = false := by decide

/-- the pinned `add_node` is what produces that configuration -/
theorem C33_counterexample_add_node_duplicates :
    ¬ Distinct ([(1, true), (1, true), (2, true)].foldl (fun ns a => cfgAddLegacy ns a.1 a.2) []) := by
  unfold Distinct; decide

/-! ### Non-vacuity -/

example : ([(1, true), (1, true), (2, true)].foldl (fun ns a => cfgAdd ns a.1 a.2) [])
    = [⟨1, true⟩, ⟨2, true⟩] := by decide

example : (health { nodes := [⟨1, true⟩, ⟨1, true⟩, ⟨2, true⟩], active := [1],
                    roles := [(2, .follower), (1, .leader)] }).healthy = false := by decide

example : (health { nodes := [⟨1, true⟩, ⟨2, true⟩, ⟨3, true⟩, ⟨4, false⟩], active := [1, 3, 4],
                    roles := [(3, .leader)] }).healthy = true := by decide

/-- two healthy views of one 3-voter configuration ({1,2} and {2,3}) meet in node 2 -/
example : ∃ n, n ∈ voterIds [⟨1, true⟩, ⟨2, true⟩, ⟨3, true⟩] ∧ n ∈ [1, 2] ∧ n ∈ [2, 3] :=
  C33_quorum_intersection
    { nodes := [⟨1, true⟩, ⟨2, true⟩, ⟨3, true⟩], active := [1, 2], roles := [(1, .leader)] }
    { nodes := [⟨1, true⟩, ⟨2, true⟩, ⟨3, true⟩], active := [2, 3], roles := [(1, .leader)] }
    rfl (by decide) (by decide)

end SgModel.Quorum
