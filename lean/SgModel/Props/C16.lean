import SgModel.Lemmas.Persist
/-!
# C16 — recovery returns exactly the acknowledged persisted state

Property theorems only (helpers in `Lemmas/Persist.lean`).  The crash model is **process
death**: RocksDB's content survives (`crash` keeps `kv`), the usage counters and the
buffered WAL do not.  Every theorem quantifies over all operation sequences, all crash
points `k` (the index of the hook point at which the process dies, over the whole run) and
all tenant registrations `cfg` that `recover` accepts; nothing is bounded.
`…_counterexample…` theorems refute the statement for the model of the pinned tree.
-/
namespace SgModel.Persist

/-- **The property.**  Whatever the operations and wherever the process dies, `recover` on
a fresh manager returns the effect of the acknowledged operations (those whose call
returned `Ok` before the crash), or of those plus the one call in flight — applied
atomically: there is no third possibility. -/
theorem C16_recover_acked_or_inflight (cfg : Cfg) (ops : List Op) (k : Nat) (st : State) (kv : KV)
    (hrec : recover cfg (crash (crashRun fixed cfg ops k {}).state) = .ok (st, kv)) :
    let o := crashRun fixed cfg ops k {}
    let base := KV.applyAll {} (ackedOk ops o.acked)
    (o.inflight = none → kv = base)
    ∧ (∀ op, o.inflight = some op →
        ops[o.acked.length]? = some op ∧ (kv = base ∨ kv = base.apply op)) := by
  intro o base
  have hreg : cfg.registered = true := by
    cases hr : cfg.registered with
    | true => rfl
    | false => simp [recover, hr] at hrec
  have hkv : kv = o.state.kv := by
    simp [recover, hreg, crash] at hrec
    exact hrec.2.symm
  have hs := crashRun_spec cfg hreg ops k {}
  subst hkv
  exact ⟨hs.2.1, hs.2.2⟩

/-- The store changes in exactly one micro-step of a call: along the hook points of one
call the store is first the old one, then the new one, and never anything else. -/
theorem C16_kv_changes_in_one_microstep (cfg : Cfg) (h : cfg.registered = true) (op : Op) (s : State) :
    ∃ a b, (traceOp fixed cfg op s).mids.map (fun m => m.2.kv)
        = List.replicate a s.kv ++ List.replicate b (s.kv.apply op) := by
  rw [traceOp_fixed cfg h]
  cases hk : op.kind
  · cases hq : quotaOf cfg op s
    · exact ⟨3, 2, by simp [List.replicate]⟩
    · exact ⟨1, 0, by simp [List.replicate]⟩
  · exact ⟨2, 2, by simp [List.replicate]⟩
  · exact ⟨2, 1, by simp [List.replicate]⟩

/-- A call that returns an error (tenant disabled, quota exceeded) leaves nothing behind:
the whole state — store, WAL, usage — is what it was, at every point of the call. -/
theorem C16_failed_call_leaves_nothing (cfg : Cfg) (h : cfg.registered = true) (op : Op) (s : State)
    (hr : (traceOp fixed cfg op s).result ≠ .ok) :
    (traceOp fixed cfg op s).final = s ∧ ∀ m ∈ (traceOp fixed cfg op s).mids, m.2 = s :=
  (trace_kv cfg h op s).2.1 hr

/-- Without a crash the store holds the effect of every call that returned `Ok`. -/
theorem C16_clean_run (cfg : Cfg) (h : cfg.registered = true) (ops : List Op) (s : State) :
    (runAll fixed cfg ops s).kv = KV.applyAll s.kv (ackedOk ops (results fixed cfg ops s)) := by
  induction ops generalizing s with
  | nil => rfl
  | cons op rest ih =>
    have hkv := trace_kv cfg h op s
    show (runAll fixed cfg rest (traceOp fixed cfg op s).final).kv
        = KV.applyAll s.kv (ackedOk (op :: rest)
            ((traceOp fixed cfg op s).result :: results fixed cfg rest (traceOp fixed cfg op s).final))
    rw [ih]
    cases hr : (traceOp fixed cfg op s).result with
    | ok =>
      simp only [ackedOk, Res.isOk, if_true, applyAll_cons]
      rw [hkv.1 hr]
    | err e =>
      have hne : (traceOp fixed cfg op s).result ≠ .ok := by rw [hr]; simp
      simp only [ackedOk, Res.isOk, Bool.false_eq_true, if_false]
      rw [(hkv.2.1 hne).1]

/-- An acknowledged property update of a stored node is what `recover` returns after a
restart (the pinned tree lost it: the update went to the WAL only). -/
theorem C16_update_visible_after_recover (cfg : Cfg) (h : cfg.registered = true) (s : State)
    (id : Nat) (ps : Props) (v : NodeVal) (hv : get s.kv.nodes id = some v) :
    (traceOp fixed cfg (.updateNode id ps) s).result = .ok
    ∧ ∃ st kv, recover cfg (crash (traceOp fixed cfg (.updateNode id ps) s).final) = .ok (st, kv)
        ∧ get kv.nodes id = some { v with props := ps } := by
  rw [traceOp_fixed cfg h]
  simp only [Op.kind]
  refine ⟨by trivial, _, _, by unfold recover; rw [h]; rfl, ?_⟩
  simp [crash, KV.apply, hv, get_put_self]

theorem C16_update_edge_visible_after_recover (cfg : Cfg) (h : cfg.registered = true) (s : State)
    (id : Nat) (ps : Props) (v : EdgeVal) (hv : get s.kv.edges id = some v) :
    (traceOp fixed cfg (.updateEdge id ps) s).result = .ok
    ∧ ∃ st kv, recover cfg (crash (traceOp fixed cfg (.updateEdge id ps) s).final) = .ok (st, kv)
        ∧ get kv.edges id = some { v with props := ps } := by
  rw [traceOp_fixed cfg h]
  simp only [Op.kind]
  refine ⟨by trivial, _, _, by unfold recover; rw [h]; rfl, ?_⟩
  simp [crash, KV.apply, hv, get_put_self]

/-- The model satisfies the executable specification that the harness evaluates on the
implementation's observations: for every registration, operation sequence and crash point. -/
theorem C16_model_refines_spec (cfg : Cfg) (ops : List Op) (k : Nat) (o : CrashObs)
    (ho : crashObs fixed cfg ops k = some o) : specCrash ops o = true := by
  unfold crashObs at ho
  simp only [fixed_recover] at ho
  cases hrec : recover cfg (crash (crashRun fixed cfg ops k {}).state) with
  | error e => simp [hrec] at ho
  | ok p =>
    obtain ⟨st, kv⟩ := p
    simp only [hrec, Option.some.injEq] at ho
    have hreg : cfg.registered = true := by
      cases hr : cfg.registered with
      | true => rfl
      | false => simp [recover, hr] at hrec
    have hs := crashRun_spec cfg hreg ops k {}
    have hmain := C16_recover_acked_or_inflight cfg ops k st kv hrec
    subst ho
    simp only [specCrash, Bool.and_eq_true, decide_eq_true_eq, Bool.or_eq_true, beq_iff_eq]
    refine ⟨hs.1, ?_⟩
    cases hi : (crashRun fixed cfg ops k {}).inflight with
    | none => exact Or.inl (hmain.1 hi)
    | some op =>
      have := hmain.2 op hi
      rcases this.2 with hb | hb
      · exact Or.inl hb
      · refine Or.inr ⟨by simp, ?_⟩
        rw [this.1]
        simpa using hb

/-! ### The pinned tree violated the property (witnesses replayed by the corpus) -/

/-- create node 1, update its properties, clean shutdown: the recovered node still has the
old (empty) property map although the update was acknowledged. -/
theorem C16_counterexample_update :
    ∃ o, crashObs legacy {} [.createNode 1 [1] [], .updateNode 1 [(1, 7)]] 99 = some o
      ∧ o.results = [.ok, .ok] ∧ specCrash [.createNode 1 [1] [], .updateNode 1 [(1, 7)]] o = false := by
  refine ⟨_, rfl, ?_, ?_⟩ <;> decide

theorem C16_counterexample_update_edge :
    ∃ o, crashObs legacy {} [.createEdge 1 1 2 1 [], .updateEdge 1 [(1, 7)]] 99 = some o
      ∧ o.results = [.ok, .ok] ∧ specCrash [.createEdge 1 1 2 1 [], .updateEdge 1 [(1, 7)]] o = false := by
  refine ⟨_, rfl, ?_, ?_⟩ <;> decide

/-! ### Non-vacuity -/

/-- the same history on the repaired model: the update is recovered -/
example : (crashObs fixed {} [.createNode 1 [1] [], .updateNode 1 [(1, 7)]] 99).map (·.recovered)
    = some { nodes := [(1, ⟨[1], [(1, 7)]⟩)], edges := [] } := by decide

/-- a crash strictly inside a call, after the storage write and before the usage update:
the in-flight create is recovered (and not acknowledged) -/
example : crashObs fixed {} [.createNode 1 [1] [], .createNode 2 [] [(2, 3)]] 8
    = some ⟨[.ok], true, { nodes := [(1, ⟨[1], []⟩), (2, ⟨[], [(2, 3)]⟩)], edges := [] }⟩ := by decide

/-- … and one hook point earlier (after the WAL append, before the storage write) it is not -/
example : crashObs fixed {} [.createNode 1 [1] [], .createNode 2 [] [(2, 3)]] 7
    = some ⟨[.ok], true, { nodes := [(1, ⟨[1], []⟩)], edges := [] }⟩ := by decide

/-- a refused create (quota 1) between two accepted operations -/
example : (crashObs fixed { maxNodes := some 1 }
      [.createNode 1 [] [], .createNode 2 [] [], .deleteNode 1, .createNode 2 [] []] 99).map (·.results)
    = some [.ok, .err .quota, .ok, .ok] := by decide

end SgModel.Persist
