import SgModel.Lemmas.IterRat
import SgModel.Lemmas.AlgoView
/-!
# C27 — iterative graph algorithms follow their specified iteration

Property theorems only (helpers: `Lemmas/Iter.lean`, `Lemmas/IterRat.lean`).  The PageRank
iteration is one definition (`SgModel.Iter.prStep` / `pageRank`) over core Lean's exact
rationals `Rat`; the theorems hold for every view, every damping factor, iteration count and
tolerance (the early exit is covered: invariants are proved for the loop as written).  CDLP is
over natural-number labels.  "Independent of thread count" is, at model level, the fact that
a synchronous round reads only the old vector, so that any order / partition of the node
updates produces the same result.

NOT covered by any theorem (runtime part, labelled partial in `props/C27.json`): `f64`
round-off and rayon's summation order for n ≥ 1000 — the harness compares the implementation's
scores with this exact iteration within 1e-9.
-/
namespace SgModel.Iter
open SgModel.Algo

/-! ## PageRank -/

/-- `pr_sum_one`: with dangling redistribution on a well-formed view the scores sum to 1,
after any number of iterations, for any damping factor and tolerance -/
theorem C27_pr_sum_one (vw : View) (hw : WellFormed vw) (hn : vw.n ≠ 0) (cfg : PrConfig)
    (hd : cfg.dangling = true) : vsum vw (pageRank vw cfg) = 1 := by
  apply prLoop_invariant vw cfg (fun s => vsum vw s = 1)
  · intro s hs
    rw [vsum_prStep hw hn, hd, if_pos rfl, mass_split, hs]
    grind
  · exact vsum_prInit hn

/-- one round maps non-negative vectors of mass ≤ 1 to such vectors (no redistribution needed) -/
theorem pr_step_bounded (vw : View) (hw : WellFormed vw) (hn : vw.n ≠ 0) (cfg : PrConfig)
    (hd0 : 0 ≤ cfg.d) (hd1 : cfg.d ≤ 1) (s : List Rat)
    (hs : (∀ i, 0 ≤ sget s i) ∧ vsum vw s ≤ 1) :
    (∀ i, 0 ≤ sget (prStep vw cfg s) i) ∧ vsum vw (prStep vw cfg s) ≤ 1 := by
  constructor
  · intro i
    by_cases hi : i < vw.n
    · rw [sget_prStep hi]; exact prNext_nonneg hn cfg hd0 hd1 s hs.1 i
    · have : (prStep vw cfg s)[i]? = none := by
        rw [List.getElem?_eq_none_iff, length_prStep]; omega
      simp only [sget, List.getD_eq_getElem?_getD, this, Option.getD_none]
      exact Rat.le_refl
  · rw [vsum_prStep hw hn]
    have hnd : rsum (List.range vw.n) (fun u => if vw.outDeg u = 0 then 0 else sget s u) ≤ vsum vw s := by
      apply rsum_le
      intro u _
      split
      · exact hs.1 u
      · exact Rat.le_refl
    have hdm : 0 ≤ danglingMass vw s := by
      apply rsum_nonneg
      intro u _
      split
      · exact hs.1 u
      · exact Rat.le_refl
    have hsplit := mass_split vw s
    have hle : rsum (List.range vw.n) (fun u => if vw.outDeg u = 0 then 0 else sget s u)
        + (if cfg.dangling then danglingMass vw s else 0) ≤ 1 := by
      split <;> grind
    have := Rat.mul_le_mul_of_nonneg_left hle hd0
    grind

/-- `pr_nonneg`: for 0 ≤ d ≤ 1 every score is non-negative -/
theorem C27_pr_nonneg (vw : View) (hw : WellFormed vw) (hn : vw.n ≠ 0) (cfg : PrConfig)
    (hd0 : 0 ≤ cfg.d) (hd1 : cfg.d ≤ 1) : ∀ i, 0 ≤ sget (pageRank vw cfg) i := by
  have := prLoop_invariant vw cfg (fun s => (∀ i, 0 ≤ sget s i) ∧ vsum vw s ≤ 1)
    (fun s hs => pr_step_bounded vw hw hn cfg hd0 hd1 s hs) cfg.iterations (prInit vw) ?_
  · exact this.1
  · constructor
    · intro i
      by_cases hi : i < vw.n
      · rw [sget_prInit hi]
        exact div_nonneg' (by grind) (Rat.natCast_pos.mpr (by omega))
      · simp [sget, prInit, List.getD_eq_getElem?_getD, hi] <;> exact Rat.le_refl
    · rw [vsum_prInit hn]; exact Rat.le_refl

/-- `pr_sum_le_one`: without redistribution (and in general) the scores sum to at most 1 -/
theorem C27_pr_sum_le_one (vw : View) (hw : WellFormed vw) (hn : vw.n ≠ 0) (cfg : PrConfig)
    (hd0 : 0 ≤ cfg.d) (hd1 : cfg.d ≤ 1) : vsum vw (pageRank vw cfg) ≤ 1 := by
  have := prLoop_invariant vw cfg (fun s => (∀ i, 0 ≤ sget s i) ∧ vsum vw s ≤ 1)
    (fun s hs => pr_step_bounded vw hw hn cfg hd0 hd1 s hs) cfg.iterations (prInit vw) ?_
  · exact this.2
  · constructor
    · intro i
      by_cases hi : i < vw.n
      · rw [sget_prInit hi]
        exact div_nonneg' (by grind) (Rat.natCast_pos.mpr (by omega))
      · simp [sget, prInit, List.getD_eq_getElem?_getD, hi] <;> exact Rat.le_refl
    · rw [vsum_prInit hn]; exact Rat.le_refl

/-- `pr_order_independent`: a round written node by node into a buffer in **any** order (any
schedule of a thread pool; repeats allowed) equals the round computed in index order, because
every update reads only the old vector -/
theorem C27_pr_order_independent (vw : View) (cfg : PrConfig) (s : List Rat) (order : List Nat)
    (buf : List Rat) (hlen : buf.length = vw.n) (hall : ∀ i, i < vw.n → i ∈ order) :
    writeAll (prNext vw cfg s) order buf = prStep vw cfg s :=
  writeAll_eq_map _ _ _ _ hlen hall

/-- the mass balance of one round, the identity behind both sum theorems -/
theorem C27_pr_round_mass (vw : View) (hw : WellFormed vw) (hn : vw.n ≠ 0) (cfg : PrConfig) (s : List Rat) :
    vsum vw (prStep vw cfg s)
      = (1 - cfg.d) + cfg.d * (vsum vw s - (if cfg.dangling then 0 else danglingMass vw s)) := by
  rw [vsum_prStep hw hn, ← mass_split vw s]
  split <;> grind

/-! ## CDLP -/

/-- the chosen label is a most frequent one and the smallest among those -/
theorem C27_cdlp_mode_spec (l : List Nat) (m : Nat) (h : mode l = some m) :
    m ∈ l ∧ ∀ x ∈ l, l.count x < l.count m ∨ (l.count x = l.count m ∧ m ≤ x) :=
  mode_isMode h

/-- `cdlp_mode_perm_invariant`: the mode does not depend on the order in which the neighbour
labels are met (`HashMap` iteration order, successor/predecessor order) -/
theorem C27_cdlp_mode_perm_invariant (l₁ l₂ : List Nat) (hp : l₁.Perm l₂) : mode l₁ = mode l₂ :=
  mode_perm hp

/-- hence a round depends on the neighbour lists only as multisets -/
theorem C27_cdlp_round_neighbour_order (vw vw' : View) (labels : List Nat) (hn : vw.n = vw'.n)
    (hp : ∀ v, v < vw.n → (vw.succ v ++ vw.pred v).Perm (vw'.succ v ++ vw'.pred v)) :
    cdlpStep vw labels = cdlpStep vw' labels := by
  unfold cdlpStep
  rw [← hn]
  apply List.map_congr_left
  intro v hv
  unfold cdlpNext
  rw [mode_perm ((hp v (List.mem_range.mp hv)).map (lget labels))]

/-- `cdlp_sync_order_independent`: the synchronous round computed in any node order / by any
partition of the nodes over threads is the round computed in index order -/
theorem C27_cdlp_sync_order_independent (vw : View) (labels : List Nat) (order : List Nat)
    (buf : List Nat) (hlen : buf.length = vw.n) (hall : ∀ i, i < vw.n → i ∈ order) :
    writeAll (cdlpNext vw labels) order buf = cdlpStep vw labels :=
  writeAll_eq_map _ _ _ _ hlen hall

/-- the loop stops exactly at a fixpoint or when the iteration budget is used up -/
theorem C27_cdlp_stops_at_fixpoint (vw : View) : ∀ (k : Nat) (labels : List Nat) (it : Nat),
    let r := cdlpLoop vw k labels it
    r.2 ≤ it + k ∧ (r.2 < it + k → cdlpStep vw r.1 = r.1) := by
  intro k
  induction k with
  | zero => intro labels it; simp [cdlpLoop]
  | succ k ih =>
    intro labels it
    simp only [cdlpLoop]
    split
    · rename_i hfix
      refine ⟨by omega, fun _ => ?_⟩
      rw [hfix]; exact hfix
    · have := ih (cdlpStep vw labels) (it + 1)
      refine ⟨by omega, fun h => this.2 (by omega)⟩

/-! ## the model satisfies the executable specification -/

theorem lget_cdlpStep {vw : View} {labels : List Nat} {v : Nat} (hv : v < vw.n) :
    lget (cdlpStep vw labels) v = cdlpNext vw labels v := by
  simp [lget, cdlpStep, List.getD_eq_getElem?_getD, List.getElem?_map, List.getElem?_range hv]

/-- every synchronous round of the model is an LDBC round in the sense of `specCdlpRound`
(the predicate the harness evaluates on the implementation's labels) -/
theorem C27_model_refines_spec (vw : View) (labels : List Nat) :
    specCdlpRound vw labels (cdlpStep vw labels) = true := by
  simp only [specCdlpRound, Bool.and_eq_true, beq_iff_eq, List.all_eq_true, List.mem_range]
  refine ⟨by simp [cdlpStep], ?_⟩
  intro v hv
  rw [lget_cdlpStep hv]
  unfold cdlpNext
  cases hm : mode ((vw.succ v ++ vw.pred v).map (lget labels)) with
  | none =>
    have := mode_eq_none_iff.mp hm
    simp [this]
  | some m =>
    have hne : ((vw.succ v ++ vw.pred v).map (lget labels)) ≠ [] := by
      intro h; rw [h] at hm; cases hm
    have hmode := mode_isMode hm
    have : ((vw.succ v ++ vw.pred v).map (lget labels)).isEmpty = false := by
      cases h : (vw.succ v ++ vw.pred v).map (lget labels) with
      | nil => exact absurd h hne
      | cons => rfl
    simp only [this, Bool.false_eq_true, if_false, Bool.and_eq_true, decide_eq_true_eq,
      List.all_eq_true, Bool.or_eq_true, beq_iff_eq]
    refine ⟨hmode.1, ?_⟩
    intro x hx
    rcases hmode.2 x hx with h | ⟨h1, h2⟩
    · exact Or.inl h
    · exact Or.inr ⟨h1, h2⟩

/-- the PageRank model meets the numeric specification exactly (ε = 0) in its sum form -/
theorem C27_pr_model_refines_spec (vw : View) (hw : WellFormed vw) (hn : vw.n ≠ 0) (cfg : PrConfig)
    (hd0 : 0 ≤ cfg.d) (hd1 : cfg.d ≤ 1) :
    (∀ i, 0 ≤ sget (pageRank vw cfg) i)
    ∧ (if cfg.dangling then vsum vw (pageRank vw cfg) = 1 else vsum vw (pageRank vw cfg) ≤ 1) := by
  refine ⟨C27_pr_nonneg vw hw hn cfg hd0 hd1, ?_⟩
  split
  · rename_i h; exact C27_pr_sum_one vw hw hn cfg h
  · exact C27_pr_sum_le_one vw hw hn cfg hd0 hd1

/-! ## hypotheses are satisfiable / concrete instances -/

/-- a 4-node view with a dangling node (3), a mutual pair (0,1) and a cycle -/
example : WellFormed (ofEdges 4 [(0, 1, 1), (1, 0, 1), (1, 2, 1), (2, 0, 1), (2, 3, 1)]) :=
  wellFormed_ofEdges (by decide)
example : (cdlp (ofEdges 4 [(0, 1, 1), (1, 2, 1), (2, 0, 1), (2, 3, 1)]) [7, 10, 13, 16] 10) = ([7, 7, 7, 7], 3) := by
  decide +kernel
/-- ties go to the smallest label, frequency first -/
example : mode [5, 3, 5, 3, 9] = some 3 ∧ mode [9, 9, 3] = some 9 := by decide
/-- without redistribution mass is really lost at a dangling node: the bound is not an equality -/
example : vsum (ofEdges 2 [(0, 1, 1)])
    (pageRank (ofEdges 2 [(0, 1, 1)]) { d := 1, iterations := 1, tol := 0, dangling := false }) = 1 / 2 := by
  decide +kernel

end SgModel.Iter
