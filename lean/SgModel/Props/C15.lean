import SgModel.Lemmas.Wal
/-!
# C15 — the WAL replays exactly the durable prefix, in order

Property theorems only (helpers: `Lemmas/Wal.lean`; model: `Model/Wal.lean`).

Everything is stated for `Mode.fixed` (the code after the three `fix:` commits) and for an
**arbitrary** bincode decoder `dec` that satisfies the contract `WFEntry` on the entries that
were appended (deterministic and self-delimiting: reading an entry back from any slice that
starts with its encoding consumes exactly that encoding).  On *damaged* bytes nothing is
assumed of `dec`.  Quantification is over all histories / all byte offsets / all masks; the
only size hypotheses are those of the on-disk format (`u64` counter, `u32` frame length).

What the checksum covers, precisely: the XOR of the **entry bytes**, compared with the
4-byte stored checksum; together with the frame-size check of fix #3 this protects every
byte of `entry ++ checksum` against any single-byte change (`C15_flip_*_detected`).  It does
**not** cover the 8-byte sequence field (`C15_counterexample_seqflip_undetected`, a known
finding: repairing it changes the on-disk format that ADR-023 versions) nor the 4-byte
length prefix (a changed prefix is either caught by the frame-size check / the decoder, or
makes the record look torn).
-/
namespace SgModel.Wal

/-- records `q+1, q+2, …` for the entries `es` — what consecutive `append`s write -/
def number (q : Nat) : List Bytes → List Rec
  | [] => []
  | e :: es => ⟨q + 1, e⟩ :: number (q + 1) es

theorem number_entries : ∀ (q : Nat) (es : List Bytes), (number q es).map (·.entry) = es
  | _, [] => rfl
  | q, e :: es => by simp [number, number_entries (q + 1) es]

theorem number_seqs : ∀ (q : Nat) (es : List Bytes),
    (number q es).map (·.seq) = (List.range es.length).map (fun i => q + 1 + i)
  | _, [] => rfl
  | q, e :: es => by
    simp only [number, List.map_cons, List.length_cons, List.range_succ_eq_map, number_seqs (q + 1) es,
      List.map_map]
    simp only [List.cons.injEq, Nat.add_zero, true_and]
    apply List.map_congr_left; intro i _; simp; omega

theorem foldl_append_cur : ∀ (es : List Bytes) (s : State) (f : File), s.cur = some f →
    (es.foldl append s).cur = some ⟨f.name, f.data ++ frames (number s.seq es)⟩
      ∧ (es.foldl append s).closed = s.closed ∧ (es.foldl append s).seq = s.seq + es.length
  | [], s, f, h => by simp [number, frames, h]
  | e :: es, s, f, h => by
    have h1 : (append s e).cur = some ⟨f.name, f.data ++ frame ⟨s.seq + 1, e⟩⟩ := by simp [append, h]
    have := foldl_append_cur es (append s e) _ h1
    simp only [List.foldl_cons, number, frames, append_seq] at this ⊢
    refine ⟨by rw [this.1]; simp, by rw [this.2.1]; simp [append], by rw [this.2.2]; simp; omega⟩

/-- **Replay of an appended log returns every record, in append order, numbered 1, 2, 3, ….**
(`step … (.append e)` does not depend on the mode or the decoder.) -/
theorem C15_replay_append_all (dec : Dec) (e : Bytes) (es : List Bytes)
    (hw : ∀ x ∈ e :: es, WFEntry dec x) (hN : (e :: es).length < 256 ^ 8) :
    let p := replayDir Mode.fixed dec (image (run Mode.fixed dec ((e :: es).map Op.append)))
    p.2 = End.ok ∧ p.1.map (·.entry) = e :: es
      ∧ p.1.map (·.seq) = (List.range (e :: es).length).map (· + 1) := by
  have hrun : run Mode.fixed dec ((e :: es).map Op.append) = (e :: es).foldl append {} := by
    simp only [run, List.foldl_map]; rfl
  have h1 : (append {} e).cur = some ⟨1, frame ⟨1, e⟩⟩ := by simp [append]
  have h2 := foldl_append_cur es (append {} e) _ h1
  have himg : image (run Mode.fixed dec ((e :: es).map Op.append)) = [frames (number 0 (e :: es))] := by
    rw [hrun]; simp only [List.foldl_cons, image, dir, h2.1, h2.2.1]
    simp [append, number, frames]
  have hwf : ∀ r ∈ number 0 (e :: es), WFRec dec r := by
    intro r hr
    have hs : r.seq ∈ (number 0 (e :: es)).map (·.seq) := List.mem_map.mpr ⟨r, hr, rfl⟩
    have he : r.entry ∈ (number 0 (e :: es)).map (·.entry) := List.mem_map.mpr ⟨r, hr, rfl⟩
    rw [number_seqs] at hs; rw [number_entries] at he
    simp only [List.mem_map, List.mem_range] at hs
    obtain ⟨i, hi, hq⟩ := hs
    exact ⟨by omega, (hw _ he).1, (hw _ he).2⟩
  intro p
  have hp : p = (number 0 (e :: es), End.ok) := by
    show replayDir Mode.fixed dec (image _) = _
    rw [himg]
    have := replay_frames (m := Mode.fixed) rfl (number 0 (e :: es)) [] hwf torn_nil
    simp only [List.append_nil] at this
    simp [replayDir, this]
  rw [hp]
  refine ⟨rfl, number_entries _ _, ?_⟩
  rw [number_seqs]; apply List.map_congr_left; intro i _; omega

/-- **Truncation at every byte offset**: replaying the first `k` bytes of a log image succeeds
and returns exactly the records that are complete within `k` bytes — a prefix of the
appended records, and the maximal one. -/
theorem C15_replay_truncate (dec : Dec) (rs : List Rec) (hw : ∀ r ∈ rs, WFRec dec r) (k : Nat) :
    let n := fitCount rs k
    replay Mode.fixed dec ((frames rs).take k) = (rs.take n, End.ok)
      ∧ n ≤ rs.length
      ∧ (frames (rs.take n)).length ≤ k
      ∧ (n < rs.length → k < (frames (rs.take (n + 1))).length) :=
  ⟨replay_take rfl rs hw k, fitCount_le rs k, fit_le rs k, fit_max rs k⟩

/-- Durability of what was flushed: once `m` bytes holding `j` whole records are on disk, every
longer prefix of the image replays at least those `j` records (as a prefix of the result). -/
theorem C15_flushed_records_survive (dec : Dec) (rs : List Rec) (hw : ∀ r ∈ rs, WFRec dec r)
    (j k : Nat) (hj : j ≤ rs.length) (hk : (frames (rs.take j)).length ≤ k) :
    ∃ n, j ≤ n ∧ replay Mode.fixed dec ((frames rs).take k) = (rs.take n, End.ok) := by
  refine ⟨fitCount rs k, ?_, replay_take rfl rs hw k⟩
  apply Nat.le_of_not_lt; intro hlt
  have hmax := fit_max rs k (by omega)
  have : (frames (rs.take (fitCount rs k + 1))).length ≤ (frames (rs.take j)).length := by
    have hsplit : rs.take j = rs.take (fitCount rs k + 1) ++ (rs.take j).drop (fitCount rs k + 1) := by
      have := List.take_append_drop (fitCount rs k + 1) (rs.take j)
      rw [List.take_take, Nat.min_eq_left (by omega)] at this
      exact this.symm
    rw [hsplit, frames_append]; simp
  omega

/-- **Strictly increasing sequences over any history** of appends, flushes, checkpoints,
reopens, crashes (with any number of bytes of the open file surviving) and sync-mode
switches: the directory on disk replays without error, the sequences come out strictly
increasing in replay order, and none exceeds the writer's counter — so the next `append`
(numbered `counter + 1`) is again strictly larger. -/
theorem C15_seq_strict_across_history (dec : Dec) (ops : List Op) (hN : ops.length < 256 ^ 8)
    (he : ∀ e ∈ opEntries ops, WFEntry dec e) :
    let s := run Mode.fixed dec ops
    let p := replayDir Mode.fixed dec (image s)
    p.2 = End.ok ∧ (p.1.map (·.seq)).Pairwise (· < ·) ∧ ∀ r ∈ p.1, r.seq ≤ s.seq := by
  intro s p
  have hinv : Inv dec s := inv_run ops hN he
  have hp : p = (((dir s).map (recsOf dec)).flatten, End.ok) :=
    replayDir_good (m := Mode.fixed) rfl (dir s) (fun f hf => (hinv.ok.1 f hf).1)
  rw [hp]
  exact ⟨rfl, seqs_sorted _ _ hinv.ok, seqs_le hinv.ok⟩

/-- … and `Wal::new` on that directory resumes at or above every sequence on disk. -/
theorem C15_reopen_resumes_above (dec : Dec) (ops : List Op) (hN : ops.length < 256 ^ 8)
    (he : ∀ e ∈ opEntries ops, WFEntry dec e) :
    let s := run Mode.fixed dec ops
    ∀ r ∈ (replayDir Mode.fixed dec (image s)).1, r.seq ≤ findLatest Mode.fixed dec (dir s) := by
  intro s
  have hinv : Inv dec s := inv_run ops hN he
  have hp : replayDir Mode.fixed dec (image s) = (((dir s).map (recsOf dec)).flatten, End.ok) :=
    replayDir_good (m := Mode.fixed) rfl (dir s) (fun f hf => (hinv.ok.1 f hf).1)
  rw [hp]
  exact seqs_le (dirOK_findLatest hinv.ok).1

theorem replay_pre_then {dec : Dec} (pre : List Rec) (hw : ∀ r ∈ pre, WFRec dec r) (rest : Bytes)
    (P : List Rec × End → Prop)
    (h : ∀ fuel, P (pre ++ (replayFile Mode.fixed dec (fuel + 1) rest).1,
        (replayFile Mode.fixed dec (fuel + 1) rest).2)) :
    P (replay Mode.fixed dec (frames pre ++ rest)) := by
  have hlen := frames_length_ge pre
  have : (frames pre ++ rest).length + 1 = pre.length + (((frames pre ++ rest).length - pre.length) + 1) := by
    simp only [List.length_append]; omega
  unfold replay
  rw [this, replayFile_frames_then pre hw]
  exact h _

/-- **A single changed byte inside the entry is reported**: after any intact records `pre`,
a record whose entry byte `b` became `b ^^^ mask` (`mask ≠ 0`, any position) stops the replay
with an error; exactly `pre` has been delivered, the damaged record and everything after it
is not.  No assumption on what bincode makes of the damaged entry. -/
theorem C15_flip_entry_detected (dec : Dec) (pre : List Rec) (hw : ∀ r ∈ pre, WFRec dec r)
    (q : Nat) (a c : Bytes) (b mask : UInt8) (hm : mask ≠ 0) (post : Bytes)
    (hL : (a ++ b :: c).length + 12 < 256 ^ 4) :
    ∃ err, err ≠ End.ok ∧
      replay Mode.fixed dec (frames pre ++
        (le 4 ((a ++ b :: c).length + 12) ++
          (le 8 q ++ ((a ++ (b ^^^ mask) :: c) ++ le 4 (cksum (a ++ b :: c)))) ++ post))
        = (pre, err) := by
  have hlen : (a ++ b :: c).length = (a ++ (b ^^^ mask) :: c).length := by simp
  apply replay_pre_then pre hw _ (fun p => ∃ err, err ≠ End.ok ∧ p = (pre, err))
  intro fuel
  rw [hlen] at hL ⊢
  obtain ⟨err, h1, h2⟩ := replayFile_badck (m := Mode.fixed) rfl dec q (a ++ (b ^^^ mask) :: c)
    (le 4 (cksum (a ++ b :: c))) post fuel hL (le_length 4 _)
    (by rw [fromLE_le 4 _ (cksum_lt _)]; exact cksum_flip a c b mask hm)
  exact ⟨err, h1, by rw [h2]; simp⟩

/-- **A single changed byte inside the stored checksum is reported**, likewise. -/
theorem C15_flip_cksum_detected (dec : Dec) (pre : List Rec) (hw : ∀ r ∈ pre, WFRec dec r)
    (q : Nat) (e x z : Bytes) (y mask : UInt8) (hm : mask ≠ 0) (post : Bytes)
    (hL : e.length + 12 < 256 ^ 4) (hck : le 4 (cksum e) = x ++ y :: z) :
    ∃ err, err ≠ End.ok ∧
      replay Mode.fixed dec (frames pre ++
        (le 4 (e.length + 12) ++ (le 8 q ++ (e ++ (x ++ (y ^^^ mask) :: z))) ++ post))
        = (pre, err) := by
  have hl4 : (x ++ (y ^^^ mask) :: z).length = 4 := by
    have := congrArg List.length hck; simp [le_length] at this ⊢; omega
  apply replay_pre_then pre hw _ (fun p => ∃ err, err ≠ End.ok ∧ p = (pre, err))
  intro fuel
  obtain ⟨err, h1, h2⟩ := replayFile_badck (m := Mode.fixed) rfl dec q e
    (x ++ (y ^^^ mask) :: z) post fuel hL hl4 (by
      intro heq
      have h3 : fromLE (x ++ (y ^^^ mask) :: z) = fromLE (le 4 (cksum e)) := by
        rw [heq, fromLE_le 4 _ (cksum_lt _)]
      have h4 := fromLE_inj _ _ (by rw [hl4, le_length]) h3
      rw [hck] at h4
      have h5 := List.append_cancel_left h4
      simp only [List.cons.injEq] at h5
      have h6 : y ^^^ (y ^^^ mask) = y ^^^ y := by rw [h5.1]
      rw [← UInt8.xor_assoc, UInt8.xor_self, UInt8.zero_xor] at h6
      exact hm h6)
  exact ⟨err, h1, by rw [h2]; simp⟩

/-! ### the model satisfies the executable specification -/

theorem strictIncr_iff : ∀ (l : List Nat), strictIncr l = true ↔ l.Pairwise (· < ·)
  | [] => by simp [strictIncr]
  | [a] => by simp [strictIncr]
  | a :: b :: rest => by
    have ih := strictIncr_iff (b :: rest)
    simp only [strictIncr, Bool.and_eq_true, decide_eq_true_eq, ih, List.pairwise_cons]
    constructor
    · rintro ⟨hab, h1, h2⟩
      refine ⟨fun x hx => ?_, h1, h2⟩
      rcases List.mem_cons.mp hx with rfl | hx
      · exact hab
      · exact Nat.lt_trans hab (h1 x hx)
    · rintro ⟨h0, h1, h2⟩
      exact ⟨h0 b (by simp), h1, h2⟩

/-- For every reachable state of the writer, what the model observes of the directory
(`Wal::new` + `replay(from, ·)` for every `from`) satisfies `specIntact` for the records the
directory holds: strictly increasing sequences, the `from` filter and the returned last
sequence consistent with them, and `current_sequence()` at or above the last one.  This is
the specification the harness evaluates on the real `Wal`'s observations. -/
theorem C15_model_refines_spec_partial (dec : Dec) (ops : List Op) (hN : ops.length < 256 ^ 8)
    (he : ∀ e ∈ opEntries ops, WFEntry dec e) (top : Nat) :
    let s := run Mode.fixed dec ops
    specIntact (replayDir Mode.fixed dec (image s)).1 (observe Mode.fixed dec (dir s) top) = true := by
  intro s
  have hinv : Inv dec s := inv_run ops hN he
  have hp : replayDir Mode.fixed dec ((dir s).map (·.data)) = (((dir s).map (recsOf dec)).flatten, End.ok) :=
    replayDir_good (m := Mode.fixed) rfl (dir s) (fun f hf => (hinv.ok.1 f hf).1)
  have hsorted := seqs_sorted _ _ hinv.ok
  have hle := seqs_le (dirOK_findLatest hinv.ok).1
  simp only [image, hp, specIntact, observe, Bool.and_eq_true]
  refine ⟨⟨⟨(strictIncr_iff _).mpr hsorted, by simp⟩, ?_⟩, ?_⟩
  · cases hl : (((dir s).map (recsOf dec)).flatten).getLast? with
    | none => rfl
    | some r => simpa using hle r (List.mem_of_getLast? hl)
  · simp only [List.all_eq_true, List.mem_range, List.length_map, List.length_range]
    intro frm hfrm
    simp [List.getElem?_map, List.getElem?_range hfrm]

/-
Full statement (not proved): `specHistory ops (traceObs …) (finalObs …) = true` and
`specTrunc` / `specFlip` of the model's observations of every truncated / flipped image.
What is missing is bookkeeping, not a new idea: relating `appended ops (traceObs …)` to the
records of the directory through crashes (a sub-list argument), and the index arithmetic of
`List.modify` for a cut in a middle file.  The facts those specifications check are proved
above in direct form (`C15_seq_strict_across_history`, `C15_replay_truncate`,
`C15_flip_*_detected`); the harness evaluates all of `specHistory`, `specTrunc`, `specFlip`
on the implementation.
-/

/-! ### the pinned tree violated the property (witnesses replayed by the corpus) -/

/-- toy decoders for the concrete witnesses: every entry is one byte / is length-prefixed -/
def dec1 : Dec := fun _ => some 1
def decLen : Dec := fun b =>
  match b with
  | [] => none
  | n :: rest => if n.toNat ≤ rest.length then some (n.toNat + 1) else none

/-- defect 1: after a reopen the counter restarted from the newest file *name* — the log
`1, 2 | reopen | append` replays the sequences `1, 2, 2` -/
theorem C15_counterexample_reopen_repeats :
    ((replayDir Mode.legacy dec1 (image (run Mode.legacy dec1
      [.append [7], .append [8], .reopen, .append [9]]))).1.map (·.seq)) = [1, 2, 2] := by decide

/-- defect 2: a record body cut by a crash made the replay fail with an I/O error -/
theorem C15_counterexample_torn_body :
    replay Mode.legacy dec1 ((frames [⟨1, [7]⟩, ⟨2, [9]⟩]).take 25) = ([⟨1, [7]⟩], End.io) := by decide

/-- defect 3: one flipped bit in a length field *inside* the entry (5 → 1) moved the place the
checksum is read from into the payload; the altered record `[1, 7]` was delivered -/
theorem C15_counterexample_entry_length_flip :
    replay Mode.legacy decLen (flipByte (frame ⟨1, [5, 7, 6, 0, 0, 0]⟩) 12 4)
      = ([⟨1, [1, 7]⟩], End.ok) := by decide

/-- known finding (not repaired, on-disk format): the sequence field is not covered by the
checksum — one flipped bit delivers the record under sequence 9 instead of 1 -/
theorem C15_counterexample_seqflip_undetected :
    replay Mode.fixed dec1 (flipByte (frames [⟨1, [7]⟩, ⟨2, [9]⟩]) 4 8)
      = ([⟨9, [7]⟩, ⟨2, [9]⟩], End.ok) := by decide

/-! ### non-vacuity: the same witnesses under the repaired code, and satisfiable hypotheses -/

example : WFEntry dec1 [7] := ⟨by decide, fun _ => rfl⟩

example : ((replayDir Mode.fixed dec1 (image (run Mode.fixed dec1
    [.append [7], .append [8], .reopen, .append [9]]))).1.map (·.seq)) = [1, 2, 3] := by decide

example : replay Mode.fixed dec1 ((frames [⟨1, [7]⟩, ⟨2, [9]⟩]).take 25) = ([⟨1, [7]⟩], End.ok) := by
  decide

example : replay Mode.fixed decLen (flipByte (frame ⟨1, [5, 7, 6, 0, 0, 0]⟩) 12 4)
    = ([], End.corrupt 1) := by decide

/-- a history with a crash in the middle of the second record: one record survives, the
counter resumes at 1, the next append is numbered 2 and lands in a new file -/
example : (run Mode.fixed dec1 [.append [7], .flush, .append [8], .crash 30, .append [9]]).closed.map (·.name) = [1]
    ∧ ((replayDir Mode.fixed dec1 (image (run Mode.fixed dec1
        [.append [7], .flush, .append [8], .crash 30, .append [9]]))).1.map (fun r => (r.seq, r.entry)))
      = [(1, [7]), (2, [9])] := by decide

end SgModel.Wal
