import SgModel.Lemmas.WalTailInv
/-!
# C15 — the WAL replays exactly the durable prefix, in order

Property theorems only (helpers: `Lemmas/Wal.lean`; model: `Model/Wal.lean`).

Everything is stated for `Mode.fixed` (the code after the three `fix:` commits) and for an
**arbitrary** bincode decoder `dec` that satisfies the contract `WFEntry` on the entries that
were appended (deterministic and self-delimiting: reading an entry back from any slice that
starts with its encoding consumes exactly that encoding).  On *damaged* bytes nothing is
assumed of `dec`.  Quantification is over all histories / all byte offsets / all masks; the
only size hypotheses are those of the on-disk format (`u64` counter, `u32` frame length).

What the checksum covers, precisely: the XOR of the **entry bytes**, compared with the
4-byte stored checksum; together with the frame-size check of fix #3 this protects every
byte of `entry ++ checksum` against any single-byte change (`C15_flip_*_detected`).  It does
**not** cover the 8-byte sequence field (`C15_counterexample_seqflip_undetected`, a known
finding: repairing it changes the on-disk format that ADR-023 versions) nor the 4-byte
length prefix (a changed prefix is either caught by the frame-size check / the decoder, or
makes the record look torn).
-/
namespace SgModel.Wal

/-- **Replay of an appended log returns every record, in append order, numbered 1, 2, 3, ….**
(`step … (.append e)` does not depend on the mode or the decoder.) -/
theorem C15_replay_append_all (dec : Dec) (e : Bytes) (es : List Bytes)
    (hw : ∀ x ∈ e :: es, WFEntry dec x) (hN : (e :: es).length < 256 ^ 8) :
    let p := replayDir Mode.fixed dec (image (run Mode.fixed dec ((e :: es).map Op.append)))
    p.2 = End.ok ∧ p.1.map (·.entry) = e :: es
      ∧ p.1.map (·.seq) = (List.range (e :: es).length).map (· + 1) := by
  have hrun : run Mode.fixed dec ((e :: es).map Op.append) = (e :: es).foldl append {} := by
    simp only [run, List.foldl_map]; rfl
  have h1 : (append {} e).cur = some ⟨1, frame ⟨1, e⟩⟩ := by simp [append]
  have h2 := foldl_append_cur es (append {} e) _ h1
  have himg : image (run Mode.fixed dec ((e :: es).map Op.append)) = [frames (number 0 (e :: es))] := by
    rw [hrun]; simp only [List.foldl_cons, image, dir, h2.1, h2.2.1]
    simp [append, number, frames]
  have hwf : ∀ r ∈ number 0 (e :: es), WFRec dec r := by
    intro r hr
    have hs : r.seq ∈ (number 0 (e :: es)).map (·.seq) := List.mem_map.mpr ⟨r, hr, rfl⟩
    have he : r.entry ∈ (number 0 (e :: es)).map (·.entry) := List.mem_map.mpr ⟨r, hr, rfl⟩
    rw [number_seqs] at hs; rw [number_entries] at he
    simp only [List.mem_map, List.mem_range] at hs
    obtain ⟨i, hi, hq⟩ := hs
    exact ⟨by omega, (hw _ he).1, (hw _ he).2⟩
  intro p
  have hp : p = (number 0 (e :: es), End.ok) := by
    show replayDir Mode.fixed dec (image _) = _
    rw [himg]
    have := replay_frames (m := Mode.fixed) rfl (number 0 (e :: es)) [] hwf torn_nil
    simp only [List.append_nil] at this
    simp [replayDir, this]
  rw [hp]
  refine ⟨rfl, number_entries _ _, ?_⟩
  rw [number_seqs]; apply List.map_congr_left; intro i _; omega

/-- **Truncation at every byte offset**: replaying the first `k` bytes of a log image succeeds
and returns exactly the records that are complete within `k` bytes — a prefix of the
appended records, and the maximal one. -/
theorem C15_replay_truncate (dec : Dec) (rs : List Rec) (hw : ∀ r ∈ rs, WFRec dec r) (k : Nat) :
    let n := fitCount rs k
    replay Mode.fixed dec ((frames rs).take k) = (rs.take n, End.ok)
      ∧ n ≤ rs.length
      ∧ (frames (rs.take n)).length ≤ k
      ∧ (n < rs.length → k < (frames (rs.take (n + 1))).length) :=
  ⟨replay_take rfl rs hw k, fitCount_le rs k, fit_le rs k, fit_max rs k⟩

/-- Durability of what was flushed: once `m` bytes holding `j` whole records are on disk, every
longer prefix of the image replays at least those `j` records (as a prefix of the result). -/
theorem C15_flushed_records_survive (dec : Dec) (rs : List Rec) (hw : ∀ r ∈ rs, WFRec dec r)
    (j k : Nat) (hj : j ≤ rs.length) (hk : (frames (rs.take j)).length ≤ k) :
    ∃ n, j ≤ n ∧ replay Mode.fixed dec ((frames rs).take k) = (rs.take n, End.ok) := by
  refine ⟨fitCount rs k, ?_, replay_take rfl rs hw k⟩
  apply Nat.le_of_not_lt; intro hlt
  have hmax := fit_max rs k (by omega)
  have : (frames (rs.take (fitCount rs k + 1))).length ≤ (frames (rs.take j)).length := by
    have hsplit : rs.take j = rs.take (fitCount rs k + 1) ++ (rs.take j).drop (fitCount rs k + 1) := by
      have := List.take_append_drop (fitCount rs k + 1) (rs.take j)
      rw [List.take_take, Nat.min_eq_left (by omega)] at this
      exact this.symm
    rw [hsplit, frames_append]; simp
  omega

/-- **Strictly increasing sequences over any history** of appends, flushes, checkpoints,
reopens, crashes (with any number of bytes of the open file surviving) and sync-mode
switches: the directory on disk replays without error, the sequences come out strictly
increasing in replay order, and none exceeds the writer's counter — so the next `append`
(numbered `counter + 1`) is again strictly larger. -/
theorem C15_seq_strict_across_history (dec : Dec) (ops : List Op) (hN : ops.length < 256 ^ 8)
    (he : ∀ e ∈ opEntries ops, WFEntry dec e) :
    let s := run Mode.fixed dec ops
    let p := replayDir Mode.fixed dec (image s)
    p.2 = End.ok ∧ (p.1.map (·.seq)).Pairwise (· < ·) ∧ ∀ r ∈ p.1, r.seq ≤ s.seq := by
  intro s p
  have hinv : Inv dec s := inv_run ops hN he
  have hp : p = (((dir s).map (recsOf dec)).flatten, End.ok) :=
    replayDir_good (m := Mode.fixed) rfl (dir s) (fun f hf => (hinv.ok.1 f hf).1)
  rw [hp]
  exact ⟨rfl, seqs_sorted _ _ hinv.ok, seqs_le hinv.ok⟩

/-- … and `Wal::new` on that directory resumes at or above every sequence on disk. -/
theorem C15_reopen_resumes_above (dec : Dec) (ops : List Op) (hN : ops.length < 256 ^ 8)
    (he : ∀ e ∈ opEntries ops, WFEntry dec e) :
    let s := run Mode.fixed dec ops
    ∀ r ∈ (replayDir Mode.fixed dec (image s)).1, r.seq ≤ findLatest Mode.fixed dec (dir s) := by
  intro s
  have hinv : Inv dec s := inv_run ops hN he
  have hp : replayDir Mode.fixed dec (image s) = (((dir s).map (recsOf dec)).flatten, End.ok) :=
    replayDir_good (m := Mode.fixed) rfl (dir s) (fun f hf => (hinv.ok.1 f hf).1)
  rw [hp]
  exact seqs_le (dirOK_findLatest hinv.ok).1

/-- **Nothing is lost, invented or reordered**: over any history the entries replayed are a
sub-list of the appended entries, in append order; if the history has no crash they are
*all* the appended entries — across every reopen and checkpoint. -/
theorem C15_replay_returns_appended (dec : Dec) (ops : List Op) (hN : ops.length < 256 ^ 8)
    (he : ∀ e ∈ opEntries ops, WFEntry dec e) :
    let p := replayDir Mode.fixed dec (image (run Mode.fixed dec ops))
    List.Sublist (p.1.map (·.entry)) (opEntries ops)
      ∧ (noCrash ops = true → p.1.map (·.entry) = opEntries ops) := by
  intro p
  have hp : p = (allRecs dec (run Mode.fixed dec ops), End.ok) := replayDir_allRecs (inv_run ops hN he)
  have := allRecs_foldl ops {} 0 (inv_init dec) (Nat.le_refl _) (by simpa using hN) he
  have h0 : allRecs dec ({} : State) = [] := rfl
  simp only [h0, List.map_nil, List.nil_append] at this
  rw [hp]; exact this

/-- **A crash loses only a suffix**: whatever number of bytes of the open file survive, the
records replayed afterwards are a prefix of those replayed before. -/
theorem C15_crash_keeps_prefix (dec : Dec) (ops : List Op) (hN : ops.length < 256 ^ 8)
    (he : ∀ e ∈ opEntries ops, WFEntry dec e) (k : Nat) :
    let s := run Mode.fixed dec ops
    (replayDir Mode.fixed dec (image (step Mode.fixed dec s (.crash k)))).1
      <+: (replayDir Mode.fixed dec (image s)).1 := by
  intro s
  have hinv : Inv dec s := inv_run ops hN he
  show (replayDir Mode.fixed dec (image (crash Mode.fixed dec s k))).1 <+: _
  rw [replayDir_allRecs hinv, replayDir_allRecs (inv_crash k hinv).1]
  exact allRecs_crash k hinv

/-- **What was flushed is durable**: a crash right after `flush` (or after an `append` in sync
mode) leaves the directory byte-for-byte as it was, for any state and any crash point. -/
theorem C15_flush_then_crash_loses_nothing (m : Mode) (dec : Dec) (s : State) (k : Nat) :
    image (crash m dec (flush s) k) = image s
    ∧ (s.sync = true → ∀ e, image (crash m dec (append s e) k) = image (append s e)) := by
  constructor
  · unfold crash flush
    cases hc : s.cur with
    | none => simp [image, reopen, dir, close, hc]
    | some f =>
      have : max f.data.length (min k f.data.length) = f.data.length := by omega
      simp [image, reopen, dir, close, hc, this]
  · intro hs e
    unfold crash
    cases hc : (append s e).cur with
    | none => simp [image, reopen, dir, close, hc]
    | some f =>
      have hfl : (append s e).flushed = f.data.length := by
        simp only [append, hs, if_true] at hc ⊢
        simp at hc; rw [← hc]
      have : max (append s e).flushed (min k f.data.length) = f.data.length := by omega
      simp [image, reopen, dir, close, hc, this]

/-- **A single changed byte inside the entry is reported**: after any intact records `pre`,
a record whose entry byte `b` became `b ^^^ mask` (`mask ≠ 0`, any position) stops the replay
with an error; exactly `pre` has been delivered, the damaged record and everything after it
is not.  No assumption on what bincode makes of the damaged entry. -/
theorem C15_flip_entry_detected (dec : Dec) (pre : List Rec) (hw : ∀ r ∈ pre, WFRec dec r)
    (q : Nat) (a c : Bytes) (b mask : UInt8) (hm : mask ≠ 0) (post : Bytes)
    (hL : (a ++ b :: c).length + 12 < 256 ^ 4) :
    ∃ err, err ≠ End.ok ∧
      replay Mode.fixed dec (frames pre ++
        (le 4 ((a ++ b :: c).length + 12) ++
          (le 8 q ++ ((a ++ (b ^^^ mask) :: c) ++ le 4 (cksum (a ++ b :: c)))) ++ post))
        = (pre, err) := by
  have hlen : (a ++ b :: c).length = (a ++ (b ^^^ mask) :: c).length := by simp
  apply replay_pre_then pre hw _ (fun p => ∃ err, err ≠ End.ok ∧ p = (pre, err))
  intro fuel
  rw [hlen] at hL ⊢
  obtain ⟨err, h1, h2⟩ := replayFile_badck (m := Mode.fixed) rfl dec q (a ++ (b ^^^ mask) :: c)
    (le 4 (cksum (a ++ b :: c))) post fuel hL (le_length 4 _)
    (by rw [fromLE_le 4 _ (cksum_lt _)]; exact cksum_flip a c b mask hm)
  exact ⟨err, h1, by rw [h2]; simp⟩

/-- **A single changed byte inside the stored checksum is reported**, likewise. -/
theorem C15_flip_cksum_detected (dec : Dec) (pre : List Rec) (hw : ∀ r ∈ pre, WFRec dec r)
    (q : Nat) (e x z : Bytes) (y mask : UInt8) (hm : mask ≠ 0) (post : Bytes)
    (hL : e.length + 12 < 256 ^ 4) (hck : le 4 (cksum e) = x ++ y :: z) :
    ∃ err, err ≠ End.ok ∧
      replay Mode.fixed dec (frames pre ++
        (le 4 (e.length + 12) ++ (le 8 q ++ (e ++ (x ++ (y ^^^ mask) :: z))) ++ post))
        = (pre, err) := by
  have hl4 : (x ++ (y ^^^ mask) :: z).length = 4 := by
    have := congrArg List.length hck; simp [le_length] at this ⊢; omega
  apply replay_pre_then pre hw _ (fun p => ∃ err, err ≠ End.ok ∧ p = (pre, err))
  intro fuel
  obtain ⟨err, h1, h2⟩ := replayFile_badck (m := Mode.fixed) rfl dec q e
    (x ++ (y ^^^ mask) :: z) post fuel hL hl4 (by
      intro heq
      have h3 : fromLE (x ++ (y ^^^ mask) :: z) = fromLE (le 4 (cksum e)) := by
        rw [heq, fromLE_le 4 _ (cksum_lt _)]
      have h4 := fromLE_inj _ _ (by rw [hl4, le_length]) h3
      rw [hck] at h4
      have h5 := List.append_cancel_left h4
      simp only [List.cons.injEq] at h5
      have h6 : y ^^^ (y ^^^ mask) = y ^^^ y := by rw [h5.1]
      rw [← UInt8.xor_assoc, UInt8.xor_self, UInt8.zero_xor] at h6
      exact hm h6)
  exact ⟨err, h1, by rw [h2]; simp⟩

/-! ### the model satisfies the executable specification -/

/-- For every reachable state of the writer, what the model observes of the directory
(`Wal::new` + `replay(from, ·)` for every `from`) satisfies `specIntact` for the records the
directory holds: strictly increasing sequences, the `from` filter and the returned last
sequence consistent with them, and `current_sequence()` at or above the last one.  This is
the specification the harness evaluates on the real `Wal`'s observations. -/
theorem C15_model_refines_spec_partial (dec : Dec) (ops : List Op) (hN : ops.length < 256 ^ 8)
    (he : ∀ e ∈ opEntries ops, WFEntry dec e) (top : Nat) :
    let s := run Mode.fixed dec ops
    specIntact (replayDir Mode.fixed dec (image s)).1 (observe Mode.fixed dec (dir s) top) = true := by
  intro s
  have hinv : Inv dec s := inv_run ops hN he
  have hp : replayDir Mode.fixed dec ((dir s).map (·.data)) = (((dir s).map (recsOf dec)).flatten, End.ok) :=
    replayDir_good (m := Mode.fixed) rfl (dir s) (fun f hf => (hinv.ok.1 f hf).1)
  have hsorted := seqs_sorted _ _ hinv.ok
  have hle := seqs_le (dirOK_findLatest hinv.ok).1
  simp only [image, hp, specIntact, observe, Bool.and_eq_true]
  refine ⟨⟨⟨(strictIncr_iff _).mpr hsorted, by simp⟩, ?_⟩, ?_⟩
  · cases hl : (((dir s).map (recsOf dec)).flatten).getLast? with
    | none => rfl
    | some r => simpa using hle r (List.mem_of_getLast? hl)
  · simp only [List.all_eq_true, List.mem_range, List.length_map, List.length_range]
    intro frm hfrm
    simp [List.getElem?_map, List.getElem?_range hfrm]

/-- For every history whose entries are pairwise distinct (the harness tags them), the
model's own observations — per-op return values and the final `replay(from, ·)` sweep after
a clean close — satisfy the core history specification `specHistCore` that the harness
evaluates on the real `Wal`. -/
theorem C15_model_refines_spec_history (dec : Dec) (ops : List Op) (hN : ops.length < 256 ^ 8)
    (he : ∀ e ∈ opEntries ops, WFEntry dec e) (hnd : (opEntries ops).Nodup) (top : Nat) :
    specHistCore ops (traceObs Mode.fixed dec {} ops) (finalObs Mode.fixed dec ops top) = true := by
  have hinv : Inv dec (run Mode.fixed dec ops) := inv_run ops hN he
  have hint := C15_model_refines_spec_partial dec ops hN he top
  have hp := replayDir_allRecs hinv
  have hsub : List.Sublist (allRecs dec (run Mode.fixed dec ops)) (appRecs Mode.fixed dec {} ops) := by
    have := allRecs_foldl_rec ops {} 0 (inv_init dec) (Nat.le_refl _) (by simpa using hN) he
    have h0 : allRecs dec ({} : State) = [] := rfl
    simpa [h0, run] using this
  have hfin : finalObs Mode.fixed dec ops top
      = observe Mode.fixed dec (dir (run Mode.fixed dec ops)) top := by
    simp [finalObs, dir_close]
  have hto := traceObs_ok Mode.fixed dec ops {}
  have hnd' : ((appRecs Mode.fixed dec {} ops).map (·.entry)).Nodup := by
    rw [appRecs_entries]; exact hnd
  simp only [hp] at hint
  have hruns : (observe Mode.fixed dec (dir (run Mode.fixed dec ops)) top).runs
      = ((allRecs dec (run Mode.fixed dec ops)).map (·.entry), End.ok,
          lastSeq 0 (allRecs dec (run Mode.fixed dec ops)))
        :: ((List.range top).map Nat.succ).map (fun frm =>
          ((delivered frm (allRecs dec (run Mode.fixed dec ops))).map (·.entry), End.ok,
            lastSeq frm (allRecs dec (run Mode.fixed dec ops)))) := by
    have hp' : replayDir Mode.fixed dec ((dir (run Mode.fixed dec ops)).map (·.data))
        = (allRecs dec (run Mode.fixed dec ops), End.ok) := hp
    simp only [observe, hp', List.range_succ_eq_map, List.map_cons, delivered_zero, if_true]
  have hsubseq : isSubseq ((allRecs dec (run Mode.fixed dec ops)).map (·.entry))
      ((appRecs Mode.fixed dec {} ops).map (·.entry)) = true := isSubseq_of_sublist (hsub.map _)
  unfold specHistCore
  simp only [appended_trace, hfin, hto.1, beq_self_eq_true, Bool.true_and]
  rw [hruns]
  simp only
  rw [filter_of_sublist hsub hnd']
  simp only [hsubseq, hint, beq_self_eq_true, Bool.and_true]
  exact hto.2

/-- **Every durable record is delivered**: for every history, each entry the specification
marks durable (appended in sync mode, or followed by a flush / checkpoint / reopen / the
final clean close before any crash) is among the entries the model's final replay delivers
— `specDurable`, as the harness evaluates it on the real `Wal`. -/
theorem C15_model_refines_spec_durable (dec : Dec) (ops : List Op) (hN : ops.length < 256 ^ 8)
    (he : ∀ e ∈ opEntries ops, WFEntry dec e) (top : Nat) :
    specDurable ops (finalObs Mode.fixed dec ops top) = true := by
  have hinv : Inv dec (run Mode.fixed dec ops) := inv_run ops hN he
  have hfin : finalObs Mode.fixed dec ops top
      = observe Mode.fixed dec (dir (run Mode.fixed dec ops)) top := by
    simp [finalObs, dir_close]
  unfold specDurable
  rw [hfin, observe_runs hinv top]
  simp only [List.all_eq_true]
  intro q hq
  cases hq2 : q.2 with
  | false => simp
  | true =>
    have := durability_live (dec := dec) ops {} 0 [] [] (inv_init dec) (Nat.le_refl _)
      (by simpa using hN) he (by simp) (by simp) (by simp) q hq hq2
    simp only [Bool.not_true, Bool.false_or, List.contains_iff_mem]
    exact this

/-- **Every truncation offset**: for every history, every file index `i` and every byte
count `k`, what the model observes of the directory with file `i` cut to `k` bytes
(`Wal::new` + `replay(from, ·)` for every `from`) satisfies `specTrunc` for the records the
files hold — exactly the whole records before the cut survive, every other file is
untouched, replay succeeds, sequences stay strictly increasing and `Wal::new` resumes at or
above them.  (`(dir s).map (recsOf dec)` is, per file, what `replay` returns for it.) -/
theorem C15_model_refines_spec_trunc (dec : Dec) (ops : List Op) (hN : ops.length < 256 ^ 8)
    (he : ∀ e ∈ opEntries ops, WFEntry dec e) (i k top : Nat) :
    let s := run Mode.fixed dec ops
    specTrunc ((dir s).map (recsOf dec)) i k
      (observe Mode.fixed dec ((dir s).modify i (fun f => { f with data := f.data.take k })) top)
      = true :=
  specTrunc_of_dirOK (inv_run ops hN he).ok i k top

/-- **Every single-byte flip in the covered region**: for every history with pairwise distinct
entries, every file `i` of the directory, every offset `p` that lies in the entry bytes or in
the stored checksum of one of its records (`locate`), and every non-zero mask, what the
model observes of the directory with that byte XOR-ed satisfies `specFlip`: the replay
fails, exactly the records before the damaged one are delivered (for every `from`, under
their original sequences), nothing altered is delivered.  Nothing is assumed of the decoder
on the damaged bytes. -/
theorem C15_model_refines_spec_flip (dec : Dec) (ops : List Op) (hN : ops.length < 256 ^ 8)
    (he : ∀ e ∈ opEntries ops, WFEntry dec e) (hnd : (opEntries ops).Nodup)
    (i p j : Nat) (g : Region) (f : File) (mask : UInt8) (hm : mask ≠ 0) (top : Nat)
    (hget : (dir (run Mode.fixed dec ops))[i]? = some f)
    (hloc : locate (recsOf dec f) p = some (j, g)) (hreg : g = .entry ∨ g = .cksum) :
    let s := run Mode.fixed dec ops
    specFlip ((dir s).map (recsOf dec)) i p
      (observe Mode.fixed dec
        ((dir s).modify i (fun f => { f with data := flipByte f.data p mask })) top) = true := by
  intro s
  have hinv : Inv dec s := inv_run ops hN he
  have hsub := (allRecs_foldl ops {} 0 (inv_init dec) (Nat.le_refl _) (by simpa using hN) he).1
  have h0 : allRecs dec ({} : State) = [] := rfl
  simp only [h0, List.map_nil, List.nil_append] at hsub
  exact specFlip_of_dirOK hinv.ok (hsub.nodup hnd) hget hloc hreg mask hm top

/-- **Every single-byte flip in a length prefix**: likewise for an offset `p` inside the 4-byte
length prefix of a record, under the decoder contract in its prefix-free form (a proper
prefix of an appended entry's encoding does not decode — bincode runs out of bytes).  The
replay then stops at that record with an error, or (prefix pointing past the end of the
file) treats it as torn: its file ends there and later files follow.  Nothing altered is
delivered. -/
theorem C15_model_refines_spec_flip_len (dec : Dec) (ops : List Op) (hN : ops.length < 256 ^ 8)
    (he : ∀ e ∈ opEntries ops, WFEntry dec e) (hnd : (opEntries ops).Nodup)
    (hpf : ∀ e ∈ opEntries ops, ∀ m, m < e.length → dec (e.take m) = none)
    (i p j : Nat) (f : File) (mask : UInt8) (hm : mask ≠ 0) (top : Nat)
    (hget : (dir (run Mode.fixed dec ops))[i]? = some f)
    (hloc : locate (recsOf dec f) p = some (j, .len)) :
    let s := run Mode.fixed dec ops
    specFlip ((dir s).map (recsOf dec)) i p
      (observe Mode.fixed dec
        ((dir s).modify i (fun f => { f with data := flipByte f.data p mask })) top) = true := by
  intro s
  have hinv : Inv dec s := inv_run ops hN he
  have hsub := (allRecs_foldl ops {} 0 (inv_init dec) (Nat.le_refl _) (by simpa using hN) he).1
  have h0 : allRecs dec ({} : State) = [] := rfl
  simp only [h0, List.map_nil, List.nil_append] at hsub
  have hmem : ∀ r ∈ recsOf dec f, r.entry ∈ opEntries ops := by
    intro r hr
    have : r ∈ allRecs dec s :=
      List.mem_flatten.mpr ⟨recsOf dec f, List.mem_map.mpr ⟨f, List.mem_of_getElem? hget, rfl⟩, hr⟩
    exact hsub.subset (List.mem_map.mpr ⟨r, this, rfl⟩)
  exact specFlipLen_of_dirOK hinv.ok (hsub.nodup hnd) hget (fun r hr => hpf _ (hmem r hr)) hloc
    mask hm top

/-- **A changed byte inside a torn tail is harmless** (direct form, all images): a file holding
intact records `rs` followed by a torn tail — the first `k` bytes of the frame of a record `r`
that was being written, `k` less than the frame length — in which any one byte (any offset
`q`, any mask) was changed replays to exactly `rs`: every intact record is delivered, nothing
is delivered from the tail, so never a wrong entry.  The replay ends as for a torn tail, or
with an error when the byte lay in the tail's length prefix.  Decoder contract: `WFRec` on
the intact records, prefix-free (`PFRec`) on `r`. -/
theorem C15_flip_tail_no_wrong_entry (dec : Dec) (rs : List Rec) (hw : ∀ x ∈ rs, WFRec dec x)
    (r : Rec) (h : PFRec dec r) (k q : Nat) (mask : UInt8) (hk : k < (frame r).length) :
    ∃ e, replay Mode.fixed dec (frames rs ++ flipByte ((frame r).take k) q mask) = (rs, e) :=
  replay_tail_flip rs hw h k q mask hk

/-- **A changed length prefix is reported or looks torn, never accepted** (direct form): intact
records `pre`, then the frame of `r` with its 4-byte length prefix replaced by any 4 bytes
`lb` that decode to a different length, then any bytes `post`: exactly `pre` is delivered.
The damaged record and whatever the wrong length frames over it are not. -/
theorem C15_flip_len_error_or_torn_stop (dec : Dec) (pre : List Rec) (hw : ∀ x ∈ pre, WFRec dec x)
    (r : Rec) (h : PFRec dec r) (lb post : Bytes) (hl4 : lb.length = 4)
    (hne : fromLE lb ≠ r.entry.length + 12) :
    ∃ e, replay Mode.fixed dec (frames pre ++ (lb ++ (body r ++ post))) = (pre, e) :=
  replay_len_flip pre hw h lb post hl4 hne

/-- why the length-prefix theorems ask for a *prefix-free* decoder: `decLoose` honours the
contract `WFEntry` on the entry `[5, 5, 0, 0, 0, 9]` but also "decodes" a cut-off copy of it as
a one-byte entry; flipping the frame length 18 → 13 then makes the repaired reader accept
the wrong record `⟨1, [5]⟩` (its "checksum" `05 00 00 00` is read from the entry's own bytes).
Real bincode runs out of bytes on a cut-off entry, which is what `PFRec` states. -/
theorem C15_counterexample_len_flip_needs_prefix_free :
    (∀ rest, decLoose (([5, 5, 0, 0, 0, 9] : Bytes) ++ rest) = some 6)
    ∧ replay Mode.fixed decLoose (flipByte (frame ⟨1, [5, 5, 0, 0, 0, 9]⟩) 0 31)
        = ([⟨1, [5]⟩], End.ok) :=
  ⟨decLoose_contract, by decide⟩

/-- **Every single-byte flip inside a torn tail**: for every history (entries pairwise distinct,
decoder contract in its prefix-free form), every file `i` of the directory and every offset
`p` behind its whole records (`locate = none`: the byte lies in the torn tail a crash left
there), what the model observes of the directory with that byte XOR-ed satisfies `specFlip`:
all whole records of the file are still delivered, unaltered, and nothing from the tail. -/
theorem C15_model_refines_spec_flip_tail (dec : Dec) (ops : List Op) (hN : ops.length < 256 ^ 8)
    (he : ∀ e ∈ opEntries ops, PFEntry dec e) (hnd : (opEntries ops).Nodup)
    (i p : Nat) (f : File) (mask : UInt8) (top : Nat)
    (hget : (dir (run Mode.fixed dec ops))[i]? = some f)
    (hloc : locate (recsOf dec f) p = none) :
    let s := run Mode.fixed dec ops
    specFlip ((dir s).map (recsOf dec)) i p
      (observe Mode.fixed dec
        ((dir s).modify i (fun f => { f with data := flipByte f.data p mask })) top) = true := by
  intro s
  have he' : ∀ e ∈ opEntries ops, WFEntry dec e := fun e h => (he e h).1
  have hinv : Inv dec s := inv_run ops hN he'
  have hsub := (allRecs_foldl ops {} 0 (inv_init dec) (Nat.le_refl _) (by simpa using hN) he').1
  have h0 : allRecs dec ({} : State) = [] := rfl
  simp only [h0, List.map_nil, List.nil_append] at hsub
  obtain ⟨_, t, hdata, ht⟩ := pfdir_run ops hN he f (List.mem_of_getElem? hget)
  exact specFlipTail_of_dirOK hinv.ok (hsub.nodup hnd) hget hdata ht hloc mask top

/-- **`specFlip` holds of the model for every byte that is not part of a sequence field**: the
three region theorems together.  (For a byte of a sequence field `specFlip` is false of model
and code: `C15_counterexample_seqflip_undetected`, the known finding.) -/
theorem C15_model_refines_spec_flip_all_but_seq (dec : Dec) (ops : List Op) (hN : ops.length < 256 ^ 8)
    (he : ∀ e ∈ opEntries ops, PFEntry dec e) (hnd : (opEntries ops).Nodup)
    (i p : Nat) (f : File) (mask : UInt8) (hm : mask ≠ 0) (top : Nat)
    (hget : (dir (run Mode.fixed dec ops))[i]? = some f)
    (hseq : ∀ j, locate (recsOf dec f) p ≠ some (j, .seq)) :
    let s := run Mode.fixed dec ops
    specFlip ((dir s).map (recsOf dec)) i p
      (observe Mode.fixed dec
        ((dir s).modify i (fun f => { f with data := flipByte f.data p mask })) top) = true := by
  have he' : ∀ e ∈ opEntries ops, WFEntry dec e := fun e h => (he e h).1
  cases hloc : locate (recsOf dec f) p with
  | none => exact C15_model_refines_spec_flip_tail dec ops hN he hnd i p f mask top hget hloc
  | some jg =>
    obtain ⟨j, g⟩ := jg
    cases g with
    | seq => exact absurd hloc (hseq j)
    | len =>
      exact C15_model_refines_spec_flip_len dec ops hN he' hnd (fun e h => (he e h).2) i p j f mask hm
        top hget hloc
    | entry =>
      exact C15_model_refines_spec_flip dec ops hN he' hnd i p j .entry f mask hm top hget hloc
        (Or.inl rfl)
    | cksum =>
      exact C15_model_refines_spec_flip dec ops hN he' hnd i p j .cksum f mask hm top hget hloc
        (Or.inr rfl)

/-
`specFlip` is thereby proved of the model for every byte of every file except the bytes of the
8-byte sequence fields, where it is *false* of the model and of the code — the known finding
`seq-flip-undetected` (`C15_counterexample_seqflip_undetected`).  The length-prefix and
torn-tail regions need the decoder contract in its prefix-free form (`PFEntry`);
`C15_counterexample_len_flip_needs_prefix_free` shows that it cannot be dropped.
-/

/-! ### the pinned tree violated the property (witnesses replayed by the corpus) -/

/-- defect 1: after a reopen the counter restarted from the newest file *name* — the log
`1, 2 | reopen | append` replays the sequences `1, 2, 2` -/
theorem C15_counterexample_reopen_repeats :
    ((replayDir Mode.legacy dec1 (image (run Mode.legacy dec1
      [.append [7], .append [8], .reopen, .append [9]]))).1.map (·.seq)) = [1, 2, 2] := by decide

/-- defect 2: a record body cut by a crash made the replay fail with an I/O error -/
theorem C15_counterexample_torn_body :
    replay Mode.legacy dec1 ((frames [⟨1, [7]⟩, ⟨2, [9]⟩]).take 25) = ([⟨1, [7]⟩], End.io) := by decide

/-- defect 3: one flipped bit in a length field *inside* the entry (5 → 1) moved the place the
checksum is read from into the payload; the altered record `[1, 7]` was delivered -/
theorem C15_counterexample_entry_length_flip :
    replay Mode.legacy decLen (flipByte (frame ⟨1, [5, 7, 6, 0, 0, 0]⟩) 12 4)
      = ([⟨1, [1, 7]⟩], End.ok) := by decide

/-- known finding (not repaired, on-disk format): the sequence field is not covered by the
checksum — one flipped bit delivers the record under sequence 9 instead of 1 -/
theorem C15_counterexample_seqflip_undetected :
    replay Mode.fixed dec1 (flipByte (frames [⟨1, [7]⟩, ⟨2, [9]⟩]) 4 8)
      = ([⟨9, [7]⟩, ⟨2, [9]⟩], End.ok) := by decide

/-! ### non-vacuity: the same witnesses under the repaired code, and satisfiable hypotheses -/

example : WFEntry dec1 [7] := ⟨by decide, fun _ => rfl⟩

example : ((replayDir Mode.fixed dec1 (image (run Mode.fixed dec1
    [.append [7], .append [8], .reopen, .append [9]]))).1.map (·.seq)) = [1, 2, 3] := by decide

example : replay Mode.fixed dec1 ((frames [⟨1, [7]⟩, ⟨2, [9]⟩]).take 25) = ([⟨1, [7]⟩], End.ok) := by
  decide

example : replay Mode.fixed decLen (flipByte (frame ⟨1, [5, 7, 6, 0, 0, 0]⟩) 12 4)
    = ([], End.corrupt 1) := by decide

/-- the hypotheses of the variant theorems are satisfiable: offsets 12 and 13 of a one-byte-entry
frame are its entry and the first checksum byte, offset 2 is in its length prefix, and the toy
decoder `decLen` is prefix-free on the entry `[1, 7]` -/
example : locate [⟨1, [7]⟩, ⟨2, [9]⟩] 12 = some (0, .entry)
    ∧ locate [⟨1, [7]⟩, ⟨2, [9]⟩] 30 = some (1, .cksum)
    ∧ locate [⟨1, [7]⟩, ⟨2, [9]⟩] 19 = some (1, .len) := by decide

example : ∀ m, m < ([1, 7] : Bytes).length → decLen (([1, 7] : Bytes).take m) = none := by decide

example : WFEntry decLen [1, 7] := ⟨by decide, fun rest => by simp [decLen]⟩

example : PFEntry decLen [1, 7] :=
  ⟨⟨by decide, fun rest => by simp [decLen]⟩, by decide⟩

example : (durability [.append [7], .flush, .append [8], .crash 30, .append [9]] false [] [])
    = [([7], true), ([8], false), ([9], true)] := by decide

/-- a history with a crash in the middle of the second record: one record survives, the
counter resumes at 1, the next append is numbered 2 and lands in a new file -/
example : (run Mode.fixed dec1 [.append [7], .flush, .append [8], .crash 30, .append [9]]).closed.map (·.name) = [1]
    ∧ ((replayDir Mode.fixed dec1 (image (run Mode.fixed dec1
        [.append [7], .flush, .append [8], .crash 30, .append [9]]))).1.map (fun r => (r.seq, r.entry)))
      = [(1, [7]), (2, [9])] := by decide

end SgModel.Wal
