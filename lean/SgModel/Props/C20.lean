import SgModel.Lemmas.RespFeed
import SgModel.Lemmas.RespLocal
/-!
# C20 — RESP framing survives any TCP chunking and pipelining

Property theorems only (helpers in `Lemmas/Resp*.lean`).  The model is
`SgModel.Resp.decode` / `feed` (`src/protocol/resp.rs`, the decode loop of
`src/protocol/server.rs::handle_connection`) after the `fix:` commit that makes the decoder
work on a cursor.  Everything is quantified over all well-formed values, all frame lists,
all chunkings and all pipelining depths; there is no size bound.  `…Legacy` is the model of
the pinned tree; the counter-example witnesses are replayed on the implementation by the
harness corpus.
-/
namespace SgModel.Resp

/-- Encoding then decoding a well-formed value returns the value and consumes exactly its
bytes, whatever follows it in the buffer (pipelining). -/
theorem C20_decode_encode (v : RV) (h : v.wf = true) (rest : Bytes) :
    (decode (encode v ++ rest)).out = .val v ∧ (decode (encode v ++ rest)).rest = rest :=
  (framed_resp v h).2.1 rest

/-- Every strict prefix of the encoding of a well-formed value asks for more data and
consumes nothing. -/
theorem C20_strict_prefix_needs_more (v : RV) (h : v.wf = true) (p t : Bytes) (ht : t ≠ [])
    (he : p ++ t = encode v) : (decode p).out = .more ∧ (decode p).rest = p :=
  (framed_resp v h).2.2 p t ht he

/-- The same two facts for an inline command line (which is what a torn RESP frame was
misread as on the pinned tree): it is read as the array of its tokens, and no strict prefix
of `line ++ CRLF` is consumed. -/
theorem C20_inline_frame (l : Bytes) (h : (Frame.inline l).wf = true) :
    (∀ rest, (decode (l ++ [CR, LF] ++ rest)).out = .val (Frame.inline l).value
        ∧ (decode (l ++ [CR, LF] ++ rest)).rest = rest)
    ∧ (∀ p t, t ≠ [] → p ++ t = l ++ [CR, LF] →
        (decode p).out = .more ∧ (decode p).rest = p) :=
  (framed_inline l h).2

/-- The decoder keeps no state and looks at no byte beyond the frame: for **any** bytes (not
only well-formed frames, also inline lines and whatever else decodes), a decoded value depends
only on the bytes consumed — the same bytes followed by anything else decode to the same value
and leave exactly what followed. -/
theorem C20_value_depends_only_on_consumed_bytes (b : Bytes) (v : RV) (hv : (decode b).out = .val v) :
    ∃ used, b = used ++ (decode b).rest
      ∧ ∀ rest', (decode (used ++ rest')).out = .val v ∧ (decode (used ++ rest')).rest = rest' :=
  decode_local b v hv

/-- **Any chunking, any pipelining depth.**  For every list of well-formed frames (RESP
values and inline command lines) and every way `cs` of cutting their concatenated bytes into
reads, the connection loop hands the handler exactly the frames' commands, in order, and the
buffer ends empty. -/
theorem C20_feed_chunks (fs : List Frame) (hwf : ∀ f ∈ fs, f.wf = true) (cs : List Bytes)
    (hcs : cs.flatten = (fs.map Frame.bytes).flatten) :
    (feedAll cs).out = fs.map (fun f => Event.cmd f.value) ∧ (feedAll cs).buf = [] := by
  have := feedAll_items (fs.map (fun f => (f.bytes, f.value)))
    (by
      intro g hg
      simp only [List.mem_map] at hg
      obtain ⟨f, hf, rfl⟩ := hg
      exact frame_framed f (hwf f hf))
    cs (by
      have e : stream (fs.map (fun f => (f.bytes, f.value))) = (fs.map Frame.bytes).flatten := by
        simp only [stream, List.map_map]; rfl
      rw [e]; exact hcs)
  have e2 : evs (fs.map (fun f => (f.bytes, f.value))) = fs.map (fun f => Event.cmd f.value) := by
    simp only [evs, List.map_map]; rfl
  rw [e2] at this
  exact this

/-- Each frame is answered exactly once: the number of handler invocations equals the
number of frames, and no protocol-error reply is produced. -/
theorem C20_answered_once (fs : List Frame) (hwf : ∀ f ∈ fs, f.wf = true) (cs : List Bytes)
    (hcs : cs.flatten = (fs.map Frame.bytes).flatten) :
    (feedAll cs).out.length = fs.length ∧ Event.protoErr ∉ (feedAll cs).out := by
  rw [(C20_feed_chunks fs hwf cs hcs).1]
  simp

/-- Chunking is unobservable: two chunkings of the same well-formed stream give the same
connection state. -/
theorem C20_chunking_invariant (fs : List Frame) (hwf : ∀ f ∈ fs, f.wf = true)
    (cs cs' : List Bytes) (h : cs.flatten = (fs.map Frame.bytes).flatten)
    (h' : cs'.flatten = (fs.map Frame.bytes).flatten) : feedAll cs = feedAll cs' := by
  have a := C20_feed_chunks fs hwf cs h
  have b := C20_feed_chunks fs hwf cs' h'
  cases hx : feedAll cs; cases hy : feedAll cs'
  rw [hx] at a; rw [hy] at b
  simp only at a b
  rw [a.1, a.2, b.1, b.2]

/-- The model satisfies the executable specification that the harness evaluates on the
implementation's observations, for every frame list and every chunking. -/
theorem C20_model_refines_spec (fs : List Frame) (hwf : ∀ f ∈ fs, f.wf = true) (cs : List Bytes)
    (hcs : cs.flatten = (fs.map Frame.bytes).flatten) :
    specFeed fs (feedAll cs).out (feedAll cs).buf = true := by
  have := C20_feed_chunks fs hwf cs hcs
  simp [specFeed, this.1, this.2]

/-! ### The pinned tree violated the property -/

/-- `"$5\r\nhel"` then `"lo\r\n"`: the pinned decoder consumed the header before reporting
`Incomplete`, so `hello` was then run as an inline command. -/
theorem C20_counterexample_partial_bulk :
    (feedAllLegacy [[36, 53, 13, 10, 104, 101, 108], [108, 111, 13, 10]]).out
      = [.cmd (.array [.bulk (some [104, 101, 108, 108, 111])])]
    ∧ (feedAllLegacy [[36, 53, 13, 10, 104, 101, 108], [108, 111, 13, 10]]).out
      ≠ [.cmd (.bulk (some [104, 101, 108, 108, 111]))] := by decide

/-- `"*2\r\n:1\r\n"` then `":2\r\n"`: the array header and first element were dropped, the
second element was answered as a command of its own. -/
theorem C20_counterexample_partial_array :
    (feedAllLegacy [[42, 50, 13, 10, 58, 49, 13, 10], [58, 50, 13, 10]]).out = [.cmd (.int 2)] := by
  decide

/-! ### Non-vacuity: the same streams under the repaired decoder, a nested array with an empty
and a null bulk string cut inside the length line and inside the body -/

example : (feedAll [[36, 53, 13, 10, 104, 101, 108], [108, 111, 13, 10]]).out
    = [.cmd (.bulk (some [104, 101, 108, 108, 111]))] := by decide

example : (feedAll [[42, 50, 13, 10, 58, 49, 13, 10], [58, 50, 13, 10]]).out
    = [.cmd (.array [.int 1, .int 2])] := by decide

-- `*3\r\n$0\r\n\r\n$-1\r\n*1\r\n$2\r\nhi\r\n` followed by the inline `PING\r\n`, cut after `$`,
-- after `h`, and inside the inline line
example : (feedAll [[42, 51, 13, 10, 36], [48, 13, 10, 13, 10, 36, 45, 49, 13, 10, 42, 49, 13, 10,
      36, 50, 13, 10, 104], [105, 13, 10, 80, 73], [78, 71, 13, 10]])
    = { buf := [], out := [.cmd (.array [.bulk (some []), .bulk none,
          .array [.bulk (some [104, 105])]]), .cmd (.array [.bulk (some [80, 73, 78, 71])])] } := by
  decide

example : (RV.array [.bulk (some []), .bulk none, .array [.bulk (some [104, 105])],
    .simple [79, 75], .int (-5)]).wf = true := by decide

example : (Frame.inline [80, 73, 78, 71, 32, 34, 97, 32, 98, 34]).wf = true := by decide

end SgModel.Resp
