/-
# CyW — reference semantics of the Cypher *write* fragment (C04, C05, C35)

Import-free executable model.

* values `V` (lists and maps are cons cells so that plain `induction` works and
  `DecidableEq` derives), property maps and label sets as association lists / sorted lists;
* logical graph `G` (nodes, relationships), rows binding variables to nodes,
  relationships or values;
* expressions `E` with parameters, list / map literals and one binder (list
  comprehension); `eval`; `substE` (parameter → literal);
* write clauses as a **fold over the input rows in order** (`applyWrite` per row, `execClause`
  per clause — a later row sees the writes of an earlier row), statements `exec`;
* the row-streaming execution the engine really performs (`streamRows`, no undo) — C05;
* the executable specification `specStmt` evaluated by the harness on the engine's
  observations (post-graph and rows of one statement, with the renaming of the handles
  created by that statement supplied as a certificate).

What it mirrors: `src/query/executor/operator.rs` (`CreateNodeOperator`,
`MatchCreateEdgeOperator`, `MergeOperator`, `SetPropertyOperator`, `LabelMutationOperator`,
`RemovePropertyOperator`, `DeleteOperator` **after** the `fix:` commits of agent-cywrite) and
`src/query/executor/mod.rs` (`substitute_params`, `execute_plan_mut`).
-/
namespace SgModel.CyW

/-! ## Values -/

inductive V where
  | null
  | bool (b : Bool)
  | int (i : Int)
  | flt (bits : Nat)            -- an f64 by its bit pattern; never computed with
  | str (s : List Char)
  | nil                          -- list
  | cons (h t : V)
  | mnil                         -- map (keys ascending when built by `minsert`)
  | mcons (k : Nat) (h t : V)
  | node (id : Nat)              -- a node, by handle (only ever returned, never stored)
  deriving DecidableEq, Repr, Inhabited

inductive Err where
  | type | div0 | constraint | param | unbound | unsup
  deriving DecidableEq, Repr, Inhabited

abbrev R (α : Type) := Except Err α

abbrev Props := List (Nat × V)

def okOf {α : Type} : R α → Option α
  | .ok a => some a
  | .error _ => none

def errOf {α : Type} : R α → Option Err
  | .ok _ => none
  | .error e => some e

def pget : Props → Nat → V
  | [], _ => .null
  | (k', v) :: ps, k => if k' = k then v else pget ps k

def plookup : Props → Nat → Option V
  | [], _ => none
  | (k', v) :: ps, k => if k' = k then some v else plookup ps k

def perase : Props → Nat → Props
  | [], _ => []
  | (k', v) :: ps, k => if k' = k then perase ps k else (k', v) :: perase ps k

def pinsert : Props → Nat → V → Props
  | [], k, v => [(k, v)]
  | (k', v') :: ps, k, v =>
    if k < k' then (k, v) :: (k', v') :: ps
    else if k = k' then (k, v) :: ps
    else (k', v') :: pinsert ps k v

/-- `SET n.k = v`: a null value removes the property (openCypher) -/
def pset (ps : Props) (k : Nat) (v : V) : Props :=
  if v = .null then perase ps k else pinsert ps k v

def psetAll (ps : Props) : Props → Props
  | [] => ps
  | (k, v) :: kvs => psetAll (pset ps k v) kvs

def linsert : List Nat → Nat → List Nat
  | [], l => [l]
  | l' :: ls, l => if l < l' then l :: l' :: ls else if l = l' then l' :: ls else l' :: linsert ls l

def linsertAll (ls : List Nat) : List Nat → List Nat
  | [] => ls
  | l :: more => linsertAll (linsert ls l) more

def lerase (ls : List Nat) (l : Nat) : List Nat := ls.filter (· ≠ l)

/-- a map value as an association list (junk tails are dropped) -/
def V.toProps : V → Props
  | .mcons k h t => (k, h) :: t.toProps
  | _ => []

def V.ofProps : Props → V
  | [] => .mnil
  | (k, v) :: ps => .mcons k v (V.ofProps ps)

def V.isMap : V → Bool
  | .mnil | .mcons .. => true
  | _ => false

def V.isList : V → Bool
  | .nil | .cons .. => true
  | _ => false

def V.toList : V → List V
  | .cons h t => h :: t.toList
  | _ => []

def V.ofList : List V → V
  | [] => .nil
  | v :: vs => .cons v (V.ofList vs)

/-! ## Graph -/

structure Node where
  id : Nat
  labels : List Nat
  props : Props
  deriving DecidableEq, Repr

structure Rel where
  id : Nat
  src : Nat
  tgt : Nat
  ty : Nat
  props : Props
  deriving DecidableEq, Repr

structure G where
  nodes : List Node
  rels : List Rel
  deriving DecidableEq, Repr

def G.empty : G := ⟨[], []⟩

def G.hasNode (g : G) (id : Nat) : Bool := g.nodes.any (·.id = id)
def G.node? (g : G) (id : Nat) : Option Node := g.nodes.find? (·.id = id)
def G.rel? (g : G) (id : Nat) : Option Rel := g.rels.find? (·.id = id)

def freshId (ids : List Nat) : Nat := ids.foldl (fun m i => max m (i + 1)) 0
def G.freshN (g : G) : Nat := freshId (g.nodes.map (·.id))
def G.freshR (g : G) : Nat := freshId (g.rels.map (·.id))

def Rel.touches (r : Rel) (id : Nat) : Bool := r.src = id || r.tgt = id
def G.degree (g : G) (id : Nat) : Nat := (g.rels.filter (·.touches id)).length

/-- ids unique, no dangling relationship -/
def G.wf (g : G) : Bool :=
  (g.nodes.map (·.id)).Nodup && (g.rels.map (·.id)).Nodup
    && g.rels.all (fun r => g.hasNode r.src && g.hasNode r.tgt)

def G.addNode (g : G) (labels : List Nat) (props : Props) : G × Nat :=
  let id := g.freshN
  ({ g with nodes := g.nodes ++ [⟨id, labels, props⟩] }, id)

def G.addRel (g : G) (src tgt ty : Nat) (props : Props) : R (G × Nat) :=
  if g.hasNode src && g.hasNode tgt then
    let id := g.freshR
    .ok ({ g with rels := g.rels ++ [⟨id, src, tgt, ty, props⟩] }, id)
  else .error .constraint

def G.mapNode (g : G) (id : Nat) (f : Node → Node) : G :=
  { g with nodes := g.nodes.map (fun n => if n.id = id then { f n with id := n.id } else n) }

def G.mapRel (g : G) (id : Nat) (f : Rel → Rel) : G :=
  { g with rels := g.rels.map (fun r => if r.id = id then { f r with id := r.id, src := r.src, tgt := r.tgt } else r) }

def G.delRel (g : G) (id : Nat) : G := { g with rels := g.rels.filter (·.id ≠ id) }

/-- `DELETE n` (detach = false) refuses a node that still has relationships;
`DETACH DELETE n` removes exactly the incident relationships with it.  Deleting a node that
is not there is a no-op. -/
def G.delNode (g : G) (detach : Bool) (id : Nat) : R G :=
  if !g.hasNode id then .ok g
  else if !detach && g.degree id > 0 then .error .constraint
  else .ok { nodes := g.nodes.filter (·.id ≠ id), rels := g.rels.filter (fun r => !r.touches id) }

/-- the pinned tree: plain DELETE detached silently (`delete_node` removes incident
relationships and the operator never looked at its `detach` flag) -/
def G.delNodeLegacy (g : G) (_detach : Bool) (id : Nat) : R G :=
  .ok { nodes := g.nodes.filter (·.id ≠ id), rels := g.rels.filter (fun r => !r.touches id) }

/-! ## Rows -/

inductive B where
  | node (id : Nat)
  | rel (id : Nat)
  | val (v : V)
  deriving DecidableEq, Repr

abbrev Row := List (Nat × B)

def Row.get : Row → Nat → Option B
  | [], _ => none
  | (y, b) :: r, x => if y = x then some b else Row.get r x

def Row.bind (r : Row) (x : Nat) (b : B) : Row := (x, b) :: r

/-! ## Expressions -/

inductive UnOp where
  | not | neg | isNull | isNotNull
  deriving DecidableEq, Repr

inductive BinOp where
  | add | sub | mul | div | mod | eq | ne | lt | le | gt | ge | and | or | xor | inList | coalesce
  deriving DecidableEq, Repr

inductive E where
  | lit (v : V)
  | var (x : Nat)
  | prop (x k : Nat)                 -- x.k  (x a node, a relationship or a map value)
  | param (p : Nat)
  | lnil | lcons (h t : E)           -- list literal
  | mnil | mcons (k : Nat) (h t : E) -- map literal
  | un (op : UnOp) (a : E)
  | bin (op : BinOp) (a b : E)
  | ite (c t e : E)                  -- CASE WHEN c THEN t ELSE e END
  | idx (a i : E)
  | comp (x : Nat) (l f m : E)       -- [x IN l WHERE f | m]
  deriving DecidableEq, Repr, Inhabited

def minsert : V → Nat → V → V
  | .mcons k' h t, k, v =>
    if k < k' then .mcons k v (.mcons k' h t)
    else if k = k' then .mcons k v t
    else .mcons k' h (minsert t k v)
  | _, k, v => .mcons k v .mnil

def strLt : List Char → List Char → Bool
  | [], [] => false
  | [], _ :: _ => true
  | _ :: _, [] => false
  | a :: as, b :: bs => if a.toNat < b.toNat then true else if a.toNat > b.toNat then false else strLt as bs

/-- scalar class used by comparisons: 0 null, 1 bool, 2 int, 3 float, 4 string, 5 container -/
def V.cls : V → Nat
  | .null => 0 | .bool _ => 1 | .int _ => 2 | .flt _ => 3 | .str _ => 4 | _ => 5

/-- `=` with three-valued logic.  Containers and int/float mixes are outside the model. -/
def vEq (a b : V) : R V :=
  if a = .null || b = .null then .ok .null
  else if a.cls = 5 || b.cls = 5 then .error .unsup
  else if (a.cls = 2 && b.cls = 3) || (a.cls = 3 && b.cls = 2) then .error .unsup
  else .ok (.bool (a = b))

def vLt (a b : V) : R V :=
  match a, b with
  | .null, _ => .ok .null
  | _, .null => .ok .null
  | .int x, .int y => .ok (.bool (x < y))
  | .str x, .str y => .ok (.bool (strLt x y))
  | _, _ => .error .unsup

def vNot : V → R V
  | .null => .ok .null
  | .bool b => .ok (.bool !b)
  | _ => .error .unsup

/-- integer results outside `i64` are outside the model (the engine's arithmetic overflows) -/
def inI64 (i : Int) : R V :=
  if -9223372036854775808 ≤ i && i ≤ 9223372036854775807 then .ok (.int i) else .error .unsup

def arith (op : BinOp) (a b : V) : R V :=
  match a, b with
  | .null, _ => .ok .null
  | _, .null => .ok .null
  | .int x, .int y =>
    match op with
    | .add => inI64 (x + y)
    | .sub => inI64 (x - y)
    | .mul => inI64 (x * y)
    | .div => if y = 0 then .error .div0 else .ok (.int (Int.tdiv x y))
    | .mod => if y = 0 then .error .div0 else .ok (.int (Int.tmod x y))
    | _ => .error .unsup
  | .str x, .str y => if op = .add then .ok (.str (x ++ y)) else .error .type
  | .int _, .str _ => if op = .add then .error .unsup else .error .type
  | .str _, .int _ => if op = .add then .error .unsup else .error .type
  | _, _ => .error .unsup

def vAnd (a b : V) : R V :=
  match a, b with
  | .bool false, .bool _ => .ok (.bool false)
  | .bool false, .null => .ok (.bool false)
  | .bool _, .bool false => .ok (.bool false)
  | .null, .bool false => .ok (.bool false)
  | .bool true, .bool true => .ok (.bool true)
  | .bool true, .null => .ok .null
  | .null, .bool true => .ok .null
  | .null, .null => .ok .null
  | _, _ => .error .unsup

def vOr (a b : V) : R V :=
  match a, b with
  | .bool true, .bool _ => .ok (.bool true)
  | .bool true, .null => .ok (.bool true)
  | .bool _, .bool true => .ok (.bool true)
  | .null, .bool true => .ok (.bool true)
  | .bool false, .bool false => .ok (.bool false)
  | .bool false, .null => .ok .null
  | .null, .bool false => .ok .null
  | .null, .null => .ok .null
  | _, _ => .error .unsup

/-- XOR in three-valued logic: unknown as soon as one side is -/
def vXor (a b : V) : R V :=
  match a, b with
  | .bool x, .bool y => .ok (.bool (x != y))
  | .null, .bool _ => .ok .null
  | .bool _, .null => .ok .null
  | .null, .null => .ok .null
  | _, _ => .error .unsup

/-- `a IN l` in three-valued logic: true if some element equals `a`; otherwise null if some
comparison was unknown (a null on either side); otherwise false.  `x IN []` is false. -/
def vInAcc (a : V) : V → Bool → R V
  | .cons h t, unknown => do
    let e ← vEq a h
    if e = .bool true then pure (.bool true)
    else vInAcc a t (unknown || e = .null)
  | _, unknown => pure (if unknown then .null else .bool false)

def vIn (a l : V) : R V :=
  if l = .null then .ok .null
  else if l.isList then vInAcc a l false
  else .error .unsup

def binop (op : BinOp) (a b : V) : R V :=
  match op with
  | .eq => vEq a b
  | .ne => do vNot (← vEq a b)
  | .lt => vLt a b
  | .gt => vLt b a
  | .le => do vNot (← vLt b a)
  | .ge => do vNot (← vLt a b)
  | .and => vAnd a b
  | .or => vOr a b
  | .xor => vXor a b
  | .inList => vIn a b
  | .coalesce => .ok (if a = .null then b else a)
  | _ => arith op a b

def unop (op : UnOp) (a : V) : R V :=
  match op with
  | .not => vNot a
  | .neg => match a with
    | .null => .ok .null
    | .int x => inI64 (-x)
    | _ => .error .unsup
  | .isNull => .ok (.bool (a = .null))
  | .isNotNull => .ok (.bool (a ≠ .null))

def vIndex (a i : V) : R V :=
  match a, i with
  | .null, _ => .ok .null
  | _, .null => .ok .null
  | l, .int k =>
    if l.isList then
      let xs := l.toList
      let j : Int := if k < 0 then (xs.length : Int) + k else k
      if j < 0 then .ok .null else .ok (xs.getD j.toNat .null)
    else .error .unsup
  | _, _ => .error .unsup

/-- map `f` over a list value, keeping the `some` results -/
def filterMapV (f : V → R (Option V)) : V → R V
  | .cons h t => do
    let r ← f h
    let rest ← filterMapV f t
    match r with
    | some v => pure (.cons v rest)
    | none => pure rest
  | _ => pure .nil

/-- property read `x.k` on whatever `x` is bound to -/
def readProp (g : G) (b : Option B) (k : Nat) : R V :=
  match b with
  | none => .error .unbound
  | some (.node id) => match g.node? id with
    | some n => .ok (pget n.props k)
    | none => .ok .null
  | some (.rel id) => match g.rel? id with
    | some r => .ok (pget r.props k)
    | none => .ok .null
  | some (.val .null) => .ok .null
  | some (.val v) => if v.isMap then .ok (pget v.toProps k) else .error .type

/-- `eval g ps row e`: parameters `ps` are looked up at run time (the engine's `$name`
bindings); an unbound parameter is an error, never a default. -/
def eval (g : G) (ps : Props) (row : Row) : E → R V
  | .lit v => .ok v
  | .var x => match row.get x with
    | some (.val v) => .ok v
    | some (.node id) => .ok (.node id)
    | some _ => .error .unsup
    | none => .error .unbound
  | .prop x k => readProp g (row.get x) k
  | .param p => match plookup ps p with
    | some v => .ok v
    | none => .error .param
  | .lnil => .ok .nil
  | .lcons h t => do
    let hv ← eval g ps row h
    let tv ← eval g ps row t
    pure (.cons hv tv)
  | .mnil => .ok .mnil
  | .mcons k h t => do
    let hv ← eval g ps row h
    let tv ← eval g ps row t
    pure (minsert tv k hv)
  | .un op a => do unop op (← eval g ps row a)
  | .bin op a b => do
    let av ← eval g ps row a
    let bv ← eval g ps row b
    binop op av bv
  | .ite c t e => do
    let cv ← eval g ps row c
    if cv = .bool true then eval g ps row t
    else if cv = .bool false || cv = .null then eval g ps row e
    else .error .unsup
  | .idx a i => do
    let av ← eval g ps row a
    let iv ← eval g ps row i
    vIndex av iv
  | .comp x l f m => do
    let lv ← eval g ps row l
    if lv = .null then .error .unsup
    else if !lv.isList then .error .unsup
    else filterMapV (fun v => do
      let c ← eval g ps (Row.bind row x (.val v)) f
      if c = .bool true then do
        let r ← eval g ps (Row.bind row x (.val v)) m
        pure (some r)
      else pure none) lv

/-- parameter → literal wherever the parameter is supplied; others stay (and fail at run
time).  Binder names and parameter names are different sorts, so nothing is captured. -/
def substE (ps : Props) : E → E
  | .param p => match plookup ps p with
    | some v => .lit v
    | none => .param p
  | .lcons h t => .lcons (substE ps h) (substE ps t)
  | .mcons k h t => .mcons k (substE ps h) (substE ps t)
  | .un op a => .un op (substE ps a)
  | .bin op a b => .bin op (substE ps a) (substE ps b)
  | .ite c t e => .ite (substE ps c) (substE ps t) (substE ps e)
  | .idx a i => .idx (substE ps a) (substE ps i)
  | .comp x l f m => .comp x (substE ps l) (substE ps f) (substE ps m)
  | e => e

/-- how the seeded rewrite C35-a reads a constant operand of AND / OR: a `null` literal is
taken for `false` — right for the top level of a WHERE only -/
def truthLit : E → Option Bool
  | .lit (.bool b) => some b
  | .lit .null => some false
  | _ => none

/-- constant folding of one AND / OR node as in the seeded change C35-a (kept as a
counter-model: `C35_fold_null_as_false_unsound`) -/
def foldConn : E → E
  | .bin .or a b =>
    match truthLit a, truthLit b with
    | some true, _ => .lit (.bool true)
    | _, some true => .lit (.bool true)
    | some false, _ => b
    | _, some false => a
    | _, _ => .bin .or a b
  | .bin .and a b =>
    match truthLit a, truthLit b with
    | some false, _ => .lit (.bool false)
    | _, some false => .lit (.bool false)
    | some true, _ => b
    | _, some true => a
    | _, _ => .bin .and a b
  | e => e

/-- does the expression mention a parameter that `ps` does not supply?  (the engine's
`substitute_expr` reports `Unresolved parameter` for these — except below a list or map
literal, where the result is dropped, `executor/mod.rs:645-652`) -/
def missingParam (ps : Props) : E → Bool
  | .param p => (plookup ps p).isNone
  | .lcons _ _ => false
  | .mcons _ _ _ => false
  | .un _ a => missingParam ps a
  | .bin _ a b => missingParam ps a || missingParam ps b
  | .ite c t e => missingParam ps c || missingParam ps t || missingParam ps e
  | .idx a i => missingParam ps a || missingParam ps i
  | .comp _ l f m => missingParam ps l || missingParam ps f || missingParam ps m
  | _ => false

def evalProps (g : G) (ps : Props) (row : Row) : List (Nat × E) → R Props
  | [] => .ok []
  | (k, e) :: more => do
    let v ← eval g ps row e
    let rest ← evalProps g ps row more
    pure ((k, v) :: rest)

/-! ## Statements -/

structure NPat where
  var : Option Nat
  labels : List Nat
  props : List (Nat × E)
  deriving DecidableEq, Repr

/-- one CREATE path: a node, optionally `-[:ty props]->` / `<-[…]-` another node -/
structure CPath where
  a : NPat
  seg : Option (Nat × List (Nat × E) × Bool × NPat)
  deriving DecidableEq, Repr

inductive SetItem where
  | prop (x k : Nat) (e : E)       -- SET x.k = e
  | all (x : Nat) (e : E)          -- SET x = {…}
  | madd (x : Nat) (e : E)         -- SET x += {…}
  | label (x l : Nat)              -- SET x:L
  deriving DecidableEq, Repr

inductive RemItem where
  | prop (x k : Nat)
  | label (x l : Nat)
  deriving DecidableEq, Repr

inductive Clause where
  | unwind (e : E) (x : Nat)
  | matchN (x : Nat) (labels : List Nat) (props : List (Nat × E))
  | matchR (a : Nat) (la : List Nat) (r ty b : Nat) (lb : List Nat)   -- ty = 999: untyped `-[r]->`; a = b allowed (self-loop)
  | filter (e : E)
  | withC (keep : List Nat) (items : List (Nat × E))
  | create (paths : List CPath)
  | merge (p : NPat) (onCreate onMatch : List SetItem)
  | mergeRel (a : NPat) (ty : Nat) (b : NPat)      -- MERGE (a)-[:ty]->(b), both ends unbound
  | set (items : List SetItem)
  | remove (items : List RemItem)
  | delete (detach : Bool) (xs : List Nat)
  deriving DecidableEq, Repr

def Clause.isWrite : Clause → Bool
  | .create _ | .merge .. | .mergeRel .. | .set _ | .remove _ | .delete .. => true
  | _ => false

structure Stmt where
  clauses : List Clause
  ret : Option (List E)
  deriving DecidableEq, Repr

def Stmt.hasWrite (q : Stmt) : Bool := q.clauses.any Clause.isWrite

/-! ### per-row write semantics (evaluate, then mutate) -/

def hasLabels (n : Node) (ls : List Nat) : Bool := ls.all (fun l => n.labels.contains l)

/-- every required property is present with an equal (non-null) value -/
def hasProps (have_ : Props) (req : Props) : Bool :=
  req.all (fun kv => kv.2 ≠ .null && pget have_ kv.1 = kv.2)

def nodeMatches (n : Node) (ls : List Nat) (req : Props) : Bool := hasLabels n ls && hasProps n.props req

/-- a CREATE/MERGE node position: an already bound variable is a reference, anything else
is created (labels in ascending order, null-valued properties not stored) -/
def createNode (g : G) (ps : Props) (row : Row) (p : NPat) : R (G × Row × Nat) :=
  match p.var.bind row.get with
  | some (.node id) => .ok (g, row, id)
  | some _ => .error .type
  | none => do
    let props ← evalProps g ps row p.props
    let (g', id) := g.addNode (linsertAll [] p.labels) (psetAll [] props)
    let row' := match p.var with
      | some x => Row.bind row x (.node id)
      | none => row
    pure (g', row', id)

def createPath (g : G) (ps : Props) (row0 : Row) (acc : G × Row) (p : CPath) : R (G × Row) := do
  let (g1, row1, a) ← createNode acc.1 ps acc.2 p.a
  match p.seg with
  | none => pure (g1, row1)
  | some (ty, rprops, out, bpat) =>
    let (g2, row2, b) ← createNode g1 ps row1 bpat
    let rp ← evalProps g ps row0 rprops
    let (g3, _) ← if out then g2.addRel a b ty (psetAll [] rp) else g2.addRel b a ty (psetAll [] rp)
    pure (g3, row2)

def foldR {σ α : Type} (f : σ → α → R σ) : σ → List α → R σ
  | s, [] => .ok s
  | s, x :: xs => do
    let s' ← f s x
    foldR f s' xs

/-- evaluated SET item -/
inductive SetV where
  | prop (b : Option B) (k : Nat) (v : V)
  | all (b : Option B) (m : Props)
  | madd (b : Option B) (m : Props)
  | label (b : Option B) (l : Nat)

def evalSetItem (g : G) (ps : Props) (row : Row) : SetItem → R SetV
  | .prop x k e => do pure (.prop (row.get x) k (← eval g ps row e))
  | .all x e => do
    let v ← eval g ps row e
    if v = .null then pure (.all (row.get x) [])
    else if v.isMap then pure (.all (row.get x) v.toProps) else .error .type
  | .madd x e => do
    let v ← eval g ps row e
    if v = .null then pure (.madd (row.get x) [])
    else if v.isMap then pure (.madd (row.get x) v.toProps) else .error .type
  | .label x l => pure (.label (row.get x) l)

def applySetV (g : G) : SetV → R G
  | .prop (some (.node id)) k v => .ok (g.mapNode id (fun n => { n with props := pset n.props k v }))
  | .prop (some (.rel id)) k v => .ok (g.mapRel id (fun r => { r with props := pset r.props k v }))
  | .all (some (.node id)) m => .ok (g.mapNode id (fun n => { n with props := psetAll [] m }))
  | .all (some (.rel id)) m => .ok (g.mapRel id (fun r => { r with props := psetAll [] m }))
  | .madd (some (.node id)) m => .ok (g.mapNode id (fun n => { n with props := psetAll n.props m }))
  | .madd (some (.rel id)) m => .ok (g.mapRel id (fun r => { r with props := psetAll r.props m }))
  | .label (some (.node id)) l => .ok (g.mapNode id (fun n => { n with labels := linsert n.labels l }))
  | .prop (some (.val .null)) _ _ | .all (some (.val .null)) _ | .madd (some (.val .null)) _
  | .label (some (.val .null)) _ => .ok g
  | .prop none _ _ | .all none _ | .madd none _ | .label none _ => .error .unbound
  | _ => .error .type

def mapR {α β : Type} (f : α → R β) : List α → R (List β)
  | [] => .ok []
  | x :: xs => do
    let y ← f x
    let ys ← mapR f xs
    pure (y :: ys)

/-- SET: all right-hand sides are evaluated against the state before the clause touches
the row, then applied in order -/
def applySet (g : G) (ps : Props) (row : Row) (items : List SetItem) : R G := do
  let vs ← mapR (evalSetItem g ps row) items
  foldR applySetV g vs

def applyRem (row : Row) (g : G) : RemItem → R G
  | .prop x k => match row.get x with
    | some (.node id) => .ok (g.mapNode id (fun n => { n with props := perase n.props k }))
    | some (.rel id) => .ok (g.mapRel id (fun r => { r with props := perase r.props k }))
    | some (.val .null) => .ok g
    | some _ => .error .type
    | none => .error .unbound
  | .label x l => match row.get x with
    | some (.node id) => .ok (g.mapNode id (fun n => { n with labels := lerase n.labels l }))
    | some (.val .null) => .ok g
    | some _ => .error .type
    | none => .error .unbound

def applyDel (del : G → Bool → Nat → R G) (detach : Bool) (row : Row) (g : G) (x : Nat) : R G :=
  match row.get x with
  | some (.node id) => del g detach id
  | some (.rel id) => .ok (g.delRel id)
  | some (.val .null) => .ok g
  | some _ => .error .type
  | none => .error .unbound

/-- MERGE of a single node pattern for one row: bind the first match, or create. -/
def applyMerge (g : G) (ps : Props) (row : Row) (p : NPat) (onCreate onMatch : List SetItem) :
    R (G × Row) := do
  let req ← evalProps g ps row p.props
  if req.any (fun kv => kv.2 = .null) then .error .unsup
  else
    match g.nodes.find? (fun n => nodeMatches n p.labels req) with
    | some n =>
      let row' := match p.var with | some x => Row.bind row x (.node n.id) | none => row
      let g' ← applySet g ps row' onMatch
      pure (g', row')
    | none =>
      let (g1, id) := g.addNode (linsertAll [] p.labels) (psetAll [] req)
      let row' := match p.var with | some x => Row.bind row x (.node id) | none => row
      let g' ← applySet g1 ps row' onCreate
      pure (g', row')

/-- MERGE of a one-relationship pattern whose two ends are new pattern nodes: the whole
pattern is matched (two **distinct** nodes carrying *all* the labels and the properties of
their position, joined by a relationship of the type in the written direction) or the whole
pattern is created.  Label sets are sets: the written order of `:A:B` is irrelevant. -/
def applyMergeRel (g : G) (ps : Props) (row : Row) (a : NPat) (ty : Nat) (b : NPat) : R (G × Row) := do
  let ra ← evalProps g ps row a.props
  let rb ← evalProps g ps row b.props
  if ra.any (fun kv => kv.2 = .null) || rb.any (fun kv => kv.2 = .null) then .error .unsup
  else
    let bindv (r : Row) (x : Option Nat) (id : Nat) : Row :=
      match x with | some v => Row.bind r v (.node id) | none => r
    match g.rels.find? (fun r => r.ty = ty && r.src ≠ r.tgt &&
        (match g.node? r.src, g.node? r.tgt with
          | some s, some t => nodeMatches s a.labels ra && nodeMatches t b.labels rb
          | _, _ => false)) with
    | some r => pure (g, bindv (bindv row a.var r.src) b.var r.tgt)
    | none =>
      let (g1, ia) := g.addNode (linsertAll [] a.labels) (psetAll [] ra)
      let (g2, ib) := g1.addNode (linsertAll [] b.labels) (psetAll [] rb)
      let (g3, _) ← g2.addRel ia ib ty []
      pure (g3, bindv (bindv row a.var ia) b.var ib)

/-- one write clause on one row; `del` is the node-deletion primitive (repaired / legacy) -/
def applyWrite (del : G → Bool → Nat → R G) (ps : Props) (c : Clause) (g : G) (row : Row) :
    R (G × Row) :=
  match c with
  | .create paths => foldR (createPath g ps row) (g, row) paths
  | .merge p oc om => applyMerge g ps row p oc om
  | .mergeRel a ty b => applyMergeRel g ps row a ty b
  | .set items => do pure (← applySet g ps row items, row)
  | .remove items => do pure (← foldR (applyRem row) g items, row)
  | .delete detach xs => do pure (← foldR (applyDel del detach row) g xs, row)
  | _ => .ok (g, row)

/-! ### reading clauses (they never change the graph) -/

def readRows (g : G) (ps : Props) (c : Clause) (row : Row) : R (List Row) :=
  match c with
  | .unwind e x => do
    let v ← eval g ps row e
    if v = .null then pure []
    else if v.isList then pure (v.toList.map (fun el => Row.bind row x (.val el)))
    else .error .unsup
  | .matchN x ls props => do
    let req ← evalProps g ps row props
    pure ((g.nodes.filter (fun n => nodeMatches n ls req)).map (fun n => Row.bind row x (.node n.id)))
  | .matchR a la r ty b lb =>
    pure (g.rels.filterMap (fun rel =>
      match g.node? rel.src, g.node? rel.tgt with
      | some s, some t =>
        if (rel.ty = ty || ty = 999) && hasLabels s la && hasLabels t lb then
          some (Row.bind (Row.bind (Row.bind row a (.node s.id)) r (.rel rel.id)) b (.node t.id))
        else none
      | _, _ => none))
  | .filter e => do
    let v ← eval g ps row e
    if v = .bool true then pure [row]
    else if v = .bool false || v = .null then pure []
    else .error .unsup
  | .withC keep items => do
    let kept : Row := keep.filterMap (fun x => (row.get x).map (fun b => (x, b)))
    let vals ← mapR (fun (xe : Nat × E) => do pure (xe.1, B.val (← eval g ps row xe.2))) items
    pure [vals ++ kept]
  | _ => pure [row]

/-- one clause over the whole table, rows in order, threading the graph -/
def execClause (del : G → Bool → Nat → R G) (ps : Props) (c : Clause) : G × List Row → R (G × List Row)
  | (g, rows) =>
    if c.isWrite then do
      let (g', out) ← foldR (fun (acc : G × List Row) row => do
          let (g1, row1) ← applyWrite del ps c acc.1 row
          pure (g1, acc.2 ++ [row1])) (g, []) rows
      pure (g', out)
    else do
      let outs ← mapR (readRows g ps c) rows
      pure (g, outs.flatten)

/-- a statement: clauses left to right from the single empty row, then RETURN.
`Except`: an error discards every effect (statement atomicity is part of S). -/
def execWith (del : G → Bool → Nat → R G) (ps : Props) (g : G) (q : Stmt) : R (G × List (List V)) := do
  let (g', rows) ← foldR (fun st c => execClause del ps c st) (g, [[]]) q.clauses
  match q.ret with
  | none => pure (g', [])
  | some items => do
    let out ← mapR (fun row => mapR (eval g' ps row) items) rows
    pure (g', out)

def exec (ps : Props) (g : G) (q : Stmt) : R (G × List (List V)) := execWith G.delNode ps g q
def execLegacy (ps : Props) (g : G) (q : Stmt) : R (G × List (List V)) := execWith G.delNodeLegacy ps g q

/-- S for C05: what a statement leaves behind, error or not -/
def execAtomic (ps : Props) (g : G) (q : Stmt) : G × Option Err :=
  match exec ps g q with
  | .ok (g', _) => (g', none)
  | .error e => (g, some e)

/-! ### what the engine does: rows stream through the write operator, nothing is undone -/

/-- rows are pulled one at a time; each row's write is applied before the next row is
evaluated; the first error stops the statement and the graph stays as it is then -/
def streamRows {α : Type} (act : G → α → R G) : G → List α → G × Option Err
  | g, [] => (g, none)
  | g, r :: rs =>
    match act g r with
    | .ok g' => streamRows act g' rs
    | .error e => (g, some e)

/-- `MatchCreateEdgeOperator` of the pinned tree: the node is created **before** its
property expressions are evaluated and is not removed when one of them fails -/
def createRowLegacy (ps : Props) (p : NPat) (g : G) (row : Row) : G × Option Err :=
  let (g1, _) := g.addNode (linsertAll [] p.labels) []
  match createNode g ps row p with
  | .ok (g', _, _) => (g', none)
  | .error e => (g1, some e)

def streamRowsLegacy {α : Type} (act : G → α → G × Option Err) : G → List α → G × Option Err
  | g, [] => (g, none)
  | g, r :: rs =>
    match act g r with
    | (g', none) => streamRowsLegacy act g' rs
    | (g', some e) => (g', some e)

/-- a single-source, single-write-clause statement executed the engine's way:
`src` produces the rows (fallible, before any write), `c` is applied row by row -/
def execStream (ps : Props) (g : G) (src : List Clause) (c : Clause) : G × Option Err :=
  match foldR (fun st cl => execClause G.delNode ps cl st) (g, [[]]) src with
  | .error e => (g, some e)
  | .ok (_, rows) => streamRows (fun g row => (applyWrite G.delNode ps c g row).map (·.1)) g rows

/-- the same with the pinned tree's CREATE (node first, properties after, no clean-up) -/
def execStreamLegacyCreate (ps : Props) (g : G) (src : List Clause) (p : NPat) : G × Option Err :=
  match foldR (fun st cl => execClause G.delNode ps cl st) (g, [[]]) src with
  | .error e => (g, some e)
  | .ok (_, rows) => streamRowsLegacy (createRowLegacy ps p) g rows

/-! ## Parameters at statement level (C35) -/

def mapProps (f : E → E) (l : List (Nat × E)) : List (Nat × E) := l.map (fun ke => (ke.1, f ke.2))

def NPat.mapE (f : E → E) (p : NPat) : NPat := { p with props := mapProps f p.props }

def SetItem.mapE (f : E → E) : SetItem → SetItem
  | .prop x k e => .prop x k (f e)
  | .all x e => .all x (f e)
  | .madd x e => .madd x (f e)
  | .label x l => .label x l

def CPath.mapE (f : E → E) (p : CPath) : CPath :=
  { a := p.a.mapE f,
    seg := p.seg.map (fun s => (s.1, mapProps f s.2.1, s.2.2.1, s.2.2.2.mapE f)) }

def Clause.mapE (f : E → E) : Clause → Clause
  | .unwind e x => .unwind (f e) x
  | .matchN x ls props => .matchN x ls (mapProps f props)
  | .matchR a la r ty b lb => .matchR a la r ty b lb
  | .filter e => .filter (f e)
  | .withC keep items => .withC keep (mapProps f items)
  | .create paths => .create (paths.map (CPath.mapE f))
  | .merge p oc om => .merge (p.mapE f) (oc.map (SetItem.mapE f)) (om.map (SetItem.mapE f))
  | .mergeRel a ty b => .mergeRel (a.mapE f) ty (b.mapE f)
  | .set items => .set (items.map (SetItem.mapE f))
  | .remove items => .remove items
  | .delete d xs => .delete d xs

/-- inline every parameter as a literal -/
def Stmt.inline (ps : Props) (q : Stmt) : Stmt :=
  { clauses := q.clauses.map (Clause.mapE (substE ps)), ret := q.ret.map (·.map (substE ps)) }

/-- the engine's `substitute_params`: only some positions are visited (`vis c` says whether
the expressions of clause `c` are; RETURN always is) -/
def Stmt.substVisited (vis : Clause → Bool) (ps : Props) (q : Stmt) : Stmt :=
  { clauses := q.clauses.map (fun c => if vis c then Clause.mapE (substE ps) c else c),
    ret := q.ret.map (·.map (substE ps)) }

/-! ## Executable specification on observations -/

def renId (ren : List (Nat × Nat)) (i : Nat) : Nat :=
  match ren.find? (·.1 = i) with
  | some p => p.2
  | none => i

/-- rename the node handles that occur in a returned row -/
def renV (ren : List (Nat × Nat)) : V → V
  | .node i => .node (renId ren i)
  | v => v

def insertBy {α : Type} (key : α → Nat) (x : α) : List α → List α
  | [] => [x]
  | y :: ys => if key x ≤ key y then x :: y :: ys else y :: insertBy key x ys

def sortBy {α : Type} (key : α → Nat) (l : List α) : List α := l.foldr (insertBy key) []

/-- rename node handles by `ren` (relationship handles are dropped: set to 0) and sort -/
def G.canon (g : G) (ren : List (Nat × Nat)) : List Node × List (Nat × Nat × Nat × Props) :=
  (sortBy (·.id) (g.nodes.map (fun n => { n with id := renId ren n.id })),
   g.rels.map (fun r => (renId ren r.src, renId ren r.tgt, r.ty, r.props)))

def countEq {α : Type} [DecidableEq α] (a : α) (l : List α) : Nat := (l.filter (· = a)).length

def bagEq {α : Type} [DecidableEq α] (l₁ l₂ : List α) : Bool :=
  l₁.length = l₂.length && l₁.all (fun a => countEq a l₁ = countEq a l₂)

inductive Obs where
  | ok (post : G) (rows : List (List V))
  | err (e : Err) (post : G)

/-- **S on observations**: the statement `q` run on `pre` by the implementation produced
`obs`.  Accepted iff the reference semantics gives the same rows (as a bag) and the same
graph up to the renaming `ren` (implementation handle ↦ reference handle) of nodes, or both
fail; and a failed statement left the graph as it was. -/
def specStmt (ps : Props) (pre : G) (q : Stmt) (obs : Obs) (ren : List (Nat × Nat)) : Bool :=
  match exec ps pre q, obs with
  | .ok (g', rows), .ok post orows =>
    let a := g'.canon []
    let b := post.canon ren
    a.1 = b.1 && bagEq a.2 b.2 && bagEq rows (orows.map (·.map (renV ren)))
  | .error _, .err _ post =>
    (post.canon []).1 = (pre.canon []).1 && bagEq (post.canon []).2 (pre.canon []).2
  | _, _ => false

/-- **S for C35 on observations**: the statement executed with parameters (`p`) against the
statement executed with every parameter written as a literal (`i`): an error on the
parameter side is admissible, a different answer or a different effect is not. -/
def specParam : Obs → Obs → Bool
  | .err _ _, _ => true
  | .ok gp rp, .ok gi ri =>
    (gp.canon []).1 = (gi.canon []).1 && bagEq (gp.canon []).2 (gi.canon []).2 && bagEq rp ri
  | .ok _ _, .err _ _ => false

/-- **S for C05 on observations**: a statement that failed left the graph as it was -/
def specAtomic (pre : G) : Obs → Bool
  | .err _ post => (post.canon []).1 = (pre.canon []).1 && bagEq (post.canon []).2 (pre.canon []).2
  | .ok _ _ => true

def litProps (l : List (Nat × E)) : Bool :=
  l.all (fun ke => match ke.2 with | .lit _ => true | _ => false)

/-- a write clause that cannot fail: CREATE of new anonymous nodes with literal properties -/
def litCreate : Clause → Bool
  | .create paths => paths.all (fun p => p.a.var.isNone && litProps p.a.props && p.seg.isNone)
  | _ => false

/-! ## Literals as text (C35: "written as a literal") -/

/-- a string as a single-quoted Cypher literal: `'` and `\` are escaped with `\` -/
def escBody : List Char → List Char
  | [] => []
  | c :: cs => if c = '\'' || c = '\\' then '\\' :: c :: escBody cs else c :: escBody cs

def renderStr (s : List Char) : List Char := '\'' :: (escBody s ++ ['\''])

/-- read the body of a single-quoted literal up to the closing quote -/
def unescBody : List Char → Option (List Char × List Char)
  | [] => none
  | '\\' :: c :: cs => (unescBody cs).map (fun r => (c :: r.1, r.2))
  | c :: cs => if c = '\'' then some ([], cs) else (unescBody cs).map (fun r => (c :: r.1, r.2))

def parseStr : List Char → Option (List Char × List Char)
  | '\'' :: cs => unescBody cs
  | _ => none

/-- decimal digits, least significant first -/
def digitsRev : Nat → Nat → List Nat
  | 0, _ => []
  | f + 1, n => if n < 10 then [n] else (n % 10) :: digitsRev f (n / 10)

def valRev : List Nat → Nat
  | [] => 0
  | d :: ds => d + 10 * valRev ds

/-- an integer literal as (sign, decimal digits most significant first) -/
def renderInt (i : Int) : Bool × List Nat := (i < 0, (digitsRev (i.natAbs + 1) i.natAbs).reverse)

def parseInt (t : Bool × List Nat) : Int :=
  if t.1 then - (valRev t.2.reverse : Int) else (valRev t.2.reverse : Int)

end SgModel.CyW
