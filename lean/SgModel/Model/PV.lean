/-
Model of `src/graph/property.rs`: `PropertyValue`, its index order (`impl Ord`), the derived
`PartialEq`, the manual `Hash` (as the *sequence of words fed to the hasher*), and
`cypher_order` (the ORDER BY order).  Import-free (the driver links against it).

Representation
* `f64`/`f32` are their raw bit patterns (`Nat`); nothing here uses Lean's `Float`.
* `String`s and map keys are their UTF-8 bytes (`List Nat`): Rust's `str::cmp` is the
  lexicographic order of the bytes.
* a `HashMap<String, PropertyValue>` is its *key-sorted* entry list (`PVm`): every operation
  of the Rust code on maps (`cmp`, `hash`) sorts the keys first, and the derived `==` of two
  hash maps is equality of the sorted entry lists.  The driver rejects unsorted input.
* `Integer(i64)`, `DateTime(i64)`, `Duration` fields are `Int`; `i64 as f64` is
  `F64.cast` (round to nearest even), total on `Int` by clamping to the `i64` range first
  (the identity on every value a Rust `i64` can hold).

`cmp`/`cypherOrder` model the code *after* the `fix:` commit (a NaN is ordered against an
integer by its `total_cmp` position: negative NaN below, positive NaN above); `cmpLegacy` /
`cypherOrderLegacy` model the pinned tree (every integer below every NaN).  All of them are
parametrised by the integer→float conversion so that the order laws can be proved from two
facts about it (monotone, never NaN) and then instantiated with `F64.cast`.
-/
namespace SgModel.PV

/-! ## comparison helpers (own definitions, so that proofs unfold to linear arithmetic) -/

def cmpNat (a b : Nat) : Ordering := if a < b then .lt else if a = b then .eq else .gt
def cmpInt (a b : Int) : Ordering := if a < b then .lt else if a = b then .eq else .gt
def cmpBool (a b : Bool) : Ordering := cmpNat a.toNat b.toNat

/-- lexicographic order of two lists; a strict prefix is smaller (Rust: `<[T] as Ord>::cmp`,
`Iterator::cmp`, `str::cmp` on bytes) -/
def cmpLex {α : Type} (c : α → α → Ordering) : List α → List α → Ordering
  | [], [] => .eq
  | [], _ :: _ => .lt
  | _ :: _, [] => .gt
  | x :: xs, y :: ys => (c x y).then (cmpLex c xs ys)

/-! ## IEEE-754 binary64 / binary32 at the bit level -/
namespace F64

/-- `f64::is_nan` on the bit pattern: exponent all ones, mantissa non-zero, either sign.
(Written as two intervals rather than with `% 2^63` so that the functions below are total on
`Nat` without a `< 2^64` side condition: a "pattern" ≥ 2^64 — which no `u64` is, and which the
driver never produces — simply counts as a negative NaN.) -/
def isNaN (b : Nat) : Bool :=
  decide ((0x7FF0000000000000 < b ∧ b < 0x8000000000000000) ∨ 0xFFF0000000000000 < b)
/-- `f64::is_sign_negative` -/
def isNeg (b : Nat) : Bool := decide (0x8000000000000000 ≤ b)
/-- the key of `f64::total_cmp` (`bits ^ (((bits >> 63) as u64) >> 1)` read as `i64`):
non-negative patterns keep their value, negative ones are reflected below zero -/
def totalKey (b : Nat) : Int :=
  if b < 0x8000000000000000 then (b : Int) else (0x7FFFFFFFFFFFFFFF : Int) - (b : Int)
def totalCmp (x y : Nat) : Ordering := cmpInt (totalKey x) (totalKey y)
/-- numeric key of a non-NaN pattern: `totalKey` with `-0.0` identified with `+0.0` -/
def ieeeKey (b : Nat) : Int := if b = 0x8000000000000000 then 0 else totalKey b
/-- `f64::partial_cmp` -/
def partialCmp (x y : Nat) : Option Ordering :=
  if isNaN x || isNaN y then none else some (cmpInt (ieeeKey x) (ieeeKey y))
def isZero (b : Nat) : Bool := b == 0 || b == 0x8000000000000000
/-- `f64 == f64` -/
def ieeeEq (x y : Nat) : Bool := !isNaN x && !isNaN y && (x == y || (isZero x && isZero y))
/-- `-0.0 ↦ +0.0`, everything else unchanged -/
def normZero (b : Nat) : Nat := if b = 0x8000000000000000 then 0 else b

/-- `n as f64` for a natural number: round to nearest, ties to even.  (Overflow to
infinity cannot happen below 2^1024; callers stay below 2^64.) -/
def ofNat (n : Nat) : Nat :=
  if n = 0 then 0 else
  let e := n.log2
  if e ≤ 52 then (e + 1023) * 0x10000000000000 + (n * 2 ^ (52 - e) - 0x10000000000000)
  else
    let s := e - 52
    let q := n / 2 ^ s
    let r := n % 2 ^ s
    let h := 2 ^ (s - 1)
    let q' := if h < r || (r = h && q % 2 = 1) then q + 1 else q
    (e + 1023) * 0x10000000000000 + (q' - 0x10000000000000)

/-- `i as f64` (sign-magnitude, so rounding is symmetric) -/
def ofInt (i : Int) : Nat :=
  if 0 ≤ i then ofNat i.toNat else 0x8000000000000000 + ofNat (-i).toNat

def clampI64 (i : Int) : Int :=
  if i < -0x8000000000000000 then -0x8000000000000000
  else if 0x7FFFFFFFFFFFFFFF < i then 0x7FFFFFFFFFFFFFFF else i

/-- the conversion used by the model: `i64 as f64`, total on `Int` -/
def cast (i : Int) : Nat := ofInt (clampI64 i)

end F64

namespace F32
def isNaN (b : Nat) : Bool := decide (0x7F800000 < b % 0x80000000)
def isZero (b : Nat) : Bool := b == 0 || b == 0x80000000
def ieeeEq (x y : Nat) : Bool := !isNaN x && !isNaN y && (x == y || (isZero x && isZero y))
def normZero (b : Nat) : Nat := if b = 0x80000000 then 0 else b
end F32

/-! ## values -/

mutual
/-- `PropertyValue`, constructors in the order of the Rust enum -/
inductive PV where
  | str (s : List Nat)
  | int (i : Int)
  | flt (bits : Nat)
  | bool (b : Bool)
  | dt (t : Int)
  | arr (xs : PVs)
  | map (m : PVm)
  | vec (lanes : List Nat)
  | dur (months days seconds nanos : Int)
  | null
/-- `Vec<PropertyValue>` -/
inductive PVs where
  | nil
  | cons (x : PV) (xs : PVs)
/-- `HashMap<String, PropertyValue>` as its key-sorted entry list -/
inductive PVm where
  | nil
  | cons (k : List Nat) (v : PV) (m : PVm)
end

def PVs.len : PVs → Nat
  | .nil => 0
  | .cons _ xs => xs.len + 1

def PVm.keys : PVm → List (List Nat)
  | .nil => []
  | .cons k _ m => k :: m.keys

/-- `bucket` of `impl Ord` -/
def bucket : PV → Nat
  | .bool _ => 0
  | .int _ => 1
  | .flt _ => 1
  | .str _ => 2
  | .dt _ => 3
  | .arr _ => 4
  | .map _ => 5
  | .vec _ => 6
  | .dur .. => 7
  | .null => 8

/-! ## the index order: `impl Ord for PropertyValue` -/

/-- `Integer(a)` against `Float(f)`:
`(a as f64).partial_cmp(f).unwrap_or(if f.is_sign_negative() {Greater} else {Less}).then(Less)` -/
def cmpIF (cast : Int → Nat) (a : Int) (f : Nat) : Ordering :=
  match F64.partialCmp (cast a) f with
  | some o => o.then .lt
  | none => if F64.isNeg f then .gt else .lt

/-- `Float(f)` against `Integer(b)` -/
def cmpFI (cast : Int → Nat) (f : Nat) (b : Int) : Ordering :=
  match F64.partialCmp f (cast b) with
  | some o => o.then .gt
  | none => if F64.isNeg f then .lt else .gt

/-- pinned tree: `.unwrap_or(Less)` — every integer below every NaN -/
def cmpIFLegacy (cast : Int → Nat) (a : Int) (f : Nat) : Ordering :=
  match F64.partialCmp (cast a) f with
  | some o => o.then .lt
  | none => .lt

def cmpFILegacy (cast : Int → Nat) (f : Nat) (b : Int) : Ordering :=
  match F64.partialCmp f (cast b) with
  | some o => o.then .gt
  | none => .gt

def cmpDur (m1 d1 s1 n1 m2 d2 s2 n2 : Int) : Ordering :=
  (cmpInt m1 m2).then ((cmpInt d1 d2).then ((cmpInt s1 s2).then (cmpInt n1 n2)))

mutual
/-- `Ord::cmp`, generic in the two mixed-number arms (`nif` = Integer/Float, `nfi` = Float/Integer) -/
def cmpG (nif : Int → Nat → Ordering) (nfi : Nat → Int → Ordering) : PV → PV → Ordering
  | .int a, .int b => cmpInt a b
  | .flt a, .flt b => F64.totalCmp a b
  | .int a, .flt b => nif a b
  | .flt a, .int b => nfi a b
  | .bool a, .bool b => cmpBool a b
  | .str a, .str b => cmpLex cmpNat a b
  | .dt a, .dt b => cmpInt a b
  | .arr a, .arr b => cmpArrG nif nfi a b
  | .vec a, .vec b => cmpLex cmpNat a b
  | .dur m1 d1 s1 n1, .dur m2 d2 s2 n2 => cmpDur m1 d1 s1 n1 m2 d2 s2 n2
  | .null, .null => .eq
  -- sorted keys lexicographically (zip, then lengths), then the values in key order
  | .map a, .map b => (cmpLex (cmpLex cmpNat) a.keys b.keys).then (cmpValsG nif nfi a b)
  | a, b => cmpNat (bucket a) (bucket b)
/-- `Vec<PropertyValue>::cmp` -/
def cmpArrG (nif : Int → Nat → Ordering) (nfi : Nat → Int → Ordering) : PVs → PVs → Ordering
  | .nil, .nil => .eq
  | .nil, .cons _ _ => .lt
  | .cons _ _, .nil => .gt
  | .cons x xs, .cons y ys => (cmpG nif nfi x y).then (cmpArrG nif nfi xs ys)
/-- the value loop of the `Map` arm (reached only when the key lists are equal) -/
def cmpValsG (nif : Int → Nat → Ordering) (nfi : Nat → Int → Ordering) : PVm → PVm → Ordering
  | .cons _ v m, .cons _ w n => (cmpG nif nfi v w).then (cmpValsG nif nfi m n)
  | _, _ => .eq
end

/-- the index order over an arbitrary integer→float conversion (code after the fix) -/
def cmpC (cast : Int → Nat) : PV → PV → Ordering := cmpG (cmpIF cast) (cmpFI cast)
def cmpArrC (cast : Int → Nat) : PVs → PVs → Ordering := cmpArrG (cmpIF cast) (cmpFI cast)
def cmpValsC (cast : Int → Nat) : PVm → PVm → Ordering := cmpValsG (cmpIF cast) (cmpFI cast)
/-- the index order of the repaired code -/
def cmp : PV → PV → Ordering := cmpC F64.cast
/-- the index order of the pinned tree -/
def cmpLegacy : PV → PV → Ordering := cmpG (cmpIFLegacy F64.cast) (cmpFILegacy F64.cast)

/-! ## `cypher_order` -/

def rank : PV → Nat
  | .map _ => 0
  | .arr _ => 1
  | .vec _ => 1
  | .str _ => 2
  | .bool _ => 3
  | .int _ => 4
  | .flt _ => 4
  | .dt _ => 4
  | .dur .. => 4
  | .null => 5

mutual
/-- `cypher_order`; `fixed = false` is the pinned tree (no Integer/NaN arms; falls back to
the given index order `ord`) -/
def cyG (ord : PV → PV → Ordering) (fixed : Bool) (a b : PV) : Ordering :=
  if rank a ≠ rank b then cmpNat (rank a) (rank b) else
  match a, b with
  | .arr x, .arr y => cyArrG ord fixed x y
  | .flt x, .flt y =>
    if F64.isNaN x || F64.isNaN y then
      (if F64.isNaN x then (if F64.isNaN y then .eq else .gt) else .lt)
    else ord a b
  | .int _, .flt y => if fixed && F64.isNaN y then .lt else ord a b
  | .flt x, .int _ => if fixed && F64.isNaN x then .gt else ord a b
  | _, _ => ord a b
def cyArrG (ord : PV → PV → Ordering) (fixed : Bool) : PVs → PVs → Ordering
  | .nil, .nil => .eq
  | .nil, .cons _ _ => .lt
  | .cons _ _, .nil => .gt
  | .cons x xs, .cons y ys => (cyG ord fixed x y).then (cyArrG ord fixed xs ys)
end

def cypherOrderC (cast : Int → Nat) : PV → PV → Ordering := cyG (cmpC cast) true
def cypherOrder : PV → PV → Ordering := cyG cmp true
def cypherOrderLegacy : PV → PV → Ordering := cyG cmpLegacy false

/-! ## derived `PartialEq` (IEEE on floats and vector lanes) -/

def lanesEq : List Nat → List Nat → Bool
  | [], [] => true
  | x :: xs, y :: ys => F32.ieeeEq x y && lanesEq xs ys
  | _, _ => false

mutual
def beq : PV → PV → Bool
  | .str a, .str b => a == b
  | .int a, .int b => a == b
  | .flt a, .flt b => F64.ieeeEq a b
  | .bool a, .bool b => a == b
  | .dt a, .dt b => a == b
  | .arr a, .arr b => beqArr a b
  | .map a, .map b => beqMap a b
  | .vec a, .vec b => lanesEq a b
  | .dur m1 d1 s1 n1, .dur m2 d2 s2 n2 => m1 == m2 && d1 == d2 && s1 == s2 && n1 == n2
  | .null, .null => true
  | _, _ => false
def beqArr : PVs → PVs → Bool
  | .nil, .nil => true
  | .cons x xs, .cons y ys => beq x y && beqArr xs ys
  | _, _ => false
def beqMap : PVm → PVm → Bool
  | .nil, .nil => true
  | .cons k v m, .cons l w n => k == l && beq v w && beqMap m n
  | _, _ => false
end

/-! ## `Hash`: the sequence of calls made on the `Hasher` -/

inductive HW where
  | i32 (v : Int)
  | i64 (v : Int)
  | u64 (v : Nat)
  | u32 (v : Nat)
  | u8 (v : Nat)
  | usize (v : Nat)
  | bytes (b : List Nat)
deriving DecidableEq, Repr

mutual
def hashKey : PV → List HW
  | .str s => [.i32 0, .bytes s, .u8 255]
  | .int i => [.i32 1, .i64 i]
  | .flt b => [.i32 2, .u64 b]
  | .bool b => [.i32 3, .u8 b.toNat]
  | .dt t => [.i32 4, .i64 t]
  | .arr xs => .i32 5 :: .usize xs.len :: hashArr xs
  | .map m => .i32 6 :: hashMap m
  | .vec l => .i32 7 :: l.map .u32
  | .dur mo d s n => [.i32 8, .i64 mo, .i64 d, .i64 s, .i32 n]
  | .null => [.i32 9]
def hashArr : PVs → List HW
  | .nil => []
  | .cons x xs => hashKey x ++ hashArr xs
def hashMap : PVm → List HW
  | .nil => []
  | .cons k v m => .bytes k :: .u8 255 :: (hashKey v ++ hashMap m)
end

/-! ## the class on which `==` is not bit identity: NaN and signed zeros -/

mutual
/-- no NaN anywhere (floats and vector lanes) -/
def noNaN : PV → Bool
  | .flt b => !F64.isNaN b
  | .vec l => l.all (fun x => !F32.isNaN x)
  | .arr xs => noNaNArr xs
  | .map m => noNaNMap m
  | _ => true
def noNaNArr : PVs → Bool
  | .nil => true
  | .cons x xs => noNaN x && noNaNArr xs
def noNaNMap : PVm → Bool
  | .nil => true
  | .cons _ v m => noNaN v && noNaNMap m
end

mutual
/-- every `-0.0` (float or lane) replaced by `+0.0` -/
def normZero : PV → PV
  | .flt b => .flt (F64.normZero b)
  | .vec l => .vec (l.map F32.normZero)
  | .arr xs => .arr (normZeroArr xs)
  | .map m => .map (normZeroMap m)
  | v => v
def normZeroArr : PVs → PVs
  | .nil => .nil
  | .cons x xs => .cons (normZero x) (normZeroArr xs)
def normZeroMap : PVm → PVm
  | .nil => .nil
  | .cons k v m => .cons k (normZero v) (normZeroMap m)
end

mutual
/-- structural (bit) identity, executable -/
def same : PV → PV → Bool
  | .str a, .str b => a == b
  | .int a, .int b => a == b
  | .flt a, .flt b => a == b
  | .bool a, .bool b => a == b
  | .dt a, .dt b => a == b
  | .arr a, .arr b => sameArr a b
  | .map a, .map b => sameMap a b
  | .vec a, .vec b => a == b
  | .dur m1 d1 s1 n1, .dur m2 d2 s2 n2 => m1 == m2 && d1 == d2 && s1 == s2 && n1 == n2
  | .null, .null => true
  | _, _ => false
def sameArr : PVs → PVs → Bool
  | .nil, .nil => true
  | .cons x xs, .cons y ys => same x y && sameArr xs ys
  | _, _ => false
def sameMap : PVm → PVm → Bool
  | .nil, .nil => true
  | .cons k v m, .cons l w n => k == l && same v w && sameMap m n
  | _, _ => false
end

/-- no NaN and no negative zero: on such values `==` is bit identity -/
def tame (a : PV) : Bool := noNaN a && same (normZero a) a

/-! ## executable specification, on observations

For three values `a b c` the harness observes, on the real code, the nine `cmp` results,
`==`, whether the hasher saw the same word sequence, and the nine `cypher_order` results.
The laws below are the property; `knownClass…` name the exact classes in which the derived
`==` is known to disagree with the (bit-level) order and hash. -/

/-- reflexivity of a comparator result `cmp a a` -/
def lawRefl (aa : Ordering) : Bool := aa == .eq
/-- antisymmetry / totality: `cmp b a` is the mirror image of `cmp a b` -/
def lawSwap (ab ba : Ordering) : Bool := ba == ab.swap
/-- transitivity, in the form that covers a total preorder with ties:
`a ≤ b ≤ c → a ≤ c`, strict if either step is strict -/
def lawTrans (ab bc ac : Ordering) : Bool :=
  if ab != .gt && bc != .gt then
    ac != .gt && ((ab == .lt || bc == .lt) == (ac == .lt))
  else true
/-- the order agrees with value equality -/
def lawEqOrd (ab : Ordering) (eq : Bool) : Bool := (ab == .eq) == eq
/-- equal values hash equally -/
def lawEqHash (eq sameHash : Bool) : Bool := !eq || sameHash
/-- the order identifies exactly the identical values: no coarser notion of equality (length of a
duration, numeric value, component list, …) may make two different values `Equal` -/
def lawOrdIdent (ab : Ordering) (identical : Bool) : Bool := (ab == .eq) == identical
/-- values the order identifies hash equally (index keys and hash keys agree) -/
def lawOrdHash (ab : Ordering) (sameHash : Bool) : Bool := ab != .eq || sameHash

end SgModel.PV
