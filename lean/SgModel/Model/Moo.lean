/-
Model for property C34 (optimisation solvers return consistent, in-bounds, reproducible
results), crate `samyama-optimization`.

The 29 solvers are stochastic floating-point loops; their trajectories are *not* modelled.
What is modelled are the decision pieces they share, over the linear order `Int` (the
harness maps every `f64` to its order-preserving integer key, so each comparison the code
makes on floats is the same comparison here):

* `clamp` = `f64::clamp` (two sequential tests; the std function asserts `min <= max`);
* `Tracker` / `consider` / `iter` / `runGen`: best-so-far update and history push, with the
  move generator an arbitrary function of the current state and the iteration number;
* `constrainedDominates` = `moo::constrained_dominates` (feasibility first, then Pareto);
* `ndSort` = the fronts of `moo::fast_non_dominated_sort` as successive non-dominated layers
  (the Rust computes the same ranks with domination counts; compared exactly by the harness);
* `archiveInsert` = `moo::EliteArchive::insert`, with the crowding-distance truncation
  abstracted to an arbitrary choice of `capacity` survivors (float arithmetic, not modelled);
* `childSeed` = the seed handed to `StdRng::seed_from_u64` by `rng::child_rng`.

Executable specifications `specSO` / `specMO` / `archStepSpec` are evaluated by the harness
on what the real solvers / the real archive return.  No imports.
-/
namespace SgModel.Moo

/-! ### clamp -/

/-- `f64::clamp` after its assertion: `if x < min {x = min}; if x > max {x = max}` -/
def clamp (lo hi x : Int) : Int :=
  let x1 := if x < lo then lo else x
  if hi < x1 then hi else x1

/-- with the assertion `min <= max` (`none` = panic) -/
def clampChecked (lo hi x : Int) : Option Int := if lo ≤ hi then some (clamp lo hi x) else none

def clampVec : List Int → List Int → List Int → List Int
  | l :: lo, h :: hi, x :: xs => clamp l h x :: clampVec lo hi xs
  | _, _, _ => []

def inBounds : List Int → List Int → List Int → Bool
  | [], [], [] => true
  | l :: lo, h :: hi, x :: xs => decide (l ≤ x) && decide (x ≤ h) && inBounds lo hi xs
  | _, _, _ => false

/-- a box: same length, every interval non-empty (possibly a single point) -/
def boxOK : List Int → List Int → Bool
  | [], [] => true
  | l :: lo, h :: hi => decide (l ≤ h) && boxOK lo hi
  | _, _ => false

/-! ### best-so-far tracking and history -/

structure Tracker (X : Type) where
  best : X
  bestFit : Int
  hist : List Int

def Tracker.init {X : Type} (f : X → Int) (x0 : X) : Tracker X := ⟨x0, f x0, []⟩

/-- strict improvement replaces the incumbent (`if fit < best_fitness`) -/
def consider {X : Type} (f : X → Int) (t : Tracker X) (c : X) : Tracker X :=
  if f c < t.bestFit then { t with best := c, bestFit := f c } else t

/-- one iteration: push the best fitness so far, then look at this iteration's candidates -/
def iter {X : Type} (f : X → Int) (t : Tracker X) (cands : List X) : Tracker X :=
  cands.foldl (consider f) { t with hist := t.hist ++ [t.bestFit] }

/-- `n` iterations with an arbitrary move generator (any function of state and iteration) -/
def runGen {X : Type} (f : X → Int) (gen : Tracker X → Nat → List X) : Nat → Tracker X → Tracker X
  | 0, t => t
  | n + 1, t => let t' := runGen f gen n t; iter f t' (gen t' n)

def antitone : List Int → Bool
  | a :: b :: r => decide (b ≤ a) && antitone (b :: r)
  | _ => true

/-! ### dominance -/

/-- the Pareto loop of `constrained_dominates` -/
def paretoAux (better : Bool) : List Int → List Int → Bool
  | [], _ => better
  | a :: as, b :: bs => if b < a then false else paretoAux (better || decide (a < b)) as bs
  | _ :: _, [] => false     -- the Rust would index out of bounds; unreachable for equal lengths

def constrainedDominates (f1 : List Int) (v1 : Int) (f2 : List Int) (v2 : Int) : Bool :=
  if v1 = 0 ∧ 0 < v2 then true
  else if 0 < v1 ∧ v2 = 0 then false
  else if 0 < v1 ∧ 0 < v2 then decide (v1 < v2)
  else paretoAux false f1 f2

structure Ind where
  objs : List Int
  viol : Int
deriving DecidableEq, Repr

def dom (a b : Ind) : Bool := constrainedDominates a.objs a.viol b.objs b.viol

/-! ### non-dominated sort -/

/-- members of `l` that nobody in `l` dominates (rank 0 of `fast_non_dominated_sort`) -/
def ndFilter (l : List Ind) : List Ind := l.filter (fun a => l.all (fun b => !dom b a))

/-- successive fronts; a remainder without minimal element (impossible for a strict partial
order) ends the peeling -/
def ndSortFuel : Nat → List Ind → List (List Ind)
  | 0, _ => []
  | _ + 1, [] => []
  | n + 1, rest =>
    let f := ndFilter rest
    if f.isEmpty then [] else f :: ndSortFuel n (rest.filter (fun a => !f.contains a))

def ndSort (pop : List Ind) : List (List Ind) := ndSortFuel (pop.length + 1) pop

def rankIn (fronts : List (List Ind)) (a : Ind) : Option Nat :=
  let rec go (k : Nat) : List (List Ind) → Option Nat
    | [] => none
    | f :: fs => if f.contains a then some k else go (k + 1) fs
  go 0 fronts

def ranks (pop : List Ind) : List (Option Nat) := pop.map (rankIn (ndSort pop))

/-! ### elite archive -/

/-- `EliteArchive::insert`; `pick` stands for "sort by crowding distance, keep `capacity`" -/
def archiveInsert (cap : Nat) (pick : List Ind → List Ind) (members : List Ind) (c : Ind) : List Ind :=
  let nd := ndFilter (members ++ [c])
  if nd.length ≤ cap then nd else pick nd

def mutuallyNonDominated (l : List Ind) : Bool := l.all (fun a => l.all (fun b => !dom a b))

/-- one real insertion, relationally: `next` is the non-dominated set of `prev + cand`, or,
when that exceeds the capacity, some `cap` of its members -/
def archStepSpec (cap : Nat) (prev : List Ind) (cand : Ind) (next : List Ind) : Bool :=
  let nd := ndFilter (prev ++ [cand])
  (if nd.length ≤ cap then next == nd
   else next.length == cap && next.all (fun a => nd.contains a))
  && decide (next.length ≤ cap) && mutuallyNonDominated next

/-! ### child seed -/

def iterOdd : Nat := 0x9E3779B97F4A7C15
def indexOdd : Nat := 0xBF58476D1CE4E5B9
def two64 : Nat := 2 ^ 64

/-- `s ^ (iteration as u64).wrapping_mul(ITER_ODD) ^ (index as u64).wrapping_mul(INDEX_ODD)` -/
def childSeed (s iteration index : Nat) : Nat :=
  ((s % two64) ^^^ ((iteration % two64 * iterOdd) % two64)) ^^^ ((index % two64 * indexOdd) % two64)

/-! ### executable specification of a solver result -/

inductive Verdict where
  | ok
  | viol (cls : String)
deriving DecidableEq, Repr

/-- single-objective result: `best_variables` in the box, `best_fitness` is the fitness of
`best_variables` (re-evaluated by the harness: `refit`), history never gets worse -/
def specSO (lo hi best : List Int) (bestFit refit : Int) (hist : List Int) : Verdict :=
  if !inBounds lo hi best then .viol "out-of-bounds"
  else if bestFit ≠ refit then .viol "best-not-fitness"
  else if !antitone hist then .viol "history-increases"
  else .ok

structure FrontInd where
  vars : List Int
  ind : Ind

/-- multi-objective result: every member in the box, no member dominates another -/
def specMO (lo hi : List Int) (front : List FrontInd) : Verdict :=
  if !front.all (fun m => inBounds lo hi m.vars) then .viol "out-of-bounds"
  else if !mutuallyNonDominated (front.map (·.ind)) then .viol "front-dominated"
  else .ok

end SgModel.Moo
