/-
Model of the numeral sites of the Cypher parser (src/query/parser.rs): `parse_integer_literal`,
`parse_count_literal`, the bounds of `parse_length_pattern`, SKIP/LIMIT, and the overflow
decision of float literals.  Import-free.

A numeral is what the grammar's atomic `integer` rule delivers: an optional `-`, an optional
radix prefix (`0x`/`0X`, `0o`/`0O`) and digits.  `parseIntegerLiteral` is the function as
coded: the magnitude is accumulated like `i128::from_str_radix` (checked multiply, checked
add, failing as soon as the running value leaves the type), the sign is applied, and the
result is narrowed with `i64::try_from`; `parseCountLiteral` narrows further with
`usize::try_from` (64-bit target: fails exactly on negatives).

After the `fix:` commits every count site (variable-length lower/upper/exact bound, SKIP,
LIMIT in every statement shape) goes through `parseCountLiteral`.  The `…Legacy` functions
are the pinned tree: `text.parse::<usize>()` followed by `unwrap_or(1)` (lower bound),
`unwrap()` (upper / exact bound) or `.ok()` (SKIP/LIMIT outside MATCH statements).
-/
namespace SgModel.Numeral

inductive Radix where
  | dec | hex | oct
deriving DecidableEq, Repr

def Radix.base : Radix → Nat
  | .dec => 10
  | .hex => 16
  | .oct => 8

structure Num where
  neg : Bool
  radix : Radix
  digits : List Nat
deriving DecidableEq, Repr

/-- mathematical value of a digit string, most significant digit first -/
def valueFrom (b : Nat) (acc : Nat) (ds : List Nat) : Nat := ds.foldl (fun a d => a * b + d) acc

def Num.magnitude (n : Num) : Nat := valueFrom n.radix.base 0 n.digits

def Num.value (n : Num) : Int := if n.neg then - (n.magnitude : Int) else (n.magnitude : Int)

/-- `from_str_radix` for a non-negative target with maximum `bound`:
`acc.checked_mul(radix)?.checked_add(digit)?` per digit -/
def accChecked (b bound : Nat) (acc : Nat) : List Nat → Option Nat
  | [] => some acc
  | d :: rest =>
    if acc * b ≤ bound then
      (if acc * b + d ≤ bound then accChecked b bound (acc * b + d) rest else none)
    else none

def i128Max : Nat := 2 ^ 127 - 1
def i64Max : Int := 2 ^ 63 - 1
def i64Min : Int := - 2 ^ 63
def u64Max : Nat := 2 ^ 64 - 1

inductive Outcome where
  | ok (v : Int)      -- the site receives this value
  | absent            -- the clause is silently dropped (legacy SKIP/LIMIT: `None`)
  | err               -- ParseError
  | panic
deriving DecidableEq, Repr

/-- `parse_integer_literal` on an already split numeral -/
def parseIntegerLiteral (n : Num) : Outcome :=
  match accChecked n.radix.base i128Max 0 n.digits with
  | none => .err
  | some m =>
    let v : Int := if n.neg then - (m : Int) else (m : Int)
    if i64Min ≤ v ∧ v ≤ i64Max then .ok v else .err

/-- `parse_count_literal` -/
def parseCountLiteral (n : Num) : Outcome :=
  match parseIntegerLiteral n with
  | .ok v => if 0 ≤ v then .ok v else .err
  | o => o

inductive Site where
  | varLenMin | varLenMax | varLenExact | skip | limit | intLit
deriving DecidableEq, Repr

/-- the parser's outcome at a numeral site (after the repair) -/
def parseSite : Site → Num → Outcome
  | .intLit, n => parseIntegerLiteral n
  | _, n => parseCountLiteral n

/-- does the written value fit what the site stores?  Counts are non-negative `i64`s
(they are read as an `i64` literal first), integer literals are `i64`s. -/
def fits : Site → Num → Bool
  | .intLit, n => decide (i64Min ≤ n.value ∧ n.value ≤ i64Max)
  | _, n => decide (0 ≤ n.value ∧ n.value ≤ i64Max)

/-- executable specification on an observed outcome -/
def specSite (s : Site) (n : Num) (o : Outcome) : Bool :=
  if fits s n then o == .ok n.value else o == .err

/-! ### the pinned tree -/

/-- `text.parse::<usize>()`: decimal digits only (a sign or a radix prefix is an invalid
digit for an unsigned target), at most `usize::MAX` -/
def parseUsizeLegacy (n : Num) : Option Nat :=
  if n.neg || n.radix != .dec then none else accChecked 10 u64Max 0 n.digits

def parseSiteLegacy : Site → Num → Outcome
  | .intLit, n => parseIntegerLiteral n
  | .varLenMin, n => match parseUsizeLegacy n with
      | some v => .ok v
      | none => .ok 1                       -- `unwrap_or(1)`
  | .varLenMax, n => match parseUsizeLegacy n with
      | some v => .ok v
      | none => .panic                      -- `unwrap()`
  | .varLenExact, n => match parseUsizeLegacy n with
      | some v => .ok v
      | none => .panic
  | _, n => match parseUsizeLegacy n with   -- `.ok()`
      | some v => .ok v
      | none => .absent

/-! ### text form -/

def digitVal? (r : Radix) (c : Char) : Option Nat :=
  let n := c.toNat
  if 48 ≤ n ∧ n ≤ 57 then (if n - 48 < r.base then some (n - 48) else none)
  else if r = .hex ∧ 97 ≤ n ∧ n ≤ 102 then some (n - 87)
  else if r = .hex ∧ 65 ≤ n ∧ n ≤ 70 then some (n - 55)
  else none

/-- split like `parse_integer_literal`: `-`, then `0x`/`0X` or `0o`/`0O`, then digits;
`none` when a character is not a digit of the radix or there are no digits
(`from_str_radix` → `Err`) -/
def ofText (cs : List Char) : Option Num :=
  let (neg, cs) := match cs with
    | '-' :: rest => (true, rest)
    | _ => (false, cs)
  let (r, ds) := match cs with
    | '0' :: 'x' :: rest => (Radix.hex, rest)
    | '0' :: 'X' :: rest => (Radix.hex, rest)
    | '0' :: 'o' :: rest => (Radix.oct, rest)
    | '0' :: 'O' :: rest => (Radix.oct, rest)
    | _ => (Radix.dec, cs)
  if ds.isEmpty then none
  else (ds.mapM (digitVal? r)).map (fun d => { neg := neg, radix := r, digits := d })

def parseSiteText (legacy : Bool) (s : Site) (cs : List Char) : Outcome :=
  match ofText cs with
  | some n => if legacy then parseSiteLegacy s n else parseSite s n
  | none =>
    if legacy then
      (match s with
       | .intLit => .err
       | .varLenMin => .ok 1
       | .varLenMax => .panic
       | .varLenExact => .panic
       | _ => .absent)
    else .err

/-! ### float literals: only the overflow decision

`mant × 10^exp10` with `mant` the digits of integer and fraction part read as one decimal
number.  `str::parse::<f64>` rounds to nearest-even, so the literal becomes infinite exactly
when its value is at least `2^1024 − 2^970` (half-way between `f64::MAX` and `2^1024`).
After the repair an infinite result is a ParseError; the pinned tree returned `inf`. -/

structure FloatNum where
  mant : Nat
  exp10 : Int
deriving DecidableEq, Repr

def f64OverflowThreshold : Nat := 2 ^ 1024 - 2 ^ 970

def floatFits (f : FloatNum) : Bool :=
  match f.exp10 with
  | .ofNat e => decide (f.mant * 10 ^ e < f64OverflowThreshold)
  | .negSucc e => decide (f.mant < f64OverflowThreshold * 10 ^ (e + 1))

inductive FOutcome where
  | finite | inf | err
deriving DecidableEq, Repr

/-- executable specification on an observed float outcome -/
def specFloat (f : FloatNum) (o : FOutcome) : Bool :=
  if floatFits f then o == .finite else o == .err

def parseFloatSite (f : FloatNum) : FOutcome := if floatFits f then .finite else .err
def parseFloatSiteLegacy (f : FloatNum) : FOutcome := if floatFits f then .finite else .inf

end SgModel.Numeral
