import SgModel.Model.Persist
/-
Concurrent writers over one `PersistenceManager` (property C18).  Imports only the Persist
model (the drivers link against it).

`n` threads, each with a program (a list of `persist_*` calls on one tenant).  A thread's
next micro-step is `Persist.micro` (the repaired code) or `Persist.microLegacy` (the pinned
tree) on the **shared** state; a schedule is a list of thread indices, one micro-step each.
The manager's write lock is modelled: the `lock` micro-step is enabled only while nobody
holds the lock; the step that returns from the call releases it.  A schedule entry naming a
thread that is finished, absent or not enabled is a no-op (the harness' scheduler skips it
in the same way).  The real threads are parked at the `verif_hook` points, which are exactly
the boundaries between these micro-steps.
-/
namespace SgModel.Quota
open SgModel.Persist

/-- what a thread calls on the manager: a `persist_*` operation, or `recover` of the tenant
(a usage-writing entry point like the others: it is a thread program, not a quiescent
epilogue) -/
inductive Call where
  | op (o : Op)
  | recover
deriving DecidableEq, Repr

/-- one micro-step of a call -/
def callMicro (I : Impl) (cfg : Cfg) (c : Call) (pc : Pc) (s : State) (l : Local) :
    State × Local × Except Err Pc :=
  match c with
  | .op o => I.micro cfg o pc s l
  | .recover => I.recMicro cfg pc s l

def callStart (I : Impl) : Call → Pc
  | .op o => I.start o
  | .recover => I.recStart

structure Thread where
  /-- calls still to make; the head is in progress when `pc` is `some` -/
  prog : List Call
  /-- next micro-step of the call in progress; `none` = parked before the next call -/
  pc : Option Pc := none
  loc : Local := {}
  /-- completed calls with their results, oldest first -/
  done : List (Call × Res) := []
deriving DecidableEq, Repr

structure Sys where
  shared : State := {}
  /-- holder of the manager's write lock -/
  lock : Option Nat := none
  threads : List Thread := []
deriving DecidableEq, Repr

def init (progs : List (List Call)) : Sys :=
  { threads := progs.map (fun p => { prog := p }) }

def release (lock : Option Nat) (t : Nat) : Option Nat :=
  if lock = some t then none else lock

/-- thread `t` takes its next micro-step, if it has one and it is enabled -/
def stepThread (I : Impl) (cfg : Cfg) (sys : Sys) (t : Nat) : Sys :=
  match sys.threads[t]? with
  | none => sys
  | some th =>
    match th.prog with
    | [] => sys
    | op :: rest =>
      let pc := th.pc.getD (callStart I op)
      if pc = .lock ∧ sys.lock ≠ none then sys
      else
        let lock' := if pc = .lock then some t else sys.lock
        match callMicro I cfg op pc sys.shared th.loc with
        | (s', _, .error e) =>
            { shared := s', lock := release lock' t,
              threads := sys.threads.set t { prog := rest, done := th.done ++ [(op, .err e)] } }
        | (s', l', .ok pc') =>
            if pc' = .done then
              { shared := s', lock := release lock' t,
                threads := sys.threads.set t { prog := rest, done := th.done ++ [(op, .ok)] } }
            else
              { shared := s', lock := lock',
                threads := sys.threads.set t { th with pc := some pc', loc := l' } }

def run (I : Impl) (cfg : Cfg) (sys : Sys) (sched : List Nat) : Sys :=
  sched.foldl (stepThread I cfg) sys

/-- a thread is between calls (or has not yet taken the first step of its next call) -/
def Thread.idle (th : Thread) : Bool :=
  match th.pc with
  | none => true
  | some pc => pc == .lock

def Sys.quiescent (sys : Sys) : Bool := sys.threads.all Thread.idle

def Sys.finished (sys : Sys) : Bool := sys.threads.all (fun th => th.prog.isEmpty)

/-- can thread `t` move? -/
def enabled (I : Impl) (sys : Sys) (t : Nat) : Bool :=
  match sys.threads[t]? with
  | none => false
  | some th =>
    match th.prog with
    | [] => false
    | op :: _ => !(th.pc.getD (callStart I op) == .lock && sys.lock.isSome)

/-- after the schedule: let the lowest-numbered enabled thread move until nobody can
(the harness drains its threads in the same order) -/
def drain (I : Impl) (cfg : Cfg) : Nat → Sys → Sys
  | 0, sys => sys
  | fuel + 1, sys =>
    match (List.range sys.threads.length).find? (enabled I sys) with
    | some t => drain I cfg fuel (stepThread I cfg sys t)
    | none => sys

/-- enough fuel for every call of every program (≤ 7 micro-steps each) -/
def drainFuel (sys : Sys) : Nat := 7 * (sys.threads.map (fun th => th.prog.length)).sum + 1

/-- `recover` called on the live manager (C18: "including after recovery") -/
def recoverUsage (I : Impl) (cfg : Cfg) (s : State) : Option State :=
  match I.recover cfg s with
  | .ok (s', _) => some s'
  | .error _ => none

/-! ### observations and the executable specification -/

/-- the creation the harness attempts after all threads returned -/
def probeOp : Op := .createNode 99 [] []

structure Obs where
  /-- per thread: the results of its calls, in program order -/
  results : List (List Res)
  /-- ids found by `scan_nodes` / `scan_edges` after all threads returned -/
  nodes : List Nat
  edges : List Nat
  /-- `get_usage` after all threads returned -/
  usage0 : Nat × Nat
  /-- result of the probe creation, the node ids and `get_usage` after it -/
  probe : Res
  nodesP : List Nat
  usageP : Nat × Nat
  /-- `get_usage` after one `recover`, after a second one -/
  usage1 : Nat × Nat
  usage2 : Nat × Nat
deriving DecidableEq, Repr

def obsOf (I : Impl) (cfg : Cfg) (sys : Sys) : Option Obs :=
  let tp := traceOp I cfg probeOp sys.shared
  match recoverUsage I cfg tp.final with
  | none => none
  | some s1 =>
    match recoverUsage I cfg s1 with
    | none => none
    | some s2 =>
      some { results := sys.threads.map (fun th => th.done.map (·.2)),
             nodes := sys.shared.kv.nodes.map (·.1), edges := sys.shared.kv.edges.map (·.1),
             usage0 := (sys.shared.usageN, sys.shared.usageE),
             probe := tp.result, nodesP := tp.final.kv.nodes.map (·.1),
             usageP := (tp.final.usageN, tp.final.usageE),
             usage1 := (s1.usageN, s1.usageE), usage2 := (s2.usageN, s2.usageE) }

def within (max : Option Nat) (n : Nat) : Bool :=
  match max with
  | some m => decide (n ≤ m)
  | none => true

/-- is there room for one more entity? -/
def room (max : Option Nat) (n : Nat) : Bool :=
  match max with
  | some m => decide (n < m)
  | none => true

/-- **S for C18**, on observations at quiescence: the persisted entities are within the
quota; the usage counters equal the number of persisted entities; a creation attempted now
is accepted exactly when there is room, and leaves the tenant within its quota with exact
counters; the counters stay exact after `recover` once and twice; every thread got one
result per call -/
def specQuota (cfg : Cfg) (progs : List (List Call)) (o : Obs) : Bool :=
  within cfg.maxNodes o.nodes.length && within cfg.maxEdges o.edges.length
  && o.usage0 == (o.nodes.length, o.edges.length)
  && (!cfg.enabled || o.probe == (if room cfg.maxNodes o.nodes.length then .ok else .err .quota))
  && within cfg.maxNodes o.nodesP.length
  && o.usageP == (o.nodesP.length, o.edges.length)
  && o.usage1 == (o.nodesP.length, o.edges.length)
  && o.usage2 == (o.nodesP.length, o.edges.length)
  && o.results.map List.length == progs.map List.length

/-- the creations of node `id` that were accepted -/
def acceptedCreates (progs : List (List Call)) (results : List (List Res)) (id : Nat) : Nat :=
  ((progs.zip results).map (fun pr =>
    ((pr.1.zip pr.2).filter (fun x =>
      (match x.1 with | .op (.createNode i ..) => i == id | _ => false) && x.2.isOk)).length)).sum

/-- **S for C18, second part**: a node that is stored was accepted — i.e. a refused creation
leaves nothing behind -/
def specRefused (progs : List (List Call)) (o : Obs) : Bool :=
  o.nodes.all (fun id => decide (0 < acceptedCreates progs o.results id))

end SgModel.Quota
