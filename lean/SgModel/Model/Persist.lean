/-
Model of `src/persistence/mod.rs` (`PersistenceManager::persist_*`, `recover`) together
with the part of `src/persistence/tenant.rs` it calls (`check_quota`, `increment_usage`,
`decrement_usage`, `set_usage`) and the request → call mapping of
`src/raft/state_machine.rs` (`GraphStateMachine::apply`).  Import-free (the drivers link
against it).  Used by C16 (crash recovery), C32 (replicas) and, through `Model/Quota.lean`,
C18 (interleavings).

One tenant's slice of the store is modelled: RocksDB's `nodes` / `edges` column families
restricted to the tenant's key range are two ordered maps `id ↦ value`.  Every API call is
a short program of **micro-steps**; after every micro-step but the last the real code
passes a hook point (`verif_hook::point("persist.<name>")`), which is where the harness
crashes the process (C16) or parks the thread (C18).  `fixed` is the code after the `fix:`
commits, `legacy` the pinned tree (no write lock, updates only logged, usage counted
unconditionally, `recover` adds to the usage).
-/
namespace SgModel.Persist

/-- a property map: key tag ↦ value tag (the harness owns the palette of real keys/values) -/
abbrev Props := List (Nat × Nat)

structure NodeVal where
  labels : List Nat
  props : Props
deriving DecidableEq, Repr

structure EdgeVal where
  src : Nat
  tgt : Nat
  ty : Nat
  props : Props
deriving DecidableEq, Repr

/-! ### ordered map (association list in key order, as RocksDB iterates it) -/

def put {α : Type} : List (Nat × α) → Nat → α → List (Nat × α)
  | [], k, v => [(k, v)]
  | (k', v') :: rest, k, v =>
      if k < k' then (k, v) :: (k', v') :: rest
      else if k = k' then (k, v) :: rest
      else (k', v') :: put rest k v

def del {α : Type} (m : List (Nat × α)) (k : Nat) : List (Nat × α) :=
  m.filter (fun p => p.1 != k)

def get {α : Type} : List (Nat × α) → Nat → Option α
  | [], _ => none
  | (k', v') :: rest, k => if k' = k then some v' else get rest k

def has {α : Type} (m : List (Nat × α)) (k : Nat) : Bool := (get m k).isSome

/-! ### operations and the specification `KV` -/

inductive Op where
  | createNode (id : Nat) (labels : List Nat) (props : Props)
  | createEdge (id src tgt ty : Nat) (props : Props)
  | deleteNode (id : Nat)
  | deleteEdge (id : Nat)
  | updateNode (id : Nat) (props : Props)
  | updateEdge (id : Nat) (props : Props)
deriving DecidableEq, Repr

inductive OpKind where
  | create | delete | update
deriving DecidableEq, Repr

def Op.kind : Op → OpKind
  | .createNode .. => .create
  | .createEdge .. => .create
  | .deleteNode .. => .delete
  | .deleteEdge .. => .delete
  | .updateNode .. => .update
  | .updateEdge .. => .update

def Op.onNodes : Op → Bool
  | .createNode .. => true
  | .deleteNode .. => true
  | .updateNode .. => true
  | _ => false

/-- **S**: what a tenant's recovered graph is — a map from ids to entities -/
structure KV where
  nodes : List (Nat × NodeVal) := []
  edges : List (Nat × EdgeVal) := []
deriving DecidableEq, Repr

/-- the effect of one acknowledged operation: create = upsert, delete = remove,
update = replace the property map of an existing entity (nothing if absent) -/
def KV.apply (kv : KV) : Op → KV
  | .createNode id ls ps => { kv with nodes := put kv.nodes id ⟨ls, ps⟩ }
  | .createEdge id s t ty ps => { kv with edges := put kv.edges id ⟨s, t, ty, ps⟩ }
  | .deleteNode id => { kv with nodes := del kv.nodes id }
  | .deleteEdge id => { kv with edges := del kv.edges id }
  | .updateNode id ps =>
      match get kv.nodes id with
      | some v => { kv with nodes := put kv.nodes id { v with props := ps } }
      | none => kv
  | .updateEdge id ps =>
      match get kv.edges id with
      | some v => { kv with edges := put kv.edges id { v with props := ps } }
      | none => kv

def KV.applyAll (kv : KV) (ops : List Op) : KV := ops.foldl KV.apply kv

/-- is the entity the operation addresses stored? (the `get_*` before the storage write) -/
def KV.holds (kv : KV) : Op → Bool
  | .createNode id .. => has kv.nodes id
  | .createEdge id .. => has kv.edges id
  | .deleteNode id => has kv.nodes id
  | .deleteEdge id => has kv.edges id
  | .updateNode id _ => has kv.nodes id
  | .updateEdge id _ => has kv.edges id

/-! ### the implementation model -/

inductive Err where
  | notFound   -- TenantError::NotFound
  | denied     -- TenantError::PermissionDenied (tenant disabled)
  | quota      -- TenantError::QuotaExceeded
  | fuel       -- the model ran out of fuel (never happens: a call has ≤ 7 micro-steps)
deriving DecidableEq, Repr

inductive Res where
  | ok
  | err (e : Err)
deriving DecidableEq, Repr

def Res.isOk : Res → Bool
  | .ok => true
  | .err _ => false

/-- the tenant's registration in the (volatile) `TenantManager` -/
structure Cfg where
  registered : Bool := true
  enabled : Bool := true
  maxNodes : Option Nat := none
  maxEdges : Option Nat := none
deriving DecidableEq, Repr

structure State where
  /-- WAL entries appended in this process (buffered, not observed by `recover`) -/
  wal : Nat := 0
  /-- RocksDB content of the tenant -/
  kv : KV := {}
  /-- `ResourceUsage::node_count` / `edge_count` -/
  usageN : Nat := 0
  usageE : Nat := 0
deriving DecidableEq, Repr

/-- program counter of one `persist_*` call: the micro-step to execute next -/
inductive Pc where
  | lock    -- acquire the manager's write lock                 → point `persist.locked`
  | check   -- `TenantManager::check_quota`                     → point `persist.checked`
  | log     -- WAL append                                       → point `persist.logged`
  | store   -- (`get`,) `put` / `delete` on RocksDB             → point `persist.stored`
  | count   -- `increment_usage` / `decrement_usage` (`set_usage` in `recover`) → `persist.counted`
  | scan    -- `recover` only: `scan_nodes` + `scan_edges`      → point `persist.scanned`
  | ret     -- release the lock, return `Ok`
  | done
deriving DecidableEq, Repr

/-- call-local variables -/
structure Local where
  existed : Bool := false
  /-- `recover` only: the numbers of nodes / edges its scans returned -/
  scanN : Nat := 0
  scanE : Nat := 0
deriving DecidableEq, Repr

/-- `TenantManager::check_quota` -/
def checkQuota (cfg : Cfg) (used : Nat) (max : Option Nat) : Res :=
  if !cfg.registered then .err .notFound
  else if !cfg.enabled then .err .denied
  else match max with
    | some m => if m ≤ used then .err .quota else .ok
    | none => .ok

def bump (s : State) (onNodes : Bool) (up : Bool) : State :=
  if onNodes then { s with usageN := if up then s.usageN + 1 else s.usageN - 1 }
  else { s with usageE := if up then s.usageE + 1 else s.usageE - 1 }

/-- the quota check of a create call against the current usage -/
def quotaOf (cfg : Cfg) (op : Op) (s : State) : Res :=
  checkQuota cfg (if op.onNodes then s.usageN else s.usageE)
    (if op.onNodes then cfg.maxNodes else cfg.maxEdges)

abbrev MicroFn := Cfg → Op → Pc → State → Local → State × Local × Except Err Pc

/-- the repaired code -/
def micro : MicroFn := fun cfg op pc s l =>
  match pc with
  | .lock => (s, l, .ok (match op.kind with | .create => .check | _ => .log))
  | .check =>
      match quotaOf cfg op s with
      | .ok => (s, l, .ok .log)
      | .err e => (s, l, .error e)
  | .log => ({ s with wal := s.wal + 1 }, l, .ok .store)
  | .store =>
      ({ s with kv := s.kv.apply op }, { existed := s.kv.holds op },
        .ok (match op.kind with | .update => .ret | _ => .count))
  | .count =>
      match op.kind with
      | .create =>
          if l.existed then (s, l, .ok .ret)
          else if !cfg.registered then (s, l, .error .notFound)
          else (bump s op.onNodes true, l, .ok .ret)
      | .delete =>
          if !l.existed then (s, l, .ok .ret)
          else if !cfg.registered then (s, l, .error .notFound)
          else (bump s op.onNodes false, l, .ok .ret)
      | .update => (s, l, .ok .ret)
  | .ret => (s, l, .ok .done)
  | .scan => (s, l, .ok .done)
  | .done => (s, l, .ok .done)

def start (_ : Op) : Pc := .lock

/-- the pinned tree: no write lock, an update is only logged, the usage counter moves on
every create/delete whatever was stored -/
def microLegacy : MicroFn := fun cfg op pc s l =>
  match pc with
  | .lock => (s, l, .ok (match op.kind with | .create => .check | _ => .log))
  | .check =>
      match quotaOf cfg op s with
      | .ok => (s, l, .ok .log)
      | .err e => (s, l, .error e)
  | .log => ({ s with wal := s.wal + 1 }, l, .ok (match op.kind with | .update => .ret | _ => .store))
  | .store => ({ s with kv := s.kv.apply op }, l, .ok .count)
  | .count =>
      if !cfg.registered then (s, l, .error .notFound)
      else (bump s op.onNodes (op.kind == .create), l, .ok .ret)
  | .ret => (s, l, .ok .done)
  | .scan => (s, l, .ok .done)
  | .done => (s, l, .ok .done)

def startLegacy (op : Op) : Pc :=
  match op.kind with
  | .create => .check
  | _ => .log

/-- `recover`: scan both column families, set the usage counters -/
def recover (cfg : Cfg) (s : State) : Except Err (State × KV) :=
  if !cfg.registered then .error .notFound
  else .ok ({ s with usageN := s.kv.nodes.length, usageE := s.kv.edges.length }, s.kv)

/-- the pinned tree added the counts -/
def recoverLegacy (cfg : Cfg) (s : State) : Except Err (State × KV) :=
  if !cfg.registered then .error .notFound
  else .ok ({ s with usageN := s.usageN + s.kv.nodes.length,
                     usageE := s.usageE + s.kv.edges.length }, s.kv)

/-- `recover` as a program of micro-steps on a live manager (C18: recovery concurrent with
writers): take the write lock, scan, set the counters, return -/
abbrev RecMicroFn := Cfg → Pc → State → Local → State × Local × Except Err Pc

def recMicro : RecMicroFn := fun cfg pc s l =>
  match pc with
  | .lock => (s, l, .ok .scan)
  | .scan => (s, { l with scanN := s.kv.nodes.length, scanE := s.kv.edges.length }, .ok .count)
  | .count =>
      if !cfg.registered then (s, l, .error .notFound)
      else ({ s with usageN := l.scanN, usageE := l.scanE }, l, .ok .ret)
  | .ret => (s, l, .ok .done)
  | _ => (s, l, .ok .done)

/-- the pinned tree: no lock, and the counts are added -/
def recMicroLegacy : RecMicroFn := fun cfg pc s l =>
  match pc with
  | .scan => (s, { l with scanN := s.kv.nodes.length, scanE := s.kv.edges.length }, .ok .count)
  | .count =>
      if !cfg.registered then (s, l, .error .notFound)
      else ({ s with usageN := s.usageN + l.scanN, usageE := s.usageE + l.scanE }, l, .ok .ret)
  | .ret => (s, l, .ok .done)
  | _ => (s, l, .ok .done)

/-- a plausible-looking variant that is **wrong** (kept for the counter-example and as the
harness' self-test mutant): the scans run before the write lock is taken, so the count
written under the lock can be stale -/
def recMicroScanFirst : RecMicroFn := fun cfg pc s l =>
  match pc with
  | .scan => (s, { l with scanN := s.kv.nodes.length, scanE := s.kv.edges.length }, .ok .lock)
  | .lock => (s, l, .ok .count)
  | .count =>
      if !cfg.registered then (s, l, .error .notFound)
      else ({ s with usageN := l.scanN, usageE := l.scanE }, l, .ok .ret)
  | .ret => (s, l, .ok .done)
  | _ => (s, l, .ok .done)

structure Impl where
  micro : MicroFn
  start : Op → Pc
  recover : Cfg → State → Except Err (State × KV)
  recMicro : RecMicroFn
  recStart : Pc

def fixed : Impl := ⟨micro, start, recover, recMicro, .lock⟩
def legacy : Impl := ⟨microLegacy, startLegacy, recoverLegacy, recMicroLegacy, .scan⟩
def scanFirst : Impl := ⟨micro, start, recover, recMicroScanFirst, .scan⟩

/-! ### one call, sequentially: the states at its hook points, the final state, the result -/

structure OpTrace where
  /-- (micro-step just executed, shared state) at every hook point the call passes -/
  mids : List (Pc × State)
  final : State
  result : Res
deriving DecidableEq, Repr

def OpTrace.push (x : Pc × State) (t : OpTrace) : OpTrace := ⟨x :: t.mids, t.final, t.result⟩

def traceFrom (I : Impl) (cfg : Cfg) (op : Op) : Nat → Pc → State → Local → OpTrace
  | 0, _, s, _ => ⟨[], s, .err .fuel⟩
  | fuel + 1, pc, s, l =>
    match I.micro cfg op pc s l with
    | (s', _, .error e) => ⟨[], s', .err e⟩
    | (s', l', .ok pc') =>
      if pc' = .done then ⟨[], s', .ok⟩
      else (traceFrom I cfg op fuel pc' s' l').push (pc, s')

def traceOp (I : Impl) (cfg : Cfg) (op : Op) (s : State) : OpTrace :=
  traceFrom I cfg op 8 (I.start op) s {}

def execOp (I : Impl) (cfg : Cfg) (s : State) (op : Op) : State := (traceOp I cfg op s).final

def runAll (I : Impl) (cfg : Cfg) (ops : List Op) (s : State) : State :=
  ops.foldl (execOp I cfg) s

/-- the calls' results, in order -/
def results (I : Impl) (cfg : Cfg) : List Op → State → List Res
  | [], _ => []
  | op :: rest, s =>
    let t := traceOp I cfg op s
    t.result :: results I cfg rest t.final

/-! ### process death

`crash` is what survives the death of the process: RocksDB's content (contract: a `put` /
`delete` that returned is not lost when the *process* dies — nothing is claimed for power
loss, `sync` is off), not the usage counters (memory) nor this session's WAL counter. -/

def crash (s : State) : State := { wal := 0, kv := s.kv, usageN := 0, usageE := 0 }

structure CrashOut where
  /-- results of the calls that returned before the crash, in order -/
  acked : List Res
  /-- the call that was executing when the process died -/
  inflight : Option Op
  /-- hook points passed, in order -/
  points : List Pc
  /-- shared state when the process died (or, without a crash, at the end) -/
  state : State
deriving DecidableEq, Repr

/-- run `ops`; the process dies when it reaches its `k`-th hook point (counted from 0 over
the whole run); it runs to the end when there are fewer points -/
def crashRun (I : Impl) (cfg : Cfg) : List Op → Nat → State → CrashOut
  | [], _, s => ⟨[], none, [], s⟩
  | op :: rest, k, s =>
    let t := traceOp I cfg op s
    match t.mids[k]? with
    | some m => ⟨[], some op, (t.mids.take (k + 1)).map (·.1), m.2⟩
    | none =>
      let o := crashRun I cfg rest (k - t.mids.length) t.final
      ⟨t.result :: o.acked, o.inflight, t.mids.map (·.1) ++ o.points, o.state⟩

/-- what the parent process observes: the results logged by the child, whether a call was
in flight, and what `recover` returns on a fresh manager over the surviving directory -/
structure CrashObs where
  results : List Res
  inflight : Bool
  recovered : KV
deriving DecidableEq, Repr

def crashObs (I : Impl) (cfg : Cfg) (ops : List Op) (k : Nat) : Option CrashObs :=
  let o := crashRun I cfg ops k {}
  match I.recover cfg (crash o.state) with
  | .ok (_, kv) => some ⟨o.acked, o.inflight.isSome, kv⟩
  | .error _ => none

/-- the operations among the first `rs.length` whose call returned `Ok` -/
def ackedOk : List Op → List Res → List Op
  | op :: ops, r :: rs => if r.isOk then op :: ackedOk ops rs else ackedOk ops rs
  | _, _ => []

/-- **S for C16**, on observations: the recovered graph is the effect of the acknowledged
operations, or of those plus the one in flight -/
def specCrash (ops : List Op) (o : CrashObs) : Bool :=
  let n := o.results.length
  let base := KV.applyAll {} (ackedOk ops o.results)
  decide (n ≤ ops.length) &&
  (o.recovered == base ||
    (o.inflight && match ops[n]? with
      | some op => o.recovered == base.apply op
      | none => false))

/-! ### the replicated state machine (C32)

`GraphStateMachine::apply` maps a request to one `persist_*` call on the request's tenant
and the call's result to a response. -/

inductive Req where
  | createNode (tenant id : Nat) (labels : List Nat) (props : Props)
  | createEdge (tenant id src tgt ty : Nat) (props : Props)
  | deleteNode (tenant id : Nat)
  | deleteEdge (tenant id : Nat)
  | updateNode (tenant id : Nat) (props : Props)
  | updateEdge (tenant id : Nat) (props : Props)
deriving DecidableEq, Repr

inductive Resp where
  | ok
  | nodeCreated (id : Nat)
  | edgeCreated (id : Nat)
  | error
deriving DecidableEq, Repr

def Req.tenant : Req → Nat
  | .createNode t .. => t
  | .createEdge t .. => t
  | .deleteNode t _ => t
  | .deleteEdge t _ => t
  | .updateNode t .. => t
  | .updateEdge t .. => t

/-- a label set as the code stores it: `HashSet<Label>` listed in increasing tag order -/
def insertLabel : List Nat → Nat → List Nat
  | [], x => [x]
  | y :: rest, x => if x < y then x :: y :: rest else if x = y then y :: rest else y :: insertLabel rest x

def normLabels (ls : List Nat) : List Nat := ls.foldl insertLabel []

/-- the `persist_*` call a request becomes (label tag 0 is the empty string) -/
def Req.toOp : Req → Op
  | .createNode _ id ls ps => .createNode id (normLabels ls) ps
  | .createEdge _ id s t ty ps => .createEdge id s t ty ps
  | .deleteNode _ id => .deleteNode id
  | .deleteEdge _ id => .deleteEdge id
  | .updateNode _ id ps => .updateNode id ps
  | .updateEdge _ id ps => .updateEdge id ps

/-- the pinned tree built an unlabelled node with `Node::new(id, "")` -/
def Req.toOpLegacy : Req → Op
  | .createNode _ id ls ps => .createNode id (if ls = [] then [0] else normLabels ls) ps
  | r => r.toOp

def respOf (r : Req) (res : Res) : Resp :=
  match res with
  | .err _ => .error
  | .ok =>
    match r with
    | .createNode _ id .. => .nodeCreated id
    | .createEdge _ id .. => .edgeCreated id
    | _ => .ok

/-- one replica: every tenant's state (absent = untouched) -/
abbrev Replica := List (Nat × State)

def Replica.state (m : Replica) (t : Nat) : State := (get m t).getD {}

structure SM where
  impl : Impl
  toOp : Req → Op

def smFixed : SM := ⟨fixed, Req.toOp⟩
def smLegacy : SM := ⟨legacy, Req.toOpLegacy⟩

def applyReq (M : SM) (cfgs : Nat → Cfg) (m : Replica) (r : Req) : Replica × Resp :=
  let t := r.tenant
  let tr := traceOp M.impl (cfgs t) (M.toOp r) (m.state t)
  (put m t tr.final, respOf r tr.result)

def applyAll (M : SM) (cfgs : Nat → Cfg) : List Req → Replica → Replica × List Resp
  | [], m => (m, [])
  | r :: rest, m =>
    let (m', resp) := applyReq M cfgs m r
    let (m'', resps) := applyAll M cfgs rest m'
    (m'', resp :: resps)

/-- what is observed of one replica: the responses, and `recover` of the probed tenant on a
fresh manager over the replica's directory -/
structure ReplicaObs where
  resps : List Resp
  recovered : KV
deriving DecidableEq, Repr

def replicaObs (M : SM) (cfgs : Nat → Cfg) (reqs : List Req) (t : Nat) : Option ReplicaObs :=
  let (m, resps) := applyAll M cfgs reqs []
  match M.impl.recover (cfgs t) (crash (m.state t)) with
  | .ok (_, kv) => some ⟨resps, kv⟩
  | .error _ => none

/-- the requests of tenant `t` that were answered without error, as operations -/
def effective (t : Nat) : List Req → List Resp → List Op
  | r :: rs, p :: ps =>
      if r.tenant = t ∧ p ≠ .error then r.toOp :: effective t rs ps else effective t rs ps
  | _, _ => []

def respShape (r : Req) (p : Resp) : Bool :=
  p == .error || p == respOf r .ok

/-- **S for C32**, on observations of the replicas (probed tenant `t`): every replica gave
the same responses and recovered the same graph; each response has the request's shape;
the recovered graph is the effect of the requests answered without error, in order -/
def specReplicas (reqs : List Req) (t : Nat) (obs : List ReplicaObs) : Bool :=
  obs.all (fun o =>
    o.resps.length == reqs.length
    && (reqs.zip o.resps).all (fun rp => respShape rp.1 rp.2)
    && o.recovered == KV.applyAll {} (effective t reqs o.resps))
  && match obs with
     | [] => true
     | o :: rest => rest.all (fun o' => o' == o)

end SgModel.Persist
