/-
Model for property C02 (component `IdxScan`): the B-tree property index of
`src/index/property_index.rs` (`BTreeMap<PropertyValue, HashSet<NodeId>>`), its maintenance by
the write operations of `src/graph/store.rs`, the index scan of
`IndexScanOperator::{initialize, probe_ranges}` (`src/query/executor/operator.rs`) with the
residual filter the planners keep above it, the chunked (parallel) filter of `FilterOperator`,
and a two-tier adjacency.  Import-free: the driver links against it.

Values.  `Val` is the fragment of `PropertyValue` the correspondence generates:
null, booleans, integers, floats *restricted to multiples of 1/2* (`flt h` is `h/2`; every such
value with small `h` is exact in an `f64` and `i64 → f64` is exact on the integers used, so
no floating point occurs in the model), ASCII strings (`str` carries the bytes) and lists of
integers, plus the two floats on which derived `==` and the key order disagree: `-0.0`
(`nzero`: query-equal to `0.0` and `0`, a key of its own between them) and NaN (`nan`: a key,
equal to nothing).  DateTime / Duration / Map / Vector / |i| > 2^53 are outside the model; the
sign of a NaN is not modelled (the key order puts -NaN below and +NaN above the numbers; `nan`
is filed above — no result depends on it, a NaN never satisfies a comparison).

Two relations on values matter, and the defects of the pinned tree all come from treating
them as one:
* `idxLt` — the **index key order**, `impl Ord for PropertyValue`: rank by kind
  (Boolean < number < String < Array < Null), numbers by numeric value with the Integer
  directly below its Float twin.  It is given by an order-embedding `ikey` into integer lists
  compared lexicographically (`ikey` is injective, `Lemmas/IdxScan.lean`).
* `cmpCy` — the **query comparison** of `FilterOperator::evaluate_binary_op`
  (`coerced_eq` / `cypher_ordering`): null if either side is null or the kinds do not compare
  (so the row is dropped), `1 = 1.0`, and a boolean equals the strings "true"/"false" in any
  letter case.

`probeRanges` is the code after the `fix:` commits (a superset of the matching keys, as
disjoint key ranges; the predicate stays as a filter); `probeRangesLegacy` is the pinned tree
(the literal's own key, predicate removed by the planner).
-/
namespace SgModel.IdxScan

inductive Val where
  | null
  | bool (b : Bool)
  | int (i : Int)
  | flt (h : Int)            -- the float h/2 (`flt 0` is +0.0)
  | nzero                    -- the float -0.0: `==` to 0.0 and to the integer 0, a different index key
  | nan                      -- a float NaN: an index key of its own, equal to nothing (not even itself)
  | str (s : List Int)       -- bytes
  | lst (l : List Int)       -- Array of Integer
deriving DecidableEq, Repr

/-! ### index key order (`impl Ord for PropertyValue`) -/

/-- lexicographic `<` on integer lists (a proper prefix is smaller) -/
def lexLt : List Int → List Int → Bool
  | [], [] => false
  | [], _ :: _ => true
  | _ :: _, [] => false
  | a :: as, b :: bs => decide (a < b) || (decide (a = b) && lexLt as bs)

/-- order embedding of the key order: bucket rank first; numbers by value (in halves), the
Integer below the Float on a tie -/
def ikey : Val → List Int
  | .bool b => [0, if b then 1 else 0]
  | .int i => [1, 0, 2 * i, 0]
  | .nzero => [1, 0, 0, 1]
  | .flt h => [1, 0, h, 2]
  | .nan => [1, 1]
  | .str s => 2 :: s
  | .lst l => 4 :: l
  | .null => [8]

def idxLt (a b : Val) : Bool := lexLt (ikey a) (ikey b)

/-! ### query comparison (`FilterOperator`) -/

inductive CmpOp where
  | eq | lt | le | gt | ge
deriving DecidableEq, Repr

/-- numeric value in halves -/
def num : Val → Option Int
  | .int i => some (2 * i)
  | .flt h => some h
  | .nzero => some 0
  | _ => none

def lowerByte (c : Int) : Int := if 65 ≤ c ∧ c ≤ 90 then c + 32 else c
def lowerStr (s : List Int) : List Int := s.map lowerByte
def strTrue : List Int := [116, 114, 117, 101]
def strFalse : List Int := [102, 97, 108, 115, 101]

/-- `coerced_eq` (both operands non-null) -/
def coercedEq : Val → Val → Bool
  | .null, _ => false
  | _, .null => false
  | .bool a, .bool b => a == b
  | .int a, .int b => a == b
  | .flt a, .flt b => a == b
  | .int a, .flt b => 2 * a == b
  | .flt a, .int b => a == 2 * b
  | .nzero, .nzero => true
  | .nzero, .flt b => b == 0
  | .flt a, .nzero => a == 0
  | .nzero, .int b => 2 * b == 0
  | .int a, .nzero => 2 * a == 0
  | .str a, .str b => a == b
  | .lst a, .lst b => a == b
  | .bool a, .str s => if lowerStr s = strTrue then a else if lowerStr s = strFalse then !a else false
  | .str s, .bool a => if lowerStr s = strTrue then a else if lowerStr s = strFalse then !a else false
  | _, _ => false

/-- `cypher_ordering`: `some true` = Less, `some false` = not Less, `none` = incomparable.
`cyLt a b` is "a < b is true". -/
def cyLt : Val → Val → Option Bool
  | .bool a, .bool b => some (!a && b)
  | .str a, .str b => some (lexLt a b)
  | a, b => match num a, num b with
    | some x, some y => some (decide (x < y))
    | _, _ => none

/-- `k <op> v` evaluates to *true* (null and incomparable ⇒ false ⇒ the row is dropped) -/
def cmpCy (op : CmpOp) (k v : Val) : Bool :=
  match op with
  | .eq => coercedEq k v
  | .lt => cyLt k v == some true
  | .gt => cyLt v k == some true
  | .le => (cyLt k v == some true) || (cyLt k v == some false && cyLt v k == some false)
  | .ge => (cyLt v k == some true) || (cyLt k v == some false && cyLt v k == some false)

/-- `n.key IN [..]` for a list of numeric literals (`eval_in_list`) -/
def inNums (k : Val) (vs : List Val) : Bool :=
  match num k with
  | some x => vs.any (fun v => num v == some x)
  | none => false

/-! ### the index: `BTreeMap<PropertyValue, HashSet<NodeId>>` as a key-sorted association list -/

abbrev Index := List (Val × List Nat)

/-- `PropertyIndex::insert` -/
def insert : Index → Val → Nat → Index
  | [], v, id => [(v, [id])]
  | (k, b) :: rest, v, id =>
    if idxLt v k then (v, [id]) :: (k, b) :: rest
    else if v = k then (k, if id ∈ b then b else id :: b) :: rest
    else (k, b) :: insert rest v id

/-- `PropertyIndex::remove` (an emptied bucket is dropped) -/
def remove : Index → Val → Nat → Index
  | [], _, _ => []
  | (k, b) :: rest, v, id =>
    if v = k then
      (if (b.filter (· != id)).isEmpty then rest else (k, b.filter (· != id)) :: rest)
    else (k, b) :: remove rest v id

/-- iteration order of the map: per key, per id -/
def entries (t : Index) : List (Val × Nat) := t.flatMap (fun e => e.2.map (fun id => (e.1, id)))

inductive Bound where
  | unb | incl (v : Val) | excl (v : Val)
deriving DecidableEq, Repr

def aboveLo : Bound → Val → Bool
  | .unb, _ => true
  | .incl v, k => !idxLt k v
  | .excl v, k => idxLt v k

def belowHi : Bound → Val → Bool
  | .unb, _ => true
  | .incl v, k => !idxLt v k
  | .excl v, k => idxLt k v

def inRange (r : Bound × Bound) (k : Val) : Bool := aboveLo r.1 k && belowHi r.2 k

/-- `PropertyIndex::range` (the specification of `BTreeMap::range`: the keys within the bounds) -/
def range (t : Index) (r : Bound × Bound) : List Nat :=
  ((entries t).filter (fun e => inRange r e.1)).map (·.2)

/-- `IndexScanOperator::probe_ranges` after the fix, on the modelled value kinds -/
def probeRanges (op : CmpOp) (v : Val) : List (Bound × Bound) :=
  match v with
  | .null => []
  | .lst _ => [(.unb, .unb)]
  | .int i =>
    match op with
    | .eq => [(.incl (.int i), .incl (.flt (2 * i)))]
    | .gt | .ge => [(.incl (.int i), .unb)]
    | .lt | .le => [(.unb, .incl (.flt (2 * i)))]
  | .flt h =>
    -- `Excluded(Float(f.next_down()))`: on multiples of 1/2 the next modelled float below
    match op with
    | .eq => [(.excl (.flt (h - 1)), .incl (.flt h))]
    | .gt | .ge => [(.excl (.flt (h - 1)), .unb)]
    | .lt | .le => [(.unb, .incl (.flt h))]
  | .nzero =>
    -- `-0.0` probes like `0.0`: from just below the zeros up to `Float(0.0)`
    match op with
    | .eq => [(.excl (.flt (-1)), .incl (.flt 0))]
    | .gt | .ge => [(.excl (.flt (-1)), .unb)]
    | .lt | .le => [(.unb, .incl (.flt 0))]
  | .nan => []
  | .bool b =>
    match op with
    | .eq => [(.unb, .unb)]
    | .gt | .ge => [(.incl (.bool b), .unb)]
    | .lt | .le => [(.unb, .incl (.bool b))]
  | .str s =>
    match op with
    | .eq =>
      (.incl (.str s), .incl (.str s)) ::
        (if lowerStr s = strTrue then [(.incl (.bool true), .incl (.bool true))]
         else if lowerStr s = strFalse then [(.incl (.bool false), .incl (.bool false))]
         else [])
    | .gt | .ge => [(.incl (.str s), .unb)]
    | .lt | .le => [(.unb, .incl (.str s))]

/-- the pinned tree: the literal's own key -/
def probeRangesLegacy (op : CmpOp) (v : Val) : List (Bound × Bound) :=
  match op with
  | .eq => [(.incl v, .incl v)]
  | .gt => [(.excl v, .unb)]
  | .ge => [(.incl v, .unb)]
  | .lt => [(.unb, .excl v)]
  | .le => [(.unb, .incl v)]

def scanWith (pr : CmpOp → Val → List (Bound × Bound)) (t : Index) (op : CmpOp) (v : Val) : List Nat :=
  (pr op v).flatMap (range t)

/-- `IndexScanOperator::initialize` -/
def indexScan (t : Index) (op : CmpOp) (v : Val) : List Nat := scanWith probeRanges t op v
def indexScanLegacy (t : Index) (op : CmpOp) (v : Val) : List Nat := scanWith probeRangesLegacy t op v

/-! ### the store: nodes, relationships, indexes -/

structure Node where
  id : Nat
  labels : List Nat
  props : List (Nat × Val)
deriving DecidableEq, Repr

structure Edge where
  id : Nat
  src : Nat
  dst : Nat
  ty : Nat
deriving DecidableEq, Repr

structure Ix where
  label : Nat
  key : Nat
  tree : Index
deriving Repr

structure St where
  nodes : List Node := []
  edges : List Edge := []
  ixs : List Ix := []
deriving Repr

def lookup (ps : List (Nat × Val)) (k : Nat) : Option Val :=
  match ps with
  | [] => none
  | (k', v) :: rest => if k' = k then some v else lookup rest k

def setKey (ps : List (Nat × Val)) (k : Nat) (v : Val) : List (Nat × Val) :=
  (k, v) :: ps.filter (fun p => p.1 != k)

def eraseKey (ps : List (Nat × Val)) (k : Nat) : List (Nat × Val) :=
  ps.filter (fun p => p.1 != k)

def nodeAt (s : St) (id : Nat) : Option Node := s.nodes.find? (fun n => n.id == id)

def updNode (s : St) (id : Nat) (f : Node → Node) : List Node :=
  s.nodes.map (fun n => if n.id = id then f n else n)

def updIx (s : St) (p : Ix → Bool) (f : Index → Index) : List Ix :=
  s.ixs.map (fun ix => if p ix then { ix with tree := f ix.tree } else ix)

inductive Op where
  | create (id : Nat) (labels : List Nat)          -- `create_node_with_labels`; properties follow as `setProp`
  | setProp (id key : Nat) (v : Val)               -- `set_node_property` (incl. `SET n.k = null`)
  | removeProp (id key : Nat)                      -- `remove_node_property`
  | delete (id : Nat)                              -- `delete_node` (detaches)
  | addLabel (id l : Nat)                          -- `add_label_to_node`
  | removeLabel (id l : Nat)                       -- `remove_label_from_node`
  | createIndex (l k : Nat)                        -- `CreateIndexOperator` (create + backfill)
  | dropIndex (l k : Nat)
  | createEdge (id src dst ty : Nat)
  | deleteEdge (id : Nat)
deriving Repr

/-- all entries a node contributes to the index of `(label, key)` -/
def removeAll (n : Node) (key : Nat) (t : Index) : Index :=
  match lookup n.props key with
  | some v => remove t v n.id
  | none => t

def insertAll (n : Node) (key : Nat) (t : Index) : Index :=
  match lookup n.props key with
  | some v => insert t v n.id
  | none => t

/-- `legacy = true` reproduces the pinned tree: `REMOVE n.k` and `REMOVE n:L` leave the index alone -/
def stepG (legacy : Bool) (s : St) : Op → St
  | .create id labels =>
    match nodeAt s id with
    | some _ => s
    | none => { s with nodes := ⟨id, labels, []⟩ :: s.nodes }
  | .setProp id key v =>
    match nodeAt s id with
    | none => s
    | some n =>
      { s with
        nodes := updNode s id (fun m => { m with props := setKey m.props key v }),
        ixs := updIx s (fun ix => ix.key == key && n.labels.contains ix.label)
                 (fun t => insert (removeAll n key t) v id) }
  | .removeProp id key =>
    match nodeAt s id with
    | none => s
    | some n =>
      { s with
        nodes := updNode s id (fun m => { m with props := eraseKey m.props key }),
        ixs := if legacy then s.ixs
               else updIx s (fun ix => ix.key == key && n.labels.contains ix.label) (removeAll n key) }
  | .delete id =>
    match nodeAt s id with
    | none => s
    | some n =>
      { nodes := s.nodes.filter (fun m => m.id != id),
        edges := s.edges.filter (fun e => e.src != id && e.dst != id),
        ixs := s.ixs.map (fun ix =>
          if n.labels.contains ix.label then { ix with tree := removeAll n ix.key ix.tree } else ix) }
  | .addLabel id l =>
    match nodeAt s id with
    | none => s
    | some n =>
      if n.labels.contains l then s else
      { s with
        nodes := updNode s id (fun m => { m with labels := l :: m.labels }),
        ixs := s.ixs.map (fun ix =>
          if ix.label == l then { ix with tree := insertAll n ix.key ix.tree } else ix) }
  | .removeLabel id l =>
    match nodeAt s id with
    | none => s
    | some n =>
      { s with
        nodes := updNode s id (fun m => { m with labels := m.labels.filter (· != l) }),
        ixs := if legacy then s.ixs
               else s.ixs.map (fun ix =>
                 if ix.label == l then { ix with tree := removeAll n ix.key ix.tree } else ix) }
  | .createIndex l k =>
    if s.ixs.any (fun ix => ix.label == l && ix.key == k) then s
    else
      { s with ixs := ⟨l, k, (s.nodes.filter (fun n => n.labels.contains l)).foldl
                          (fun t n => insertAll n k t) []⟩ :: s.ixs }
  | .dropIndex l k => { s with ixs := s.ixs.filter (fun ix => !(ix.label == l && ix.key == k)) }
  | .createEdge id src dst ty =>
    if (nodeAt s src).isSome && (nodeAt s dst).isSome && !(s.edges.any (·.id == id)) then
      { s with edges := s.edges ++ [⟨id, src, dst, ty⟩] }
    else s
  | .deleteEdge id => { s with edges := s.edges.filter (·.id != id) }

def step := stepG false
def stepLegacy := stepG true
def run (ops : List Op) : St := ops.foldl step {}
def runLegacy (ops : List Op) : St := ops.foldl stepLegacy {}

/-! ### queries -/

inductive Pred where
  | cmp (key : Nat) (op : CmpOp) (v : Val)     -- n.key <op> literal
  | inl (key : Nat) (vs : List Val)            -- n.key IN [numeric literals]
deriving Repr

def propOf (n : Node) (key : Nat) : Val := (lookup n.props key).getD .null

def evalPred (n : Node) : Pred → Bool
  | .cmp key op v => cmpCy op (propOf n key) v
  | .inl key vs => inNums (propOf n key) vs

/-- `NodeScanOperator`: the nodes carrying the label -/
def labelScan (s : St) (l : Nat) : List Nat :=
  (s.nodes.filter (fun n => n.labels.contains l)).map (·.id)

/-- the filter above a scan, on node ids -/
def residual (s : St) (ps : List Pred) (id : Nat) : Bool :=
  match nodeAt s id with
  | some n => ps.all (evalPred n)
  | none => false

/-- specification: label scan, then the conjunction -/
def specIds (s : St) (l : Nat) (ps : List Pred) : List Nat :=
  (labelScan s l).filter (residual s ps)

/-- `find_index_predicate`: the first comparison whose `(label, key)` is indexed -/
def findIndexPred (s : St) (l : Nat) : List Pred → Option (Ix × CmpOp × Val)
  | [] => none
  | .cmp key op v :: rest =>
    match s.ixs.find? (fun ix => ix.label == l && ix.key == key) with
    | some ix => some (ix, op, v)
    | none => findIndexPred s l rest
  | .inl _ _ :: rest => findIndexPred s l rest

/-- the plan the engine runs: index scan (if any predicate is indexed) + `has_node` check,
with the whole conjunction kept as a filter; otherwise label scan + filter -/
def planIdsWith (scan : Index → CmpOp → Val → List Nat) (keepPred : Bool)
    (s : St) (l : Nat) (ps : List Pred) : List Nat :=
  match findIndexPred s l ps with
  | some (ix, op, v) =>
    let cands := (scan ix.tree op v).filter (fun id => (nodeAt s id).isSome)
    if keepPred then cands.filter (residual s ps)
    else cands.filter (residual s (ps.filter (fun p => match p with
      | .cmp k o w => !(k == ix.key && o == op && w == v)
      | _ => true)))
  | none => specIds s l ps

def planIds := planIdsWith indexScan true
/-- pinned tree on the plan paths without a top-level WHERE re-application (WITH / OPTIONAL MATCH) -/
def planIdsLegacy := planIdsWith indexScanLegacy false

/-- chunked filter (`FilterOperator::next_batch`): each chunk filtered on its own (possibly by
another thread), results concatenated in chunk order -/
def parFilter {α : Type} (p : α → Bool) (chunks : List (List α)) : List α :=
  chunks.flatMap (fun c => c.filter p)

/-! ### two-tier adjacency (`frozen_outgoing` CSR segments + write buffer) -/

structure Adj where
  segs : List (List Edge) := []     -- frozen CSR segments, oldest first
  buffer : List Edge := []          -- write buffer
deriving Repr

/-- what `for_each_outgoing_neighbor` walks: every frozen segment, then the buffer -/
def Adj.abs (a : Adj) : List Edge := a.segs.flatten ++ a.buffer

/-- `compact_adjacency`: the buffer becomes a new frozen segment (no-op on an empty buffer) -/
def Adj.compact (a : Adj) : Adj :=
  if a.buffer.isEmpty then a else { segs := a.segs ++ [a.buffer], buffer := [] }

/-- writes to the adjacency; ids are arbitrary, so a freed id may be used again -/
inductive AOp where
  | create (e : Edge)        -- `create_edge`: appended to the write buffer
  | delete (id : Nat)        -- `delete_edge`: `retain` on the buffer **and** `remove_edge` on every frozen segment
  | compact
deriving Repr

def Adj.step (a : Adj) : AOp → Adj
  | .create e => { a with buffer := a.buffer ++ [e] }
  | .delete id =>
    { segs := a.segs.map (fun seg => seg.filter (fun e => e.id != id)),
      buffer := a.buffer.filter (fun e => e.id != id) }
  | .compact => a.compact

/-- the tier-free meaning of the same writes: one list of relationships -/
def flatStep (es : List Edge) : AOp → List Edge
  | .create e => es ++ [e]
  | .delete id => es.filter (fun e => e.id != id)
  | .compact => es

def Adj.neighbors (a : Adj) (src ty : Nat) : List Nat :=
  (a.abs.filter (fun e => e.src == src && (ty == 0 || e.ty == ty))).map (·.dst)

/-! ### rows of the modelled query shapes -/

inductive Ret where
  | prop (key : Nat)      -- RETURN n.key
  | count                 -- RETURN count(n)
deriving Repr

structure Query where
  label : Nat
  preds : List Pred
  ret : Ret
  /-- `some (ty, out, tl)`: `MATCH (n:label)-[:ty]->(m:tl)` (out) / `<-[:ty]-` and RETURN n.h, m.h;
  `ty = 0` is an untyped relationship pattern, `tl = 0` an unlabelled target -/
  hop : Option (Nat × Bool × Nat) := none
deriving Repr

/-- handle property -/
def hKey : Nat := 0

def rowsOf (s : St) (q : Query) (ids : List Nat) : List (List Val) :=
  match q.hop with
  | none =>
    match q.ret with
    | .prop key => ids.map (fun id => [match nodeAt s id with | some n => propOf n key | none => .null])
    | .count => [[.int ids.length]]
  | some (ty, out, tl) =>
    ids.flatMap (fun id =>
      (s.edges.filter (fun e => (ty == 0 || e.ty == ty) && (if out then e.src == id else e.dst == id))).filterMap
        (fun e =>
          let other := if out then e.dst else e.src
          match nodeAt s id, nodeAt s other with
          | some n, some m =>
            if tl == 0 || m.labels.contains tl then some [propOf n hKey, propOf m hKey] else none
          | _, _ => none))

def specRows (s : St) (q : Query) : List (List Val) := rowsOf s q (specIds s q.label q.preds)
def planRows (s : St) (q : Query) : List (List Val) := rowsOf s q (planIds s q.label q.preds)
def planRowsLegacy (s : St) (q : Query) : List (List Val) := rowsOf s q (planIdsLegacy s q.label q.preds)

/-! ### canonical form of a bag of rows, and the executable specification on observations -/

def valKey : Val → List Int
  | .null => [0]
  | .bool b => [1, if b then 1 else 0]
  | .int i => [2, i]
  | .flt h => [3, h]
  | .nzero => [6]
  | .nan => [7]
  | .str s => 4 :: s
  | .lst l => 5 :: l

def rowKey (r : List Val) : List Int := r.flatMap (fun v => (valKey v).length :: valKey v)

def insertRow (r : List Val) : List (List Val) → List (List Val)
  | [] => [r]
  | x :: xs => if lexLt (rowKey x) (rowKey r) then x :: insertRow r xs else r :: x :: xs

def sortRows (rs : List (List Val)) : List (List Val) := rs.foldr insertRow []

/-- S on an observation: the implementation's rows for `q` are the specified bag -/
def specObs (s : St) (q : Query) (obs : List (List Val)) : Bool :=
  obs.isPerm (specRows s q)

end SgModel.IdxScan
