import SgModel.Model.CyValue
/-!
# Cy — the logical property graph (layer 2 of 5)

Nodes carry a label *set* (a list, membership is what matters) and a property map;
relationships carry one type, two endpoints (self-loops and parallel relationships are
ordinary) and a property map.  Names (labels, types, keys, variables) are natural numbers:
the driver encodes an identifier as the base-256 number of its bytes, so equality of names
is equality of numbers and everything reduces in the kernel.

A property whose stored value is `null` is the same as an absent property (openCypher has
no null-valued properties): `getProp` returns `null` for both.
-/
namespace SgModel.Cy

abbrev Name := Nat

structure Node where
  id : Nat
  labels : List Name
  props : List (Name × Val)
deriving DecidableEq, Repr, Inhabited

structure Rel where
  id : Nat
  src : Nat
  tgt : Nat
  type : Name
  props : List (Name × Val)
deriving DecidableEq, Repr, Inhabited

structure Graph where
  nodes : List Node
  rels : List Rel
deriving DecidableEq, Repr, Inhabited

def lookupProp (ps : List (Name × Val)) (k : Name) : Val :=
  match ps.lookup k with
  | some v => v
  | none => .null

def Graph.node? (g : Graph) (id : Nat) : Option Node := g.nodes.find? (·.id == id)
def Graph.rel? (g : Graph) (id : Nat) : Option Rel := g.rels.find? (·.id == id)

/-- `x.k` for a node or relationship reference; `null.k` is null; anything else is a type error -/
def Graph.getProp (g : Graph) (v : Val) (k : Name) : Except Err Val :=
  match v with
  | .atom .null => .ok .null
  | .atom (.node i) => match g.node? i with
    | some n => .ok (lookupProp n.props k)
    | none => .ok .null
  | .atom (.rel i) => match g.rel? i with
    | some r => .ok (lookupProp r.props k)
    | none => .ok .null
  | _ => .error .type

/-- well-formedness: identities are unique and every relationship's endpoints exist -/
def Graph.WF (g : Graph) : Prop :=
  (g.nodes.map (·.id)).Nodup ∧ (g.rels.map (·.id)).Nodup ∧
  ∀ r ∈ g.rels, (∃ n ∈ g.nodes, n.id = r.src) ∧ (∃ n ∈ g.nodes, n.id = r.tgt)

/-- every label of `want` is carried by the node -/
def Node.hasLabels (n : Node) (want : List Name) : Bool := want.all (n.labels.contains ·)

end SgModel.Cy
