/-
Model of `src/snapshot/persist.rs` for property C14 (imported snapshots survive restart and
crashes during persistence).  Import-free (the driver links against it).

`persist_snapshot` is the exact list of its file-system micro-steps (`persistSteps`), run on
a small file-system model: a directory with the three names the code uses
(`default.sgsnap`, `default.sgsnap.tmp`, `default.sgsnap.committed`), inodes with a current
and a durable content, the directory as of the last directory fsync and the directory
operations since.  `lg := true` is the pinned tree (marker removed first, no directory
fsync); `lg := false` the code after the `fix:` commit.

Two ways to stop in the middle:
* **process crash** — the OS keeps everything written so far: a restart sees `dir` and the
  current contents;
* **power loss** — a restart sees the durable directory plus a *prefix* of the pending
  directory operations, and the durable contents (contract assumed of the file system:
  metadata operations reach the disk in order, `fsync(file)` makes the file's content
  durable, `fsync(dir)` makes the directory durable).

A snapshot payload is an opaque tag `b : Nat`; a file holds nothing, a partially written
payload, or a whole one.  Inode numbers are allocated smallest-free — they carry no
meaning, this only keeps the reachable states few.
-/
namespace SgModel.SnapFS

inductive Content where
  | empty
  | part (b : Nat)
  | full (b : Nat)
deriving DecidableEq, Repr

inductive Name where
  | final | tmp | marker
deriving DecidableEq, Repr

structure Dir where
  final : Option Nat := none
  tmp : Option Nat := none
  marker : Option Nat := none
deriving DecidableEq, Repr

def Dir.get (d : Dir) : Name → Option Nat
  | .final => d.final
  | .tmp => d.tmp
  | .marker => d.marker

def Dir.set (d : Dir) (n : Name) (v : Option Nat) : Dir :=
  match n with
  | .final => { d with final := v }
  | .tmp => { d with tmp := v }
  | .marker => { d with marker := v }

inductive DirOp where
  | link (n : Name) (ino : Nat)
  | unlink (n : Name)
  | rename (a b : Name)
deriving DecidableEq, Repr

def applyDirOp (d : Dir) : DirOp → Dir
  | .link n i => d.set n (some i)
  | .unlink n => d.set n none
  | .rename a b => (d.set b (d.get a)).set a none

structure Inode where
  cur : Content
  dur : Content
deriving DecidableEq, Repr

structure FS where
  dir : Dir := {}
  inodes : List (Nat × Inode) := []
  ddir : Dir := {}
  pending : List DirOp := []
deriving DecidableEq, Repr

def lookupIno (i : Nat) : List (Nat × Inode) → Option Inode
  | [] => none
  | (j, x) :: r => if j == i then some x else lookupIno i r

def updIno (i : Nat) (f : Inode → Inode) : List (Nat × Inode) → List (Nat × Inode)
  | [] => []
  | (j, x) :: r => if j == i then (j, f x) :: r else (j, x) :: updIno i f r

/-- smallest inode number not in the table (the table never holds more than four) -/
def freshIno (t : List (Nat × Inode)) : Nat :=
  if !(t.any (·.1 == 0)) then 0 else if !(t.any (·.1 == 1)) then 1
  else if !(t.any (·.1 == 2)) then 2 else if !(t.any (·.1 == 3)) then 3 else 4

inductive Step where
  | removeMarker              -- pinned tree only: `fs::remove_file(marker)` first
  | createTmp                 -- `File::create(tmp)`
  | writePart (b : Nat)       -- `write_all`, part of the payload has reached the file
  | writeFull (b : Nat)       -- `write_all` returned
  | fsyncTmp                  -- `f.sync_all()`
  | renameTmpFinal            -- `fs::rename(tmp, final)`
  | createMarker              -- `File::create(marker)`
  | fsyncMarker               -- `f.sync_all()`
  | fsyncDir                  -- repaired code only: fsync of `snapshots/`
deriving DecidableEq, Repr

/-- `File::create(n)`: a new empty inode linked under `n`, or the existing one truncated -/
def createTrunc (n : Name) (fs : FS) : FS :=
  match fs.dir.get n with
  | some i => { fs with inodes := updIno i (fun x => { x with cur := .empty }) fs.inodes }
  | none =>
      let i := freshIno fs.inodes
      { fs with inodes := fs.inodes ++ [(i, { cur := .empty, dur := .empty })],
                dir := fs.dir.set n (some i), pending := fs.pending ++ [.link n i] }

def writeTo (n : Name) (c : Content) (fs : FS) : FS :=
  match fs.dir.get n with
  | some i => { fs with inodes := updIno i (fun x => { x with cur := c }) fs.inodes }
  | none => fs

def fsyncFile (n : Name) (fs : FS) : FS :=
  match fs.dir.get n with
  | some i => { fs with inodes := updIno i (fun x => { x with dur := x.cur }) fs.inodes }
  | none => fs

def referenced (d : Dir) (i : Nat) : Bool :=
  d.final == some i || d.tmp == some i || d.marker == some i

def step (fs : FS) : Step → FS
  | .removeMarker =>
      (match fs.dir.marker with
       | some _ => { fs with dir := fs.dir.set .marker none, pending := fs.pending ++ [.unlink .marker] }
       | none => fs)
  | .createTmp => createTrunc .tmp fs
  | .writePart b => writeTo .tmp (.part b) fs
  | .writeFull b => writeTo .tmp (.full b) fs
  | .fsyncTmp => fsyncFile .tmp fs
  | .renameTmpFinal =>
      { fs with dir := applyDirOp fs.dir (.rename .tmp .final), pending := fs.pending ++ [.rename .tmp .final] }
  | .createMarker => createTrunc .marker fs
  | .fsyncMarker => fsyncFile .marker fs
  | .fsyncDir =>
      { fs with ddir := fs.dir, pending := [],
                inodes := fs.inodes.filter (fun e => referenced fs.dir e.1) }

def run (steps : List Step) (fs : FS) : FS := steps.foldl step fs

/-- the micro-steps of `persist_snapshot(data_path, bytes)` (after `create_dir_all`) -/
def persistSteps (lg : Bool) (b : Nat) : List Step :=
  (if lg then [Step.removeMarker] else [])
    ++ [.createTmp, .writePart b, .writeFull b, .fsyncTmp, .renameTmpFinal, .createMarker, .fsyncMarker]
    ++ (if lg then [] else [Step.fsyncDir])

def persist (lg : Bool) (b : Nat) (fs : FS) : FS := run (persistSteps lg b) fs

/-- a history of completed (acknowledged) persists, oldest first -/
def persistAll (lg : Bool) (hist : List Nat) : FS := hist.foldl (fun fs b => persist lg b fs) {}

inductive Restored where
  | nothing            -- `Ok(None)`: no committed snapshot
  | ok (b : Nat)       -- the whole payload `b` was imported
  | corrupt            -- a partial / empty file was taken for a snapshot
deriving DecidableEq, Repr

/-- `restore_persisted_snapshots`: needs `default.sgsnap` and the marker -/
def restoreView (d : Dir) (content : Nat → Option Content) : Restored :=
  match d.final, d.marker with
  | some f, some _ =>
      (match content f with
       | some (.full b) => .ok b
       | _ => .corrupt)
  | _, _ => .nothing

/-- restart after a process crash (or a clean shutdown) -/
def restoreProcess (fs : FS) : Restored :=
  restoreView fs.dir (fun i => (lookupIno i fs.inodes).map (·.cur))

/-- restart after a power loss in which the first `p` pending directory operations had
reached the disk -/
def restorePower (p : Nat) (fs : FS) : Restored :=
  restoreView ((fs.pending.take p).foldl applyDirOp fs.ddir)
    (fun i => (lookupIno i fs.inodes).map (·.dur))

/-- what the last acknowledged persist makes restorable -/
def lastOf (hist : List Nat) : Restored := hist.foldl (fun _ b => Restored.ok b) .nothing

/-- executable specification (on classified observations): during the persist of `b` after
the acknowledged history `hist`, a restart restores the previous snapshot or the new one -/
def specCrash (hist : List Nat) (b : Nat) (r : Restored) : Bool :=
  r == lastOf hist || r == .ok b

/-! ### the HTTP import handler (`restore_snapshot_handler`)

One `POST /api/snapshot/import`, as the handler orders its work: the import runs first (under
the store write lock); only a body whose import **succeeded** is handed to `persist_snapshot`
and acknowledged with 200.  A refused body (not gzip, wrong format version, truncated body,
corrupt trailer, dangling relationship — whatever makes `import_tenant_with_dedup` return
`Err`) performs no file-system step at all.  A request is `(payload, importOk)`. -/

def handleReq (fs : FS) (r : Nat × Bool) : FS × Bool :=
  if r.2 then (persist false r.1 fs, true) else (fs, false)

def handleAll (reqs : List (Nat × Bool)) : FS := reqs.foldl (fun fs r => (handleReq fs r).1) {}

/-- the payloads of the acknowledged (200) requests, in order -/
def acked (reqs : List (Nat × Bool)) : List Nat := (reqs.filter (·.2)).map (·.1)

/-- the committed states (up to the payload): nothing yet, or a final file and a marker -/
def committed1 (b : Nat) : FS :=
  { dir := { final := some 0, marker := some 1 },
    inodes := [(0, { cur := .full b, dur := .full b }), (1, { cur := .empty, dur := .empty })],
    ddir := { final := some 0, marker := some 1 }, pending := [] }

def committed2 (b : Nat) : FS :=
  { dir := { final := some 2, marker := some 1 },
    inodes := [(1, { cur := .empty, dur := .empty }), (2, { cur := .full b, dur := .full b })],
    ddir := { final := some 2, marker := some 1 }, pending := [] }

def committed3 (b : Nat) : FS :=
  { dir := { final := some 0, marker := some 1 },
    inodes := [(1, { cur := .empty, dur := .empty }), (0, { cur := .full b, dur := .full b })],
    ddir := { final := some 0, marker := some 1 }, pending := [] }

end SgModel.SnapFS
