/-
Lexical model of Cypher text as the pest grammar (`src/query/cypher.pest`) sees it, over
`List Char`.  Import-free (the drivers link against it).  Shared by C03 (cache key) and
C24 (clause keywords are words of the code region, not substrings).

The scanner is a one-character-at-a-time machine with one character of look-ahead, used
only to recognise the comment openers `//` and `/*` in the code state:

  code                       ordinary text; `'`, `"`, `` ` `` open a quoted region,
                             `//` a line comment, `/*` a block comment
  quote q / esc q            inside a region quoted by `q`; a backslash escapes the next char
  line                       inside `// …` up to and including the terminating `\n`
  blockOpen/block/blockStar  inside `/* … */` (`blockOpen` eats the `*` of the opener so
                             that `/*/` is not a complete comment, as in pest)

`normalize` is the parsed-query cache key of `QueryEngine::cached_parse` *after* the fix
(src/query/mod.rs `cache_key`): whitespace runs are collapsed to one space in the code
state only (dropped at both ends); quoted regions and comments — including the newline that
ends a line comment — are copied verbatim.  Whitespace is what the grammar's `WHITESPACE`
rule skips: space, tab, CR, LF.

`legacyKey` is the key of the pinned tree: `split_whitespace().join(" ")`, blind to quotes
and comments and using Unicode `White_Space`.
-/
namespace SgModel.Lex

inductive St where
  | code
  | quote (q : Char)
  | esc (q : Char)
  | line
  | blockOpen
  | block
  | blockStar
deriving DecidableEq, Repr

/-- the grammar's `WHITESPACE` -/
def isWs (c : Char) : Bool := c == ' ' || c == '\t' || c == '\r' || c == '\n'

def isQuote (c : Char) : Bool := c == '\'' || c == '"' || c == '`'

/-- what the look-ahead character means after a `/` in the code state:
1 = `//` (line comment), 2 = `/*` (block comment), 0 = nothing -/
def slashKind : Option Char → Nat
  | some c => if c == '/' then 1 else if c == '*' then 2 else 0
  | none => 0

/-- successor state on reading `c` with look-ahead `pk` -/
def next (st : St) (c : Char) (pk : Option Char) : St :=
  match st with
  | .code =>
      if isQuote c then .quote c
      else if c == '/' then
        (match slashKind pk with
         | 1 => .line
         | 2 => .blockOpen
         | _ => .code)
      else .code
  | .quote q => if c == '\\' then .esc q else if c == q then .code else .quote q
  | .esc q => .quote q
  | .line => if c == '\n' then .code else .line
  | .blockOpen => .block
  | .block => if c == '*' then .blockStar else .block
  | .blockStar => if c == '/' then .code else if c == '*' then .blockStar else .block

/-- the cache key after the repair; `p` = whitespace pending (code state only),
`e` = something has been emitted already -/
def norm : St → Bool → Bool → List Char → List Char
  | _, _, _, [] => []
  | st, p, e, c :: rest =>
    if st = .code ∧ isWs c = true then norm .code true e rest
    else
      (if p && e then [' '] else []) ++ c :: norm (next st c rest.head?) false true rest

def normalize (s : List Char) : List Char := norm .code false false s

/-! ### token stream -/

/-- character classes: separator (code-state whitespace), comment, significant -/
inductive Cls where
  | sep | com | sig
deriving DecidableEq, Repr

def cls (st : St) (c : Char) (pk : Option Char) : Cls :=
  match st with
  | .code =>
      if isWs c then .sep
      else if c == '/' && slashKind pk != 0 then .com
      else .sig
  | .quote _ => .sig
  | .esc _ => .sig
  | _ => .com

def flush (cur : List Char) : List (List Char) :=
  if cur.isEmpty then [] else [cur.reverse]

/-- Words with comments kept: maximal runs of characters that are not code-state
whitespace (so a string literal with blanks inside is part of one word, and a comment is
part of a word too).  This is the finest token stream the cache key has to respect. -/
def tok : St → List Char → List Char → List (List Char)
  | _, cur, [] => flush cur
  | st, cur, c :: rest =>
    if cls st c rest.head? = .sep then flush cur ++ tok (next st c rest.head?) [] rest
    else tok (next st c rest.head?) (c :: cur) rest

def tokens (s : List Char) : List (List Char) := tok .code [] s

/-- Words of the code region with comments *removed* (a comment separates words like
whitespace does): what the grammar's implicit `WHITESPACE | COMMENT` skipping leaves. -/
def ctok : St → List Char → List Char → List (List Char)
  | _, cur, [] => flush cur
  | st, cur, c :: rest =>
    if cls st c rest.head? = .sig then ctok (next st c rest.head?) (c :: cur) rest
    else flush cur ++ ctok (next st c rest.head?) [] rest

def codeTokens (s : List Char) : List (List Char) := ctok .code [] s

/-- annotated stream: every character with the class the scanner gives it -/
def scan : St → List Char → List (Char × Cls)
  | _, [] => []
  | st, c :: rest => (c, cls st c rest.head?) :: scan (next st c rest.head?) rest

/-! ### the pinned tree -/

/-- `char::is_whitespace` (Unicode `White_Space`) -/
def isWsUnicode (c : Char) : Bool :=
  let n := c.toNat
  (9 ≤ n && n ≤ 13) || n == 32 || n == 0x85 || n == 0xA0 || n == 0x1680
    || (0x2000 ≤ n && n ≤ 0x200A) || n == 0x2028 || n == 0x2029 || n == 0x202F
    || n == 0x205F || n == 0x3000

/-- `s.split_whitespace().collect::<Vec<_>>().join(" ")` -/
def legacyAux : Bool → Bool → List Char → List Char
  | _, _, [] => []
  | p, e, c :: rest =>
    if isWsUnicode c then legacyAux true e rest
    else (if p && e then [' '] else []) ++ c :: legacyAux false true rest

def legacyKey (s : List Char) : List Char := legacyAux false false s

end SgModel.Lex
