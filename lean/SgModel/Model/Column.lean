/-
Model of `src/graph/storage/columnar.rs`: `ColumnData<T>` (sparse hash map / dense band with
base, values, presence bits and a kept count), the typed `Column` with its spill to `Other`,
and `ColumnStore` (append-only columns addressed by property name), for property C30.
Import-free (the driver links against it).

The two data-dependent representation decisions — `dense_is_smaller(span, entries, elem)`
and the "len crosses a power of two ≥ 1024" gate of `maybe_promote` — are a **parameter**
(`Policy`): every theorem of `Props/C30.lean` holds for an arbitrary policy, so promotion,
extension, rebasing and demotion are semantically invisible whatever the policy does.  The
driver instantiates `rustPolicy`, the concrete integer formula, so that the model takes the
same branches as the code.

Hash maps are association lists (lookup = first match, insert = cons after erasing the key);
the presence bitmap `Vec<u64>` is a `List Bool` of the same length as `values`.
-/
namespace SgModel.Column

structure Policy where
  /-- `dense_is_smaller(span, entries, elem_bytes)` -/
  denseSmaller : Nat → Nat → Nat → Bool
  /-- promotion is *considered* at this map length -/
  gate : Nat → Bool

/-! ### association lists (FxHashMap<usize, _>) -/

def alGet {α : Type} (m : List (Nat × α)) (k : Nat) : Option α :=
  (m.find? (fun e => e.1 == k)).map (·.2)

def alErase {α : Type} (m : List (Nat × α)) (k : Nat) : List (Nat × α) :=
  m.filter (fun e => e.1 != k)

def alSet {α : Type} (m : List (Nat × α)) (k : Nat) (v : α) : List (Nat × α) :=
  (k, v) :: alErase m k

def minKey {α : Type} : List (Nat × α) → Option Nat
  | [] => none
  | e :: rest => match minKey rest with
    | none => some e.1
    | some m => some (if e.1 < m then e.1 else m)

def maxKey {α : Type} : List (Nat × α) → Option Nat
  | [] => none
  | e :: rest => match maxKey rest with
    | none => some e.1
    | some m => some (if m < e.1 then e.1 else m)

/-! ### ColumnData<T> -/

inductive ColData (α : Type) where
  | sparse (m : List (Nat × α))
  | dense (base : Nat) (values : List α) (present : List Bool) (count : Nat)
deriving Repr

/-- `values[slot]` if the slot is inside the band and its presence bit is set -/
def slotGet {α : Type} (values : List α) (present : List Bool) (slot : Nat) : Option α :=
  if slot < values.length && present.getD slot false then values[slot]? else none

def ColData.get {α : Type} : ColData α → Nat → Option α
  | .sparse m, i => alGet m i
  | .dense base values present _, i =>
      if base ≤ i then slotGet values present (i - base) else none

def ColData.len {α : Type} : ColData α → Nat
  | .sparse m => m.length
  | .dense _ _ _ c => c

def ColData.isDense {α : Type} : ColData α → Bool
  | .sparse _ => false
  | .dense .. => true

def ColData.remove {α : Type} (dflt : α) : ColData α → Nat → ColData α
  | .sparse m, i => .sparse (alErase m i)
  | .dense base values present count, i =>
      if base ≤ i && (i - base < values.length && present.getD (i - base) false) then
        .dense base (values.set (i - base) dflt) (present.set (i - base) false) (count - 1)
      else .dense base values present count

/-- the present `(row, value)` pairs of a dense band, in slot order (`for_each`, `demote_to_sparse`) -/
def denseEntries {α : Type} : Nat → List α → List Bool → List (Nat × α)
  | b, v :: vs, p :: ps => (if p then [(b, v)] else []) ++ denseEntries (b + 1) vs ps
  | _, _, _ => []

/-- `Vec::resize(n, d)` for `n ≥ len` -/
def growTo {β : Type} (d : β) (l : List β) (n : Nat) : List β :=
  l ++ List.replicate (n - l.length) d

/-- the value copied by `rebase` for one old slot: absent slots are left at the default -/
def maskValues {α : Type} (dflt : α) (values : List α) (present : List Bool) : List α :=
  List.zipWith (fun v p => if p then v else dflt) values present

/-- write the map's entries into a band starting at `mn` (`maybe_promote`'s fill loop) -/
def scatter {α : Type} (mn : Nat) (m : List (Nat × α)) (st : List α × List Bool) :
    List α × List Bool :=
  m.foldl (fun st e => (st.1.set (e.1 - mn) e.2, st.2.set (e.1 - mn) true)) st

/-- `maybe_promote`, applied to the map just written -/
def promote {α : Type} (P : Policy) (elem : Nat) (dflt : α) (m : List (Nat × α)) : ColData α :=
  if P.gate m.length then
    match minKey m, maxKey m with
    | some mn, some mx =>
      let span := mx - mn + 1
      if P.denseSmaller span m.length elem then
        let st := scatter mn m (List.replicate span dflt, List.replicate span false)
        .dense mn st.1 st.2 m.length
      else .sparse m
    | _, _ => .sparse m
  else .sparse m

def ColData.set {α : Type} (P : Policy) (elem : Nat) (dflt : α) :
    ColData α → Nat → α → ColData α
  | .sparse m, i, v => promote P elem dflt (alSet m i v)
  | .dense base values present count, i, v =>
      if base ≤ i && i - base < values.length then
        .dense base (values.set (i - base) v) (present.set (i - base) true)
          (if present.getD (i - base) false then count else count + 1)
      else if base ≤ i then
        -- above the band: extend if the wider band is still the smaller representation
        if P.denseSmaller (i - base + 1) (count + 1) elem then
          .dense base ((growTo dflt values (i - base + 1)).set (i - base) v)
            ((growTo false present (i - base + 1)).set (i - base) true) (count + 1)
        else .sparse (alSet (denseEntries base values present) i v)
      else
        -- below the band: rebase (every slot shifts up by `base - i`), or give up
        if P.denseSmaller (base + values.length - i) (count + 1) elem then
          .dense i ((List.replicate (base - i) dflt ++ maskValues dflt values present).set 0 v)
            ((List.replicate (base - i) false ++ present).set 0 true) (count + 1)
        else .sparse (alSet (denseEntries base values present) i v)

/-- every present `(row, value)` pair (`for_each`) -/
def ColData.entries {α : Type} : ColData α → List (Nat × α)
  | .sparse m => m
  | .dense base values present _ => denseEntries base values present

/-! ### PropertyValue and the typed Column -/

inductive PV where
  | int (i : Int)
  | flt (bits : Nat)        -- f64 by bit pattern
  | str (tag : Nat)         -- strings are opaque to the store; tag 0 is ""
  | bool (b : Bool)
  | null
  | other (tag : Nat)       -- DateTime / Array / Map / Vector / Duration: no typed column
deriving DecidableEq, Repr

inductive Col where
  | int (d : ColData Int)
  | flt (d : ColData Nat)
  | str (d : ColData Nat)
  | bool (d : ColData Bool)
  | other (m : List (Nat × PV))
deriving Repr

/-- `Column::for_value` -/
def Col.forValue : PV → Col
  | .int _ => .int (.sparse [])
  | .flt _ => .flt (.sparse [])
  | .str _ => .str (.sparse [])
  | .bool _ => .bool (.sparse [])
  | _ => .other []

/-- what the column holds for a row, as a whole value (`none` = no entry) -/
def Col.lookup : Col → Nat → Option PV
  | .int d, i => (d.get i).map PV.int
  | .flt d, i => (d.get i).map PV.flt
  | .str d, i => (d.get i).map PV.str
  | .bool d, i => (d.get i).map PV.bool
  | .other m, i => alGet m i

/-- `Column::get`: Null when there is no entry -/
def Col.get (c : Col) (i : Nat) : PV := (c.lookup i).getD .null

/-- `Column::has` -/
def Col.has (c : Col) (i : Nat) : Bool := (c.lookup i).isSome

def Col.len : Col → Nat
  | .int d => d.len | .flt d => d.len | .str d => d.len | .bool d => d.len
  | .other m => m.length

def Col.isDense : Col → Bool
  | .int d => d.isDense | .flt d => d.isDense | .str d => d.isDense | .bool d => d.isDense
  | .other _ => false

/-- `promote_to_other`: every entry moves into the untyped map -/
def Col.spill : Col → List (Nat × PV)
  | .int d => d.entries.map (fun e => (e.1, PV.int e.2))
  | .flt d => d.entries.map (fun e => (e.1, PV.flt e.2))
  | .str d => d.entries.map (fun e => (e.1, PV.str e.2))
  | .bool d => d.entries.map (fun e => (e.1, PV.bool e.2))
  | .other m => m

/-- `size_of::<T>()` for i64 / f64 / String / bool -/
def elemInt : Nat := 8
def elemFlt : Nat := 8
def elemStr : Nat := 24
def elemBool : Nat := 1

def Col.set (P : Policy) : Col → Nat → PV → Col
  | .int d, i, .int v => .int (d.set P elemInt 0 i v)
  | .flt d, i, .flt v => .flt (d.set P elemFlt 0 i v)
  | .str d, i, .str v => .str (d.set P elemStr 0 i v)
  | .bool d, i, .bool v => .bool (d.set P elemBool false i v)
  | .other m, i, v => .other (alSet m i v)
  | c, i, v => .other (alSet c.spill i v)

def Col.remove : Col → Nat → Col
  | .int d, i => .int (d.remove 0 i)
  | .flt d, i => .flt (d.remove 0 i)
  | .str d, i => .str (d.remove 0 i)
  | .bool d, i => .bool (d.remove false i)
  | .other m, i => .other (alErase m i)

/-! ### ColumnStore -/

/-- columns in creation order with their names (`columns`/`names`/`index`) -/
abbrev Store := List (Nat × Col)

def findCol : Store → Nat → Option Col
  | [], _ => none
  | (k', c) :: rest, k => if k' == k then some c else findCol rest k

def mapCol (f : Col → Col) : Store → Nat → Store
  | [], _ => []
  | (k', c) :: rest, k => if k' == k then (k', f c) :: rest else (k', c) :: mapCol f rest k

inductive Op where
  | set (row key : Nat) (v : PV)     -- set_property
  | remove (row key : Nat)           -- remove_property
  | clearRow (row : Nat)             -- clear_row
deriving DecidableEq, Repr

def Store.step (P : Policy) (s : Store) : Op → Store
  | .set r k v =>
      match findCol s k with
      | some _ => mapCol (fun c => c.set P r v) s k
      | none => s ++ [(k, (Col.forValue v).set P r v)]
  | .remove r k => mapCol (fun c => c.remove r) s k
  | .clearRow r => s.map (fun e => (e.1, e.2.remove r))

def Store.run (P : Policy) (ops : List Op) : Store := ops.foldl (Store.step P) []

/-- the binding of (row, key), if any -/
def Store.lookup (s : Store) (r k : Nat) : Option PV :=
  match findCol s k with
  | some c => c.lookup r
  | none => none

/-- `get_property` -/
def Store.get (s : Store) (r k : Nat) : PV := (Store.lookup s r k).getD .null

/-- `get_property_keys`, in column creation order -/
def Store.keys (s : Store) (r : Nat) : List Nat :=
  (s.filter (fun e => e.2.has r)).map (·.1)

/-! ### the concrete policy of the code (driver only; no theorem depends on it) -/

def usizeMax : Nat := 2 ^ 64 - 1
def satMul (a b : Nat) : Nat := if a * b > usizeMax then usizeMax else a * b

/-- `dense_is_smaller` with its saturating integer arithmetic -/
def rustDenseSmaller (span entries elem : Nat) : Bool :=
  if span == 0 || entries == 0 then false
  else
    let denseBits := satMul span (satMul elem 8 + 1)
    let sparseBits := satMul entries ((8 + elem + 1) * 8 * 8) / 7
    decide (denseBits < sparseBits)

def isPow2 (n : Nat) : Bool := n != 0 && (n &&& (n - 1)) == 0

def rustPolicy : Policy :=
  { denseSmaller := rustDenseSmaller, gate := fun len => decide (1024 ≤ len) && isPow2 len }

/-! ### Reference map and the executable specification `S`

The specification is the obvious map: an association list keyed by (row, key).  It is
evaluated on the *implementation's* observations (the values `get_property` returned for the
probed (row, key) pairs and the key lists `get_property_keys` returned for the probed rows)
after every operation. -/

abbrev RefMap := List ((Nat × Nat) × PV)

def RefMap.get (m : RefMap) (r k : Nat) : Option PV :=
  (m.find? (fun e => e.1.1 == r && e.1.2 == k)).map (·.2)

def RefMap.step (m : RefMap) : Op → RefMap
  | .set r k v => ((r, k), v) :: m.filter (fun e => !(e.1.1 == r && e.1.2 == k))
  | .remove r k => m.filter (fun e => !(e.1.1 == r && e.1.2 == k))
  | .clearRow r => m.filter (fun e => !(e.1.1 == r))

def RefMap.run (ops : List Op) : RefMap := ops.foldl RefMap.step []

/-- probes of one observation: the (row, key) pairs read and the rows whose keys are listed -/
structure Probes where
  cells : List (Nat × Nat)
  rows : List Nat
  allKeys : List Nat          -- every key the history mentions
deriving Repr

structure Obs where
  gets : List PV              -- get_property(row, key) per probed cell
  keys : List (List Nat)      -- get_property_keys(row) per probed row, as returned
deriving DecidableEq, Repr

def Store.obs (s : Store) (p : Probes) : Obs :=
  { gets := p.cells.map (fun c => Store.get s c.1 c.2),
    keys := p.rows.map (Store.keys s) }

def nodupB : List Nat → Bool
  | [] => true
  | x :: xs => !xs.contains x && nodupB xs

/-- the key list of one row: only bound keys, every bound key among those the history
mentions, no key twice (order is not part of the property) -/
def keysOk (m : RefMap) (allKeys : List Nat) (r : Nat) (ks : List Nat) : Bool :=
  ks.all (fun k => (RefMap.get m r k).isSome)
  && allKeys.all (fun k => !(RefMap.get m r k).isSome || ks.contains k)
  && nodupB ks

def zipAll {β γ : Type} (f : β → γ → Bool) : List β → List γ → Bool
  | [], [] => true
  | x :: xs, y :: ys => f x y && zipAll f xs ys
  | _, _ => false

/-- S on one observation, against the reference map of the history so far -/
def specObs (m : RefMap) (p : Probes) (o : Obs) : Bool :=
  o.gets == p.cells.map (fun c => (RefMap.get m c.1 c.2).getD .null)
  && zipAll (fun r ks => keysOk m p.allKeys r ks) p.rows o.keys

end SgModel.Column
