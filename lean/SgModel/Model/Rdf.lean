/-
Model for property C36 (RDF serialisations round-trip every triple set).

What is modelled, and after which code:

* the repository's own logic in `src/rdf/serialization/{ntriples,turtle,rdfxml}.rs` and
  `src/rdf/types.rs`: the choice Simple / LanguageTaggedString / Typed when a `Literal` is
  handed to `rio` (`toRio`), the constructors used on the way back (`fromRio`), including
  what `oxrdf` does inside them (`new_typed_literal` folds `xsd:string` into the plain
  variant, `new_language_tagged_literal` lower-cases the tag);
* `rio_api 0.8.5` `Display` for terms and `rio_turtle 0.8.5` `NTriplesFormatter` /
  `NTriplesParser` at the level of Unicode scalar values (`List Char`): `escapeLit`
  = `fmt_quoted_str`, `parseStrBody` = `parse_string_literal_quote` + `parse_echar_or_uchar`,
  `parseIriBody` = `parse_iriref`, `bnodeRest` = the loop of `parse_blank_node_label`
  (including its look-ahead rule for `.`), `parseLine` = `parse_triple_line`, `parseDoc` =
  `parse_all`.  UTF-8 encoding/decoding is *not* modelled (the driver converts at the
  boundary); RDF-star (`<< … >>`) is rejected, as the wrappers reject it;
* `rio_turtle` `TurtleFormatter` (exact bytes) and a parser for exactly the subset that
  formatter emits (`ttlParse`) — not rio's Turtle parser;
* `rio_xml 0.8.5` `RdfXmlFormatter` (exact bytes: `xmlRender`), `quick-xml 0.36` `escape`
  (`xmlEscape`) and the five predefined entities on the way back (`xmlUnescape`),
  `split_iri`, the parser's "text that is all white space is no text" rule
  (`xmlReadText`) and its `rdf:nodeID` NCName check; the XML grammar itself is not modelled.

IRI and language-tag *validation* (oxiri, oxilangtag) is not modelled: `iriOK` / `langOK`
are the lexical conditions the round trip needs, and the harness checks that every IRI /
tag the real constructors accept satisfies them.

No imports (the driver links against this file).
-/
namespace SgModel.Rdf

abbrev Str := List Char

/-! ### character classes -/

@[inline] def inR (c : Char) (lo hi : Nat) : Bool := lo ≤ c.toNat && c.toNat ≤ hi

/-- PN_CHARS_BASE (`is_possible_pn_chars_base_unicode`) -/
def isPnBase (c : Char) : Bool :=
  inR c 0x41 0x5A || inR c 0x61 0x7A || inR c 0xC0 0xD6 || inR c 0xD8 0xF6 || inR c 0xF8 0x2FF
  || inR c 0x370 0x37D || inR c 0x37F 0x1FFF || inR c 0x200C 0x200D || inR c 0x2070 0x218F
  || inR c 0x2C00 0x2FEF || inR c 0x3001 0xD7FF || inR c 0xF900 0xFDCF || inR c 0xFDF0 0xFFFD
  || inR c 0x10000 0xEFFFF

/-- rio's PN_CHARS_U: base or `_` (no `:`) -/
def isPnU (c : Char) : Bool := isPnBase c || c == '_'

def isDigit (c : Char) : Bool := inR c 0x30 0x39

/-- PN_CHARS (`is_possible_pn_chars_unicode`) -/
def isPn (c : Char) : Bool :=
  isPnU c || c == '-' || isDigit c || c.toNat == 0xB7 || inR c 0x300 0x36F || inR c 0x203F 0x2040

/-- the `.`-look-ahead test of `parse_blank_node_label` on the *next byte*:
`is_possible_pn_chars_ascii(b) || b > 0x7F` -/
def dotNextOk (c : Char) : Bool := (c.toNat < 0x80 && isPn c) || 0x7F < c.toNat

/-- XML NameStartChar / NameChar (`rio_xml::utils`) -/
def isNameStart (c : Char) : Bool := c == ':' || c == '_' || isPnBase c
def isNameChar (c : Char) : Bool :=
  isNameStart c || c == '-' || c == '.' || isDigit c || c.toNat == 0xB7 || inR c 0x300 0x36F
  || inR c 0x203F 0x2040

def isXmlWs (c : Char) : Bool := c == ' ' || c == '\t' || c == '\n' || c == '\r'

/-! ### terms of the repository (`src/rdf/types.rs`) -/

def xsdString : Str :=
  ['h','t','t','p',':','/','/','w','w','w','.','w','3','.','o','r','g','/','2','0','0','1','/',
   'X','M','L','S','c','h','e','m','a','#','s','t','r','i','n','g']

def rdfLangString : Str :=
  ['h','t','t','p',':','/','/','w','w','w','.','w','3','.','o','r','g','/','1','9','9','9','/',
   '0','2','/','2','2','-','r','d','f','-','s','y','n','t','a','x','-','n','s','#',
   'l','a','n','g','S','t','r','i','n','g']

/-- `oxrdf::Literal` as wrapped by `samyama::rdf::Literal` -/
inductive Lit where
  | simple (v : Str)                 -- LiteralContent::String
  | lang (v : Str) (l : Str)         -- LanguageTaggedString
  | typed (v : Str) (dt : Str)       -- TypedLiteral
deriving DecidableEq, Repr

def Lit.value : Lit → Str
  | .simple v => v | .lang v _ => v | .typed v _ => v
def Lit.language : Lit → Option Str
  | .lang _ l => some l | _ => none
def Lit.datatype : Lit → Str
  | .simple _ => xsdString | .lang _ _ => rdfLangString | .typed _ dt => dt

/-- `Literal::new_typed_literal` (oxrdf folds xsd:string into the plain variant) -/
def mkTyped (v dt : Str) : Lit := if dt = xsdString then .simple v else .typed v dt
/-- `Literal::new_language_tagged_literal` (oxrdf lower-cases; validation not modelled) -/
def mkLang (v l : Str) : Lit := .lang v (l.map Char.toLower)

/-- representation invariant of values built by the constructors -/
def Lit.WF : Lit → Bool
  | .simple _ => true
  | .lang _ l => l.map Char.toLower == l
  | .typed _ dt => dt != xsdString

/-- `rio_api::model::Literal` -/
inductive RioLit where
  | simple (v : Str)
  | lang (v : Str) (l : Str)
  | typed (v : Str) (dt : Str)
deriving DecidableEq, Repr

/-- the choice made in the three `serialize` wrappers -/
def toRio (l : Lit) : RioLit :=
  match l.language with
  | some lg => .lang l.value lg
  | none => if l.datatype = xsdString then .simple l.value else .typed l.value l.datatype

/-- `convert_object` on literals -/
def fromRio : RioLit → Lit
  | .simple v => .simple v
  | .lang v l => mkLang v l
  | .typed v dt => mkTyped v dt

inductive Subj where
  | iri (i : Str) | bnode (b : Str)
deriving DecidableEq, Repr

inductive Obj where
  | iri (i : Str) | bnode (b : Str) | lit (l : Lit)
deriving DecidableEq, Repr

structure Triple where
  s : Subj
  p : Str
  o : Obj
deriving DecidableEq, Repr

/-! ### lexical side conditions of the round trip -/

/-- no character ≤ U+0020 and none of `<>"{}|^` backtick backslash: a necessary condition
of `oxiri::Iri::parse` (checked against the real constructor by the harness) -/
def iriCharOK (c : Char) : Bool :=
  0x20 < c.toNat && c != '<' && c != '>' && c != '"' && c != '{' && c != '}' && c != '|'
  && c != '^' && c != '`' && c != '\\'
def iriOK (i : Str) : Bool := i.all iriCharOK

def langCharOK (c : Char) : Bool := inR c 0x61 0x7A || isDigit c || c == '-'
def langOK (l : Str) : Bool := !l.isEmpty && l.all langCharOK

/-- continuation of a blank-node label that rio's loop reads back completely -/
def bnodeTailOK : Str → Bool
  | [] => true
  | c :: r =>
    if c = '.' then
      (match r with | [] => false | d :: _ => dotNextOk d) && bnodeTailOK r
    else isPn c && bnodeTailOK r

/-- blank-node labels rio's N-Triples/Turtle parsers read back -/
def bnodeOK : Str → Bool
  | [] => false
  | c :: r => (isPnU c || isDigit c) && bnodeTailOK r

/-- `oxrdf::BlankNode::new` (`validate_blank_node_identifier`): what the repository accepts -/
def oxBnodeValid : Str → Bool
  | [] => false
  | c :: r =>
    (isDigit c || c == '_' || c == ':' || isPnBase c)
    && r.all (fun d => d == '.' || d == ':' || isPn d)
    && (c :: r).getLast? != some '.'

/-- XML NCName (`is_nc_name`), required of `rdf:nodeID` by rio's RDF/XML parser -/
def isNcName : Str → Bool
  | [] => false
  | c :: r => isNameStart c && r.all isNameChar && (c :: r).all (· != ':')

def litOK (l : Lit) : Bool :=
  l.WF && (match l with
    | .simple _ => true
    | .lang _ lg => langOK lg
    | .typed _ dt => iriOK dt)

def subjOK : Subj → Bool
  | .iri i => iriOK i | .bnode b => bnodeOK b
def objOK : Obj → Bool
  | .iri i => iriOK i | .bnode b => bnodeOK b | .lit l => litOK l
def tripleOK (t : Triple) : Bool := subjOK t.s && iriOK t.p && objOK t.o

/-! ### N-Triples: formatter (`rio_api` Display + `NTriplesFormatter`) -/

/-- `fmt_quoted_str`, one character -/
def escChar (c : Char) : Str :=
  if c = '\n' then ['\\', 'n'] else if c = '\r' then ['\\', 'r']
  else if c = '"' then ['\\', '"'] else if c = '\\' then ['\\', '\\'] else [c]

def escapeLit : Str → Str
  | [] => []
  | c :: r => escChar c ++ escapeLit r

def renderIri (i : Str) : Str := '<' :: (i ++ ['>'])
def renderBnode (b : Str) : Str := '_' :: ':' :: b
def renderQuoted (v : Str) : Str := '"' :: (escapeLit v ++ ['"'])

def renderRioLit : RioLit → Str
  | .simple v => renderQuoted v
  | .lang v l => renderQuoted v ++ '@' :: l
  | .typed v dt => renderQuoted v ++ '^' :: '^' :: renderIri dt

def renderSubj : Subj → Str
  | .iri i => renderIri i | .bnode b => renderBnode b
def renderObj : Obj → Str
  | .iri i => renderIri i | .bnode b => renderBnode b | .lit l => renderRioLit (toRio l)

/-- `writeln!("{} .", triple)` -/
def renderLine (t : Triple) : Str :=
  renderSubj t.s ++ ' ' :: (renderIri t.p ++ ' ' :: (renderObj t.o ++ [' ', '.', '\n']))

def renderDoc : List Triple → Str
  | [] => []
  | t :: ts => renderLine t ++ renderDoc ts

/-! ### N-Triples: parser (`rio_turtle::ntriples` + `shared`) -/

def hexVal? (c : Char) : Option Nat :=
  if inR c 0x30 0x39 then some (c.toNat - 0x30)
  else if inR c 0x61 0x66 then some (c.toNat - 0x61 + 10)
  else if inR c 0x41 0x46 then some (c.toNat - 0x41 + 10)
  else none

/-- `char::from_u32` -/
def charOfNat? (n : Nat) : Option Char := if n.isValidChar then some (Char.ofNat n) else none

def hex4? (a b c d : Char) : Option Char :=
  match hexVal? a, hexVal? b, hexVal? c, hexVal? d with
  | some w, some x, some y, some z => charOfNat? (((w * 16 + x) * 16 + y) * 16 + z)
  | _, _, _, _ => none

def hex8? (a b c d e f g h : Char) : Option Char :=
  match hexVal? a, hexVal? b, hexVal? c, hexVal? d, hexVal? e, hexVal? f, hexVal? g, hexVal? h with
  | some s, some t, some u, some v, some w, some x, some y, some z =>
      charOfNat? (((((((s * 16 + t) * 16 + u) * 16 + v) * 16 + w) * 16 + x) * 16 + y) * 16 + z)
  | _, _, _, _, _, _, _, _ => none

def consRes (c : Char) : Option (Str × Str) → Option (Str × Str)
  | some (v, rest) => some (c :: v, rest)
  | none => none

def skipWs : Str → Str
  | [] => []
  | c :: r => if c = ' ' ∨ c = '\t' then skipWs r else c :: r

def skipUntilEol : Str → Str
  | [] => []
  | c :: r => if c = '\n' then r else skipUntilEol r

/-- ECHAR of `parse_echar_or_uchar` -/
def simpleEsc? (c : Char) : Option Char :=
  if c = 't' then some '\t' else if c = 'b' then some (Char.ofNat 8) else if c = 'n' then some '\n'
  else if c = 'r' then some '\r' else if c = 'f' then some (Char.ofNat 12)
  else if c = '"' then some '"' else if c = '\'' then some '\'' else if c = '\\' then some '\\'
  else none

/-- `parse_string_literal_quote` after the opening quote: (value, rest after the closing quote) -/
def parseStrBody : Str → Option (Str × Str)
  | [] => none
  | c :: r =>
    if c = '"' then some ([], r)
    else if c = '\\' then
      match r with
      | [] => none
      | e :: r1 =>
        if e = 'u' then
          match r1 with
          | a :: b :: c' :: d :: r2 =>
            (match hex4? a b c' d with | some ch => consRes ch (parseStrBody r2) | none => none)
          | _ => none
        else if e = 'U' then
          match r1 with
          | a :: b :: c' :: d :: e' :: f :: g :: h :: r2 =>
            (match hex8? a b c' d e' f g h with
              | some ch => consRes ch (parseStrBody r2) | none => none)
          | _ => none
        else
          match simpleEsc? e with
          | some ch => consRes ch (parseStrBody r1)
          | none => none
    else if c = '\n' ∨ c = '\r' then none
    else consRes c (parseStrBody r)

/-- `parse_iriref` after `<`: (iri, rest after `>`); `\u`/`\U` escapes are decoded -/
def parseIriBody : Str → Option (Str × Str)
  | [] => none
  | c :: r =>
    if c = '>' then some ([], r)
    else if c = '\n' ∨ c = '\r' then none
    else if c = '\\' then
      match r with
      | [] => none
      | e :: r1 =>
        if e = 'u' then
          match r1 with
          | a :: b :: c' :: d :: r2 =>
            (match hex4? a b c' d with | some ch => consRes ch (parseIriBody r2) | none => none)
          | _ => none
        else if e = 'U' then
          match r1 with
          | a :: b :: c' :: d :: e' :: f :: g :: h :: r2 =>
            (match hex8? a b c' d e' f g h with
              | some ch => consRes ch (parseIriBody r2) | none => none)
          | _ => none
        else none
    else consRes c (parseIriBody r)

/-- `parse_iriref_absolute` at `<` (validation: `iriOK`, see the header) -/
def parseIri : Str → Option (Str × Str)
  | '<' :: r =>
    (match parseIriBody r with
      | some (i, rest) => if iriOK i then some (i, rest) else none
      | none => none)
  | _ => none

/-- the loop of `parse_blank_node_label` (end of input inside a label is an error) -/
def bnodeRest : Str → Option (Str × Str)
  | [] => none
  | c :: r =>
    if c = '.' then
      match r with
      | [] => some ([], c :: r)
      | d :: _ => if dotNextOk d then consRes '.' (bnodeRest r) else some ([], c :: r)
    else if isPn c then consRes c (bnodeRest r)
    else some ([], c :: r)

/-- `parse_blank_node_label` at `_` -/
def parseBnode : Str → Option (Str × Str)
  | '_' :: ':' :: c :: r => if isPnU c || isDigit c then consRes c (bnodeRest r) else none
  | _ => none

def langTake : Str → Str × Str
  | [] => ([], [])
  | c :: r =>
    if inR c 0x61 0x7A || inR c 0x41 0x5A || isDigit c || c == '-' then
      let (l, rest) := langTake r
      (c.toLower :: l, rest)
    else ([], c :: r)

/-- `parse_langtag` after `@` (validation: `langOK`) -/
def parseLang (s : Str) : Option (Str × Str) :=
  let (l, rest) := langTake s
  if langOK l then some (l, rest) else none

/-- `parse_literal` at the opening quote -/
def parseLiteral : Str → Option (RioLit × Str)
  | '"' :: r =>
    (match parseStrBody r with
      | none => none
      | some (v, rest) =>
        match skipWs rest with
        | '@' :: r1 => (match parseLang r1 with | some (l, r2) => some (.lang v l, r2) | none => none)
        | '^' :: '^' :: r1 =>
          (match parseIri (skipWs r1) with | some (dt, r2) => some (.typed v dt, r2) | none => none)
        | '^' :: _ => none
        | other => some (.simple v, other))
  | _ => none

def parseSubj : Str → Option (Subj × Str)
  | '<' :: '<' :: _ => none          -- RDF-star: the wrappers reject it
  | '<' :: r => (match parseIri ('<' :: r) with | some (i, rest) => some (.iri i, rest) | none => none)
  | '_' :: r => (match parseBnode ('_' :: r) with | some (b, rest) => some (.bnode b, rest) | none => none)
  | _ => none

def parseObj : Str → Option (Obj × Str)
  | '<' :: '<' :: _ => none
  | '<' :: r => (match parseIri ('<' :: r) with | some (i, rest) => some (.iri i, rest) | none => none)
  | '_' :: r => (match parseBnode ('_' :: r) with | some (b, rest) => some (.bnode b, rest) | none => none)
  | '"' :: r =>
    (match parseLiteral ('"' :: r) with | some (l, rest) => some (.lit (fromRio l), rest) | none => none)
  | _ => none

def isLineEnd : Str → Bool
  | [] => true
  | c :: _ => c == '#' || c == '\r' || c == '\n'

/-- `parse_triple_line`: `none` = error, `some (none, rest)` = blank/comment line -/
def parseLine (s : Str) : Option (Option Triple × Str) :=
  let s0 := skipWs s
  if isLineEnd s0 then some (none, skipUntilEol s0)
  else
    match parseSubj s0 with
    | none => none
    | some (sb, r1) =>
      match parseIri (skipWs r1) with
      | none => none
      | some (p, r2) =>
        match parseObj (skipWs r2) with
        | none => none
        | some (o, r3) =>
          match skipWs r3 with
          | '.' :: r4 =>
            let r5 := skipWs r4
            if isLineEnd r5 then some (some ⟨sb, p, o⟩, skipUntilEol r5) else none
          | _ => none

/-- `parse_all`: steps until the input is exhausted; any error aborts -/
def parseDocFuel : Nat → Str → Option (List Triple)
  | 0, _ => none
  | _ + 1, [] => some []
  | fuel + 1, s =>
    match parseLine s with
    | none => none
    | some (none, rest) => parseDocFuel fuel rest
    | some (some t, rest) =>
      match parseDocFuel fuel rest with
      | some ts => some (t :: ts)
      | none => none

/-- every step on a non-empty input consumes at least one character, so `length + 1`
steps always suffice (proved for rendered documents in `Lemmas/Rdf.lean`) -/
def parseDoc (s : Str) : Option (List Triple) := parseDocFuel (s.length + 1) s

/-! ### Turtle: `TurtleFormatter` (exact) and a parser for the emitted subset -/

/-- formatter state: (current subject, current predicate) -/
def ttlStep (st : Option (Subj × Str)) (t : Triple) : Str :=
  match st with
  | some (cs, cp) =>
    if cs = t.s then
      if cp = t.p then ' ' :: ',' :: ' ' :: renderObj t.o
      else ' ' :: ';' :: '\n' :: '\t' :: (renderIri t.p ++ ' ' :: renderObj t.o)
    else ' ' :: '.' :: '\n' :: (renderSubj t.s ++ ' ' :: (renderIri t.p ++ ' ' :: renderObj t.o))
  | none => renderSubj t.s ++ ' ' :: (renderIri t.p ++ ' ' :: renderObj t.o)

def ttlRenderFrom (st : Option (Subj × Str)) : List Triple → Str
  | [] => (match st with | some _ => [' ', '.', '\n'] | none => [])
  | t :: ts => ttlStep st t ++ ttlRenderFrom (some (t.s, t.p)) ts

def ttlRender (ts : List Triple) : Str := ttlRenderFrom none ts

def skipWsNl : Str → Str
  | [] => []
  | c :: r => if c = ' ' ∨ c = '\t' ∨ c = '\n' ∨ c = '\r' then skipWsNl r else c :: r

def consT (t : Triple) : Option (List Triple) → Option (List Triple)
  | some ts => some (t :: ts)
  | none => none

/-- one `subject predicate object` followed by the continuation `k` -/
def ttlStmt (k : Subj → Str → Str → Option (List Triple)) (inp : Str) : Option (List Triple) :=
  match parseSubj inp with
  | none => none
  | some (s, r1) =>
    match parseIri (skipWsNl r1) with
    | none => none
    | some (p, r2) =>
      match parseObj (skipWsNl r2) with
      | none => none
      | some (o, r3) => consT ⟨s, p, o⟩ (k s p r3)

/-- continuation of a statement after an object, for the emitted subset (white space
between tokens is skipped): `, o` | `; p o` | `.` followed by the next statement or the end.
No prefixes, no `a`, no `[]`/`()`, no long strings, no numeric/boolean shorthands: the
formatter never writes them. -/
def ttlTailFuel : Nat → Subj → Str → Str → Option (List Triple)
  | 0, _, _, _ => none
  | fuel + 1, s, p, inp =>
    match skipWsNl inp with
    | ',' :: r =>
      (match parseObj (skipWsNl r) with
        | some (o, r1) => consT ⟨s, p, o⟩ (ttlTailFuel fuel s p r1)
        | none => none)
    | ';' :: r =>
      (match parseIri (skipWsNl r) with
        | some (p', r1) =>
          (match parseObj (skipWsNl r1) with
            | some (o, r2) => consT ⟨s, p', o⟩ (ttlTailFuel fuel s p' r2)
            | none => none)
        | none => none)
    | '.' :: r =>
      (match skipWsNl r with
        | [] => some []
        | r' => ttlStmt (ttlTailFuel fuel) r')
    | _ => none

def ttlParse (inp : Str) : Option (List Triple) :=
  match skipWsNl inp with
  | [] => some []
  | r' => ttlStmt (ttlTailFuel (inp.length + 1)) r'

/-! ### RDF/XML: `quick_xml::escape::escape`, entities, `split_iri`, `RdfXmlFormatter` -/

def xmlEscChar (c : Char) : Str :=
  if c = '<' then ['&','l','t',';'] else if c = '>' then ['&','g','t',';']
  else if c = '&' then ['&','a','m','p',';'] else if c = '\'' then ['&','a','p','o','s',';']
  else if c = '"' then ['&','q','u','o','t',';'] else [c]

def xmlEscape : Str → Str
  | [] => []
  | c :: r => xmlEscChar c ++ xmlEscape r

/-- the five predefined entities (numeric references are never emitted by the formatter and
are not modelled: any other `&…` is an error here) -/
def xmlUnescape : Str → Option Str
  | [] => some []
  | c :: r =>
    if c = '&' then
      match r with
      | 'l' :: 't' :: ';' :: r1 => (xmlUnescape r1).map ('<' :: ·)
      | 'g' :: 't' :: ';' :: r1 => (xmlUnescape r1).map ('>' :: ·)
      | 'a' :: 'm' :: 'p' :: ';' :: r1 => (xmlUnescape r1).map ('&' :: ·)
      | 'a' :: 'p' :: 'o' :: 's' :: ';' :: r1 => (xmlUnescape r1).map ('\'' :: ·)
      | 'q' :: 'u' :: 'o' :: 't' :: ';' :: r1 => (xmlUnescape r1).map ('"' :: ·)
      | _ => none
    else (xmlUnescape r).map (c :: ·)

/-- `parse_text_event` in a property element: text consisting only of white space (tested
on the raw, still escaped bytes) is dropped, and a property element without text yields
the empty literal -/
def xmlReadText (raw : Str) : Option Str :=
  match xmlUnescape raw with
  | none => none
  | some v => if raw.all isXmlWs then some [] else some v

def isSplitStop (c : Char) : Bool := !isNameChar c || c == ':'
def isLocalStart (c : Char) : Bool := isNameStart c && c != ':'

/-- `split_iri`: (namespace, local name); local name empty = the `prop:` fallback -/
def splitIri (iri : Str) : Str × Str :=
  if iri.any isSplitStop then
    let tail := (iri.reverse.takeWhile (fun c => !isSplitStop c)).reverse
    let head := (iri.reverse.dropWhile (fun c => !isSplitStop c)).reverse
    let skipped := tail.takeWhile (fun c => !isLocalStart c)
    let loc := tail.dropWhile (fun c => !isLocalStart c)
    if loc.isEmpty then (iri, []) else (head ++ skipped, loc)
  else (iri, [])

def strOf (s : String) : Str := s.toList

def xmlAttr (name : Str) (v : Str) : Str := ' ' :: (name ++ '=' :: '"' :: (xmlEscape v ++ ['"']))

def xmlHeader : Str :=
  strOf "<?xml version=\"1.0\" encoding=\"UTF-8\"?><rdf:RDF xmlns:rdf=\"http://www.w3.org/1999/02/22-rdf-syntax-ns#\">"
def xmlDescClose : Str := strOf "</rdf:Description>"
def xmlFooter : Str := strOf "</rdf:RDF>"

def xmlSubjOpen : Subj → Str
  | .iri i => strOf "<rdf:Description" ++ xmlAttr (strOf "rdf:about") i ++ ['>']
  | .bnode b => strOf "<rdf:Description" ++ xmlAttr (strOf "rdf:nodeID") b ++ ['>']

def xmlProp (t : Triple) : Str :=
  let (ns, loc) := splitIri t.p
  let (qname, nsAttr) :=
    if loc.isEmpty then (strOf "prop:", xmlAttr (strOf "xmlns:prop") ns)
    else (loc, xmlAttr (strOf "xmlns") ns)
  let openTag := '<' :: (qname ++ nsAttr)
  match t.o with
  | .iri i => openTag ++ xmlAttr (strOf "rdf:resource") i ++ ['/', '>']
  | .bnode b => openTag ++ xmlAttr (strOf "rdf:nodeID") b ++ ['/', '>']
  | .lit l =>
    let (extra, v) := match toRio l with
      | .simple v => ([], v)
      | .lang v lg => (xmlAttr (strOf "xml:lang") lg, v)
      | .typed v dt => (xmlAttr (strOf "rdf:datatype") dt, v)
    openTag ++ extra ++ '>' :: (xmlEscape v ++ '<' :: '/' :: (qname ++ ['>']))

def xmlRenderFrom (cur : Option Subj) : List Triple → Str
  | [] => (match cur with | some _ => xmlDescClose | none => []) ++ xmlFooter
  | t :: ts =>
    (if cur = some t.s then []
     else (match cur with | some _ => xmlDescClose | none => []) ++ xmlSubjOpen t.s)
    ++ xmlProp t ++ xmlRenderFrom (some t.s) ts

def xmlRender (ts : List Triple) : Str := xmlHeader ++ xmlRenderFrom none ts

/-! ### observations, predicted outcomes and the executable specification -/

inductive Fmt where | nt | ttl | xml
deriving DecidableEq, Repr

/-- what `RdfParser::parse(RdfSerializer::serialize(ts))` returned -/
inductive Outcome where
  | serErr
  | parseErr
  | back (ts : List Triple)
deriving DecidableEq, Repr

def subjBnodeBad (ok : Str → Bool) : Subj → Bool
  | .bnode b => !ok b | _ => false
def objBnodeBad (ok : Str → Bool) : Obj → Bool
  | .bnode b => !ok b | _ => false
def anyBnodeBad (ok : Str → Bool) (ts : List Triple) : Bool :=
  ts.any (fun t => subjBnodeBad ok t.s || objBnodeBad ok t.o)

def litWsOnly (l : Lit) : Bool := !l.value.isEmpty && l.value.all isXmlWs

/-- the literal the RDF/XML parser hands back for the text the formatter wrote -/
def xmlLitBack (l : Lit) : Lit :=
  match xmlReadText (xmlEscape l.value) with
  | some v => (match l with | .simple _ => .simple v | .lang _ lg => .lang v lg | .typed _ dt => .typed v dt)
  | none => l

def xmlTripleBack (t : Triple) : Triple :=
  match t.o with
  | .lit l => { t with o := .lit (xmlLitBack l) }
  | _ => t

/-! #### names RDF/XML reserves (`rio_xml` parser: `RESERVED_RDF_ELEMENTS`, `rdf:Description`, `rdf:li`) -/

def rdfNs : Str :=
  ['h','t','t','p',':','/','/','w','w','w','.','w','3','.','o','r','g','/','1','9','9','9','/','0','2','/','2','2','-','r','d','f','-','s','y','n','t','a','x','-','n','s','#']

def rdfLi : Str := rdfNs ++ ['l','i']

/-- local names the parser refuses as property element names (`rdf:li` is rewritten instead) -/
def rdfReservedLocals : List Str :=
  [['a','b','o','u','t'], ['a','b','o','u','t','E','a','c','h'], ['a','b','o','u','t','E','a','c','h','P','r','e','f','i','x'], ['b','a','g','I','D'], ['d','a','t','a','t','y','p','e'],
   ['I','D'], ['n','o','d','e','I','D'], ['p','a','r','s','e','T','y','p','e'], ['R','D','F'], ['r','e','s','o','u','r','c','e'], ['D','e','s','c','r','i','p','t','i','o','n']]

/-- the namespace no prefix may be bound to (the formatter's `prop:` fallback binds it when the
predicate is exactly this IRI) -/
def xmlnsNs : Str :=
  ['h','t','t','p',':','/','/','w','w','w','.','w','3','.','o','r','g','/','2','0','0','0','/','x','m','l','n','s','/']

/-- predicates the formatter writes as an element the parser then rejects -/
def xmlPredBad (p : Str) : Bool := rdfReservedLocals.any (fun l => p == rdfNs ++ l) || p == xmlnsNs

def digitChar (n : Nat) : Char := Char.ofNat (48 + n % 10)
def natStrFuel : Nat → Nat → Str → Str
  | 0, _, acc => acc
  | f + 1, n, acc => if n < 10 then digitChar n :: acc else natStrFuel f (n / 10) (digitChar n :: acc)
def natStr (n : Nat) : Str := natStrFuel (n + 1) n []

/-- what the parser hands back, triple by triple: literals through the text rule, and every
`rdf:li` property renumbered `rdf:_1`, `rdf:_2`, … within its `rdf:Description` element (the
formatter opens a new element whenever the subject changes) -/
def xmlBackFrom (cur : Option Subj) (k : Nat) : List Triple → List Triple
  | [] => []
  | t :: ts =>
    let k0 := if cur = some t.s then k else 0
    if t.p = rdfLi then
      { xmlTripleBack t with p := rdfNs ++ '_' :: natStr (k0 + 1) } :: xmlBackFrom (some t.s) (k0 + 1) ts
    else xmlTripleBack t :: xmlBackFrom (some t.s) k0 ts

def xmlBack (ts : List Triple) : List Triple := xmlBackFrom none 0 ts

/-- predicted outcome of the real pipeline, per format (model of the pinned tree) -/
def predict (f : Fmt) (ts : List Triple) : Outcome :=
  match f with
  | .nt => (match parseDoc (renderDoc ts) with | some b => .back b | none => .parseErr)
  | .ttl => (match ttlParse (ttlRender ts) with | some b => .back b | none => .parseErr)
  | .xml =>
    if anyBnodeBad isNcName ts || ts.any (fun t => xmlPredBad t.p) then .parseErr else .back (xmlBack ts)

def subsetOf (a b : List Triple) : Bool := a.all (fun x => b.contains x)
def setEq (a b : List Triple) : Bool := subsetOf a b && subsetOf b a

def bnodesOf (ts : List Triple) : List Str :=
  (ts.foldl (fun acc t =>
    let acc := match t.s with | .bnode b => if acc.contains b then acc else b :: acc | _ => acc
    match t.o with | .bnode b => if acc.contains b then acc else b :: acc | _ => acc) []).reverse

def insertEverywhere (x : Str) : List Str → List (List Str)
  | [] => [[x]]
  | y :: ys => (x :: y :: ys) :: (insertEverywhere x ys).map (y :: ·)

def perms : List Str → List (List Str)
  | [] => [[]]
  | x :: xs => (perms xs).flatMap (insertEverywhere x)

def renameStr (m : List (Str × Str)) (b : Str) : Str :=
  match m.find? (fun p => p.1 == b) with | some p => p.2 | none => b
def renameTriple (m : List (Str × Str)) (t : Triple) : Triple :=
  { s := (match t.s with | .bnode b => .bnode (renameStr m b) | s => s),
    p := t.p,
    o := (match t.o with | .bnode b => .bnode (renameStr m b) | o => o) }

/-- equal as sets up to a bijective renaming of blank-node labels (brute force; the harness
keeps at most 5 distinct labels per case) -/
def sameUpToBnodes (a b : List Triple) : Bool :=
  setEq a b ||
    (let la := bnodesOf a
     let lb := bnodesOf b
     la.length == lb.length && la.length ≤ 6 &&
       (perms la).any (fun pa => setEq a (b.map (renameTriple (lb.zip pa)))))

inductive Verdict where
  | ok
  | viol (cls : String)
deriving DecidableEq, Repr

/-- S evaluated on an observed outcome; the class names the structural reason -/
def spec (f : Fmt) (ts : List Triple) : Outcome → Verdict
  | .serErr => (match f with | .xml => .ok | _ => .viol "ser-error")
  | .parseErr =>
    (match f with
      | .xml =>
        if anyBnodeBad isNcName ts then .viol "bnode-not-ncname"
        else if ts.any (fun t => xmlPredBad t.p) then .viol "reserved-predicate"
        else .viol "parse-error"
      | _ => if anyBnodeBad bnodeOK ts then .viol "bnode-label" else .viol "parse-error")
  | .back b =>
    if sameUpToBnodes ts b then .ok
    else if f = .xml && setEq b (xmlBack ts) then
      (if ts.any (fun t => t.p == rdfLi) then .viol "rdf-li-renumbered"
       else if ts.any (fun t => match t.o with | .lit l => litWsOnly l | _ => false)
         then .viol "whitespace-only-literal"
       else .viol "set-differs")
    else .viol "set-differs"

end SgModel.Rdf
