import SgModel.Model.CyQuery
/-!
# Cy — models of the engine's physical operators and planner rewrites (`PlanOps`)

Each definition mirrors one operator / rewrite of `src/query/executor/{operator,planner}.rs`
as a list transformer; `SgModel/Props/C01.lean` proves it sound against the reference
semantics of `CyMatch`/`CyQuery` for **every** graph.  `…Legacy` is the pinned tree.
-/
namespace SgModel.Cy

/-! ### NodeScan -/

/-- the label index: ids of the nodes carrying `l`, in node order -/
def labelIndex (g : Graph) (l : Name) : List Node := g.nodes.filter (·.labels.contains l)

/-- the reference: nodes a pattern `(n:L1:…:Lk)` may bind (`nodeOk` without properties) -/
def scanSpec (g : Graph) (ls : List Name) : List Node := g.nodes.filter (·.hasLabels ls)

/-- `NodeScanOperator::initialize` after the repair: no label → all nodes; otherwise the
index entry of the first label, keeping the nodes that carry every label -/
def nodeScan (g : Graph) : List Name → List Node
  | [] => g.nodes
  | l :: ls => (labelIndex g l).filter (·.hasLabels (l :: ls))

/-- the pinned tree: the de-duplicated **union** of the index entries (in node order) -/
def nodeScanLegacy (g : Graph) : List Name → List Node
  | [] => g.nodes
  | ls => g.nodes.filter fun n => ls.any (n.labels.contains ·)

/-- `LabelCountOperator` of the pinned tree for `MATCH (n:L…) RETURN count(n)`: the minimum
of the per-label counts -/
def labelCountLegacy (g : Graph) : List Name → Nat
  | [] => g.nodes.length
  | l :: ls => ls.foldl (fun m l' => min m (labelIndex g l').length) (labelIndex g l).length

/-! ### `=` in projections (pinned tree: derived structural equality on non-null values) -/

def Atom.eq3Legacy : Atom → Atom → Option Bool
  | .null, _ => none
  | _, .null => none
  | a, b => some (a == b)

/-! ### integer arithmetic (pinned tree: unchecked `i64` — a panic in debug builds) -/

/-- `none` = the process panicked -/
def addLegacy (x y : Int) : Option Int := if inI64 (x + y) then some (x + y) else none

/-! ### Filter -/

/-- the predicate evaluates to the boolean `true` (not false, not null, not an error) -/
def evalsTrue (g : Graph) (r : Row) (p : Expr) : Bool :=
  match evalExpr g r p with
  | .ok (.atom (.bool true)) => true
  | _ => false

/-- `FilterOperator`: keep the rows whose predicate is true -/
def filterOp (g : Graph) (p : Expr) (rows : List Row) : Except Err (List Row) :=
  filterM' (fun r => keeps g r p) rows

/-! ### Sort / Top-N / Limit -/

/-- Top-N (`SortOperator` with a pushed-down limit): keep a sorted buffer of at most `k`
rows, insert each incoming row and cut the buffer back to `k` -/
def topN {α : Type} (le : α → α → Bool) (k : Nat) : List α → List α
  | [] => []
  | x :: xs => (insertBy le x (topN le k xs)).take k

/-- LIMIT pushed below a row-wise operator `f` (Project): scan only `k` rows -/
def limitPushed {α β : Type} (f : α → β) (k : Nat) (rows : List α) : List β := (rows.take k).map f

/-! ### Expand and the adjacency-count rewrite -/

/-- `ExpandOperator` for an unconstrained directed hop `(a)-->()` : one row per outgoing
relationship of `a` -/
def expandOut (g : Graph) (a : Nat) : List Rel := g.rels.filter (·.src == a)

/-- typed out-degree (`adjacency_agg_detector`: `count(*)` grouped by the source is read
off the adjacency lists instead of expanding) -/
def outDegree (g : Graph) (types : List Name) (a : Nat) : Nat :=
  g.rels.countP fun r => r.src == a && (types.isEmpty || types.contains r.type)

/-- follow relationship `r` from node `cur` in direction `d` to a node satisfying `pOther` -/
def hopVia (g : Graph) (rp : RelPat) (pOther : NodePat) (d : Dir) (cur : Nat) (r : Rel) :
    Option Nat :=
  if relOk rp r then
    match relTarget d cur r with
    | some t => match g.node? t with
      | some b => if nodeOk pOther b then some t else none
      | none => none
    | none => none
  else none

/-- `EdgeCountOperator` of the pinned tree: `MATCH …-[:T]->… RETURN count(*)` answered with
the number of relationships of the type, whatever else the pattern said -/
def edgeCountLegacy (g : Graph) (types : List Name) : Nat :=
  g.rels.countP fun r => types.isEmpty || types.contains r.type

/-- one hop enumerated from the left end: (left node, relationship, right node) -/
def hopFromLeft (g : Graph) (pa : NodePat) (rp : RelPat) (pb : NodePat) : List (Nat × Nat × Nat) :=
  g.nodes.flatMap fun a =>
    if nodeOk pa a then
      g.rels.filterMap fun r => (hopVia g rp pb rp.dir a.id r).map fun t => (a.id, r.id, t)
    else []

/-- the same hop enumerated from the right end (the planner anchors on the more selective
node and walks the relationship backwards) -/
def hopFromRight (g : Graph) (pa : NodePat) (rp : RelPat) (pb : NodePat) : List (Nat × Nat × Nat) :=
  g.nodes.flatMap fun b =>
    if nodeOk pb b then
      g.rels.filterMap fun r => (hopVia g rp pa rp.dir.flip b.id r).map fun s => (s, r.id, b.id)
    else []

/-! ### equality pushed down into Expand (`ExpandOperator::target_props`) -/

/-- keep an expansion target iff its property `k` is `=`-equal to the literal `v` -/
def pushedTargetOk (props : List (Name × Val)) (k : Name) (v : Val) : Bool :=
  Val.eq3 (lookupProp props k) v == some true

/-- the pinned tree compared the stored value and the literal structurally -/
def pushedTargetOkLegacy (props : List (Name × Val)) (k : Name) (v : Val) : Bool :=
  match props.lookup k with
  | some p => p == v
  | none => false

/-! ### ORDER BY on numbers (the engine: the index order, which never ties across
Integer/Float: the integer first — known finding `orderby-int-float-secondary-key`) -/

def Atom.ordCmpLegacy (a b : Atom) : Ordering := Atom.canonCmp a b

/-! ### known deviations of the engine on grammar v2 (all reproduced on the real code) -/

/-- comma patterns of one MATCH: the engine tracks used relationships per *path*, so two
patterns of one clause may bind the same relationship -/
def matchPatsLegacy (g : Graph) (de : Bool) : List PathPat → MState → List MState
  | [], s => [s]
  | p :: ps, s => (matchPath g de p ⟨s.row, []⟩).flatMap (matchPatsLegacy g de ps)

/-- an OPTIONAL MATCH that shares no variable with the rows so far is planned as a plain
cartesian product: no row survives when the pattern has no match -/
def evalMatchOptionalLegacy (g : Graph) (de : Bool) (pats : List PathPat) (row : Row) : List Row :=
  matchClause g de pats row

/-- `WITH <aggregates only>` over no input rows: the engine emits no row at all -/
def withAggRowsLegacy (g : Graph) (p : Proj) (rows : List Row) : Except Err (List (List Val × Row)) :=
  if rows.isEmpty then .ok [] else projectRows g p rows

def okLength {α : Type} : Except Err (List α) → Option Nat
  | .ok l => some l.length
  | .error _ => none

/-! ### Distinct -/

def distinctOp (rows : List (List Val)) : List (List Val) :=
  rows.foldl (fun acc r => if acc.contains r then acc else acc ++ [r]) []

end SgModel.Cy
