/-
Model of the unique-constraint bookkeeping of samyama-graph (property C11):
`src/index/manager.rs` (`unique_constraints`: one `PropertyIndex` = value → set of node ids
per (label, key); `unique_constraint_holder`, `constraint_insert`, `constraint_remove`),
the store functions that maintain it (`src/graph/store.rs`: `set_node_property`,
`remove_node_property`, `delete_node`, `add_label_to_node`, `remove_label_from_node`) and
the Cypher operators that drive them (`CreateNodeOperator`, `SetPropertyOperator`,
`RemovePropertyOperator`, `DeleteOperator`, `LabelMutationOperator`,
`CreateConstraintOperator` in `src/query/executor/operator.rs`).

Import-free (the driver links against it).  `step` models the code after the `fix:`
commits; `stepLegacy` models the pinned tree (the constraint index never forgets, SET n:L
neither checks nor records, the backfill reads the row map only).

Representation choices that follow the code:
* a constraint index is a *set* of (value, node id) pairs (BTreeMap<PropertyValue,
  HashSet<NodeId>>) — modelled as a duplicate-free list;
* value equality is the key equality of that B-tree: `Integer 1` and `Float 1.0` are
  different keys (`Ord for PropertyValue` never returns `Equal` across the two variants and
  `PartialEq` is derived) — `Val` has distinct constructors and derived equality;
* `null` is never checked, never recorded (`!val.is_null()` guard): a property set to null
  reads like an absent one, so the model stores `Option Val` writes as erase;
* node ids: the model uses the creation ordinal (the harness names nodes by a handle
  property).  The real store recycles ids of deleted nodes; after the repair no index entry
  survives its node, so recycling is unobservable (it *was* observable on the pinned tree).
-/
namespace SgModel.Uniq

inductive Val where
  | int (i : Int)      -- PropertyValue::Integer
  | flt (i : Int)      -- PropertyValue::Float with the integral value i (1.0, 2.0 …)
  | str (n : Nat)      -- PropertyValue::String, named by a tag
deriving DecidableEq, Repr

abbrev Props := List (Nat × Val)

def pget : Props → Nat → Option Val
  | [], _ => none
  | (k, v) :: rest, key => if k = key then some v else pget rest key

def perase : Props → Nat → Props
  | [], _ => []
  | (k, v) :: rest, key => if k = key then perase rest key else (k, v) :: perase rest key

/-- write `key := v`; `none` (null) leaves the key absent -/
def pput (p : Props) (key : Nat) (v : Option Val) : Props :=
  match v with
  | none => perase p key
  | some x => (key, x) :: perase p key

structure Node where
  id : Nat
  labels : List Nat
  props : Props
  /-- loaded through the bulk path (`create_node_stub` + `set_column_property`): the values
  live in the column store only.  Consulted by the *legacy* backfill alone. -/
  stub : Bool := false
deriving DecidableEq, Repr

abbrev Index := List (Val × Nat)

structure Cons where
  label : Nat
  key : Nat
  idx : Index
deriving DecidableEq, Repr

structure State where
  nodes : List Node := []
  next : Nat := 0
  cons : List Cons := []
deriving DecidableEq, Repr

/-! ### the constraint index (`IndexManager`) -/

/-- `unique_constraint_holder`: a node currently recorded for `v` -/
def holder : Index → Val → Option Nat
  | [], _ => none
  | (x, n) :: rest, v => if x = v then some n else holder rest v

/-- `constraint_insert` (set semantics) -/
def ins (idx : Index) (v : Option Val) (n : Nat) : Index :=
  match v with
  | none => idx
  | some x => if (x, n) ∈ idx then idx else idx ++ [(x, n)]

/-- `constraint_remove` -/
def rem (idx : Index) (v : Option Val) (n : Nat) : Index :=
  match v with
  | none => idx
  | some x => idx.filter (fun e => e ≠ (x, n))

def findNode : List Node → Nat → Option Node
  | [], _ => none
  | x :: rest, n => if x.id = n then some x else findNode rest n

def mapNode (f : Node → Node) : List Node → Nat → List Node
  | [], _ => []
  | x :: rest, n => if x.id = n then f x :: rest else x :: mapNode f rest n

def dropNode : List Node → Nat → List Node
  | [], _ => []
  | x :: rest, n => if x.id = n then rest else x :: dropNode rest n

/-- does the constraint `c` watch writes of `key` on `node`? -/
def watches (c : Cons) (node : Node) (key : Nat) : Bool :=
  c.key = key && node.labels.contains c.label

/-- the write is refused by `c`: another node is recorded for the value -/
def blocked (c : Cons) (v : Option Val) (n : Nat) : Bool :=
  match v with
  | none => false
  | some x => match holder c.idx x with
    | some h => h ≠ n
    | none => false

def addLbl (ls : List Nat) (l : Nat) : List Nat := if ls.contains l then ls else ls ++ [l]

/-! ### store functions (after the repair) -/

/-- the unchecked part of `set_node_property` / `remove_node_property`: write the value,
release the old value from every watching constraint, record the new one -/
def writeProp (s : State) (node : Node) (key : Nat) (v : Option Val) : State :=
  { s with
    nodes := mapNode (fun x => { x with props := pput x.props key v }) s.nodes node.id
    cons := s.cons.map (fun c =>
      if watches c node key then { c with idx := ins (rem c.idx (pget node.props key) node.id) v node.id }
      else c) }

/-- `GraphStore::set_node_property`; `none` = rejected with `ConstraintViolation` -/
def setProp (s : State) (n : Nat) (key : Nat) (v : Option Val) : Option State :=
  match findNode s.nodes n with
  | none => some s
  | some node =>
    if s.cons.any (fun c => watches c node key && blocked c v n) then none
    else some (writeProp s node key v)

/-- `GraphStore::remove_node_property` -/
def removeProp (s : State) (n : Nat) (key : Nat) : State :=
  match findNode s.nodes n with
  | none => s
  | some node => writeProp s node key none

/-- `GraphStore::delete_node`: every (label, key, value) of the node is released -/
def deleteNode (s : State) (n : Nat) : State :=
  match findNode s.nodes n with
  | none => s
  | some node =>
    { s with
      nodes := dropNode s.nodes n
      cons := s.cons.map (fun c =>
        if node.labels.contains c.label then { c with idx := rem c.idx (pget node.props c.key) n }
        else c) }

/-- `GraphStore::add_label_to_node`: checked against, and recorded in, the constraints of
the new label -/
def addLabel (s : State) (n : Nat) (l : Nat) : Option State :=
  match findNode s.nodes n with
  | none => some s
  | some node =>
    if s.cons.any (fun c => c.label = l && blocked c (pget node.props c.key) n) then none
    else some
      { s with
        nodes := mapNode (fun x => { x with labels := addLbl x.labels l }) s.nodes n
        cons := s.cons.map (fun c =>
          if c.label = l then { c with idx := ins c.idx (pget node.props c.key) n } else c) }

/-- `GraphStore::remove_label_from_node` -/
def removeLabel (s : State) (n : Nat) (l : Nat) : State :=
  match findNode s.nodes n with
  | none => s
  | some node =>
    if node.labels.contains l then
      { s with
        nodes := mapNode (fun x => { x with labels := x.labels.filter (· ≠ l) }) s.nodes n
        cons := s.cons.map (fun c =>
          if c.label = l then { c with idx := rem c.idx (pget node.props c.key) n } else c) }
    else s

def dedup : List Nat → List Nat
  | [] => []
  | x :: rest => if rest.contains x then dedup rest else x :: dedup rest

/-- `create_node_with_labels` -/
def createNode (s : State) (labels : List Nat) : State :=
  { s with nodes := s.nodes ++ [{ id := s.next, labels := dedup labels, props := [] }], next := s.next + 1 }

/-- values of `key` held by nodes carrying `l` (merged property view) -/
def holdersOf (nodes : List Node) (l key : Nat) : List (Val × Nat) :=
  nodes.filterMap (fun x =>
    if x.labels.contains l then (pget x.props key).map (fun v => (v, x.id)) else none)

def hasDupVal : List (Val × Nat) → Bool
  | [] => false
  | (v, _) :: rest => rest.any (fun e => e.1 = v) || hasDupVal rest

/-- `CreateConstraintOperator`: refuse when the existing data violates the constraint,
register it (idempotent), backfill the index from the merged property view -/
def createConstraint (s : State) (l key : Nat) : Option State :=
  let hs := holdersOf s.nodes l key
  if hasDupVal hs then none
  else
    let cons0 := if s.cons.any (fun c => c.label = l && c.key = key) then s.cons
                 else s.cons ++ [{ label := l, key := key, idx := [] }]
    some { s with cons := cons0.map (fun c =>
      if c.label = l && c.key = key then { c with idx := hs.foldl (fun i e => ins i (some e.1) e.2) c.idx }
      else c) }

/-! ### Cypher statements -/

inductive Op where
  | mkCons (l key : Nat)                                -- CREATE CONSTRAINT … REQUIRE n.key IS UNIQUE
  | create (labels : List Nat) (props : List (Nat × Option Val))  -- CREATE (:labels {props}); handle = ordinal
  | set (h key : Nat) (v : Option Val)                  -- MATCH (n {h}) SET n.key = v
  | remove (h key : Nat)                                -- MATCH (n {h}) REMOVE n.key
  | delete (h : Nat)                                    -- MATCH (n {h}) DELETE n
  | addLabel (h l : Nat)                                -- MATCH (n {h}) SET n:l
  | removeLabel (h l : Nat)                             -- MATCH (n {h}) REMOVE n:l
  | noop (tag : Nat)                                    -- a statement that must not concern constraints:
                                                        -- DROP INDEX / CREATE INDEX on a (constrained) pair
deriving DecidableEq, Repr

/-- the property loop of `CreateNodeOperator`: stop at the first refused property -/
def setAll (s : State) (n : Nat) : List (Nat × Option Val) → Option State
  | [] => some s
  | (k, v) :: rest => match setProp s n k v with
    | none => none
    | some s' => setAll s' n rest

/-- like `setAll` but returns the state reached when a property is refused (the node is
deleted from *that* state) -/
def setAllPartial (s : State) (n : Nat) : List (Nat × Option Val) → State × Bool
  | [] => (s, true)
  | (k, v) :: rest => match setProp s n k v with
    | none => (s, false)
    | some s' => setAllPartial s' n rest

/-- one statement: new state and whether it was accepted -/
def step (s : State) : Op → State × Bool
  | .mkCons l key => match createConstraint s l key with
    | some s' => (s', true)
    | none => (s, false)
  | .create labels props =>
    let s1 := createNode s labels
    match setAllPartial s1 s.next props with
    | (s2, true) => (s2, true)
    | (s2, false) => (deleteNode s2 s.next, false)
  | .set h key v => match setProp s h key v with
    | some s' => (s', true)
    | none => (s, false)
  | .remove h key => (removeProp s h key, true)
  | .delete h => (deleteNode s h, true)
  | .addLabel h l => match addLabel s h l with
    | some s' => (s', true)
    | none => (s, false)
  | .removeLabel h l => (removeLabel s h l, true)
  | .noop _ => (s, true)

/-- initial population: data that exists before any constraint, however it was loaded -/
structure Seed where
  labels : List Nat
  props : List (Nat × Option Val)
  stub : Bool := false
deriving DecidableEq, Repr

def seedNode (id : Nat) (sd : Seed) : Node :=
  { id := id, labels := dedup sd.labels,
    props := sd.props.foldl (fun p kv => pput p kv.1 kv.2) [], stub := sd.stub }

def seedNodes : Nat → List Seed → List Node
  | _, [] => []
  | i, sd :: rest => seedNode i sd :: seedNodes (i + 1) rest

def init (pop : List Seed) : State :=
  { nodes := seedNodes 0 pop, next := pop.length, cons := [] }

def runFrom (s : State) (ops : List Op) : State := ops.foldl (fun s op => (step s op).1) s

def run (pop : List Seed) (ops : List Op) : State := runFrom (init pop) ops

/-! ### the pinned tree -/

/-- `set_node_property` before the repair: the holder check is the same, the new value is
recorded, nothing is ever released -/
def writePropLegacy (s : State) (node : Node) (key : Nat) (v : Option Val) : State :=
  { s with
    nodes := mapNode (fun x => { x with props := pput x.props key v, stub := x.stub }) s.nodes node.id
    cons := s.cons.map (fun c =>
      if watches c node key then { c with idx := ins c.idx v node.id } else c) }

def setPropLegacy (s : State) (n : Nat) (key : Nat) (v : Option Val) : Option State :=
  match findNode s.nodes n with
  | none => some s
  | some node =>
    if s.cons.any (fun c => watches c node key && blocked c v n) then none
    else some (writePropLegacy s node key v)

def rawWrite (s : State) (n key : Nat) (v : Option Val) : State :=
  { s with nodes := mapNode (fun x => { x with props := pput x.props key v }) s.nodes n }

def setAllPartialLegacy (s : State) (n : Nat) : List (Nat × Option Val) → State × Bool
  | [] => (s, true)
  | (k, v) :: rest => match setPropLegacy s n k v with
    | none => (s, false)
    | some s' => setAllPartialLegacy s' n rest

/-- backfill from the row map: bulk-loaded (`stub`) nodes are invisible, both to the
duplicate check and to the backfill -/
def createConstraintLegacy (s : State) (l key : Nat) : Option State :=
  let hs := holdersOf (s.nodes.filter (fun x => !x.stub)) l key
  if hasDupVal hs then none
  else
    let cons0 := if s.cons.any (fun c => c.label = l && c.key = key) then s.cons
                 else s.cons ++ [{ label := l, key := key, idx := [] }]
    some { s with cons := cons0.map (fun c =>
      if c.label = l && c.key = key then { c with idx := hs.foldl (fun i e => ins i (some e.1) e.2) c.idx }
      else c) }

def stepLegacy (s : State) : Op → State × Bool
  | .mkCons l key => match createConstraintLegacy s l key with
    | some s' => (s', true)
    | none => (s, false)
  | .create labels props =>
    let s1 := createNode s labels
    match setAllPartialLegacy s1 s.next props with
    | (s2, true) => (s2, true)
    | (s2, false) => ({ s2 with nodes := dropNode s2.nodes s.next }, false)
  | .set h key v => match setPropLegacy s h key v with
    | some s' => (s', true)
    | none => (s, false)
  | .remove h key => (rawWrite s h key none, true)
  | .delete h => ({ s with nodes := dropNode s.nodes h }, true)
  | .addLabel h l =>
    ({ s with nodes := mapNode (fun x => { x with labels := addLbl x.labels l }) s.nodes h }, true)
  | .removeLabel h l =>
    ({ s with nodes := mapNode (fun x => { x with labels := x.labels.filter (· ≠ l) }) s.nodes h }, true)
  | .noop _ => (s, true)

def runLegacy (pop : List Seed) (ops : List Op) : State :=
  ops.foldl (fun s op => (stepLegacy s op).1) (init pop)

/-- accepted/refused flags of a history -/
def verdicts (stepf : State → Op → State × Bool) (s : State) : List Op → List Bool
  | [] => []
  | op :: rest => (stepf s op).2 :: verdicts stepf (stepf s op).1 rest

/-! ### Specification `S`: a reference over the live values only (no index)

The specification state is what the public API shows: the live nodes (handle, labels,
properties) and the declared constraints.  A statement is refused exactly when applying it
would leave two live nodes with a constrained label holding equal values. -/

structure SNode where
  id : Nat
  labels : List Nat
  props : Props
deriving DecidableEq, Repr

structure Obs where
  nodes : List SNode            -- MATCH (n) RETURN n.h, labels(n), n.k, n.j — by handle
  cons : List (Nat × Nat)       -- SHOW CONSTRAINTS
  next : Nat                    -- number of CREATE statements issued so far (+ seeds)
deriving DecidableEq, Repr

def obs (s : State) : Obs :=
  { nodes := s.nodes.map (fun x => { id := x.id, labels := x.labels, props := x.props }),
    cons := s.cons.map (fun c => (c.label, c.key)), next := s.next }

def sHolders (nodes : List SNode) (l key : Nat) : List (Val × Nat) :=
  nodes.filterMap (fun x =>
    if x.labels.contains l then (pget x.props key).map (fun v => (v, x.id)) else none)

/-- two live nodes carrying `l` hold equal values at `key` -/
def sViolates (nodes : List SNode) (c : Nat × Nat) : Bool := hasDupVal (sHolders nodes c.1 c.2)

def sValid (o : Obs) : Bool := o.cons.all (fun c => !sViolates o.nodes c)

def sFind : List SNode → Nat → Option SNode
  | [], _ => none
  | x :: rest, n => if x.id = n then some x else sFind rest n

def sMap (f : SNode → SNode) : List SNode → Nat → List SNode
  | [], _ => []
  | x :: rest, n => if x.id = n then f x :: rest else x :: sMap f rest n

def sDrop : List SNode → Nat → List SNode
  | [], _ => []
  | x :: rest, n => if x.id = n then rest else x :: sDrop rest n

/-- the statement applied unconditionally -/
def sApply (o : Obs) : Op → Obs
  | .mkCons l key => { o with cons := if o.cons.contains (l, key) then o.cons else o.cons ++ [(l, key)] }
  | .create labels props =>
    { o with
      nodes := o.nodes ++ [{ id := o.next, labels := dedup labels,
                             props := props.foldl (fun p kv => pput p kv.1 kv.2) [] }]
      next := o.next + 1 }
  | .set h key v => { o with nodes := sMap (fun x => { x with props := pput x.props key v }) o.nodes h }
  | .remove h key => { o with nodes := sMap (fun x => { x with props := pput x.props key none }) o.nodes h }
  | .delete h => { o with nodes := sDrop o.nodes h }
  | .addLabel h l =>
    { o with nodes := sMap (fun x => { x with labels := addLbl x.labels l }) o.nodes h }
  | .removeLabel h l => { o with nodes := sMap (fun x => { x with labels := x.labels.filter (· ≠ l) }) o.nodes h }
  | .noop _ => o

/-- what remains of a refused statement: nothing, except that a refused CREATE has used up
its handle -/
def sRefused (o : Obs) : Op → Obs
  | .create _ _ => { o with next := o.next + 1 }
  | _ => o

/-- the reference semantics: apply, and refuse iff the result has a duplicate -/
def sStep (o : Obs) (op : Op) : Obs × Bool :=
  let o' := sApply o op
  if sValid o' then (o', true) else (sRefused o op, false)

/-- `S` as a predicate on (observation before, statement, observation after, verdict) -/
def specStep (pre : Obs) (op : Op) (post : Obs) (ok : Bool) : Bool :=
  sStep pre op == (post, ok)

/-! ### canonical form of an observation

The implementation reports labels, properties and constraints in hash order; the harness
and the driver compare observations after sorting.  `specStepC` is `specStep` up to that
canonical form — the predicate the driver evaluates on the implementation's outputs. -/

def insNat (x : Nat) : List Nat → List Nat
  | [] => [x]
  | y :: rest => if x < y then x :: y :: rest else if x = y then y :: rest else y :: insNat x rest

def sortNat (l : List Nat) : List Nat := l.foldr insNat []

def insProp (e : Nat × Val) : Props → Props
  | [] => [e]
  | y :: rest => if e.1 < y.1 then e :: y :: rest else if e.1 = y.1 then e :: rest else y :: insProp e rest

def sortProps (p : Props) : Props := p.foldr insProp []

def lkLt (a b : Nat × Nat) : Bool := a.1 < b.1 || (a.1 = b.1 && a.2 < b.2)

def insLk (e : Nat × Nat) : List (Nat × Nat) → List (Nat × Nat)
  | [] => [e]
  | y :: rest => if lkLt e y then e :: y :: rest else if e = y then y :: rest else y :: insLk e rest

def insSNode (e : SNode) : List SNode → List SNode
  | [] => [e]
  | y :: rest => if e.id ≤ y.id then e :: y :: rest else y :: insSNode e rest

def canonNode (x : SNode) : SNode :=
  { id := x.id, labels := sortNat x.labels, props := sortProps x.props }

def canonObs (o : Obs) : Obs :=
  { nodes := (o.nodes.map canonNode).foldr insSNode [], cons := o.cons.foldr insLk [], next := o.next }

def specStepC (pre : Obs) (op : Op) (post : Obs) (ok : Bool) : Bool :=
  canonObs (sStep pre op).1 == canonObs post && (sStep pre op).2 == ok

end SgModel.Uniq
