/-
Model of `src/persistence/storage.rs` (PersistentStorage): the tenant-prefixed key format,
the two RocksDB column families as **ordered byte-key maps** (a list of (key, value) pairs
strictly ascending in the bytewise order RocksDB uses), point reads, prefix scans and
tenant listing, plus the tenant-id validation of `TenantManager::create_tenant`, for C17.
Import-free (the driver links against it).

Bytes are `Nat`s (values < 256 at the driver boundary; the order and prefix arguments do
not need the bound).  `step` / `scan` model the code after the `fix:` commits (names that
are empty or contain ':' are rejected where keys are built; a scan stops at the first key
that does not carry the prefix); `stepLegacy` / `scanLegacy` model the pinned tree (no
validation; `prefix_iterator_cf` without a prefix extractor = seek and run to the end).
-/
namespace SgModel.TenantKV

abbrev Bytes := List Nat

def colon : Nat := 58
def chN : Nat := 110      -- 'n'
def chE : Nat := 101      -- 'e'

/-- lowercase hex digit of a value < 16 -/
def hexDigit (n : Nat) : Nat := if n < 10 then 48 + n else 87 + n

/-- `width` hex digits of `x`, most significant first (`{:016x}` for width 16) -/
def hexN : Nat → Nat → Bytes
  | 0, _ => []
  | w + 1, x => hexN w (x / 16) ++ [hexDigit (x % 16)]

def hex16 (id : Nat) : Bytes := hexN 16 id

/-- `format!("{}:n:{:016x}", tenant, id)` / `"{}:e:{:016x}"` -/
def mkKey (kind : Nat) (t : Bytes) (id : Nat) : Bytes := t ++ colon :: kind :: colon :: hex16 id
def nodeKey (t : Bytes) (id : Nat) : Bytes := mkKey chN t id
def edgeKey (t : Bytes) (id : Nat) : Bytes := mkKey chE t id

/-- the scan prefix `format!("{}:", tenant)` -/
def scanPrefix (t : Bytes) : Bytes := t ++ [colon]

/-- tenant names the repaired code accepts: non-empty and without the separator -/
def accepts (t : Bytes) : Bool := !t.isEmpty && !t.contains colon

/-! ### the ordered map (one RocksDB column family) -/

/-- bytewise lexicographic order (RocksDB's default comparator) -/
def bytesLt : Bytes → Bytes → Bool
  | [], [] => false
  | [], _ :: _ => true
  | _ :: _, [] => false
  | a :: as, b :: bs => decide (a < b) || (a == b && bytesLt as bs)

def hasPrefix : Bytes → Bytes → Bool
  | [], _ => true
  | _ :: _, [] => false
  | a :: p, b :: k => a == b && hasPrefix p k

/-- a stored entity: its id (as serialised in the value) and an opaque content tag -/
structure Val where
  id : Nat
  tag : Nat
deriving DecidableEq, Repr

abbrev KV := List (Bytes × Val)

def kvPut : KV → Bytes → Val → KV
  | [], k, v => [(k, v)]
  | (k', v') :: rest, k, v =>
      if bytesLt k k' then (k, v) :: (k', v') :: rest
      else if k == k' then (k, v) :: rest
      else (k', v') :: kvPut rest k v

def kvDel (m : KV) (k : Bytes) : KV := m.filter (fun e => !(e.1 == k))

def kvGet (m : KV) (k : Bytes) : Option Val := (m.find? (fun e => e.1 == k)).map (·.2)

/-- iterator positioned by `seek(p)`: everything at or after `p`, in key order -/
def seek (m : KV) (p : Bytes) : KV := m.dropWhile (fun e => bytesLt e.1 p)

/-- repaired scan: from `seek(prefix)` while the key still carries the prefix -/
def scanKV (m : KV) (p : Bytes) : List Val := ((seek m p).takeWhile (fun e => hasPrefix p e.1)).map (·.2)

/-- pinned tree: from `seek(prefix)` to the end of the column family -/
def scanKVLegacy (m : KV) (p : Bytes) : List Val := (seek m p).map (·.2)

/-! ### PersistentStorage -/

structure State where
  nodes : KV := []
  edges : KV := []
deriving Repr

inductive Op where
  | putNode (t : Bytes) (id tag : Nat)
  | delNode (t : Bytes) (id : Nat)
  | putEdge (t : Bytes) (id tag : Nat)
  | delEdge (t : Bytes) (id : Nat)
deriving DecidableEq, Repr

def Op.tenant : Op → Bytes
  | .putNode t _ _ => t | .delNode t _ => t | .putEdge t _ _ => t | .delEdge t _ => t

/-- one write; the Bool is `Ok`/`Err` (an unaccepted tenant name is rejected, nothing changes) -/
def stepWith (ok : Bytes → Bool) (s : State) (op : Op) : State × Bool :=
  if ok op.tenant then
    (match op with
     | .putNode t id tag => { s with nodes := kvPut s.nodes (nodeKey t id) ⟨id, tag⟩ }
     | .delNode t id => { s with nodes := kvDel s.nodes (nodeKey t id) }
     | .putEdge t id tag => { s with edges := kvPut s.edges (edgeKey t id) ⟨id, tag⟩ }
     | .delEdge t id => { s with edges := kvDel s.edges (edgeKey t id) }, true)
  else (s, false)

def step (s : State) (op : Op) : State := (stepWith accepts s op).1
def stepLegacy (s : State) (op : Op) : State := (stepWith (fun _ => true) s op).1

def run (ops : List Op) : State := ops.foldl step {}
def runLegacy (ops : List Op) : State := ops.foldl stepLegacy {}

/-- reads; `none` = the call returned an error (unaccepted tenant name) -/
def getNode (s : State) (t : Bytes) (id : Nat) : Option (Option Val) :=
  if accepts t then some (kvGet s.nodes (nodeKey t id)) else none
def getEdge (s : State) (t : Bytes) (id : Nat) : Option (Option Val) :=
  if accepts t then some (kvGet s.edges (edgeKey t id)) else none
def scanNodes (s : State) (t : Bytes) : Option (List Val) :=
  if accepts t then some (scanKV s.nodes (scanPrefix t)) else none
def scanEdges (s : State) (t : Bytes) : Option (List Val) :=
  if accepts t then some (scanKV s.edges (scanPrefix t)) else none

def scanNodesLegacy (s : State) (t : Bytes) : Option (List Val) := some (scanKVLegacy s.nodes (scanPrefix t))
def scanEdgesLegacy (s : State) (t : Bytes) : Option (List Val) := some (scanKVLegacy s.edges (scanPrefix t))
def getNodeLegacy (s : State) (t : Bytes) (id : Nat) : Option (Option Val) := some (kvGet s.nodes (nodeKey t id))
def getEdgeLegacy (s : State) (t : Bytes) (id : Nat) : Option (Option Val) := some (kvGet s.edges (edgeKey t id))

/-- the part of a key before its first ':' (`key_str.split(':').next()`) -/
def tenantOfKey (k : Bytes) : Bytes := k.takeWhile (fun b => !(b == colon))

def dedupB : List Bytes → List Bytes
  | [] => []
  | x :: xs => if xs.contains x then dedupB xs else x :: dedupB xs

/-- `list_persisted_tenants` (a HashSet; the harness sorts) -/
def listTenants (s : State) : List Bytes := dedupB (s.nodes.map (fun e => tenantOfKey e.1))

/-! ### TenantManager::create_tenant (id validation only) -/

def defaultTenant : Bytes := [100, 101, 102, 97, 117, 108, 116]   -- "default"

/-- result of creating `t` in a manager that already holds `existing` -/
def createTenant (validate : Bytes → Bool) (existing : List Bytes) (t : Bytes) : Bool :=
  validate t && !existing.contains t

/-! ### Reference map and the executable specification `S` -/

/-- (kind, tenant, id) ↦ tag, for the writes the implementation acknowledged -/
abbrev Ref := List ((Nat × Bytes × Nat) × Nat)

def Ref.get (m : Ref) (kind : Nat) (t : Bytes) (id : Nat) : Option Nat :=
  (m.find? (fun e => e.1 == (kind, t, id))).map (·.2)

def Ref.erase (m : Ref) (kind : Nat) (t : Bytes) (id : Nat) : Ref :=
  m.filter (fun e => !(e.1 == (kind, t, id)))

/-- the reference map follows an operation only if the implementation said `Ok` -/
def Ref.step (m : Ref) (op : Op) (ok : Bool) : Ref :=
  if ok then
    match op with
    | .putNode t id tag => ((chN, t, id), tag) :: m.erase chN t id
    | .delNode t id => m.erase chN t id
    | .putEdge t id tag => ((chE, t, id), tag) :: m.erase chE t id
    | .delEdge t id => m.erase chE t id
  else m

/-- entities the reference map holds for one tenant and kind -/
def Ref.ofTenant (m : Ref) (kind : Nat) (t : Bytes) : List Val :=
  (m.filter (fun e => e.1.1 == kind && e.1.2.1 == t)).map (fun e => ⟨e.1.2.2, e.2⟩)

def nodupIds : List Val → Bool
  | [] => true
  | v :: vs => vs.all (fun w => w.id != v.id) && nodupIds vs

/-- a scan result is exactly the tenant's entities (as a set; order is not part of C17) -/
def scanOk (m : Ref) (kind : Nat) (t : Bytes) : Option (List Val) → Bool
  | none => true                       -- the call was rejected: nothing was returned
  | some vs =>
      vs.all (fun v => m.get kind t v.id == some v.tag)
      && (m.ofTenant kind t).all (fun v => vs.contains v)
      && nodupIds vs

def getOk (m : Ref) (kind : Nat) (t : Bytes) (id : Nat) : Option (Option Val) → Bool
  | none => true
  | some none => (m.get kind t id).isNone
  | some (some v) => v.id == id && m.get kind t id == some v.tag

/-- tenant listing: exactly the tenants that hold at least one node -/
def listOk (m : Ref) (ts : List Bytes) : Bool :=
  ts.all (fun t => m.any (fun e => e.1.1 == chN && e.1.2.1 == t))
  && m.all (fun e => !(e.1.1 == chN) || ts.contains e.1.2.1)

structure Obs where
  ok : Bool                                          -- the write returned Ok
  scansN : List (Option (List Val))                   -- scan_nodes per probed tenant
  scansE : List (Option (List Val))                   -- scan_edges per probed tenant
  getsN : List (Option (Option Val))                  -- get_node per probed (tenant, id)
  getsE : List (Option (Option Val))
  tenants : List Bytes                               -- list_persisted_tenants
deriving DecidableEq, Repr

structure Probes where
  tenants : List Bytes
  ids : List Nat

def cells (p : Probes) : List (Bytes × Nat) := p.tenants.flatMap (fun t => p.ids.map (fun i => (t, i)))

def zipAll {β γ : Type} (f : β → γ → Bool) : List β → List γ → Bool
  | [], [] => true
  | x :: xs, y :: ys => f x y && zipAll f xs ys
  | _, _ => false

def obsWith (scanN scanE : State → Bytes → Option (List Val))
    (getN getE : State → Bytes → Nat → Option (Option Val)) (s : State) (p : Probes) (ok : Bool) : Obs :=
  { ok := ok,
    scansN := p.tenants.map (scanN s), scansE := p.tenants.map (scanE s),
    getsN := (cells p).map (fun c => getN s c.1 c.2), getsE := (cells p).map (fun c => getE s c.1 c.2),
    tenants := listTenants s }

def obs (s : State) (p : Probes) (ok : Bool) : Obs := obsWith scanNodes scanEdges getNode getEdge s p ok
def obsLegacy (s : State) (p : Probes) (ok : Bool) : Obs :=
  obsWith scanNodesLegacy scanEdgesLegacy getNodeLegacy getEdgeLegacy s p ok

/-- S on one observation, against the reference map of the acknowledged writes so far -/
def specObs (m : Ref) (p : Probes) (o : Obs) : Bool :=
  zipAll (fun t r => scanOk m chN t r) p.tenants o.scansN
  && zipAll (fun t r => scanOk m chE t r) p.tenants o.scansE
  && zipAll (fun c r => getOk m chN c.1 c.2 r) (cells p) o.getsN
  && zipAll (fun c r => getOk m chE c.1 c.2 r) (cells p) o.getsE
  && listOk m o.tenants

end SgModel.TenantKV
