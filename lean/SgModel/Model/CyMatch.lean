import SgModel.Model.CyExpr
/-!
# Cy — pattern matching by brute force (layer 4 of 5)

A match of a path pattern `(n0)-[r1]-(n1)…-[rk]-(nk)` is an assignment of graph nodes to
the node positions and graph relationships to the relationship positions such that every
position satisfies its pattern (labels ⊆, type ∈, direction, inline properties `=`-equal)
and **no relationship is used twice within one MATCH clause** (relationship
isomorphism; nodes may repeat).  `matchPath` enumerates them by walking the pattern from
its first node; `matchPathFrom` does the same from any anchor position and
`SgModel/Props/C01.lean` proves the two agree as bags.

A state is `(row, used)`: the bindings so far and the relationship ids consumed by the
current clause.
-/
namespace SgModel.Cy

inductive Dir where | out | inn | both
deriving DecidableEq, Repr, Inhabited

structure NodePat where
  var : Option Name
  labels : List Name
  props : List (Name × Val)
deriving DecidableEq, Repr, Inhabited

structure RelPat where
  var : Option Name
  types : List Name
  dir : Dir
  props : List (Name × Val)
  /-- `*min..max` (`max = none`: unbounded) -/
  range : Option (Nat × Option Nat)
deriving DecidableEq, Repr, Inhabited

structure PathPat where
  start : NodePat
  steps : List (RelPat × NodePat)
deriving DecidableEq, Repr, Inhabited

structure MState where
  row : Row
  used : List Nat
deriving DecidableEq, Repr, Inhabited

/-- inline property map `{k: v, …}`: every entry must be `=`-true -/
def propsOk (have_ : List (Name × Val)) (want : List (Name × Val)) : Bool :=
  want.all fun (k, v) => Val.eq3 (lookupProp have_ k) v == some true

/-- bind `x` to `v`, or check it against the existing binding (same entity) -/
def bindVar (row : Row) (x : Option Name) (v : Val) : Option Row :=
  match x with
  | none => some row
  | some x =>
    match row.get? x with
    | none => some ((x, v) :: row)
    | some old => if old == v then some row else none

def nodeOk (np : NodePat) (n : Node) : Bool := n.hasLabels np.labels && propsOk n.props np.props

def matchNode (np : NodePat) (row : Row) (n : Node) : Option Row :=
  if nodeOk np n then bindVar row np.var (.node n.id) else none

/-- the far end of `r` seen from node `cur` under direction `d` (a self-loop under `both`
is one match, not two) -/
def relTarget (d : Dir) (cur : Nat) (r : Rel) : Option Nat :=
  match d with
  | .out => if r.src == cur then some r.tgt else none
  | .inn => if r.tgt == cur then some r.src else none
  | .both => if r.src == cur then some r.tgt else if r.tgt == cur then some r.src else none

def relOk (rp : RelPat) (r : Rel) : Bool :=
  (rp.types.isEmpty || rp.types.contains r.type) && propsOk r.props rp.props

/-- one fixed-length hop from node `cur` -/
def stepFrom (g : Graph) (rp : RelPat) (np : NodePat) (s : MState) (cur : Nat) :
    List (MState × Nat) :=
  g.rels.filterMap fun r =>
    if s.used.contains r.id || !relOk rp r then none else
    match relTarget rp.dir cur r with
    | none => none
    | some t =>
      match g.node? t with
      | none => none
      | some n =>
        match bindVar s.row rp.var (.rel r.id) with
        | none => none
        | some row1 =>
          match matchNode np row1 n with
          | none => none
          | some row2 => some (⟨row2, r.id :: s.used⟩, t)

/-! ### variable length (grammar v3)

openCypher (`varLenEnds`): one result per *path* (sequence of distinct relationships, also
distinct from the ones the clause already used) of admissible length.
The engine (`varLenBfsEnds`): a breadth-first search over nodes — one result per reachable
node, at its BFS depth.  `stepVarDedup` is the semantics in between ("one row per distinct
end node of the openCypher paths"). -/

/-- all walks of exactly `len` further hops from `cur`, never reusing a relationship;
returns (end node, relationships used in walk order reversed) -/
def walks (g : Graph) (rp : RelPat) : Nat → Nat → List Nat → List (Nat × List Nat)
  | 0, cur, used => [(cur, used)]
  | len + 1, cur, used =>
    g.rels.flatMap fun r =>
      if used.contains r.id || !relOk rp r then [] else
      match relTarget rp.dir cur r with
      | none => []
      | some t => walks g rp len t (r.id :: used)

/-- lengths `lo..hi` (`hi` capped by the number of relationships: longer walks cannot exist) -/
def varLenEnds (g : Graph) (rp : RelPat) (lo : Nat) (hi : Option Nat) (cur : Nat)
    (used : List Nat) : List (Nat × List Nat) :=
  let top := match hi with
    | some h => min h g.rels.length
    | none => g.rels.length
  (List.range (top + 1)).flatMap fun len =>
    if len < lo then [] else walks g rp len cur used

def dedupNat : List Nat → List Nat
  | [] => []
  | x :: xs => x :: (dedupNat xs).filter (· != x)

/-- nodes one matching relationship away from `cur` -/
def neighbours (g : Graph) (rp : RelPat) (cur : Nat) : List Nat :=
  g.rels.filterMap fun r => if relOk rp r then relTarget rp.dir cur r else none

/-- the engine's `VarLengthExpandOperator`: breadth-first over **nodes** with a visited set;
every node is reported once, with its BFS depth -/
def bfsLevels (g : Graph) (rp : RelPat) : Nat → List Nat → List Nat → Nat → List (Nat × Nat)
  | 0, _, _, _ => []
  | fuel + 1, frontier, visited, d =>
    let next := (dedupNat (frontier.flatMap (neighbours g rp))).filter (fun n => !visited.contains n)
    if next.isEmpty then [] else
      next.map (fun n => (n, d + 1)) ++ bfsLevels g rp fuel next (visited ++ next) (d + 1)

/-- end nodes the engine reports for `*lo..hi` from `cur`: BFS depth within the bounds
(depth 0 = the start node itself) -/
def varLenBfsEnds (g : Graph) (rp : RelPat) (lo : Nat) (hi : Option Nat) (cur : Nat) : List Nat :=
  let all := (cur, 0) :: bfsLevels g rp (g.nodes.length + 1) [cur] [cur] 0
  (all.filter fun (_, d) => decide (lo ≤ d) && (match hi with | some h => decide (d ≤ h) | none => true)).map (·.1)

/-- a variable-length step; `engine = true` selects the engine's BFS semantics (it also does
not record the relationships it walked) -/
def stepVar (g : Graph) (engine : Bool) (rp : RelPat) (np : NodePat) (lo : Nat)
    (hi : Option Nat) (s : MState) (cur : Nat) : List (MState × Nat) :=
  let ends := if engine then (varLenBfsEnds g rp lo hi cur).map (fun t => (t, s.used))
    else varLenEnds g rp lo hi cur s.used
  ends.filterMap fun (t, used') =>
    match g.node? t with
    | none => none
    | some n =>
      match matchNode np s.row n with
      | none => none
      | some row2 => some (⟨row2, used'⟩, t)

/-- the intermediate semantics "one row per distinct end node of the openCypher paths" -/
def stepVarDedup (g : Graph) (rp : RelPat) (np : NodePat) (lo : Nat)
    (hi : Option Nat) (s : MState) (cur : Nat) : List (MState × Nat) :=
  let ends := (dedupNat ((varLenEnds g rp lo hi cur s.used).map (·.1))).map (fun t => (t, s.used))
  ends.filterMap fun (t, used') =>
    match g.node? t with
    | none => none
    | some n =>
      match matchNode np s.row n with
      | none => none
      | some row2 => some (⟨row2, used'⟩, t)

def stepAny (g : Graph) (distinctEnds : Bool) (rp : RelPat) (np : NodePat) (s : MState)
    (cur : Nat) : List (MState × Nat) :=
  match rp.range with
  | none => stepFrom g rp np s cur
  | some (lo, hi) => stepVar g distinctEnds rp np lo hi s cur

def walkSteps (g : Graph) (de : Bool) : List (RelPat × NodePat) → MState × Nat → List (MState × Nat)
  | [], s => [s]
  | (rp, np) :: rest, (s, cur) => (stepAny g de rp np s cur).flatMap (walkSteps g de rest)

/-- all matches of one path pattern extending state `s`, walking from the first node -/
def matchPath (g : Graph) (de : Bool) (p : PathPat) (s : MState) : List MState :=
  (g.nodes.flatMap fun n =>
    match matchNode p.start s.row n with
    | none => []
    | some row1 => walkSteps g de p.steps (⟨row1, s.used⟩, n.id)).map (·.1)

/-- comma-separated patterns of one MATCH clause share the used-relationship set -/
def matchPats (g : Graph) (de : Bool) : List PathPat → MState → List MState
  | [], s => [s]
  | p :: ps, s => (matchPath g de p s).flatMap (matchPats g de ps)

/-- rows produced by `MATCH pats` from one input row (relationship isomorphism is scoped
to the clause: `used` starts empty and is dropped afterwards) -/
def matchClause (g : Graph) (de : Bool) (pats : List PathPat) (row : Row) : List Row :=
  (matchPats g de pats ⟨row, []⟩).map (·.row)

/-! ### reversal (matching from the other end) -/

def Dir.flip : Dir → Dir
  | .out => .inn
  | .inn => .out
  | .both => .both

def RelPat.flip (rp : RelPat) : RelPat := { rp with dir := rp.dir.flip }

/-- `(n0)-[r1]-(n1)…(nk)` read from `nk` back to `n0` -/
def reverseSteps : NodePat → List (RelPat × NodePat) → NodePat × List (RelPat × NodePat)
  | n0, [] => (n0, [])
  | n0, (r, n1) :: rest =>
    let (last, rev) := reverseSteps n1 rest
    (last, rev ++ [(r.flip, n0)])

def PathPat.reverse (p : PathPat) : PathPat :=
  let (s, st) := reverseSteps p.start p.steps
  ⟨s, st⟩

/-- variables a pattern list introduces (for OPTIONAL MATCH null-padding) -/
def PathPat.vars (p : PathPat) : List Name :=
  (p.start.var.toList) ++ p.steps.flatMap fun (r, n) => r.var.toList ++ n.var.toList

end SgModel.Cy
