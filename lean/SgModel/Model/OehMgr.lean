import SgModel.Model.Oeh
/-
Model of `HierarchyIndexManager` (declaration, staleness, in-place measure writes, rebuild)
together with the part of `GraphStore` that feeds it and the planner rewrite of
`hierarchy_detector::detect` for the two `*0..` shapes (descendant scan, roll-up).

The logical graph is: nodes `0 … n-1` (all carry label `N` and a unique key `k`, so a pinned
root always resolves), typed directed relationships, one integer property `units`.
At most one hierarchy index is declared at a time (`MEASURE units AGGREGATE sum, min, max`).

`…Legacy` = behaviour of the pinned tree (kept for the counterexample theorems).
-/
namespace SgModel.Oeh

structure MSpec where
  types : List Nat          -- covering relationship types
  reverse : Bool            -- stored edges point parent → child
deriving DecidableEq, Repr

structure MGraph where
  n : Nat
  edges : List (Nat × Nat × Nat)    -- (source, target, type), a multiset
  meas : Measure
deriving Repr

/-- a built index over dense indices, with the dense index → node table -/
structure MIndex where
  idx : Index
  nodes : List Nat
deriving Repr

/-- one registry entry (`HierarchyEntry`) -/
structure MEntry where
  spec : MSpec
  built : Option MIndex      -- `none`: the probe declined
  stale : Bool
deriving Repr

structure MState where
  g : MGraph
  entry : Option MEntry
deriving Repr

def MState.init (n : Nat) : MState :=
  { g := { n := n, edges := [], meas := List.replicate n none }, entry := none }

/-! ### building from the store (`Poset::from_store`, `build_entry`) -/

def dedupEdges : List (Nat × Nat) → List (Nat × Nat) → List (Nat × Nat)
  | [], acc => acc.reverse
  | e :: r, acc => if acc.contains e then dedupEdges r acc else dedupEdges r (e :: acc)

/-- covering edges as `(child, parent)` node pairs, in store order, duplicates collapsed -/
def coveringEdges (g : MGraph) (s : MSpec) : List (Nat × Nat) :=
  dedupEdges (s.types.flatMap (fun ty =>
    (g.edges.filter (fun e => e.2.2 == ty)).map (fun e =>
      if s.reverse then (e.2.1, e.1) else (e.1, e.2.1)))) []

/-- interning order: child first, then parent, first appearance wins -/
def internNodes (es : List (Nat × Nat)) : List Nat :=
  es.foldl (fun acc e =>
    let acc1 := if acc.contains e.1 then acc else acc ++ [e.1]
    if acc1.contains e.2 then acc1 else acc1 ++ [e.2]) []

inductive MBuild where
  | cyclic
  | declined
  | ok (ix : MIndex)

def buildFromGraph (g : MGraph) (s : MSpec) : MBuild :=
  let ces := coveringEdges g s
  let nodes := internNodes ces
  let P : Poset := { n := nodes.length, edges := ces.map (fun e => (nodes.idxOf e.1, nodes.idxOf e.2)) }
  if !P.wf then .cyclic
  else
    let m : Measure := nodes.map (fun v => mval g.meas v)
    match buildAuto P m with
    | .ok idx => .ok { idx := idx, nodes := nodes }
    | _ => .declined

/-! ### operations -/

inductive MOp where
  | addEdge (s t ty : Nat)
  | delEdge (s t ty : Nat)
  | setMeas (v : Nat) (x : Option Int)        -- `SET d.units = x`
  | removeMeas (v : Nat)                      -- `REMOVE d.units`
  | create (spec : MSpec)
  | rebuild
  | drop
deriving Repr

def MEntry.usable (e : MEntry) : Bool := e.built.isSome && !e.stale

/-- `mark_stale_for_edge_type` -/
def markStale (en : Option MEntry) (ty : Nat) : Option MEntry :=
  en.map (fun e => if e.spec.types.contains ty then { e with stale := true } else e)

/-- `HierarchyIndexManager::update_measure`: in place when the node is in the poset,
otherwise the entry goes stale -/
def applyMeasure (en : Option MEntry) (v : Nat) (x : Option Int) : Option MEntry :=
  en.map (fun e =>
    match e.built with
    | some ix =>
      if ix.nodes.contains v then
        { e with built := some { ix with idx := ix.idx.update (ix.nodes.idxOf v, x) } }
      else { e with stale := true }
    | none => { e with stale := true })

/-- result of a DDL statement, as the harness sees it -/
inductive DdlOut where
  | none
  | ok (enc : Option Enc)       -- `none` = declined
  | err
deriving DecidableEq, Repr

def mstepWith (legacy : Bool) (s : MState) : MOp → MState × DdlOut
  | .addEdge a b ty =>
    ({ g := { s.g with edges := s.g.edges ++ [(a, b, ty)] }, entry := markStale s.entry ty }, .none)
  | .delEdge a b ty =>
    -- `MATCH (a)-[e:T]->(b) DELETE e` removes every parallel relationship
    if s.g.edges.contains (a, b, ty) then
      ({ g := { s.g with edges := s.g.edges.filter (fun e => e != (a, b, ty)) },
         entry := markStale s.entry ty }, .none)
    else (s, .none)
  | .setMeas v x =>
    ({ g := { s.g with meas := s.g.meas.set v x }, entry := applyMeasure s.entry v x }, .none)
  | .removeMeas v =>
    ({ g := { s.g with meas := s.g.meas.set v none }
       entry := if legacy then s.entry else applyMeasure s.entry v none }, .none)
  | .create spec =>
    match s.entry with
    | some _ => (s, .err)
    | none =>
      match buildFromGraph s.g spec with
      | .cyclic => (s, .err)
      | .declined => ({ s with entry := some { spec := spec, built := none, stale := false } }, .ok none)
      | .ok ix => ({ s with entry := some { spec := spec, built := some ix, stale := false } },
                   .ok (some ix.idx.enc))
  | .rebuild =>
    match s.entry with
    | none => (s, .err)
    | some e =>
      match buildFromGraph s.g e.spec with
      | .cyclic => (s, .err)
      | .declined => ({ s with entry := some { spec := e.spec, built := none, stale := false } }, .ok none)
      | .ok ix => ({ s with entry := some { spec := e.spec, built := some ix, stale := false } },
                   .ok (some ix.idx.enc))
  | .drop =>
    match s.entry with
    | none => (s, .err)
    | some _ => ({ s with entry := none }, .ok none)

def mstep (s : MState) (op : MOp) : MState := (mstepWith false s op).1
def mrun (n : Nat) (ops : List MOp) : MState := ops.foldl mstep (MState.init n)

/-- the pinned tree: `REMOVE` does not reach the index -/
def mrunLegacy (n : Nat) (ops : List MOp) : MState :=
  ops.foldl (fun s op => (mstepWith true s op).1) (MState.init n)

/-! ### queries: `MATCH (d)-[:T*0..]->(r {k: root}) RETURN …` and the three other spellings -/

inductive QKind where
  | desc | count | sum | min | max
deriving DecidableEq, Repr

structure Query where
  kind : QKind
  ty : Nat
  pinnedIsTarget : Bool     -- the pinned node is at the *target* end of the stored arrows
  root : Nat
deriving DecidableEq, Repr

/-- the engine's own variable-length expansion: one row per distinct node connected to the
pinned node by a directed path of relationships of type `ty` (length ≥ 0) -/
def edgePoset (g : MGraph) (ty : Nat) (pinnedIsTarget : Bool) : Poset :=
  { n := g.n
    edges := dedupEdges ((g.edges.filter (fun e => e.2.2 == ty)).map (fun e =>
      if pinnedIsTarget then (e.1, e.2.1) else (e.2.1, e.1))) [] }

/-- closure that also terminates on cyclic graphs (the engine's BFS keeps a visited set) -/
def varLenDistinct (g : MGraph) (q : Query) : List Nat :=
  closureLoop (edgePoset g q.ty q.pinnedIsTarget).children g.n [q.root]

inductive QOut where
  | rows (l : List Nat)
  | val (v : RV)
deriving DecidableEq, Repr

def QKind.op : QKind → Op
  | .desc => .count
  | .count => .count
  | .sum => .sum
  | .min => .min
  | .max => .max

/-- what the engine's aggregate returns over the expansion: `sum` of nothing is 0,
`min`/`max` of nothing is null -/
def bruteAnswer (g : MGraph) (q : Query) : QOut :=
  let ds := varLenDistinct g q
  match q.kind with
  | .desc => .rows ds
  | .count => .val (.int ds.length)
  | k => .val (foldMeasure k.op g.meas ds)

/-- does the planner put this query on the index? (`match_pattern` after the fixes:
single covering type, orientation follows `reverse`, entry usable, root in the poset) -/
def usesIndexWith (legacy : Bool) (s : MState) (q : Query) : Option MIndex :=
  match s.entry with
  | none => none
  | some e =>
    if !e.usable then none
    else if !(e.spec.types.contains q.ty) then none
    else if !legacy && e.spec.types.length != 1 then none
    else if !legacy && q.pinnedIsTarget == e.spec.reverse then none
    else if legacy && !q.pinnedIsTarget then none
    else match e.built with
      | some ix => if ix.nodes.contains q.root then some ix else none
      | none => none

def usesIndex (s : MState) (q : Query) : Option MIndex := usesIndexWith false s q

def indexAnswer (ix : MIndex) (q : Query) : QOut :=
  let r := ix.nodes.idxOf q.root
  match q.kind with
  | .desc => .rows (((ix.idx.descendants r).map (fun i => ix.nodes.getD i 0)).foldl
      (fun acc x => insertSorted x acc) [])
  | k => .val (ix.idx.rollup k.op r)

def answerWith (legacy : Bool) (s : MState) (q : Query) : Bool × QOut :=
  match usesIndexWith legacy s q with
  | some ix => (true, indexAnswer ix q)
  | none => (false, bruteAnswer s.g q)

def answer (s : MState) (q : Query) : Bool × QOut := answerWith false s q

/-! ### specification of staleness, on observations

The harness reports, per step, whether the executed plan used the index.  `covered` says
whether an operation writes the covering relation of the declared index. -/

def MOp.coveringWrite (spec : MSpec) : MOp → Bool
  | .addEdge _ _ ty => spec.types.contains ty
  | .delEdge _ _ ty => spec.types.contains ty
  | _ => false

end SgModel.Oeh
