import SgModel.Model.CyMatch
/-!
# Cy — clauses, projection, aggregation, and the result specification (layer 5 of 5)

`evalQuery g de q : Except Err Table` is the reference result of a read-only query
(`de` selects the variable-length semantics: `false` = openCypher paths, `true` = the
engine's distinct-endpoint rows).  A table is a **bag** of rows; where openCypher leaves
freedom (order without ORDER BY, ties under ORDER BY, which rows a LIMIT keeps) the
specification is the predicate `specQuery g de q out`, evaluated by the harness on the
table the *engine* returned:

* the rows before ORDER BY/SKIP/LIMIT (`rowsIn`, each with its sort key) are determined;
* `out` must have the length of the window `[skip, skip+limit)` and, position by position,
  carry a row of `rowsIn` whose key is equivalent to the key that position has in the
  sorted order, without using any `(key class, row)` more often than `rowsIn` has it.

Without SKIP/LIMIT this says `out` is a permutation of `rowsIn` sorted by the key (ties in
any order); without ORDER BY all keys are equivalent and it says `out` is a sub-bag of the
right size.  An intermediate `WITH … SKIP/LIMIT` whose window is not determined by the
keys makes the whole query `unspecified` (not compared).
-/
namespace SgModel.Cy

inductive AggKind where | countStar | count | sum | avg | min | max | collect
deriving DecidableEq, Repr, Inhabited

inductive Item where
  | expr (e : Expr) (alias : Name)
  | agg (k : AggKind) (distinct : Bool) (arg : Expr) (alias : Name)
deriving DecidableEq, Repr, Inhabited

def Item.alias : Item → Name
  | .expr _ a => a
  | .agg _ _ _ a => a

def Item.isAgg : Item → Bool
  | .expr _ _ => false
  | .agg _ _ _ _ => true

structure OrderKey where
  e : Expr
  desc : Bool
deriving DecidableEq, Repr, Inhabited

structure Proj where
  distinct : Bool
  items : List Item
  orderBy : List OrderKey
  skip : Option Nat
  limit : Option Nat
  where_ : Option Expr
deriving DecidableEq, Repr, Inhabited

inductive Clause where
  | match_ (optional : Bool) (pats : List PathPat) (where_ : Option Expr)
  | unwind (e : Expr) (x : Name)
  | with_ (p : Proj)
deriving DecidableEq, Repr, Inhabited

structure Query where
  clauses : List Clause
  ret : Proj
deriving DecidableEq, Repr, Inhabited

structure Table where
  cols : List Name
  rows : List (List Val)
deriving DecidableEq, Repr, Inhabited

/-! ## sorting (insertion sort: structural, stable, reduces in the kernel) -/

def insertBy {α : Type} (le : α → α → Bool) (x : α) : List α → List α
  | [] => [x]
  | y :: ys => if le x y then x :: y :: ys else y :: insertBy le x ys

def sortBy {α : Type} (le : α → α → Bool) : List α → List α
  | [] => []
  | x :: xs => insertBy le x (sortBy le xs)

/-- lexicographic comparison of sort keys; `descs[i]` flips component `i` -/
def cmpKeys : List Bool → List Val → List Val → Ordering
  | d :: ds, a :: as, b :: bs =>
    match (if d then Val.ordCmp b a else Val.ordCmp a b) with
    | .eq => cmpKeys ds as bs
    | o => o
  | _, _, _ => .eq

def keysLe (descs : List Bool) (a b : List Val) : Bool := cmpKeys descs a b != .gt
def keysEqv (descs : List Bool) (a b : List Val) : Bool := cmpKeys descs a b == .eq

def window {α : Type} (skip : Option Nat) (limit : Option Nat) (l : List α) : List α :=
  let l := l.drop (skip.getD 0)
  match limit with
  | some k => l.take k
  | none => l

/-! ## canonical form of a row for comparison: `collect` lists are bags -/

def Atom.canonCmp (a b : Atom) : Ordering :=
  match a.ordCmp b with
  | .eq =>
    -- int/float twins: the integer first
    match a, b with
    | .int _, .flt _ _ => .lt
    | .flt _ _, .int _ => .gt
    | _, _ => .eq
  | o => o

def canonList (l : List Atom) : List Atom := sortBy (fun a b => Atom.canonCmp a b != .gt) l

/-- sort the list in the columns flagged as `collect` outputs -/
def canonRow : List Bool → List Val → List Val
  | true :: fs, .list l :: vs => .list (canonList l) :: canonRow fs vs
  | _ :: fs, v :: vs => v :: canonRow fs vs
  | _, vs => vs

/-! ## aggregation -/

def dedupVals : List Val → List Val
  | [] => []
  | x :: xs => x :: (dedupVals xs).filter (· != x)

/-- checked integer sum -/
def sumInts : List Val → Except Err Val
  | [] => .ok (.int 0)
  | v :: vs => do
      let rest ← sumInts vs
      evalArith .add v rest

/-- float sum: every addend (an integer only if it converts to `f64` exactly) and every
partial sum must be exact, otherwise the result depends on the order and grouping of the
additions and the model does not define it -/
def sumFlts : List Val → Except Err Val
  | [] => .ok (.flt 0 0)
  | v :: vs => do
      let rest ← sumFlts vs
      let v' ← (match v with
        | .atom (.int i) => do
            let (p, k) ← intAsFlt i
            pure (Val.flt p k)
        | x => pure x)
      evalArith .add v' rest

/-- `sum`: an Integer while every addend is an integer, a Float as soon as one is a float -/
def sumVals (vs : List Val) : Except Err Val :=
  if vs.all (fun v => match v with | .atom (.int _) => true | _ => false) then sumInts vs
  else sumFlts vs

/-- divide the dyadic `n/2^k` by the positive natural `d` if the quotient is dyadic -/
def dyDivNat (n : Int) (k : Nat) (d : Nat) : Except Err Val :=
  -- d = 2^a * m with m odd
  let m := oddPart 64 d
  if m == 0 then .error .arith else
  let pow := d / m
  -- pow = 2^a; find a by counting
  let a := Nat.log2 pow
  if n % (Int.ofNat m) == 0 then ckFlt (n / Int.ofNat m) (k + a) else .error .unspecified

def minMaxVals (isMax : Bool) : List Val → Val
  | [] => .null
  | v :: vs =>
    match minMaxVals isMax vs with
    | .atom .null => v
    | w => if isMax then (if Val.ordCmp v w == .lt then w else v)
           else (if Val.ordCmp w v == .lt then w else v)

def toAtoms : List Val → Except Err (List Atom)
  | [] => .ok []
  | .atom a :: vs => do pure (a :: (← toAtoms vs))
  | .list _ :: _ => .error .unspecified

def evalAgg (g : Graph) (k : AggKind) (distinct : Bool) (arg : Expr) (rows : List Row) :
    Except Err Val := do
  if k == .countStar then
    return .int rows.length
  let vals ← mapM' (evalExpr g · arg) rows
  let vals := vals.filter (· != .null)
  -- integer/float twins only matter where values are compared with each other
  if (distinct || k == .min || k == .max) && !twinFree vals then throw .unspecified
  let vals := if distinct then dedupVals vals else vals
  match k with
  | .countStar => pure (.int rows.length)
  | .count => pure (.int vals.length)
  | .sum =>
    if vals.all (fun v => match v with | .atom a => a.num?.isSome | _ => false)
    then sumVals vals else throw .type
  | .avg =>
    if vals.isEmpty then pure .null
    else if !(vals.all (fun v => match v with | .atom a => a.num?.isSome | _ => false))
    then throw .type
    else do
      -- the engine accumulates an `f64`: every addend and partial sum must be exact
      let s ← sumFlts vals
      match s with
      | .atom (.flt n kk) => dyDivNat n kk vals.length
      | _ => throw .type
  | .min => pure (minMaxVals false vals)
  | .max => pure (minMaxVals true vals)
  | .collect => do pure (.list (← toAtoms vals))

/-- group rows by key (first-seen order) -/
def groupBy (keyed : List (List Val × Row)) : List (List Val × List Row) :=
  keyed.foldl (fun acc (k, r) =>
    if acc.any (·.1 == k) then acc.map (fun (k', rs) => if k' == k then (k', rs ++ [r]) else (k', rs))
    else acc ++ [(k, [r])]) []

/-! ## projection (`WITH` / `RETURN`) -/

/-- a projected row before ORDER BY: sort key, output values, and the new bindings -/
structure PRow where
  key : List Val
  vals : List Val
deriving DecidableEq, Repr, Inhabited

def evalItemsPlain (g : Graph) (items : List Item) (row : Row) : Except Err (List Val) :=
  mapM' (fun it => match it with
    | .expr e _ => evalExpr g row e
    | .agg _ _ _ _ => .error .unspecified) items

def mkRow (items : List Item) (vals : List Val) : Row := (items.map Item.alias).zip vals

def dedupPairs : List (List Val × Row) → List (List Val × Row)
  | [] => []
  | x :: xs => x :: (dedupPairs xs).filter (·.1 != x.1)

/-- values and the environment in which ORDER BY keys are evaluated, for every output row
(before DISTINCT) -/
def projectRows (g : Graph) (p : Proj) (rows : List Row) :
    Except Err (List (List Val × Row)) := do
  if p.items.any Item.isAgg then
    let keyItems := p.items.filter (!·.isAgg)
    let keyed ← mapM' (fun r => do
        let ks ← evalItemsPlain g keyItems r
        pure (ks, r)) rows
    if !twinFree (keyed.flatMap (·.1)) then throw .unspecified
    let groups := groupBy keyed
    -- no grouping key and no input: one group with no rows
    let groups := if keyItems.isEmpty && groups.isEmpty then [([], [])] else groups
    mapM' (fun (_, grp) => do
        let vals ← mapM' (fun it => match it with
          | .expr e _ => (match grp with
              | r :: _ => evalExpr g r e
              | [] => .error .unspecified)
          | .agg k d a _ => evalAgg g k d a grp) p.items
        pure (vals, mkRow p.items vals)) groups
  else
    mapM' (fun r => do
        let vals ← evalItemsPlain g p.items r
        pure (vals, if p.distinct then mkRow p.items vals else mkRow p.items vals ++ r)) rows

/-- a sort key that is a `collect(…)` column: the order of the collected list is not
defined, so neither is the order of the rows -/
def Proj.orderUsesCollect (p : Proj) : Bool :=
  p.orderBy.any fun ok => match ok.e with
    | .var a => p.items.any fun it => match it with
        | .agg .collect _ _ al => al == a
        | _ => false
    | _ => false

/-- rows before ORDER BY / SKIP / LIMIT, each with its sort key -/
def rowsIn (g : Graph) (p : Proj) (rows : List Row) : Except Err (List PRow) := do
  if p.orderUsesCollect then throw .unspecified
  let prs ← projectRows g p rows
  let prs ← (if p.distinct then
      (if twinFree (prs.flatMap (·.1)) then pure (dedupPairs prs) else throw .unspecified)
    else pure prs)
  mapM' (fun (vals, env) => do
      let key ← mapM' (fun (ok : OrderKey) => evalExpr g env ok.e) p.orderBy
      pure ⟨key, vals⟩) prs

def Proj.descs (p : Proj) : List Bool := p.orderBy.map (·.desc)

def sortPRows (p : Proj) (l : List PRow) : List PRow :=
  sortBy (fun a b => keysLe p.descs a.key b.key) l

/-- the projection's output rows in the model's (stable-sort) order -/
def projOut (g : Graph) (p : Proj) (rows : List Row) : Except Err (List (List Val)) := do
  let l ← rowsIn g p rows
  pure ((window p.skip p.limit (sortPRows p l)).map (·.vals))

/-- is the window `[skip, skip+limit)` determined by the keys? (no key class straddles a cut) -/
def windowDetermined (p : Proj) (sorted : List PRow) : Bool :=
  let cutOk (b : Nat) : Bool :=
    if b == 0 || b ≥ sorted.length then true else
    match sorted[b - 1]?, sorted[b]? with
    | some x, some y => !keysEqv p.descs x.key y.key
    | _, _ => true
  let s := p.skip.getD 0
  cutOk s && (match p.limit with | some k => cutOk (s + k) | none => true)

/-- an intermediate `WITH` -/
def evalWith (g : Graph) (p : Proj) (rows : List Row) : Except Err (List Row) := do
  let l ← rowsIn g p rows
  let sorted := sortPRows p l
  if !windowDetermined p sorted then throw .unspecified
  let out := (window p.skip p.limit sorted).map (fun pr => mkRow p.items pr.vals)
  match p.where_ with
  | none => pure out
  | some w => filterM' (fun r => keeps g r w) out

/-! ## reading clauses -/

def padNull (vars : List Name) (row : Row) : Row :=
  (vars.filter (fun x => (row.get? x).isNone)).map (fun x => (x, Val.null)) ++ row

def evalMatch (g : Graph) (de : Bool) (optional : Bool) (pats : List PathPat)
    (where_ : Option Expr) (row : Row) : Except Err (List Row) := do
  let ms := matchClause g de pats row
  let ms ← (match where_ with
    | none => pure ms
    | some w => filterM' (fun r => keeps g r w) ms)
  if optional && ms.isEmpty then pure [padNull (pats.flatMap PathPat.vars) row] else pure ms

def evalUnwind (g : Graph) (e : Expr) (x : Name) (row : Row) : Except Err (List Row) := do
  match (← evalExpr g row e) with
  | .list l => pure (l.map fun a => (x, Val.atom a) :: row)
  | .atom .null => pure []
  | _ => throw .unspecified

def flatMapM' {α β : Type} (f : α → Except Err (List β)) : List α → Except Err (List β)
  | [] => .ok []
  | x :: xs => do
      let ys ← f x
      let rest ← flatMapM' f xs
      pure (ys ++ rest)

def evalClause (g : Graph) (de : Bool) (rows : List Row) : Clause → Except Err (List Row)
  | .match_ opt pats w => flatMapM' (evalMatch g de opt pats w) rows
  | .unwind e x => flatMapM' (evalUnwind g e x) rows
  | .with_ p => evalWith g p rows

def evalClauses (g : Graph) (de : Bool) : List Clause → List Row → Except Err (List Row)
  | [], rows => .ok rows
  | c :: cs, rows => do evalClauses g de cs (← evalClause g de rows c)

def Proj.collectCols (p : Proj) : List Bool :=
  p.items.map fun it => match it with
    | .agg .collect _ _ _ => true
    | _ => false

/-- the reference result (rows in the model's own order) -/
def evalQuery (g : Graph) (de : Bool) (q : Query) : Except Err Table := do
  let rows ← evalClauses g de q.clauses [[]]
  let out ← projOut g q.ret rows
  pure ⟨q.ret.items.map Item.alias, out⟩

/-- equality of result rows: a `collect(…)` column (flag `true`) is a **bag** — openCypher
does not order it — every other column must be identical (type included: `1` ≠ `1.0`) -/
def rowEqv : List Bool → List Val → List Val → Bool
  | true :: fs, .list a :: as, .list b :: bs => a.isPerm b && rowEqv fs as bs
  | _ :: fs, a :: as, b :: bs => a == b && rowEqv fs as bs
  | [], a :: as, b :: bs => a == b && rowEqv [] as bs
  | _, [], [] => true
  | _, _, _ => false

/-! ## the specification on an observed result -/

/-- `out` is an admissible result given the determined pre-ORDER-BY rows `P`, for a key
order `le` with tie relation `eqv` -/
def admissibleBy (le eqv : List Val → List Val → Bool) (cc : List Bool) (skip limit : Option Nat)
    (P : List PRow) (out : List (List Val)) : Bool :=
  let want := window skip limit ((sortBy (fun a b => le a.key b.key) P).map (·.key))
  let pairs := want.zip out
  out.length == want.length &&
  pairs.all fun (c, r) =>
    decide (pairs.countP (fun (c', r') => eqv c c' && rowEqv cc r' r)
      ≤ P.countP (fun pr => eqv c pr.key && rowEqv cc pr.vals r))

/-- the specification: keys ordered by Cypher's orderability -/
def admissible (descs : List Bool) (cc : List Bool) (skip limit : Option Nat) (P : List PRow)
    (out : List (List Val)) : Bool :=
  admissibleBy (keysLe descs) (keysEqv descs) cc skip limit P out

/-! ### the engine's sort order (known finding `orderby-int-float-secondary-key`)

`cypher_order` falls back to the index order for numbers, which never ties an integer with
the equal float (the integer sorts first), so a later sort key is not consulted between
`k = 1` and `k = 1.0`. -/

def Val.ordCmpLegacy : Val → Val → Ordering
  | .atom a, .atom b => Atom.canonCmp a b
  | a, b => Val.ordCmp a b

def cmpKeysLegacy : List Bool → List Val → List Val → Ordering
  | d :: ds, a :: as, b :: bs =>
    match (if d then Val.ordCmpLegacy b a else Val.ordCmpLegacy a b) with
    | .eq => cmpKeysLegacy ds as bs
    | o => o
  | _, _, _ => .eq

def admissibleLegacyTie (descs : List Bool) (cc : List Bool) (skip limit : Option Nat)
    (P : List PRow) (out : List (List Val)) : Bool :=
  admissibleBy (fun a b => cmpKeysLegacy descs a b != .gt) (fun a b => cmpKeysLegacy descs a b == .eq)
    cc skip limit P out

inductive Verdict where
  | ok
  | viol (why : String)
  | skip (e : Err)
deriving DecidableEq, Repr, Inhabited

/-- S evaluated on the engine's table (`legacyTie` = judge ORDER BY with the engine's
integer-before-float tie-break instead: used only to *classify* a violation) -/
def specQueryWith (legacyTie : Bool) (g : Graph) (de : Bool) (q : Query) (out : Table) : Verdict :=
  match evalClauses g de q.clauses [[]] with
  | .error e => .skip e
  | .ok rows =>
    match rowsIn g q.ret rows with
    | .error e => .skip e
    | .ok P =>
      let cc := q.ret.collectCols
      if out.cols != q.ret.items.map Item.alias then .viol "columns"
      else if (if legacyTie then admissibleLegacyTie q.ret.descs cc q.ret.skip q.ret.limit P out.rows
               else admissible q.ret.descs cc q.ret.skip q.ret.limit P out.rows) then .ok
      else if out.rows.length != (window q.ret.skip q.ret.limit P).length then .viol "row-count"
      else .viol "rows"

/-- S evaluated on the engine's table -/
def specQuery (g : Graph) (de : Bool) (q : Query) (out : Table) : Verdict :=
  specQueryWith false g de q out

end SgModel.Cy
