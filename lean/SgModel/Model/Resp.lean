/-
Model of `src/protocol/resp.rs` (RESP encoder / decoder, inline commands) and of the decode
loop of `src/protocol/server.rs::handle_connection`, for properties C20, C21, C22.
Import-free (the driver links against it).  Bytes are `List UInt8`.
The decoder dispatches on the type bytes `+ - : $ * _` only; every other first byte — including
the RESP3 ones `# , ! = % ~ > ( |` — starts an inline command line, in the code and here.

`decode`, `encode`, `feed` model the code as it stands after the `fix:` commits:
  * the decoder works on a cursor and the buffer is advanced only when a value (or a
    malformed prefix) was read — "need more data" leaves the buffer untouched;
  * a bulk length below -1 is a protocol error;
  * arrays are no longer pre-allocated from the announced length (the vector grows with the
    elements actually received);
  * arrays nest at most `MAX_DEPTH` deep;
  * `encode` writes simple strings / errors with CR and LF replaced by a space.
`decodeLegacy`, `encodeLegacy`, `feedLegacy` model the pinned tree (header consumed before
`Incomplete`, `$-2` overflow panic, uncapped `with_capacity`, unbounded recursion, raw
CR/LF in status lines) and are kept so that the original defects stay recognisable.
-/
namespace SgModel.Resp

abbrev Bytes := List UInt8

/-- `RespValue`.  Rust `String`s are carried as their UTF-8 bytes. -/
inductive RV where
  | simple (s : Bytes)
  | error (s : Bytes)
  | int (i : Int)
  | bulk (b : Option Bytes)
  | array (vs : List RV)
  | null
deriving Repr

/-! `deriving DecidableEq` does not handle the nested occurrence `List RV`; written out. -/
mutual
def RV.decEq (a b : RV) : Decidable (a = b) :=
  match a, b with
  | .simple x, .simple y => if h : x = y then isTrue (by rw [h]) else isFalse (by intro h'; cases h'; exact h rfl)
  | .simple _, .error _ => isFalse (by intro h; cases h)
  | .simple _, .int _ => isFalse (by intro h; cases h)
  | .simple _, .bulk _ => isFalse (by intro h; cases h)
  | .simple _, .array _ => isFalse (by intro h; cases h)
  | .simple _, .null => isFalse (by intro h; cases h)
  | .error _, .simple _ => isFalse (by intro h; cases h)
  | .error x, .error y => if h : x = y then isTrue (by rw [h]) else isFalse (by intro h'; cases h'; exact h rfl)
  | .error _, .int _ => isFalse (by intro h; cases h)
  | .error _, .bulk _ => isFalse (by intro h; cases h)
  | .error _, .array _ => isFalse (by intro h; cases h)
  | .error _, .null => isFalse (by intro h; cases h)
  | .int _, .simple _ => isFalse (by intro h; cases h)
  | .int _, .error _ => isFalse (by intro h; cases h)
  | .int x, .int y => if h : x = y then isTrue (by rw [h]) else isFalse (by intro h'; cases h'; exact h rfl)
  | .int _, .bulk _ => isFalse (by intro h; cases h)
  | .int _, .array _ => isFalse (by intro h; cases h)
  | .int _, .null => isFalse (by intro h; cases h)
  | .bulk _, .simple _ => isFalse (by intro h; cases h)
  | .bulk _, .error _ => isFalse (by intro h; cases h)
  | .bulk _, .int _ => isFalse (by intro h; cases h)
  | .bulk x, .bulk y => if h : x = y then isTrue (by rw [h]) else isFalse (by intro h'; cases h'; exact h rfl)
  | .bulk _, .array _ => isFalse (by intro h; cases h)
  | .bulk _, .null => isFalse (by intro h; cases h)
  | .array _, .simple _ => isFalse (by intro h; cases h)
  | .array _, .error _ => isFalse (by intro h; cases h)
  | .array _, .int _ => isFalse (by intro h; cases h)
  | .array _, .bulk _ => isFalse (by intro h; cases h)
  | .array x, .array y => match RV.decEqList x y with
    | isTrue h => isTrue (by rw [h])
    | isFalse h => isFalse (by intro h'; cases h'; exact h rfl)
  | .array _, .null => isFalse (by intro h; cases h)
  | .null, .simple _ => isFalse (by intro h; cases h)
  | .null, .error _ => isFalse (by intro h; cases h)
  | .null, .int _ => isFalse (by intro h; cases h)
  | .null, .bulk _ => isFalse (by intro h; cases h)
  | .null, .array _ => isFalse (by intro h; cases h)
  | .null, .null => isTrue rfl
def RV.decEqList (a b : List RV) : Decidable (a = b) :=
  match a, b with
  | [], [] => isTrue rfl
  | [], _ :: _ => isFalse (by intro h; cases h)
  | _ :: _, [] => isFalse (by intro h; cases h)
  | x :: xs, y :: ys => match RV.decEq x y, RV.decEqList xs ys with
    | isTrue h1, isTrue h2 => isTrue (by rw [h1, h2])
    | isFalse h, _ => isFalse (by intro h'; cases h'; exact h rfl)
    | _, isFalse h => isFalse (by intro h'; cases h'; exact h rfl)
end
instance : DecidableEq RV := RV.decEq

/-! ### constants -/

def CR : UInt8 := 13
def LF : UInt8 := 10
/-- `const MAX_DEPTH: usize = 128` (introduced by the repair): arrays nest at most this deep -/
def MAX_DEPTH : Nat := 128
/-- `size_of::<RespValue>()` on the 64-bit target: what one reserved `Vec` slot costs -/
def ELEM_SIZE : Nat := 32

/-! ### decimal numerals (`write!("{}", n)` and `str::parse`) -/

def digitOf (n : Nat) : UInt8 := UInt8.ofNat (48 + n % 10)

/-- decimal rendering of a natural number, most significant digit first -/
def natToDec (n : Nat) : Bytes :=
  if _h : n < 10 then [digitOf n] else natToDec (n / 10) ++ [digitOf n]
termination_by n
decreasing_by omega

def intToDec (i : Int) : Bytes :=
  if i < 0 then 45 :: natToDec i.natAbs else natToDec i.toNat

def isDigit (c : UInt8) : Bool := 48 ≤ c && c ≤ 57

def parseDigits : Nat → Bytes → Option Nat
  | acc, [] => some acc
  | acc, c :: cs => if isDigit c then parseDigits (acc * 10 + (c.toNat - 48)) cs else none

/-- one or more ASCII digits -/
def parseNat : Bytes → Option Nat
  | [] => none
  | c :: cs => parseDigits 0 (c :: cs)

/-- `str::parse::<i64>`: optional sign, at least one digit, value in range -/
def parseI64 : Bytes → Option Int
  | [] => none
  | c :: cs =>
    if c = 45 then
      match parseNat cs with
      | some n => if n ≤ 2 ^ 63 then some (-(n : Int)) else none
      | none => none
    else if c = 43 then
      match parseNat cs with
      | some n => if n < 2 ^ 63 then some (n : Int) else none
      | none => none
    else
      match parseNat (c :: cs) with
      | some n => if n < 2 ^ 63 then some (n : Int) else none
      | none => none

/-- `str::parse::<usize>`: optional `+`, at least one digit, value below 2^64 -/
def parseUsize : Bytes → Option Nat
  | [] => none
  | c :: cs =>
    if c = 43 then
      match parseNat cs with
      | some n => if n < 2 ^ 64 then some n else none
      | none => none
    else
      match parseNat (c :: cs) with
      | some n => if n < 2 ^ 64 then some n else none
      | none => none

/-! ### UTF-8 validity (`String::from_utf8`), as the standard's well-formedness automaton -/

inductive U8St where
  | s0 | c1 | c2 | e0 | ed | c3 | f0 | f4
deriving DecidableEq, Repr

def isCont (b : UInt8) : Bool := 0x80 ≤ b && b ≤ 0xBF

def utf8Step : U8St → UInt8 → Option U8St
  | .s0, b =>
    if b < 0x80 then some .s0
    else if 0xC2 ≤ b && b ≤ 0xDF then some .c1
    else if b = 0xE0 then some .e0
    else if b = 0xED then some .ed
    else if 0xE1 ≤ b && b ≤ 0xEF then some .c2
    else if b = 0xF0 then some .f0
    else if 0xF1 ≤ b && b ≤ 0xF3 then some .c3
    else if b = 0xF4 then some .f4
    else none
  | .c1, b => if isCont b then some .s0 else none
  | .c2, b => if isCont b then some .c1 else none
  | .e0, b => if 0xA0 ≤ b && b ≤ 0xBF then some .c1 else none
  | .ed, b => if 0x80 ≤ b && b ≤ 0x9F then some .c1 else none
  | .c3, b => if isCont b then some .c2 else none
  | .f0, b => if 0x90 ≤ b && b ≤ 0xBF then some .c2 else none
  | .f4, b => if 0x80 ≤ b && b ≤ 0x8F then some .c2 else none

def utf8Run : U8St → Bytes → Option U8St
  | st, [] => some st
  | st, b :: bs =>
    match utf8Step st b with
    | some st' => utf8Run st' bs
    | none => none

def validUtf8 (bs : Bytes) : Bool := utf8Run .s0 bs == some .s0

/-! ### encoder -/

/-- what the repaired `encode` does to each byte of a status line -/
def sanit (b : UInt8) : UInt8 := if b = CR ∨ b = LF then 32 else b

mutual
/-- `RespValue::encode` (repaired: CR/LF of simple strings and errors become spaces) -/
def encode : RV → Bytes
  | .simple s => 43 :: (s.map sanit ++ [CR, LF])
  | .error s => 45 :: (s.map sanit ++ [CR, LF])
  | .int i => 58 :: (intToDec i ++ [CR, LF])
  | .bulk none => [36, 45, 49, CR, LF]
  | .bulk (some d) => 36 :: (natToDec d.length ++ [CR, LF] ++ d ++ [CR, LF])
  | .array vs => 42 :: (natToDec vs.length ++ [CR, LF] ++ encodeList vs)
  | .null => [95, CR, LF]
def encodeList : List RV → Bytes
  | [] => []
  | v :: vs => encode v ++ encodeList vs
end

mutual
/-- `RespValue::encode` of the pinned tree: status lines written raw -/
def encodeLegacy : RV → Bytes
  | .simple s => 43 :: (s ++ [CR, LF])
  | .error s => 45 :: (s ++ [CR, LF])
  | .int i => 58 :: (intToDec i ++ [CR, LF])
  | .bulk none => [36, 45, 49, CR, LF]
  | .bulk (some d) => 36 :: (natToDec d.length ++ [CR, LF] ++ d ++ [CR, LF])
  | .array vs => 42 :: (natToDec vs.length ++ [CR, LF] ++ encodeLegacyList vs)
  | .null => [95, CR, LF]
def encodeLegacyList : List RV → Bytes
  | [] => []
  | v :: vs => encodeLegacy v ++ encodeLegacyList vs
end

mutual
/-- the value a standard decoder reads back from `encode v` -/
def sanitize : RV → RV
  | .simple s => .simple (s.map sanit)
  | .error s => .error (s.map sanit)
  | .array vs => .array (sanitizeList vs)
  | v => v
def sanitizeList : List RV → List RV
  | [] => []
  | v :: vs => sanitize v :: sanitizeList vs
end

mutual
/-- nesting depth of arrays (a scalar is 0, `[]` is 1) -/
def RV.depth : RV → Nat
  | .array vs => 1 + RV.depthList vs
  | _ => 0
def RV.depthList : List RV → Nat
  | [] => 0
  | v :: vs => max v.depth (RV.depthList vs)
end

def noCRLF (s : Bytes) : Bool := s.all (fun b => b != CR && b != LF)

mutual
/-- the invariants every Rust `RespValue` satisfies by its types: strings are UTF-8,
integers are `i64`, lengths fit `isize`/`usize` -/
def RV.sound : RV → Bool
  | .simple s => validUtf8 s
  | .error s => validUtf8 s
  | .int i => decide (-(2 ^ 63 : Int) ≤ i) && decide (i < 2 ^ 63)
  | .bulk none => true
  | .bulk (some d) => decide (d.length < 2 ^ 63)
  | .array vs => decide (vs.length < 2 ^ 64) && RV.soundList vs
  | .null => true
def RV.soundList : List RV → Bool
  | [] => true
  | v :: vs => v.sound && RV.soundList vs
end

mutual
/-- status lines are free of CR and LF (what RESP requires of simple strings / errors) -/
def RV.clean : RV → Bool
  | .simple s => noCRLF s
  | .error s => noCRLF s
  | .array vs => RV.cleanList vs
  | _ => true
def RV.cleanList : List RV → Bool
  | [] => true
  | v :: vs => v.clean && RV.cleanList vs
end

/-- a well-formed RESP value the decoder accepts -/
def RV.wf (v : RV) : Bool := v.sound && v.clean && decide (v.depth ≤ MAX_DEPTH)

/-! ### decoder -/

/-- `read_line`: split at the first CRLF of the (remaining) buffer -/
def readLine : Bytes → Option (Bytes × Bytes)
  | [] => none
  | [_] => none
  | a :: b :: rest =>
    if a = CR ∧ b = LF then some ([], rest)
    else match readLine (b :: rest) with
      | some (l, r) => some (a :: l, r)
      | none => none

/-- escape table of `parse_inline_tokens` (inside quotes, after a backslash) -/
def escOf (n : UInt8) : Bytes :=
  if n = 110 then [10] else if n = 116 then [9] else if n = 114 then [13]
  else if n = 34 then [34] else if n = 92 then [92] else [92, n]

/-- `parse_inline_tokens`, byte-wise (every byte it inspects is ASCII, and UTF-8
continuation bytes never are).  `none` = unclosed quote. -/
def tokenize : Bytes → List Bytes → Bytes → Bool → Option (List Bytes)
  | [], toks, cur, inq =>
    if inq then none else some (if cur.isEmpty then toks else toks ++ [cur])
  | c :: cs, toks, cur, inq =>
    if c = 34 then tokenize cs toks cur (!inq)
    else if (c = 32 || c = 9) && !inq then
      (if cur.isEmpty then tokenize cs toks [] inq else tokenize cs (toks ++ [cur]) [] inq)
    else if c = 92 && inq then
      match cs with
      | [] => tokenize [] toks cur inq
      | n :: cs' => tokenize cs' toks (cur ++ escOf n) inq
    else tokenize cs toks (cur ++ [c]) inq

inductive Out where
  | val (v : RV)      -- Ok(Some(v))
  | none              -- Ok(None)
  | incomplete        -- Err(Incomplete)
  | err               -- Err(Protocol | InvalidEncoding)
  | panic             -- the thread panics (pinned tree only)
deriving DecidableEq, Repr

/-- result of the cursor-level decoder: outcome, what is left after the cursor, the bytes
it asked the allocator for, the deepest recursion it reached -/
structure Res where
  out : Out
  rest : Bytes
  meter : Nat
  depth : Nat
deriving DecidableEq, Repr

inductive OutL where
  | vals (vs : List RV)
  | incomplete
  | err
  | panic
deriving DecidableEq, Repr

structure ResL where
  out : OutL
  rest : Bytes
  meter : Nat
  depth : Nat
deriving DecidableEq, Repr

/-- what one `elements.push(val)` may cost when the vector was not reserved up front: the
vector doubles (first 4 slots), so all its (re)allocations together stay below
`4 * ELEM_SIZE` bytes per element pushed -/
def PUSH_COST : Nat := 4 * ELEM_SIZE

/-- the element loop of `decode_array`; `push` is the allocation charged per element pushed
(`PUSH_COST` after the repair, 0 on the pinned tree where the vector was reserved up front) -/
def elems (dec : Bytes → Res) (push : Nat) : Nat → Bytes → ResL
  | 0, buf => ⟨.vals [], buf, 0, 0⟩
  | n + 1, buf =>
    let r := dec buf
    match r.out with
    | .val v =>
      let r2 := elems dec push n r.rest
      ⟨match r2.out with
        | .vals vs => .vals (v :: vs)
        | o => o,
       r2.rest, r.meter + push + r2.meter, max r.depth r2.depth⟩
    | .none => ⟨.incomplete, r.rest, r.meter, r.depth⟩
    | .incomplete => ⟨.incomplete, r.rest, r.meter, r.depth⟩
    | .err => ⟨.err, r.rest, r.meter, r.depth⟩
    | .panic => ⟨.panic, r.rest, r.meter, r.depth⟩

/-- cost of a successful `read_line` plus the `line[1..].to_vec()` that follows it -/
def lineCost (line : Bytes) : Nat := 2 * line.length

/-- cumulative allocation of `decode_inline_command` on a line of length `l` giving `k`
tokens: line copy, the growing `current`, the token clones, the `Vec<String>` (doubling,
24-byte elements), the `Vec<RespValue>` (32-byte elements) -/
def inlineCost (l k : Nat) : Nat := 6 * l + 8 + 128 * k

def statusLine (mk : Bytes → RV) (buf : Bytes) : Res :=
  match readLine buf with
  | none => ⟨.none, buf, 0, 0⟩
  | some (line, rest) =>
    if validUtf8 line.tail then ⟨.val (mk line.tail), rest, lineCost line, 0⟩
    else ⟨.err, rest, lineCost line, 0⟩

def decodeInt (buf : Bytes) : Res :=
  match readLine buf with
  | none => ⟨.none, buf, 0, 0⟩
  | some (line, rest) =>
    match parseI64 line.tail with
    | some i => ⟨.val (.int i), rest, lineCost line, 0⟩
    | none => ⟨.err, rest, lineCost line, 0⟩

def decodeNull (buf : Bytes) : Res :=
  match readLine buf with
  | none => ⟨.none, buf, 0, 0⟩
  | some (line, rest) =>
    if line.length = 1 then ⟨.val .null, rest, line.length, 0⟩
    else ⟨.err, rest, line.length, 0⟩

def decodeInline (buf : Bytes) : Res :=
  match readLine buf with
  | none => ⟨.none, buf, 0, 0⟩
  | some (line, rest) =>
    if validUtf8 line then
      match tokenize line [] [] false with
      | some [] => ⟨.err, rest, inlineCost line.length 0, 0⟩
      | some (t :: ts) =>
        ⟨.val (.array ((t :: ts).map (fun x => .bulk (some x)))), rest,
          inlineCost line.length (t :: ts).length, 0⟩
      | none => ⟨.err, rest, inlineCost line.length ((line.length + 1) / 2), 0⟩
    else ⟨.err, rest, line.length, 0⟩

/-- `decode_bulk_string` after the repair -/
def decodeBulk (buf : Bytes) : Res :=
  match readLine buf with
  | none => ⟨.none, buf, 0, 0⟩
  | some (line, rest) =>
    match parseI64 line.tail with
    | none => ⟨.err, rest, lineCost line, 0⟩
    | some len =>
      if len = -1 then ⟨.val (.bulk none), rest, lineCost line, 0⟩
      else if len < 0 then ⟨.err, rest, lineCost line, 0⟩
      else
        let n := len.toNat
        if rest.length < n + 2 then ⟨.incomplete, rest, lineCost line, 0⟩
        else if (rest.drop n).take 2 = [CR, LF] then
          ⟨.val (.bulk (some (rest.take n))), rest.drop (n + 2), lineCost line + n, 0⟩
        else ⟨.err, rest.drop n, lineCost line + n, 0⟩

/-- the cursor-level decoder after the repair; the first argument is the number of array
levels still allowed below this point (`MAX_DEPTH - depth` of the Rust) -/
def decodeD : Nat → Bytes → Res
  | _, [] => ⟨.none, [], 0, 0⟩
  | d, b :: bs =>
    if b = 43 then statusLine .simple (b :: bs)
    else if b = 45 then statusLine .error (b :: bs)
    else if b = 58 then decodeInt (b :: bs)
    else if b = 36 then decodeBulk (b :: bs)
    else if b = 42 then
      match d with
      | 0 => ⟨.err, b :: bs, 0, 0⟩
      | d' + 1 =>
        match readLine (b :: bs) with
        | none => ⟨.none, b :: bs, 0, 0⟩
        | some (line, rest) =>
          match parseUsize line.tail with
          | none => ⟨.err, rest, lineCost line, 0⟩
          | some n =>
            let r := elems (decodeD d') PUSH_COST n rest
            let m := lineCost line + r.meter
            match r.out with
            | .vals vs => ⟨.val (.array vs), r.rest, m, r.depth + 1⟩
            | .incomplete => ⟨.incomplete, r.rest, m, r.depth + 1⟩
            | .err => ⟨.err, r.rest, m, r.depth + 1⟩
            | .panic => ⟨.panic, r.rest, m, r.depth + 1⟩
    else if b = 95 then decodeNull (b :: bs)
    else decodeInline (b :: bs)

/-- what `RespValue::decode` reports to its caller -/
inductive Outcome where
  | val (v : RV)
  | more          -- Ok(None) or Err(Incomplete): wait for more bytes
  | err           -- protocol error
  | panic
deriving DecidableEq, Repr

structure Step where
  out : Outcome
  rest : Bytes      -- the caller's buffer afterwards
  meter : Nat
  depth : Nat
deriving DecidableEq, Repr

/-- `RespValue::decode(&mut buf)` after the repair: the buffer is advanced past a value or
a malformed prefix, and left untouched when more data is needed -/
def decode (buf : Bytes) : Step :=
  let r := decodeD MAX_DEPTH buf
  match r.out with
  | .val v => ⟨.val v, r.rest, r.meter, r.depth⟩
  | .none => ⟨.more, buf, r.meter, r.depth⟩
  | .incomplete => ⟨.more, buf, r.meter, r.depth⟩
  | .err => ⟨.err, r.rest, r.meter, r.depth⟩
  | .panic => ⟨.panic, r.rest, r.meter, r.depth⟩

/-! ### the connection loop (`handle_connection`) -/

inductive Event where
  | cmd (v : RV)      -- `handle_command(&value)` invoked, one reply written
  | protoErr          -- `-ERR <protocol error>` written, inner loop left
  | crash             -- the connection task panicked (pinned tree only)
deriving DecidableEq, Repr

/-- the inner `loop { match RespValue::decode(&mut buffer) … }`; `fuel` bounds the number of
iterations (`drain_fuel_suffices`: `buf.length + 1` is always enough) -/
def drainWith (dec : Bytes → Step) : Nat → Bytes → List Event × Bytes
  | 0, buf => ([], buf)
  | f + 1, buf =>
    let s := dec buf
    match s.out with
    | .val v => let r := drainWith dec f s.rest; (.cmd v :: r.1, r.2)
    | .more => ([], s.rest)
    | .err => ([.protoErr], s.rest)
    | .panic => ([.crash], s.rest)

def drain (buf : Bytes) : List Event × Bytes := drainWith decode (buf.length + 1) buf

structure Conn where
  buf : Bytes := []
  out : List Event := []
deriving DecidableEq, Repr

/-- one `socket.read_buf` delivering `chunk`, followed by the inner loop -/
def feed (c : Conn) (chunk : Bytes) : Conn :=
  let r := drain (c.buf ++ chunk)
  { buf := r.2, out := c.out ++ r.1 }

def feedAll (chunks : List Bytes) : Conn := chunks.foldl feed {}

/-! ### what a client may put on the wire: RESP frames and inline command lines -/

inductive Frame where
  | resp (v : RV)
  | inline (line : Bytes)
deriving DecidableEq, Repr

def isTypeByte (b : UInt8) : Bool :=
  b = 43 || b = 45 || b = 58 || b = 36 || b = 42 || b = 95

def Frame.bytes : Frame → Bytes
  | .resp v => encode v
  | .inline l => l ++ [CR, LF]

/-- the command the server must see for the frame -/
def Frame.value : Frame → RV
  | .resp v => v
  | .inline l =>
    match tokenize l [] [] false with
    | some ts => .array (ts.map (fun x => .bulk (some x)))
    | none => .array []

def Frame.wf : Frame → Bool
  | .resp v => v.wf
  | .inline l =>
    (match l with
      | [] => false
      | b :: _ => !isTypeByte b)
    && l.all (fun b => b != CR) && validUtf8 l
    && (match tokenize l [] [] false with
        | some (_ :: _) => true
        | _ => false)

/-! ### executable specifications (evaluated on the implementation's observations) -/

/-- C20: the commands handed to the handler are exactly the frames sent, in order, each
once, and nothing is left in the buffer -/
def specFeed (frames : List Frame) (events : List Event) (buf : Bytes) : Bool :=
  events == frames.map (fun f => Event.cmd f.value) && buf.isEmpty

/-- C22: the reply bytes are exactly one frame (by the repaired decoder) -/
def specOneFrame (reply : Bytes) : Bool :=
  match (decode reply).out with
  | .val _ => (decode reply).rest.isEmpty
  | _ => false

/-- C21: allocation allowed for a buffer of `n` bytes, and the recursion bound -/
def allocBound (n : Nat) : Nat := 96 * n + 256

def outcomeClass : Outcome → Nat
  | .val _ => 0
  | .more => 1
  | .err => 2
  | .panic => 3

/-- C21: outcome class `0 = value, 1 = need more, 2 = protocol error, 3 = panic/abort`,
measured peak allocation and the input length -/
def specSafe (outcomeClass : Nat) (peak : Nat) (len : Nat) : Bool :=
  outcomeClass < 3 && peak ≤ allocBound len

/-! ### the pinned tree -/

/-- `decode_bulk_string` of the pinned tree: the header is consumed before `Incomplete`;
`len as usize` then `len + 2` overflows for `-2` -/
def decodeBulkLegacy (buf : Bytes) : Res :=
  match readLine buf with
  | none => ⟨.none, buf, 0, 0⟩
  | some (line, rest) =>
    match parseI64 line.tail with
    | none => ⟨.err, rest, lineCost line, 0⟩
    | some len =>
      if len = -1 then ⟨.val (.bulk none), rest, lineCost line, 0⟩
      else if len = -2 then ⟨.panic, rest, lineCost line, 0⟩
      else if len < 0 then ⟨.incomplete, rest, lineCost line, 0⟩
      else
        let n := len.toNat
        if rest.length < n + 2 then ⟨.incomplete, rest, lineCost line, 0⟩
        else if (rest.drop n).take 2 = [CR, LF] then
          ⟨.val (.bulk (some (rest.take n))), rest.drop (n + 2), lineCost line + n, 0⟩
        else ⟨.err, rest.drop n, lineCost line + n, 0⟩

/-- the pinned decoder: recursion bounded only by `fuel` (the driver passes the buffer
length, which the nesting cannot exceed), `Vec::with_capacity(len)` straight from the wire -/
def decodeL : Nat → Bytes → Res
  | _, [] => ⟨.none, [], 0, 0⟩
  | 0, buf => ⟨.err, buf, 0, 0⟩
  | f + 1, b :: bs =>
    if b = 43 then statusLine .simple (b :: bs)
    else if b = 45 then statusLine .error (b :: bs)
    else if b = 58 then decodeInt (b :: bs)
    else if b = 36 then decodeBulkLegacy (b :: bs)
    else if b = 42 then
      match readLine (b :: bs) with
      | none => ⟨.none, b :: bs, 0, 0⟩
      | some (line, rest) =>
        match parseUsize line.tail with
        | none => ⟨.err, rest, lineCost line, 0⟩
        | some n =>
          if ELEM_SIZE * n ≥ 2 ^ 63 then ⟨.panic, rest, lineCost line, 0⟩   -- capacity overflow
          else
            let r := elems (decodeL f) 0 n rest
            let m := lineCost line + ELEM_SIZE * n + r.meter
            match r.out with
            | .vals vs => ⟨.val (.array vs), r.rest, m, r.depth + 1⟩
            | .incomplete => ⟨.incomplete, r.rest, m, r.depth + 1⟩
            | .err => ⟨.err, r.rest, m, r.depth + 1⟩
            | .panic => ⟨.panic, r.rest, m, r.depth + 1⟩
    else if b = 95 then decodeNull (b :: bs)
    else decodeInline (b :: bs)

/-- `RespValue::decode` of the pinned tree: whatever was consumed stays consumed -/
def decodeLegacy (buf : Bytes) : Step :=
  let r := decodeL (buf.length + 1) buf
  match r.out with
  | .val v => ⟨.val v, r.rest, r.meter, r.depth⟩
  | .none => ⟨.more, r.rest, r.meter, r.depth⟩
  | .incomplete => ⟨.more, r.rest, r.meter, r.depth⟩
  | .err => ⟨.err, r.rest, r.meter, r.depth⟩
  | .panic => ⟨.panic, r.rest, r.meter, r.depth⟩

def drainLegacy (buf : Bytes) : List Event × Bytes := drainWith decodeLegacy (buf.length + 1) buf

def feedLegacy (c : Conn) (chunk : Bytes) : Conn :=
  let r := drainLegacy (c.buf ++ chunk)
  { buf := r.2, out := c.out ++ r.1 }

def feedAllLegacy (chunks : List Bytes) : Conn := chunks.foldl feedLegacy {}

/-- number of frames a client reading `reply` sees (pinned decoder, all-at-once) -/
def countFrames (reply : Bytes) : Nat := (drainLegacy reply).1.length

/-! ### the forwarding branch of `handle_connection` (`sharding::Proxy::forward`)

When sharding is configured a `GRAPH.*` command for a remote tenant is re-encoded, sent to
the owning node, and whatever `Proxy::forward` returns is written to the client verbatim —
the only reply bytes that do not come out of `RespValue::encode` on this node.  `cs` are
the reads from the remote node's socket. -/

/-- `Proxy::forward` after the repair: keep reading until the bytes received start with one
complete frame and relay exactly that frame; `none` = the remote closed the connection or
sent a malformed reply first (the client then gets `-ERR routing failed: …`, an ordinary
`RespValue::Error`). -/
def relayFrom (buf : Bytes) : List Bytes → Option Bytes
  | [] => none
  | c :: cs =>
    let s := decode (buf ++ c)
    match s.out with
    | .val _ => some ((buf ++ c).take ((buf ++ c).length - s.rest.length))
    | .more => relayFrom (buf ++ c) cs
    | .err => none
    | .panic => none

def relay (cs : List Bytes) : Option Bytes := relayFrom [] cs

/-- what `handle_connection` writes to the client for a forwarded command: the relayed bytes,
or `-ERR routing failed: …` (an ordinary `RespValue::Error`, text `errMsg`) -/
def forwardReply (cs : List Bytes) (errMsg : Bytes) : Bytes :=
  match relay cs with
  | some b => b
  | none => encode (.error errMsg)

/-- `Proxy::forward` of the pinned tree: a single `read` into a 4096-byte buffer; whatever
it returned (possibly nothing) is "the reply" -/
def relayLegacy : List Bytes → Option Bytes
  | [] => some []
  | c :: _ => some (c.take 4096)

end SgModel.Resp
