/-
Model of one vector index of samyama-graph (property C29): `src/vector/index.rs`
(`VectorIndex`: the `stored_vectors` list with its node → position map, `add` = upsert,
`remove`, `search` = exact linear scan up to `EXACT_SEARCH_MAX` entries and a post-filtered
HNSW answer above), `src/vector/manager.rs` (`add_vector`, `remove_vector`) and the index
maintenance of `src/graph/store.rs` on property / label / delete events, driven through
Cypher (`CREATE VECTOR INDEX`, CREATE, SET, REMOVE, DELETE, SET n:L, REMOVE n:L,
`CALL db.index.vector.queryNodes`).

Import-free (the driver links against it).  One index — (label `L`, one property key,
dimension, metric) — is modelled; other labels and keys do not touch it.  `step` is the code
after the `fix:` commits; `stepLegacy` / `searchLegacy` model the pinned tree (append-only
entry list, nothing removed, every index ranked by cosine).

Distances are exact: vectors have integer components, cosine distance is compared through
the signed square of the similarity (a rational), L2 through the integer squared distance,
inner-product distance (1 − q·v, any sign) through the negated integer dot product, so no
float enters a theorem.  HNSW itself is not modelled: above the exact-search bound
the candidate ids it returns are an arbitrary input `raw`, and only the post-filter is
modelled (every claim about that regime holds for all `raw`).
-/
namespace SgModel.VecIdx

abbrev Vec := List Int

/-- every variant of `DistanceMetric` (`src/vector/index.rs`); Cypher DDL can declare the
first two, the store / manager API and the HTTP layer all three -/
inductive Metric where
  | cosine | l2 | ip
deriving DecidableEq, Repr

def dot : Vec → Vec → Int
  | a :: as, b :: bs => a * b + dot as bs
  | _, _ => 0

def l2sq : Vec → Vec → Int
  | a :: as, b :: bs => (a - b) * (a - b) + l2sq as bs
  | _, _ => 0

/-- an exact distance rank: the rational `num / (denPred + 1)`; smaller = nearer -/
structure Rank where
  num : Int
  denPred : Nat
deriving DecidableEq, Repr

def Rank.le (a b : Rank) : Bool := a.num * ((b.denPred : Int) + 1) ≤ b.num * ((a.denPred : Int) + 1)

def sgn (x : Int) : Int := if x < 0 then -1 else if x = 0 then 0 else 1

/-- cosine distance `1 - q·v / (|q||v|)` (and `1` when either vector is zero, as
`CosineDistance::eval` returns) orders like the negated signed square of the similarity -/
def cosRank (q v : Vec) : Rank :=
  let nq := dot q q
  let nv := dot v v
  if nq ≤ 0 ∨ nv ≤ 0 then ⟨0, 0⟩
  else ⟨-(sgn (dot q v) * (dot q v * dot q v)), (nq * nv).toNat - 1⟩

def rank (m : Metric) (q v : Vec) : Rank :=
  match m with
  | .cosine => cosRank q v
  | .l2 => ⟨l2sq q v, 0⟩
  -- `InnerProductDistance::eval` = 1 − q·v: negative as soon as the dot product exceeds 1;
  -- orders like −q·v (a zero vector sits at distance 1, between the two signs)
  | .ip => ⟨-(dot q v), 0⟩

structure Entry where
  node : Nat
  vec : Vec
deriving DecidableEq, Repr

structure Index where
  dim : Nat
  metric : Metric
  entries : List Entry
deriving DecidableEq, Repr

structure Node where
  id : Nat
  inL : Bool                 -- carries the indexed label
  vec : Option Vec           -- the indexed property, when it is a numeric list
deriving DecidableEq, Repr

structure State where
  nodes : List Node := []
  next : Nat := 0
  idx : Option Index := none
deriving DecidableEq, Repr

/-! ### `VectorIndex` bookkeeping -/

/-- `VectorIndex::remove` -/
def remove (es : List Entry) (n : Nat) : List Entry := es.filter (fun e => e.node ≠ n)

/-- `VectorIndex::add`: replace the node's entry in place, or append -/
def upsert : List Entry → Nat → Vec → List Entry
  | [], n, v => [⟨n, v⟩]
  | e :: rest, n, v => if e.node = n then ⟨n, v⟩ :: rest else e :: upsert rest n v

/-- `VectorIndexManager::add_vector`: upsert, or drop the entry when the vector does not
have the index dimension -/
def addVector (ix : Index) (n : Nat) (v : Vec) : Index :=
  if v.length = ix.dim then { ix with entries := upsert ix.entries n v }
  else { ix with entries := remove ix.entries n }

def removeVector (ix : Index) (n : Nat) : Index := { ix with entries := remove ix.entries n }

/-- `rebuild_vector_index` (run by CREATE VECTOR INDEX): every live labelled node with a
vector of the right dimension -/
def rebuild (nodes : List Node) (dim : Nat) : List Entry :=
  nodes.filterMap (fun x => match x.vec with
    | some v => if x.inL && v.length = dim then some ⟨x.id, v⟩ else none
    | none => none)

/-! ### ranking -/

def insertBy (m : Metric) (q : Vec) (x : Entry) : List Entry → List Entry
  | [] => [x]
  | y :: rest => if (rank m q y.vec).le (rank m q x.vec) then y :: insertBy m q x rest else x :: y :: rest

/-- stable sort by exact distance (Rust: `sort_by(partial_cmp)`, stable) -/
def sortBy (m : Metric) (q : Vec) (es : List Entry) : List Entry := es.foldr (insertBy m q) []

def EXACT_MAX : Nat := 128

def findEntry : List Entry → Nat → Option Entry
  | [], _ => none
  | e :: rest, n => if e.node = n then some e else findEntry rest n

def dedupNodes : List Entry → List Entry
  | [] => []
  | e :: rest => if rest.any (fun x => x.node = e.node) then dedupNodes rest else e :: dedupNodes rest

/-- `VectorIndex::search`: exact scan up to `EXACT_MAX` entries; above, the ids HNSW came
back with (`raw`) are looked up in the entry list (dead / superseded points vanish),
deduplicated, re-scored against the current vector and sorted -/
def searchIx (ix : Index) (q : Vec) (k : Nat) (raw : List Nat) : List Entry :=
  if q.length ≠ ix.dim then []
  else if ix.entries.length ≤ EXACT_MAX then (sortBy ix.metric q ix.entries).take k
  else (sortBy ix.metric q (dedupNodes (raw.filterMap (findEntry ix.entries)))).take k

def search (s : State) (q : Vec) (k : Nat) (raw : List Nat) : List Entry :=
  match s.idx with
  | none => []
  | some ix => searchIx ix q k raw

/-! ### statements -/

inductive Op where
  | mkIndex (dim : Nat) (m : Metric)        -- CREATE VECTOR INDEX FOR (n:L) ON (n.v) OPTIONS {…}
  | create (inL : Bool) (vec : Option Vec)  -- CREATE (:L {v: […]}) / CREATE (:M {…}); handle = ordinal
  | setVec (h : Nat) (vec : Option Vec)     -- MATCH (n {h}) SET n.v = […] | null
  | removeVec (h : Nat)                     -- MATCH (n {h}) REMOVE n.v
  | addLabel (h : Nat)                      -- MATCH (n {h}) SET n:L
  | removeLabel (h : Nat)                   -- MATCH (n {h}) REMOVE n:L
  | delete (h : Nat)                        -- MATCH (n {h}) DELETE n
deriving DecidableEq, Repr

def findNode : List Node → Nat → Option Node
  | [], _ => none
  | x :: rest, n => if x.id = n then some x else findNode rest n

def mapNode (f : Node → Node) : List Node → Nat → List Node
  | [], _ => []
  | x :: rest, n => if x.id = n then f x :: rest else x :: mapNode f rest n

def dropNode : List Node → Nat → List Node
  | [], _ => []
  | x :: rest, n => if x.id = n then rest else x :: dropNode rest n

def onIdx (s : State) (f : Index → Index) : Option Index := s.idx.map f

def step (s : State) : Op → State
  | .mkIndex dim m => { s with idx := some { dim := dim, metric := m, entries := rebuild s.nodes dim } }
  | .create inL vec =>
    { s with
      nodes := s.nodes ++ [{ id := s.next, inL := inL, vec := vec }]
      next := s.next + 1
      idx := match vec with
        | some v => if inL then onIdx s (fun ix => addVector ix s.next v) else s.idx
        | none => s.idx }
  | .setVec h vec => match findNode s.nodes h with
    | none => s
    | some node =>
      { s with
        nodes := mapNode (fun x => { x with vec := vec }) s.nodes h
        idx := if node.inL then
            (match vec with
             | some v => onIdx s (fun ix => addVector ix h v)
             | none => onIdx s (fun ix => removeVector ix h))
          else s.idx }
  | .removeVec h => match findNode s.nodes h with
    | none => s
    | some node =>
      { s with
        nodes := mapNode (fun x => { x with vec := none }) s.nodes h
        idx := if node.inL then onIdx s (fun ix => removeVector ix h) else s.idx }
  | .addLabel h => match findNode s.nodes h with
    | none => s
    | some node =>
      { s with
        nodes := mapNode (fun x => { x with inL := true }) s.nodes h
        idx := match node.vec with
          | some v => onIdx s (fun ix => addVector ix h v)
          | none => s.idx }
  | .removeLabel h => match findNode s.nodes h with
    | none => s
    | some node =>
      if node.inL then
        { s with
          nodes := mapNode (fun x => { x with inL := false }) s.nodes h
          idx := onIdx s (fun ix => removeVector ix h) }
      else s
  | .delete h => match findNode s.nodes h with
    | none => s
    | some node =>
      { s with
        nodes := dropNode s.nodes h
        idx := if node.inL then onIdx s (fun ix => removeVector ix h) else s.idx }

def run (ops : List Op) : State := ops.foldl step {}

/-! ### the pinned tree -/

/-- append-only `add`; wrong dimension = rejected, nothing changes -/
def addVectorLegacy (ix : Index) (n : Nat) (v : Vec) : Index :=
  if v.length = ix.dim then { ix with entries := ix.entries ++ [⟨n, v⟩] } else ix

def stepLegacy (s : State) : Op → State
  | .mkIndex dim m => { s with idx := some { dim := dim, metric := m, entries := rebuild s.nodes dim } }
  | .create inL vec =>
    { s with
      nodes := s.nodes ++ [{ id := s.next, inL := inL, vec := vec }]
      next := s.next + 1
      idx := match vec with
        | some v => if inL then onIdx s (fun ix => addVectorLegacy ix s.next v) else s.idx
        | none => s.idx }
  | .setVec h vec => match findNode s.nodes h with
    | none => s
    | some node =>
      { s with
        nodes := mapNode (fun x => { x with vec := vec }) s.nodes h
        idx := if node.inL then
            (match vec with
             | some v => onIdx s (fun ix => addVectorLegacy ix h v)
             | none => s.idx)
          else s.idx }
  | .removeVec h => { s with nodes := mapNode (fun x => { x with vec := none }) s.nodes h }
  | .addLabel h => match findNode s.nodes h with
    | none => s
    | some node =>
      { s with
        nodes := mapNode (fun x => { x with inL := true }) s.nodes h
        idx := match node.vec with
          | some v => onIdx s (fun ix => addVectorLegacy ix h v)
          | none => s.idx }
  | .removeLabel h => { s with nodes := mapNode (fun x => { x with inL := false }) s.nodes h }
  | .delete h => { s with nodes := dropNode s.nodes h }

def runLegacy (ops : List Op) : State := ops.foldl stepLegacy {}

/-- the exact path of the pinned tree ranks by cosine whatever the declared metric -/
def searchLegacy (s : State) (q : Vec) (k : Nat) : List Entry :=
  match s.idx with
  | none => []
  | some ix => if q.length ≠ ix.dim then [] else (sortBy .cosine q ix.entries).take k

/-! ### Specification `S` on observations

What the public API shows: the live nodes (handle, labelled?, vector), the declared index
(dimension, metric), and for a query the returned handles in order.  `specSearch` is the
brute-force reference of the property statement. -/

structure ONode where
  id : Nat
  inL : Bool
  vec : Option Vec
deriving DecidableEq, Repr

def obsNodes (s : State) : List ONode := s.nodes.map (fun x => { id := x.id, inL := x.inL, vec := x.vec })

/-- the vector a live, labelled node currently offers to an index of dimension `dim` -/
def candidate (nodes : List ONode) (dim : Nat) (n : Nat) : Option Vec :=
  match nodes.find? (fun x => x.id = n) with
  | some x => (match x.vec with
    | some v => if x.inL && v.length = dim then some v else none
    | none => none)
  | none => none

def candidates (nodes : List ONode) (dim : Nat) : List (Nat × Vec) :=
  nodes.filterMap (fun x => match x.vec with
    | some v => if x.inL && v.length = dim then some (x.id, v) else none
    | none => none)

def nodupNat : List Nat → Bool
  | [] => true
  | x :: rest => !rest.contains x && nodupNat rest

def sortedRanks : List Rank → Bool
  | [] => true
  | [_] => true
  | a :: b :: rest => a.le b && sortedRanks (b :: rest)

/-- `result` (handles in the order returned) for query `q`, `k` against the observed nodes -/
def specSearch (nodes : List ONode) (dim : Nat) (m : Metric) (q : Vec) (k : Nat) (result : List Nat) : Bool :=
  let cands := candidates nodes dim
  -- only live labelled nodes with a current vector, each at most once
  result.all (fun n => (candidate nodes dim n).isSome) && nodupNat result
  -- ranked by the declared distance to the *current* vector
  && sortedRanks (result.filterMap (fun n => (candidate nodes dim n).map (rank m q)))
  -- small index: exactly the k nearest (ties may fall either way)
  && (if cands.length ≤ EXACT_MAX then
        result.length = min k cands.length
        && cands.all (fun c => result.contains c.1 ||
            result.all (fun n => match candidate nodes dim n with
              | some v => (rank m q v).le (rank m q c.2)
              | none => false))
      else true)

/-- two ranks closer than 2·10⁻³ in (signed squared) cosine similarity but not equal:
the f32 evaluation of the implementation could order them either way.  The harness does
not issue queries for which this holds of two candidates. -/
def cosTooClose (q a b : Vec) : Bool :=
  let ra := cosRank q a
  let rb := cosRank q b
  let x := ra.num * ((rb.denPred : Int) + 1)
  let y := rb.num * ((ra.denPred : Int) + 1)
  let d := if x ≤ y then y - x else x - y
  d ≠ 0 && d * 500 < ((ra.denPred : Int) + 1) * ((rb.denPred : Int) + 1)

def pairsAny (f : Vec → Vec → Bool) : List (Nat × Vec) → Bool
  | [] => false
  | c :: rest => rest.any (fun d => f c.2 d.2) || pairsAny f rest

/-- classification of a query against the current candidates: `2` = all distances pairwise
distinct and well separated (the answer is unique), `1` = exact ties only, `0` = a near-tie -/
def queryClass (nodes : List ONode) (dim : Nat) (m : Metric) (q : Vec) : Nat :=
  let cands := candidates nodes dim
  match m with
  | .l2 => if pairsAny (fun a b => l2sq q a = l2sq q b) cands then 1 else 2
  | .ip => if pairsAny (fun a b => dot q a = dot q b) cands then 1 else 2
  | .cosine =>
    if pairsAny (cosTooClose q) cands then 0
    else if pairsAny (fun a b => (cosRank q a).le (cosRank q b) && (cosRank q b).le (cosRank q a)) cands then 1
    else 2

/-- the part of `specSearch` that needs no ranking: live labelled nodes with a current vector,
each at most once (evaluated alone when two candidates are too close for f32) -/
def specLive (nodes : List ONode) (dim : Nat) (result : List Nat) : Bool :=
  result.all (fun n => (candidate nodes dim n).isSome) && nodupNat result

end SgModel.VecIdx
